(* C01 -- clonal calls invert the purity/ploidy mixing model; cn is never negative.
   Property theorems only; proofs live in Proofs/Call.v and Proofs/CallNum.v.

   The model (Model/Call.v) works in ratio space: a row carries e = 2^log2.  The log2
   form of the statements follows from RealFacts (2^(log2 y) = y for y > 0) and is given
   in the separately named corollary at the end, the only statement here that depends on
   the standard library's axioms for the reals. *)
From Coq Require Import Qabs.
From CNV Require Import Base.Prelude Base.Str Gen.CallDefaults Model.Call Model.Threshold Model.Baf Spec.Call Proofs.CallNum Proofs.Call
  Proofs.CallDoCall Gen.FnCall Proofs.FnCall.

Local Open Scope Q_scope.

(* Purity-adjusted path: for a consistently named table (first row "chr"-prefixed iff
   X is called chrX) and no / a supported PAR build, the (reference, expect) copies the
   code assigns to a bin are the table of the property: autosome (k,k); X: r = k/2 iff
   male reference, x = k iff female sample else k/2; Y: r = k/2, x = 0 iff female else
   k/2; PAR-X (k,k); PAR-Y (0,0) -- under both naming styles. *)
Theorem C01_class_table :
  forall s k male_ref female build first chrom lo hi,
    consistent s first -> build_ok build ->
    ref_expect k male_ref female (row_class build first chrom lo hi)
    = spec_copies k male_ref female (spec_class s (lower_build build) chrom lo hi).
Proof. exact class_table. Qed.

(* No-purity path (lower-cased name test, no PAR option): same r on X and Y under both
   naming styles, k on every other chromosome. *)
Theorem C01_class_table_pure :
  forall s k male_ref female,
    ref_pure (xname s) k male_ref = fst (spec_copies k male_ref female KX) /\
    ref_pure (yname s) k male_ref = fst (spec_copies k male_ref female KY) /\
    (forall chrom, ~ In (lower_str chrom) ["chrx"; "x"; "chry"; "y"]%string ->
                   ref_pure chrom k male_ref = k).
Proof. exact class_table_pure. Qed.

(* only grch37 / grch38 (any letter case) are accepted as PAR builds *)
Theorem C01_builds : forall b, build_supported b = true <-> supported_lower (lower_str b).
Proof. exact build_supported_iff. Qed.

(* the purity inversion undoes the mixing equation *)
Theorem C01_inversion :
  forall n p r x, 0 < p -> (0 < r)%Z -> abs_clonal (mix n p r x) r x p == inject_Z n.
Proof. exact inversion. Qed.

Theorem C01_inversion_pure :
  forall n r, (0 < r)%Z -> abs_pure (inject_Z n / inject_Z r) r == inject_Z n.
Proof. exact inversion_pure. Qed.

(* cn = n: every integer n >= 0, every purity in (0,1] or none (then the truth is a pure
   sample), every ploidy, sex configuration, build and row whose reference copy number
   r is positive (r = 0 -- ploidy 1 on Y / haploid X, PAR-Y -- cannot satisfy the premise) *)
Theorem C01_cn_exact :
  forall k purity hapx female build first chrom lo hi e n r x,
    valid_purity purity -> (0 <= n)%Z ->
    row_copies k purity hapx female build first (chrom, lo, hi, e) = (r, x) -> (0 < r)%Z ->
    e == mix n (mix_purity purity) r x ->
    cn_of (call_row k purity hapx female build first (chrom, lo, hi, e)) = n.
Proof. exact cn_exact. Qed.

(* even ploidy, purity-adjusted path: the rewritten ratio is that of a pure sample with
   max(n, floor*ploidy) copies against r reference copies ... *)
Theorem C01_rescaled_log2 :
  forall k p hapx female c e n r x,
    (0 < k)%Z -> Z.even k = true -> 0 < p -> (0 <= n)%Z ->
    ref_expect k hapx female c = (r, x) -> (0 < r)%Z ->
    e == mix n p r x ->
    exists q, ratio_of (call_row_purity k p hapx female c e) = Some q /\
              q == spec_rescaled n k r min_abs_val.
Proof. exact rescaled_spec. Qed.

(* ... which is n / r for every n >= 1 (ploidy below 1000) ... *)
Theorem C01_rescaled_log2_above_floor :
  forall n k r, (0 < r)%Z -> (1 <= n)%Z -> (k <= 999)%Z ->
    spec_rescaled n k r min_abs_val == inject_Z n / inject_Z r.
Proof. exact rescaled_above_floor. Qed.

(* ... and the floor is the 0.001 of the property text (the double nearest to it) *)
Theorem C01_min_abs_literal : Qabs (min_abs_val - (1 # 1000)) <= 1 # 1000000000000000000.
Proof. exact min_abs_literal. Qed.

(* without a purity, cn is a nearest integer to r * 2^log2 *)
Theorem C01_nearest :
  forall k purity hapx female build first chrom lo hi e,
    use_purity purity = None ->
    nearest (cn_of (call_row k purity hapx female build first (chrom, lo, hi, e)))
            (inject_Z (ref_pure chrom k hapx) * e).
Proof. exact nearest_pure. Qed.

(* whatever log2 (e = 2^log2 >= 0), purity, ploidy, class, sexes, naming: cn >= 0 *)
Theorem C01_nonneg :
  forall k purity hapx female build first chrom lo hi e,
    (0 <= k)%Z -> 0 <= e ->
    (0 <= cn_of (call_row k purity hapx female build first (chrom, lo, hi, e)))%Z.
Proof. exact nonneg_row. Qed.

Theorem C01_nonneg_table :
  forall k purity hapx female build rows out,
    (0 <= k)%Z -> Forall (fun r => 0 <= e_of r) rows ->
    call_clonal k purity hapx female build rows = Some out ->
    length out = length rows /\ Forall (fun o => (0 <= cn_of o)%Z) out.
Proof. exact nonneg_table. Qed.

(* ------------------------------------------------------------------------------------
   do_call end to end (Model/Baf.v: do_call_row composes the purity rewrite, the method and
   the allelic split exactly as the Python body does).  Clonal method, a row whose ratio is
   the mixing model's: cn = n; on the purity-adjusted path (even ploidy) the log2 column is
   rewritten to the ratio of a pure n-copy sample, without purity it is untouched; where
   the allelic split is present it adds up to n. *)
Theorem C01_do_call_clonal :
  forall k purity hapx female build ts variants with_baf first row v n r x,
    d_log2 row = Some v -> valid_purity purity -> (0 <= n)%Z ->
    row_copies k purity hapx female build first (in_row_of row) = (r, x) -> (0 < r)%Z ->
    d_e row == mix n (mix_purity purity) r x ->
    exists o, do_call_row MClonal k purity hapx female build ts variants with_baf first row = Some o /\
      o_cn o = Some n /\
      (forall p, use_purity purity = Some p -> (0 < k)%Z -> Z.even k = true ->
         exists q, o_ratio o = Some q /\ q == spec_rescaled n k r min_abs_val) /\
      (use_purity purity = None -> o_ratio o = None /\ o_log2 o = d_log2 row) /\
      (forall c1 c2, o_alleles o = Some (Some c1, Some c2) ->
         (c1 + c2 = n /\ 0 <= c1 <= n /\ 0 <= c2 <= n)%Z).
Proof. exact do_call_clonal_spec. Qed.

(* row for row, do_call(method="clonal") is the call_row the theorems above speak about *)
Theorem C01_do_call_is_call_row :
  forall k purity hapx female build ts variants with_baf first row v,
    d_log2 row = Some v ->
    exists o, do_call_row MClonal k purity hapx female build ts variants with_baf first row = Some o /\
      let c := call_row k purity hapx female build first (in_row_of row) in
      o_cn o = Some (cn_of c) /\ o_abs o = Some (abs_of c) /\ o_ratio o = ratio_of c /\
      o_alleles o = (if with_baf || variants
                     then Some (alleles (abs_of c) (dc_baf purity variants (d_baf row)) (cn_of c)) else None) /\
      o_log2 o = fst (dc_seen purity row).
Proof. exact do_call_row_clonal. Qed.

(* the table: one output row per input row, in order, every row classified with the label
   derived from the FIRST row; the only failure besides a NaN under the clonal method is the
   assertion on an unsupported genome build, on the purity-adjusted path only *)
Theorem C01_do_call_rows :
  forall m k purity hapx female build ts variants with_baf rows out,
    do_call_model m k purity hapx female build ts variants with_baf rows = DcOk out ->
    length out = length rows /\
    Forall2 (fun row o => do_call_row m k purity hapx female build ts variants with_baf (dc_first rows) row = Some o)
            rows out.
Proof. exact do_call_model_rows. Qed.

Theorem C01_do_call_assert :
  forall m k purity hapx female build ts variants with_baf rows,
    do_call_model m k purity hapx female build ts variants with_baf rows = DcAssert <->
    exists p b, use_purity purity = Some p /\ build = Some b /\ build_supported b = false.
Proof. exact do_call_model_assert. Qed.

(* inconsistently named tables (precondition `consistent` of C01_class_table violated): the
   first row decides which names are sex chromosomes; X / Y rows named in the other style
   are called as autosomes on the purity-adjusted path, while the no-purity path recognises
   both styles -- what the harness's edge stream exercises *)
Theorem C01_mixed_naming :
  forall build first,
    (forall chrom lo hi, row_class build first chrom lo hi <> Auto ->
                         chrom = seen_x first \/ chrom = seen_y first) /\
    (forall lo hi, row_class build first (unseen_x first) lo hi = Auto /\
                   row_class build first (unseen_y first) lo hi = Auto) /\
    (forall k purity p hapx female lo hi e, use_purity purity = Some p ->
       call_row k purity hapx female build first (unseen_x first, lo, hi, e)
         = call_row_purity k p hapx female Auto e /\
       call_row k purity hapx female build first (unseen_y first, lo, hi, e)
         = call_row_purity k p hapx female Auto e /\
       row_copies k purity hapx female build first (unseen_x first, lo, hi, e) = (k, k) /\
       row_copies k purity hapx female build first (unseen_y first, lo, hi, e) = (k, k)) /\
    (forall k hapx, ref_pure "X" k hapx = ref_pure "chrX" k hapx /\
                    ref_pure "Y" k hapx = ref_pure "chrY" k hapx /\
                    ref_pure (unseen_x first) k hapx = ref_pure (seen_x first) k hapx /\
                    ref_pure (unseen_y first) k hapx = ref_pure (seen_y first) k hapx).
Proof. exact mixed_naming. Qed.

Example C01_ex_mixed :
  unseen_x "chr1" = "X"%string /\ unseen_x "1" = "chrX"%string /\
  row_class None "chr1" "X" 0 100 = Auto /\ row_class None "1" "chrX" 0 100 = Auto /\
  row_class None "chr1" "chrX" 0 100 = ChrX.
Proof. exact mixed_naming_example. Qed.

(* PAR membership is inclusive at both ends of both regions, on X and Y, for both builds in
   any letter case (the coordinates are those of the property's builds) ... *)
Theorem C01_par_inclusive :
  forall b lo hi,
    (lower_str b = "grch37"%string ->
       (in_par b par_keys_x lo hi = true <->
          (60000 <= lo /\ hi <= 2699520)%Z \/ (154931043 <= lo /\ hi <= 155260560)%Z) /\
       (in_par b par_keys_y lo hi = true <->
          (10000 <= lo /\ hi <= 2649520)%Z \/ (59034049 <= lo /\ hi <= 59363566)%Z)) /\
    (lower_str b = "grch38"%string ->
       (in_par b par_keys_x lo hi = true <->
          (10000 <= lo /\ hi <= 2781479)%Z \/ (155701382 <= lo /\ hi <= 156030895)%Z) /\
       (in_par b par_keys_y lo hi = true <->
          (10000 <= lo /\ hi <= 2781479)%Z \/ (56887902 <= lo /\ hi <= 57217415)%Z)).
Proof. exact par_inclusive. Qed.

(* ... in particular at every PAR end: a bin exactly on the region or touching an end from
   inside is PAR; one base off at either end, or straddling an end, is not *)
Theorem C01_par_ends : Forall par_end_cases par_regions.
Proof. exact par_ends. Qed.

(* hypotheses are satisfiable: a consistently named table, n = 3 at purity 1/2 on a
   male sample's X against a male reference (r = x = 1), ploidy 2 *)
Example C01_ex_consistent : consistent ChrStyle "chr1" /\ consistent PlainStyle "1".
Proof. split; reflexivity. Qed.

Example C01_ex_cn :
  let e := mix 3 (1 # 2) 1 1 in
  row_copies 2 (Some (1 # 2)) true false None "chr1" ("chrX"%string, 0%Z, 100%Z, e) = (1%Z, 1%Z) /\
  cn_of (call_row 2 (Some (1 # 2)) true false None "chr1" ("chrX"%string, 0%Z, 100%Z, e)) = 3%Z.
Proof. vm_compute. split; reflexivity. Qed.

(* the input of the repaired defect: 2^-5 = 1/32, purity 1/2, ploidy 2 (was cn = -2) *)
Example C01_ex_fixed_defect :
  cn_of (call_row 2 (Some (1 # 2)) false false None "chr1" ("chr1"%string, 0%Z, 100%Z, 1 # 32)) = 0%Z.
Proof. vm_compute. reflexivity. Qed.

(* ------------------------------------------------------------------------------------
   Corollary over the reals (depends on the stdlib Reals axioms via RealFacts; nothing
   above does): in the property's own terms, with v = log2((p*n + (1-p)*x)/r) the
   inversion formula applied to 2^v returns n, and 2^-5 = 1/32 is the ratio used in the
   regression example above. *)
From Coq Require Import Reals.
From CNV Require Base.RealFacts.

Corollary C01_real_corollary_log2_inversion :
  forall n p r x : R,
    (0 < p)%R -> (0 < r)%R -> (0 < (p * n + (1 - p) * x) / r)%R ->
    ((r * RealFacts.exp2 (RealFacts.log2 ((p * n + (1 - p) * x) / r)) - x * (1 - p)) / p = n)%R.
Proof. exact RealFacts.log2_inversion. Qed.

(* the log2 form of C01_rescaled_log2: with v = log2((p*n + (1-p)*x)/r), clipping the inverted
   copy number at 0, flooring a/k at m and adding 1 on half-ploidy-reference rows gives
   log2(max(n, m*k)/r), the log2 ratio of a pure n-copy sample against r reference copies *)
From CNV Require Proofs.CallReal.

Corollary C01_real_corollary_log2_rescaled :
  forall (n p r x k m : R) (shift : bool),
    (0 < p)%R -> (0 < r)%R -> (0 < k)%R -> (0 < m)%R -> (0 <= n)%R ->
    (0 < (p * n + (1 - p) * x) / r)%R ->
    k = (if shift then 2 * r else r)%R ->
    (RealFacts.log2 (Rmax (Rmax ((r * RealFacts.exp2 (RealFacts.log2 ((p * n + (1 - p) * x) / r)) - x * (1 - p)) / p) 0 / k) m)
       + (if shift then 1 else 0)
     = RealFacts.log2 (Rmax n (m * k) / r))%R.
Proof. exact CallReal.log2_rescaled. Qed.

(* ---- source tie: the bodies of cnvlib/call.py's scalar functions, translated from the
   Python source on every run (Gen/FnCall.v, tools/py2v_fn.py), ARE the model functions
   the theorems above speak about. *)
Theorem C01_source_abs_clonal :
  forall (exp2 : Q -> Q) v r x p, 0 < p -> p < 1 ->
    fn_log2_ratio_to_absolute exp2 v r x (Some p) == abs_clonal (exp2 v) r x p.
Proof. exact fn_abs_clonal_eq. Qed.

Theorem C01_source_abs_pure :
  forall (exp2 : Q -> Q) v r x,
    fn_log2_ratio_to_absolute exp2 v r x None == abs_pure (exp2 v) r /\
    (forall p, 1 <= p -> fn_log2_ratio_to_absolute exp2 v r x (Some p) == abs_pure (exp2 v) r) /\
    fn_log2_ratio_to_absolute_pure exp2 v r == abs_pure (exp2 v) r.
Proof. exact fn_abs_pure_all. Qed.

Theorem C01_source_ref_pure :
  forall chrom k hapx, fn_reference_copies_pure chrom k hapx = ref_pure chrom k hapx.
Proof. exact fn_ref_pure_eq. Qed.

(* log2_ratios as written (np.log2(np.maximum(absolutes / ploidy, min_abs_val)), `+= 1.0` under
   the chr_x_filter mask if the reference is haploid-X, `+= 1.0` under the chr_y_filter mask),
   read per element with its default arguments, is the model's `rescaled` in ratio space:
   for every oracle pair with exp2 (log2 y) == y on y > 0 and exp2 (v + 1) == 2 * exp2 v.
   on_x_mask / on_y_mask: a row of class ChrX / ChrY is what the two masks select. *)
Theorem C01_source_log2_ratios :
  forall (exp2 log2 : Q -> Q),
    (forall y, 0 < y -> exp2 (log2 y) == y) ->
    (forall v, exp2 (v + 1) == 2 * exp2 v) ->
    forall a k hapx c,
      exp2 (fn_log2_ratios log2 a k hapx min_abs_val false (on_x_mask c) (on_y_mask c))
      == rescaled a k (shifted hapx c).
Proof. exact fn_log2_ratios_eq. Qed.

(* ---- source tie of get_as_dframe_and_set_reference_and_expect_copies: its column code (np.repeat defaults, masked
   .loc stores), read per row and regenerated from the Python source on every run (Gen/FnCallRefExpect.v), IS
   ref_expect on every class of row -- chr_x_filter selects class ChrX, chr_y_filter ChrY, pary_filter ParY
   (a ParY row needs a PAR build) *)
From CNV Require Gen.FnCallRefExpect Proofs.FnCallRefExpect.
Theorem C01_source_ref_expect : forall k hapx female has_build c,
  (c = ParY -> has_build = true) ->
  Gen.FnCallRefExpect.fn_ref_expect k k hapx female
     (Proofs.FnCallRefExpect.is_x c) (Proofs.FnCallRefExpect.is_y c) has_build (Proofs.FnCallRefExpect.is_pary c)
  = ref_expect k hapx female c.
Proof. exact Proofs.FnCallRefExpect.source_ref_expect. Qed.

(* ---- source tie of do_call's dispatch between the calling paths (Gen/FnCallDispatch.v, regenerated from the
   Python source on every run): the purity-adjusted path is taken exactly when use_purity answers (purity given,
   non-zero, below 1), the pure clonal path otherwise for method "clonal", and "threshold" overrides `absolutes` *)
From CNV Require Gen.FnCallDispatch Proofs.FnCallDispatch.
Theorem C01_source_dispatch : forall purity m variants l b cc lr br pure thr toks,
  Gen.FnCallDispatch.fn_dispatch purity m variants l b cc lr br pure thr toks
  = let '(a, l', b') :=
        match use_purity purity with
        | Some _ => (cc, lr, if variants then br else b)
        | None => ((if String.eqb m "clonal" then pure else inject_Z 0), l, b)
        end in
    ((if String.eqb m "threshold" then thr else a), l', b').
Proof. exact Proofs.FnCallDispatch.source_dispatch. Qed.

(* ---- [loop ties e1] source tie of absolute_pure's loop (Gen/FnCallPureRow.v fn_pure_row: ONE ITERATION of
   `for i, row in enumerate(cnarr):`, the value stored at absolutes[i], regenerated from the Python source on every run):
   it IS the `absolutes` of call_row on the no-purity path, cn its half-to-even rounding, the log2 column untouched *)
From CNV Require Gen.FnCallPureRow Proofs.FnCallPureRow.
Theorem C01_source_pure_row : forall (exp2 : Q -> Q) i k purity hapx female build first chrom lo hi v,
  use_purity purity = None ->
  let a := Gen.FnCallPureRow.fn_pure_row exp2 i chrom v k hapx in
  let c := call_row k purity hapx female build first (chrom, lo, hi, exp2 v) in
  abs_of c == a /\ cn_of c = round_he a /\ ratio_of c = None.
Proof. exact Proofs.FnCallPureRow.source_pure_call_row. Qed.

(* ---- [loop ties e1] source tie of the purity-adjusted row (Gen/FnCallClonalRow.v): do_call's `.clip(lower=0)`
   (fn_clonal_clip) of absolute_clonal (fn_absolute_clonal, WHOLE: the call of absolute_dataframe and the column handed
   back) of absolute_dataframe (fn_dataframe_whole: the call of get_as_dframe_and_set_reference_and_expect_copies and the
   function handed to `df.apply(..., axis=1)`), the callee's table read through its columns -- log2 the row's v, reference /
   expect the r / x of ref_expect on the row's class, as functions of the arguments the call passes -- IS the `absolutes` of
   call_row on the purity-adjusted path; cn is its half-to-even rounding, the rewritten ratio `rescaled` of it *)
From CNV Require Gen.FnCallClonalRow Proofs.FnCallClonalRow.
Theorem C01_source_clonal_row : forall (exp2 : Q -> Q) cn b k purity p hapx female build first chrom lo hi v,
  use_purity purity = Some p ->
  let cl := row_class build first chrom lo hi in
  let a := Gen.FnCallClonalRow.fn_clonal_clip
             (Gen.FnCallClonalRow.fn_absolute_clonal cn k purity hapx b female
                (fun cn' k' purity' hapx' b' female' =>
                   Gen.FnCallClonalRow.fn_dataframe_whole exp2 cn' k' purity' hapx' b' female'
                     (fun _ _ _ _ _ => v)
                     (fun _ k2 hapx2 _ female2 => fst (ref_expect k2 hapx2 female2 cl))
                     (fun _ k2 hapx2 _ female2 => snd (ref_expect k2 hapx2 female2 cl)))) in
  let o := call_row k purity hapx female build first (chrom, lo, hi, exp2 v) in
  abs_of o == a /\ cn_of o = round_he a /\ ratio_of o = Some (rescaled a k (shifted hapx cl)).
Proof. exact Proofs.FnCallClonalRow.source_clonal_call_row. Qed.

(* as written: which argument absolute_clonal and absolute_dataframe pass where, which column feeds which argument *)
Theorem C01_source_clonal_calls : forall (exp2 : Q -> Q) cn k purity hapx b female
    (A : Z -> Z -> option Q -> bool -> Z -> bool -> Q) (L : Z -> Z -> bool -> Z -> bool -> Q) (R E : Z -> Z -> bool -> Z -> bool -> Z),
  Gen.FnCallClonalRow.fn_absolute_clonal cn k purity hapx b female A = A cn k purity hapx b female /\
  Gen.FnCallClonalRow.fn_dataframe_whole exp2 cn k purity hapx b female L R E
  = Gen.FnCallClonalRow.fn_dataframe_row exp2 purity (L cn k hapx b female) (R cn k hapx b female) (E cn k hapx b female).
Proof. exact Proofs.FnCallClonalRow.source_clonal_calls. Qed.

(* the row function of df.apply alone, on both sides of `if purity and purity < 1.0` *)
Theorem C01_source_dataframe_row : forall (exp2 : Q -> Q) purity v r x,
  (forall p, use_purity purity = Some p ->
     Gen.FnCallClonalRow.fn_dataframe_row exp2 purity v r x == abs_clonal (exp2 v) r x p) /\
  (use_purity purity = None -> Gen.FnCallClonalRow.fn_dataframe_row exp2 purity v r x == abs_pure (exp2 v) r).
Proof. exact Proofs.FnCallClonalRow.dataframe_row_both. Qed.

(* ---- [loop ties e1] source tie of do_call's `if method != "none": outarr["cn"] = absolutes.round().astype("int") ...`
   (Gen/FnCallFinish.v fn_finish, the WHOLE statement): for method "clonal" do_call_row is the generated statement applied
   to the `absolutes` of the row *)
From CNV Require Gen.FnCallFinish Proofs.FnCallFinish.
Theorem C01_source_finish_clonal : forall k purity hapx female build ts variants with_baf first row,
  let '(v1, _, abs1, ratio) := dc_purity_step MClonal k purity hapx female build first row in
  let has_baf := with_baf || variants in
  let b := dc_baf purity variants (d_baf row) in
  do_call_row MClonal k purity hapx female build ts variants with_baf first row
  = match abs1 with
    | Some a => let '(cn, c1, c2) := Gen.FnCallFinish.fn_finish "clonal" a has_baf b in
                Some (mk_dc_out ratio v1 (Some a) (Some cn) (if has_baf then b else None)
                                (if has_baf then Some (c1, c2) else None))
    | None => None
    end.
Proof. exact Proofs.FnCallFinish.source_finish_row_clonal. Qed.

(* ---- [loop ties e1] source tie of the row masks of cnvlib/cnary.py read by the purity-adjusted path
   (Gen/FnCallRowClass.v: chr_x_label, chr_y_label, parx_filter, chr_x_filter, pary_filter, chr_y_filter, WHOLE, per row,
   regenerated from the Python source on every run).  The generated labels of a non-empty table without cached labels are
   x_label / y_label of the first row's chromosome ... *)
From CNV Require Gen.FnCallRowClass Proofs.FnCallRowClass.
Theorem C01_source_labels : forall n first, (n <> 0)%Z ->
  Gen.FnCallRowClass.fn_rc_chr_x_label false EmptyString n first = x_label first /\
  Gen.FnCallRowClass.fn_rc_chr_y_label false EmptyString n (Gen.FnCallRowClass.fn_rc_chr_x_label false EmptyString n first)
  = y_label first.
Proof. exact Proofs.FnCallRowClass.source_labels. Qed.

(* ... and the generated masks of a row (the PAR bounds they look up being those of the lower-cased build in
   Gen.Params.PAR_TABLE) ARE its row_class: chr_x_filter selects exactly class ChrX, chr_y_filter ChrY, pary_filter ParY,
   parx_filter ParX, and a row none of them selects is Auto *)
Theorem C01_source_row_class : forall build first chrom lo hi,
  build_ok build ->
  let xl := x_label first in
  let yl := y_label first in
  let c := row_class build first chrom lo hi in
  Proofs.FnCallRefExpect.is_x c = Proofs.FnCallRowClass.gen_x_mask build xl chrom lo hi /\
  Proofs.FnCallRefExpect.is_y c = Proofs.FnCallRowClass.gen_y_mask build yl chrom lo hi /\
  Proofs.FnCallRefExpect.is_pary c = Proofs.FnCallRowClass.gen_pary_mask build yl chrom lo hi /\
  Proofs.FnCallRowClass.is_parx c = Proofs.FnCallRowClass.gen_parx_mask build xl chrom lo hi.
Proof. exact Proofs.FnCallRowClass.source_row_class. Qed.

Theorem C01_source_row_class_auto : forall build first chrom lo hi,
  build_ok build ->
  let xl := x_label first in
  let yl := y_label first in
  (row_class build first chrom lo hi = Auto <->
   Proofs.FnCallRowClass.gen_x_mask build xl chrom lo hi = false /\
   Proofs.FnCallRowClass.gen_y_mask build yl chrom lo hi = false /\
   Proofs.FnCallRowClass.gen_pary_mask build yl chrom lo hi = false /\
   Proofs.FnCallRowClass.gen_parx_mask build xl chrom lo hi = false).
Proof. exact Proofs.FnCallRowClass.source_row_class_auto. Qed.

(* the masks are the generated functions themselves, the looked-up bounds filled in (nothing hidden in the gen_* names) *)
Example C01_ex_source_masks :
  Proofs.FnCallRowClass.gen_x_mask (Some "GRCh38"%string) "chrX" "chrX" 20000 30000 = false /\
  Proofs.FnCallRowClass.gen_parx_mask (Some "GRCh38"%string) "chrX" "chrX" 20000 30000 = true /\
  Proofs.FnCallRowClass.gen_x_mask (Some "GRCh38"%string) "chrX" "chrX" 3000000 3000100 = true /\
  Proofs.FnCallRowClass.gen_x_mask None "chrX" "chrX" 20000 30000 = true /\
  Proofs.FnCallRowClass.gen_pary_mask (Some "grch37"%string) "Y" "Y" 10000 20000 = true /\
  Proofs.FnCallRowClass.gen_y_mask (Some "grch37"%string) "Y" "Y" 10000 20000 = false.
Proof. vm_compute. repeat split; reflexivity. Qed.

(* composed: get_as_dframe_and_set_reference_and_expect_copies' generated column code (C01_source_ref_expect) fed with the
   generated masks of the row gives the (reference, expect) copies of the row's class ... *)
Theorem C01_source_row_copies : forall k hapx female build first chrom lo hi,
  build_ok build ->
  Gen.FnCallRefExpect.fn_ref_expect k k hapx female
    (Proofs.FnCallRowClass.gen_x_mask build (x_label first) chrom lo hi)
    (Proofs.FnCallRowClass.gen_y_mask build (y_label first) chrom lo hi)
    (match build with Some _ => true | None => false end)
    (Proofs.FnCallRowClass.gen_pary_mask build (y_label first) chrom lo hi)
  = ref_expect k hapx female (row_class build first chrom lo hi).
Proof. exact Proofs.FnCallRowClass.source_row_copies. Qed.

(* ... and log2_ratios' generated body (C01_source_log2_ratios) fed with them is `rescaled` with the shift of that class *)
Theorem C01_source_row_log2 : forall (exp2 log2 : Q -> Q),
  (forall y, 0 < y -> exp2 (log2 y) == y) ->
  (forall v, exp2 (v + 1) == 2 * exp2 v) ->
  forall a k hapx build first chrom lo hi,
    build_ok build ->
    exp2 (fn_log2_ratios log2 a k hapx min_abs_val false
            (Proofs.FnCallRowClass.gen_x_mask build (x_label first) chrom lo hi)
            (Proofs.FnCallRowClass.gen_y_mask build (y_label first) chrom lo hi))
    == rescaled a k (shifted hapx (row_class build first chrom lo hi)).
Proof. exact Proofs.FnCallRowClass.source_row_log2. Qed.

(* ---- [loop ties e1] source tie of the argument checks in front of the calling code.  do_call's first statement
   `if method not in ("threshold", "clonal", "none"): raise ValueError` (Gen/FnCallGuards.v fn_method_rejected: its test,
   regenerated from the Python source on every run): the accepted methods are exactly the three values of call_method
   under the names the entry point decodes and the dispatch compares with ... *)
From CNV Require Gen.FnCallGuards Proofs.FnCallGuards Entries.C02.
Theorem C01_source_method_guard : forall m : string,
  (Gen.FnCallGuards.fn_method_rejected m = false <-> exists cm, m = Proofs.FnCallGuards.method_name cm) /\
  (Gen.FnCallGuards.fn_method_rejected m = true <-> Entries.C02.method_of m = None) /\
  (forall cm, Entries.C02.method_of (Proofs.FnCallGuards.method_name cm) = Some cm).
Proof. exact Proofs.FnCallGuards.source_method_guard. Qed.

(* ... and the `call` command's `if args.purity and not 0.0 < args.purity <= 1.0: raise RuntimeError` (cnvlib/commands.py
   _cmd_call; Gen/FnCallCmdGuards.v fn_purity_rejected): the purities let through are exactly `valid_purity` -- the premise
   of C01_cn_exact -- plus 0, which is read as "no purity"; the sample's sex is looked up (fn_cmd_sample_sex) exactly on
   the purity-adjusted path *)
From CNV Require Gen.FnCallCmdGuards Proofs.FnCallCmdGuards.
Theorem C01_source_purity_guard : forall purity : option Q,
  Gen.FnCallCmdGuards.fn_purity_rejected purity = false <->
  (valid_purity purity \/ exists p, purity = Some p /\ p == 0).
Proof. exact Proofs.FnCallCmdGuards.source_purity_guard. Qed.

Theorem C01_source_cmd_sample_sex : forall (purity : option Q) (verified : option bool),
  Gen.FnCallCmdGuards.fn_cmd_sample_sex purity verified
  = match use_purity purity with Some _ => verified | None => None end.
Proof. exact Proofs.FnCallCmdGuards.source_cmd_sample_sex. Qed.

(* ---- [loop ties e1] do_call's row composed from the generated pieces: on a row with a finite log2, for the methods
   "threshold" and "clonal", do_call_row IS the generated dispatch (fn_dispatch) followed by the generated cn / allelic
   statement (fn_finish), the results of the called functions supplied by the model functions tied to them *)
From CNV Require Proofs.FnCallDoCallRow.
Theorem C01_source_do_call_row : forall m k purity hapx female build ts variants with_baf first row v toks,
  m <> MNone -> d_log2 row = Some v ->
  let cl := row_class build first (d_chrom row) (d_lo row) (d_hi row) in
  let pp := match use_purity purity with Some p => p | None => 1 end in
  let op := call_row_purity k pp hapx female cl (d_e row) in
  let '(v1, e1) := dc_seen purity row in
  let '(a, l', b') :=
     Gen.FnCallDispatch.fn_dispatch purity (Proofs.FnCallGuards.method_name m) variants (d_log2 row) (d_baf row)
       (abs_of op) (Some (d_v2 row)) (rescale_baf pp (d_baf row))
       (abs_of (call_row_pure k hapx (d_chrom row) (d_e row)))
       (inject_Z (thr_cn v1 e1 ts k (ref_pure (d_chrom row) k hapx))) toks in
  let has_baf := with_baf || variants in
  let '(cn, c1, c2) := Gen.FnCallFinish.fn_finish (Proofs.FnCallGuards.method_name m) a has_baf b' in
  do_call_row m k purity hapx female build ts variants with_baf first row
  = Some (mk_dc_out (match use_purity purity with Some _ => ratio_of op | None => None end)
                    l' (Some a) (Some cn) (if has_baf then b' else None) (if has_baf then Some (c1, c2) else None)).
Proof. exact Proofs.FnCallDoCallRow.source_do_call_row. Qed.

(* ---- [loop ties e1] source tie of absolute_expect / absolute_reference (Gen/FnCallExpectRef.v, WHOLE functions,
   regenerated from the Python source on every run; the two columns of get_as_dframe_and_set_reference_and_expect_copies'
   table are function-typed inputs).  As written: absolute_expect fixes is_haploid_x_reference = True and hands back the
   `expect` column, absolute_reference fixes is_sample_female = True and hands back the `reference` column ... *)
From CNV Require Gen.FnCallExpectRef Proofs.FnCallExpectRef.
Theorem C01_source_expect_ref_calls : forall cn k b flag (R E : Z -> Z -> bool -> Z -> bool -> Z),
  Gen.FnCallExpectRef.fn_absolute_expect cn k b flag R E = E cn k true b flag /\
  Gen.FnCallExpectRef.fn_absolute_reference cn k b flag R E = R cn k flag b true.
Proof. exact Proofs.FnCallExpectRef.source_expect_ref_calls. Qed.

(* ... so with the callee's generated column code in place of the columns, absolute_expect IS the x and absolute_reference
   the r of ref_expect on every class of row, whatever the reference sex resp. the sample sex (the fixed flag is immaterial) *)
Theorem C01_source_absolute_expect : forall cn k b female hapx has_build c,
  (c = ParY -> has_build = true) ->
  Gen.FnCallExpectRef.fn_absolute_expect cn k b female
    (Proofs.FnCallExpectRef.gen_reference_col (Proofs.FnCallRefExpect.is_x c) (Proofs.FnCallRefExpect.is_y c) has_build
                                              (Proofs.FnCallRefExpect.is_pary c))
    (Proofs.FnCallExpectRef.gen_expect_col (Proofs.FnCallRefExpect.is_x c) (Proofs.FnCallRefExpect.is_y c) has_build
                                           (Proofs.FnCallRefExpect.is_pary c))
  = snd (ref_expect k hapx female c).
Proof. exact Proofs.FnCallExpectRef.source_absolute_expect. Qed.

Theorem C01_source_absolute_reference : forall cn k b hapx female has_build c,
  (c = ParY -> has_build = true) ->
  Gen.FnCallExpectRef.fn_absolute_reference cn k b hapx
    (Proofs.FnCallExpectRef.gen_reference_col (Proofs.FnCallRefExpect.is_x c) (Proofs.FnCallRefExpect.is_y c) has_build
                                              (Proofs.FnCallRefExpect.is_pary c))
    (Proofs.FnCallExpectRef.gen_expect_col (Proofs.FnCallRefExpect.is_x c) (Proofs.FnCallRefExpect.is_y c) has_build
                                           (Proofs.FnCallRefExpect.is_pary c))
  = fst (ref_expect k hapx female c).
Proof. exact Proofs.FnCallExpectRef.source_absolute_reference. Qed.
