(* C01 -- clonal calls invert the purity/ploidy mixing model; cn is never negative.
   Property theorems only; proofs live in Proofs/Call.v and Proofs/CallNum.v.

   The model (Model/Call.v) works in ratio space: a row carries e = 2^log2.  The log2
   form of the statements follows from RealFacts (2^(log2 y) = y for y > 0) and is given
   in the separately named corollary at the end, the only statement here that depends on
   the standard library's axioms for the reals. *)
From Coq Require Import Qabs.
From CNV Require Import Base.Prelude Base.Str Gen.CallDefaults Model.Call Spec.Call Proofs.CallNum Proofs.Call Gen.FnCall Proofs.FnCall.

Local Open Scope Q_scope.

(* Purity-adjusted path: for a consistently named table (first row "chr"-prefixed iff
   X is called chrX) and no / a supported PAR build, the (reference, expect) copies the
   code assigns to a bin are the table of the property: autosome (k,k); X: r = k/2 iff
   male reference, x = k iff female sample else k/2; Y: r = k/2, x = 0 iff female else
   k/2; PAR-X (k,k); PAR-Y (0,0) -- under both naming styles. *)
Theorem C01_class_table :
  forall s k male_ref female build first chrom lo hi,
    consistent s first -> build_ok build ->
    ref_expect k male_ref female (row_class build first chrom lo hi)
    = spec_copies k male_ref female (spec_class s (lower_build build) chrom lo hi).
Proof. exact class_table. Qed.

(* No-purity path (lower-cased name test, no PAR option): same r on X and Y under both
   naming styles, k on every other chromosome. *)
Theorem C01_class_table_pure :
  forall s k male_ref female,
    ref_pure (xname s) k male_ref = fst (spec_copies k male_ref female KX) /\
    ref_pure (yname s) k male_ref = fst (spec_copies k male_ref female KY) /\
    (forall chrom, ~ In (lower_str chrom) ["chrx"; "x"; "chry"; "y"]%string ->
                   ref_pure chrom k male_ref = k).
Proof. exact class_table_pure. Qed.

(* only grch37 / grch38 (any letter case) are accepted as PAR builds *)
Theorem C01_builds : forall b, build_supported b = true <-> supported_lower (lower_str b).
Proof. exact build_supported_iff. Qed.

(* the purity inversion undoes the mixing equation *)
Theorem C01_inversion :
  forall n p r x, 0 < p -> (0 < r)%Z -> abs_clonal (mix n p r x) r x p == inject_Z n.
Proof. exact inversion. Qed.

Theorem C01_inversion_pure :
  forall n r, (0 < r)%Z -> abs_pure (inject_Z n / inject_Z r) r == inject_Z n.
Proof. exact inversion_pure. Qed.

(* cn = n: every integer n >= 0, every purity in (0,1] or none (then the truth is a pure
   sample), every ploidy, sex configuration, build and row whose reference copy number
   r is positive (r = 0 -- ploidy 1 on Y / haploid X, PAR-Y -- cannot satisfy the premise) *)
Theorem C01_cn_exact :
  forall k purity hapx female build first chrom lo hi e n r x,
    valid_purity purity -> (0 <= n)%Z ->
    row_copies k purity hapx female build first (chrom, lo, hi, e) = (r, x) -> (0 < r)%Z ->
    e == mix n (mix_purity purity) r x ->
    cn_of (call_row k purity hapx female build first (chrom, lo, hi, e)) = n.
Proof. exact cn_exact. Qed.

(* even ploidy, purity-adjusted path: the rewritten ratio is that of a pure sample with
   max(n, floor*ploidy) copies against r reference copies ... *)
Theorem C01_rescaled_log2 :
  forall k p hapx female c e n r x,
    (0 < k)%Z -> Z.even k = true -> 0 < p -> (0 <= n)%Z ->
    ref_expect k hapx female c = (r, x) -> (0 < r)%Z ->
    e == mix n p r x ->
    exists q, ratio_of (call_row_purity k p hapx female c e) = Some q /\
              q == spec_rescaled n k r min_abs_val.
Proof. exact rescaled_spec. Qed.

(* ... which is n / r for every n >= 1 (ploidy below 1000) ... *)
Theorem C01_rescaled_log2_above_floor :
  forall n k r, (0 < r)%Z -> (1 <= n)%Z -> (k <= 999)%Z ->
    spec_rescaled n k r min_abs_val == inject_Z n / inject_Z r.
Proof. exact rescaled_above_floor. Qed.

(* ... and the floor is the 0.001 of the property text (the double nearest to it) *)
Theorem C01_min_abs_literal : Qabs (min_abs_val - (1 # 1000)) <= 1 # 1000000000000000000.
Proof. exact min_abs_literal. Qed.

(* without a purity, cn is a nearest integer to r * 2^log2 *)
Theorem C01_nearest :
  forall k purity hapx female build first chrom lo hi e,
    use_purity purity = None ->
    nearest (cn_of (call_row k purity hapx female build first (chrom, lo, hi, e)))
            (inject_Z (ref_pure chrom k hapx) * e).
Proof. exact nearest_pure. Qed.

(* whatever log2 (e = 2^log2 >= 0), purity, ploidy, class, sexes, naming: cn >= 0 *)
Theorem C01_nonneg :
  forall k purity hapx female build first chrom lo hi e,
    (0 <= k)%Z -> 0 <= e ->
    (0 <= cn_of (call_row k purity hapx female build first (chrom, lo, hi, e)))%Z.
Proof. exact nonneg_row. Qed.

Theorem C01_nonneg_table :
  forall k purity hapx female build rows out,
    (0 <= k)%Z -> Forall (fun r => 0 <= e_of r) rows ->
    call_clonal k purity hapx female build rows = Some out ->
    length out = length rows /\ Forall (fun o => (0 <= cn_of o)%Z) out.
Proof. exact nonneg_table. Qed.

(* hypotheses are satisfiable: a consistently named table, n = 3 at purity 1/2 on a
   male sample's X against a male reference (r = x = 1), ploidy 2 *)
Example C01_ex_consistent : consistent ChrStyle "chr1" /\ consistent PlainStyle "1".
Proof. split; reflexivity. Qed.

Example C01_ex_cn :
  let e := mix 3 (1 # 2) 1 1 in
  row_copies 2 (Some (1 # 2)) true false None "chr1" ("chrX"%string, 0%Z, 100%Z, e) = (1%Z, 1%Z) /\
  cn_of (call_row 2 (Some (1 # 2)) true false None "chr1" ("chrX"%string, 0%Z, 100%Z, e)) = 3%Z.
Proof. vm_compute. split; reflexivity. Qed.

(* the input of the repaired defect: 2^-5 = 1/32, purity 1/2, ploidy 2 (was cn = -2) *)
Example C01_ex_fixed_defect :
  cn_of (call_row 2 (Some (1 # 2)) false false None "chr1" ("chr1"%string, 0%Z, 100%Z, 1 # 32)) = 0%Z.
Proof. vm_compute. reflexivity. Qed.

(* ------------------------------------------------------------------------------------
   Corollary over the reals (depends on the stdlib Reals axioms via RealFacts; nothing
   above does): in the property's own terms, with v = log2((p*n + (1-p)*x)/r) the
   inversion formula applied to 2^v returns n, and 2^-5 = 1/32 is the ratio used in the
   regression example above. *)
From Coq Require Import Reals.
From CNV Require Base.RealFacts.

Corollary C01_real_corollary_log2_inversion :
  forall n p r x : R,
    (0 < p)%R -> (0 < r)%R -> (0 < (p * n + (1 - p) * x) / r)%R ->
    ((r * RealFacts.exp2 (RealFacts.log2 ((p * n + (1 - p) * x) / r)) - x * (1 - p)) / p = n)%R.
Proof. exact RealFacts.log2_inversion. Qed.

(* ---- source tie: the bodies of cnvlib/call.py's scalar functions, translated from the
   Python source on every run (Gen/FnCall.v, tools/py2v_fn.py), ARE the model functions
   the theorems above speak about. *)
Theorem C01_source_abs_clonal :
  forall (exp2 : Q -> Q) v r x p, 0 < p -> p < 1 ->
    fn_log2_ratio_to_absolute exp2 v r x (Some p) == abs_clonal (exp2 v) r x p.
Proof. exact fn_abs_clonal_eq. Qed.

Theorem C01_source_abs_pure :
  forall (exp2 : Q -> Q) v r x,
    fn_log2_ratio_to_absolute exp2 v r x None == abs_pure (exp2 v) r /\
    (forall p, 1 <= p -> fn_log2_ratio_to_absolute exp2 v r x (Some p) == abs_pure (exp2 v) r) /\
    fn_log2_ratio_to_absolute_pure exp2 v r == abs_pure (exp2 v) r.
Proof. exact fn_abs_pure_all. Qed.

Theorem C01_source_ref_pure :
  forall chrom k hapx, fn_reference_copies_pure chrom k hapx = ref_pure chrom k hapx.
Proof. exact fn_ref_pure_eq. Qed.
