(* C14 -- segment filters merge only adjacent like segments and conserve what they merge.
   Property theorems only; proofs live in Proofs/Segfilters{Runs,Keys,Conserve,Order}.v.

   Reading of "level".  squash_by_groups keeps segments with different
   allele-specific copy numbers apart for every filter (deliberately), so the
   theorems are stated for the allele-aware alikeness `same_full` (chromosome,
   the filter's level, cn1, cn2; a missing value is a value of its own).  For a
   table without allele-specific copy numbers this is the plain reading of the
   text (C14_runs_plain); on a table that has them the plain reading fails for
   ampdel/ci/sem (C14_allele_split_refuted, the open finding
   c14-allele-split-non-cn-filter).

   The levels are those of Spec/Segfilters.v (literal 1.96 as a double, 0, 5);
   that the model computes them from the constants generated from the source is
   Proofs.SegfiltersKeys.level_spec, on which every theorem below depends. *)
From Coq Require Import QArith.Qabs.
From CNV Require Import Base.Prelude Base.Str Model.Segfilters Spec.Segfilters.
From CNV Require Import Proofs.SegfiltersRuns Proofs.SegfiltersKeys Proofs.SegfiltersConserve
  Proofs.SegfiltersOrder.

(* For every table whose chromosomes are contiguous and every filter, the rows
   produced by the grouping step are the maximal runs of consecutive alike rows,
   one output row per run, in order; the runs cut the table into consecutive
   non-empty pieces of alike rows that cannot be extended (never across a
   chromosome or level change; neighbouring runs are not alike); each output
   row spans from its run's first start to its last end on the run's chromosome.
   cn / ci / sem return exactly these rows; ampdel then drops some (C14_ampdel_keep). *)
Theorem C14_runs : forall (f : filt) (t : list seg),
  Contig (map chrom t) ->
  squashed f t = map squash_region (level_runs f t) /\
  (f <> Fampdel -> apply_filter f t = map squash_region (level_runs f t)) /\
  is_max_runs (same_full f) t (level_runs f t) /\
  (forall r, In r (level_runs f t) -> spans_run r (squash_region r)).
Proof. exact filter_runs. Qed.

(* Without allele-specific copy numbers: maximal runs of equal (chromosome, level). *)
Theorem C14_runs_plain : forall (f : filt) (t : list seg),
  Contig (map chrom t) -> no_alleles t ->
  squashed f t = map squash_region (plain_runs f t) /\
  is_max_runs (same_plain f) t (plain_runs f t).
Proof. exact squashed_runs_plain. Qed.

(* The levels of ci and sem are the three classes of the text: a valid interval
   lies above zero, below zero, or straddles it. *)
Theorem C14_ci_levels : forall (s : seg) (l h : Q),
  ci_lo s = Some l -> ci_hi s = Some h -> (l <= h)%Q ->
  (spec_level Fci s = 1%Q <-> (0 < l)%Q) /\
  (spec_level Fci s = (-1)%Q <-> (h < 0)%Q) /\
  (spec_level Fci s = 0%Q <-> (l <= 0 /\ 0 <= h)%Q).
Proof. exact ci_level_classes. Qed.

Theorem C14_sem_levels : forall (s : seg) (e : Q),
  sem s = Some e -> (0 <= e)%Q ->
  (spec_level Fsem s = 1%Q <-> (0 < log2 s - e * z196)%Q) /\
  (spec_level Fsem s = (-1)%Q <-> (log2 s + e * z196 < 0)%Q) /\
  (spec_level Fsem s = 0%Q <-> (log2 s - e * z196 <= 0 /\ 0 <= log2 s + e * z196)%Q).
Proof. exact sem_level_classes. Qed.

(* z196, the multiplier of sem, is the double nearest to the text's 1.96 *)
Theorem C14_zscore : (Qabs (z196 - (196 # 100)) < (1 # 1000000000000000))%Q.
Proof. exact z196_is_1_96. Qed.

(* Total probes and total weight are conserved; for a table sorted within each
   chromosome so is every chromosome's (smallest start, largest end); the log2
   of a run's row is the weight-averaged log2 of the run (the plain average when
   the run carries no weight); under the cn filter the row's cn and cn1 are the
   run's common values. *)
Theorem C14_conserve : forall (f : filt) (t : list seg),
  Contig (map chrom t) ->
  total_probes (squashed f t) = total_probes t /\
  (total_weight (squashed f t) == total_weight t)%Q /\
  (coords_sorted t -> forall c,
      min_lo c (squashed f t) = min_lo c t /\ max_hi c (squashed f t) = max_hi c t) /\
  (forall r, In r (level_runs f t) ->
      ((0 < total_weight r)%Q -> (log2 (squash_region r) == wavg_log2 r)%Q) /\
      (~ (0 < total_weight r)%Q -> (log2 (squash_region r) == avg_log2 r)%Q)) /\
  (forall r s, In r (level_runs Fcn t) -> In s r ->
      (cn (squash_region r) == cn s)%Q /\ oq_eqb (cn1 (squash_region r)) (cn1 s) = true).
Proof. exact filter_conserve. Qed.

(* ampdel returns the rows of exactly the runs whose segments are all deleted
   (cn = 0) or all amplified (cn >= 5), for non-negative copy numbers. *)
Theorem C14_ampdel_keep : forall t : list seg,
  Contig (map chrom t) -> Forall (fun s => (0 <= cn s)%Q) t ->
  apply_filter Fampdel t = map squash_region (filter run_is_ampdel (level_runs Fampdel t)).
Proof. exact ampdel_keeps. Qed.

(* For every list of distinct filters holding at most one of ci/sem and every
   calling step: that one filter is applied first, then the call, then the
   remaining filters in the order given. *)
Theorem C14_order : forall (call : list seg -> list seg) (fs : list filt) (t : list seg),
  NoDup fs -> ~ (In Fci fs /\ In Fsem fs) ->
  call_with_filters call fs t =
    fold_left (fun acc f => apply_filter f acc) (filter (fun f => negb (is_pre f)) fs)
      (call (match find is_pre fs with Some p => apply_filter p t | None => t end)).
Proof. exact call_order. Qed.

(* The plain reading (deleted / amplified / neither) fails on a table that has
   allele-specific copy numbers: ampdel returns two abutting amplified rows of
   one chromosome where the plain reading has a single run. *)
Theorem C14_allele_split_refuted :
  exists t a b,
    Contig (map chrom t) /\
    apply_filter Fampdel t = [a; b] /\
    chrom a = chrom b /\ hi a = lo b /\
    Qeq_bool (spec_level Fampdel a) (spec_level Fampdel b) = true /\
    length (filter run_is_ampdel (plain_runs Fampdel t)) = 1%nat.
Proof. exact allele_split_witness. Qed.

(* ---- the hypotheses are satisfiable and the statements are not vacuous ---- *)

Definition ex_row (c : string) (a b : Z) (l2 w : Q) (n : Q) : seg :=
  mkSeg c a b "g" l2 5 w None None n None None None (Some (l2 - (1 # 2))%Q) (Some (l2 + (1 # 2))%Q) (Some (1 # 4)).

Definition ex_table : list seg :=
  [ ex_row "chr1" 0 100 1 1 5; ex_row "chr1" 150 300 2 3 5; ex_row "chr1" 300 400 0 1 2;
    ex_row "chr2" 10 20 0 0 2; ex_row "chr2" 20 50 (1 # 4) 0 2; ex_row "chr2" 60 70 (-3) 1 0 ].

Example ex_contig : Contig (map chrom ex_table).
Proof. cbn. repeat (constructor; [|first [left; reflexivity|right; cbn; intuition discriminate]]). constructor. Qed.

Example ex_sorted : coords_sorted ex_table.
Proof.
  unfold coords_sorted, ex_table.
  repeat (apply AF_cons; [cbn; intros E; try discriminate E; lia|]). apply AF_one.
Qed.

Example ex_cn :
  map (fun s => (chrom s, lo s, hi s, probes s)) (apply_filter Fcn ex_table)
  = [("chr1"%string, 0, 300, 10); ("chr1"%string, 300, 400, 5); ("chr2"%string, 10, 50, 10); ("chr2"%string, 60, 70, 5)].
Proof. vm_compute. reflexivity. Qed.

Example ex_cn_log2 :
  map (fun s => Qred (log2 s)) (apply_filter Fcn ex_table) = [7 # 4; 0; 1 # 8; -3 # 1]%Q.
Proof. vm_compute. reflexivity. Qed.

Example ex_ampdel :
  map (fun s => (chrom s, lo s, hi s)) (apply_filter Fampdel ex_table)
  = [("chr1"%string, 0, 300); ("chr2"%string, 60, 70)].
Proof. vm_compute. reflexivity. Qed.

Example ex_ci_sem :
  map (fun s => (chrom s, lo s, hi s)) (apply_filter Fci ex_table)
  = [("chr1"%string, 0, 300); ("chr1"%string, 300, 400); ("chr2"%string, 10, 50); ("chr2"%string, 60, 70)]
  /\ apply_filter Fsem ex_table = apply_filter Fci ex_table.
Proof. vm_compute. split; reflexivity. Qed.

Example ex_order :
  forall call, call_with_filters call [Fampdel; Fsem; Fcn] ex_table
               = apply_filter Fcn (apply_filter Fampdel (call (apply_filter Fsem ex_table))).
Proof. intros call. rewrite C14_order; [reflexivity| |].
  - repeat constructor; cbn; intuition discriminate.
  - cbn. intuition discriminate.
Qed.
