(* C14 -- segment filters merge only adjacent like segments and conserve what they merge.
   Property theorems only; proofs live in Proofs/Segfilters{Runs,Keys,Conserve,Order}.v.

   Reading of "level".  squash_by_groups keeps segments with different
   allele-specific copy numbers apart for every filter (deliberately), so the
   theorems are stated for the allele-aware alikeness `same_full` (chromosome,
   the filter's level, cn1, cn2; a missing value is a value of its own).  For a
   table without allele-specific copy numbers this is the plain reading of the
   text (C14_runs_plain); on a table that has them the plain reading fails for
   ampdel/ci/sem (C14_allele_split_refuted, the open finding
   c14-allele-split-non-cn-filter).

   The levels are those of Spec/Segfilters.v (literal 1.96 as a double, 0, 5);
   that the model computes them from the constants generated from the source is
   Proofs.SegfiltersKeys.level_spec, on which every theorem below depends. *)
From Coq Require Import QArith.Qabs.
From CNV Require Import Base.Prelude Base.Str Model.Segfilters Spec.Segfilters.
From CNV Require Import Proofs.SegfiltersRuns Proofs.SegfiltersKeys Proofs.SegfiltersConserve
  Proofs.SegfiltersOrder Proofs.SegfiltersLib Proofs.SegfiltersFields Proofs.SegfiltersSorted
  Proofs.SegfiltersCall Proofs.SegfiltersTop Proofs.FnSegfilters.
From CNV Require Import Gen.FnSegfilters.
From CNV Require Gen.SegfilterDefaults.
From CNV Require Base.QNum Spec.Stats Model.Descriptives Model.Chromsort Model.Call Model.Threshold Model.Baf.

(* For every table whose chromosomes are contiguous and every filter, the rows
   produced by the grouping step are the maximal runs of consecutive alike rows,
   one output row per run, in order; the runs cut the table into consecutive
   non-empty pieces of alike rows that cannot be extended (never across a
   chromosome or level change; neighbouring runs are not alike); each output
   row spans from its run's first start to its last end on the run's chromosome.
   cn / ci / sem return exactly these rows; ampdel then drops some (C14_ampdel_keep). *)
Theorem C14_runs : forall (f : filt) (t : list seg),
  Contig (map chrom t) ->
  squashed f t = map squash_region (level_runs f t) /\
  (f <> Fampdel -> apply_filter f t = map squash_region (level_runs f t)) /\
  is_max_runs (same_full f) t (level_runs f t) /\
  (forall r, In r (level_runs f t) -> spans_run r (squash_region r)).
Proof. exact filter_runs. Qed.

(* Without allele-specific copy numbers: maximal runs of equal (chromosome, level). *)
Theorem C14_runs_plain : forall (f : filt) (t : list seg),
  Contig (map chrom t) -> no_alleles t ->
  squashed f t = map squash_region (plain_runs f t) /\
  is_max_runs (same_plain f) t (plain_runs f t).
Proof. exact squashed_runs_plain. Qed.

(* The levels of ci and sem are the three classes of the text: a valid interval
   lies above zero, below zero, or straddles it. *)
Theorem C14_ci_levels : forall (s : seg) (l h : Q),
  ci_lo s = Some l -> ci_hi s = Some h -> (l <= h)%Q ->
  (spec_level Fci s = 1%Q <-> (0 < l)%Q) /\
  (spec_level Fci s = (-1)%Q <-> (h < 0)%Q) /\
  (spec_level Fci s = 0%Q <-> (l <= 0 /\ 0 <= h)%Q).
Proof. exact ci_level_classes. Qed.

Theorem C14_sem_levels : forall (s : seg) (e : Q),
  sem s = Some e -> (0 <= e)%Q ->
  (spec_level Fsem s = 1%Q <-> (0 < log2 s - e * z196)%Q) /\
  (spec_level Fsem s = (-1)%Q <-> (log2 s + e * z196 < 0)%Q) /\
  (spec_level Fsem s = 0%Q <-> (log2 s - e * z196 <= 0 /\ 0 <= log2 s + e * z196)%Q).
Proof. exact sem_level_classes. Qed.

(* z196, the multiplier of sem, is the double nearest to the text's 1.96 *)
Theorem C14_zscore : (Qabs (z196 - (196 # 100)) < (1 # 1000000000000000))%Q.
Proof. exact z196_is_1_96. Qed.

(* Total probes and total weight are conserved; for a table sorted within each
   chromosome so is every chromosome's (smallest start, largest end); the log2
   of a run's row is the weight-averaged log2 of the run (the plain average when
   the run carries no weight); under the cn filter the row's cn and cn1 are the
   run's common values. *)
Theorem C14_conserve : forall (f : filt) (t : list seg),
  Contig (map chrom t) ->
  total_probes (squashed f t) = total_probes t /\
  (total_weight (squashed f t) == total_weight t)%Q /\
  (coords_sorted t -> forall c,
      min_lo c (squashed f t) = min_lo c t /\ max_hi c (squashed f t) = max_hi c t) /\
  (forall r, In r (level_runs f t) ->
      ((0 < total_weight r)%Q -> (log2 (squash_region r) == wavg_log2 r)%Q) /\
      (~ (0 < total_weight r)%Q -> (log2 (squash_region r) == avg_log2 r)%Q)) /\
  (forall r s, In r (level_runs Fcn t) -> In s r ->
      (cn (squash_region r) == cn s)%Q /\ oq_eqb (cn1 (squash_region r)) (cn1 s) = true).
Proof. exact filter_conserve. Qed.

(* ampdel returns the rows of exactly the runs whose segments are all deleted
   (cn = 0) or all amplified (cn >= 5), for non-negative copy numbers. *)
Theorem C14_ampdel_keep : forall t : list seg,
  Contig (map chrom t) -> Forall (fun s => (0 <= cn s)%Q) t ->
  apply_filter Fampdel t = map squash_region (filter run_is_ampdel (level_runs Fampdel t)).
Proof. exact ampdel_keeps. Qed.

(* For every list of distinct filters holding at most one of ci/sem and every
   calling step: that one filter is applied first, then the call, then the
   remaining filters in the order given. *)
Theorem C14_order : forall (call : list seg -> list seg) (fs : list filt) (t : list seg),
  NoDup fs -> ~ (In Fci fs /\ In Fsem fs) ->
  call_with_filters call fs t =
    fold_left (fun acc f => apply_filter f acc) (filter (fun f => negb (is_pre f)) fs)
      (call (match find is_pre fs with Some p => apply_filter p t | None => t end)).
Proof. exact call_order. Qed.

(* The plain reading (deleted / amplified / neither) fails on a table that has
   allele-specific copy numbers: ampdel returns two abutting amplified rows of
   one chromosome where the plain reading has a single run. *)
Theorem C14_allele_split_refuted :
  exists t a b,
    Contig (map chrom t) /\
    apply_filter Fampdel t = [a; b] /\
    chrom a = chrom b /\ hi a = lo b /\
    Qeq_bool (spec_level Fampdel a) (spec_level Fampdel b) = true /\
    length (filter run_is_ampdel (plain_runs Fampdel t)) = 1%nat.
Proof. exact allele_split_witness. Qed.

(* ---------------------------------------------------------------- merged fields *)

(* Every field of the row that replaces a non-empty run, whatever filter merged
   it: span, summed probes and weight, log2 / depth / baf weight-averaged (plain
   average without weight; a missing depth/baf cell as coded), the distinct gene
   names in order joined by commas, cn and cn1 inside the range of the run's
   values (hence the common value when constant), np.median without weight, a
   weighted median up to the code's rounding allowance with non-negative weights,
   cn2 = cn - cn1, the largest p_bintest, and no ci_lo / ci_hi / sem. *)
Theorem C14_merged_row : forall r : list seg, r <> [] -> merged_row r (squash_region r).
Proof. exact squash_region_merged. Qed.

(* ... for every filter and every table with contiguous chromosomes: output row
   by output row (ampdel keeps a sub-list of these rows) *)
Theorem C14_merged_fields : forall (f : filt) (t : list seg),
  Contig (map chrom t) ->
  Forall2 merged_row (level_runs f t) (squashed f t) /\
  (forall o, In o (apply_filter f t) -> exists r, In r (level_runs f t) /\ merged_row r o).
Proof. exact filter_merged_fields. Qed.

(* the cn of a merged run IS C19's weighted_median of the run's (cn, weight)
   pairs (non-negative weights, positive total), so C19_wmedian_* apply to it *)
Theorem C14_cn_is_c19_wmedian : forall r : list seg,
  r <> [] -> weighted r = true -> nonneg_run r ->
  Descriptives.weighted_median (map cn r) (map weight r) = Some (cn (squash_region r)).
Proof. exact cn_is_c19_wmedian. Qed.

(* sanity of two specification functions used above *)
Theorem C14_run_max_is_max : forall (l : list (option Q)) (m : Q), run_max l = Some m ->
  In m (present l) /\ (forall x, In x (present l) -> (x <= m)%Q).
Proof. exact run_max_is_max. Qed.

Theorem C14_first_occurrences : forall l : list string,
  NoDup (first_occurrences l) /\ (forall x, In x (first_occurrences l) <-> In x l) /\
  Subseq (first_occurrences l) l.
Proof. exact first_occurrences_spec. Qed.

(* ------------------------------------------------- where contiguity comes from *)

(* A table sorted as GenomicArray.sort sorts (chromosome sort key, start, end),
   whose chromosome names have distinct sort keys, has contiguous chromosomes;
   what GenomicArray.sort returns is such a table. *)
Theorem C14_sorted_contig : forall t : list seg,
  genome_sorted t -> names_separable t -> Contig (map chrom t).
Proof. exact sorted_contig. Qed.

Theorem C14_sort_contig : forall t : list seg,
  names_separable t -> Contig (map chrom (Chromsort.sort_regions seg_region t)).
Proof. exact sort_gives_contig. Qed.

(* C14_runs / C14_merged_fields / conservation with the precondition discharged *)
Theorem C14_runs_sorted : forall (f : filt) (t : list seg),
  genome_sorted t -> names_separable t ->
  squashed f t = map squash_region (level_runs f t) /\
  (f <> Fampdel -> apply_filter f t = map squash_region (level_runs f t)) /\
  is_max_runs (same_full f) t (level_runs f t) /\
  Forall2 merged_row (level_runs f t) (squashed f t) /\
  total_probes (squashed f t) = total_probes t /\
  (total_weight (squashed f t) == total_weight t)%Q.
Proof. exact filter_runs_sorted. Qed.

(* the filters keep chromosomes contiguous, so the theorems chain *)
Theorem C14_keeps_contig : forall (f : filt) (t : list seg),
  Contig (map chrom t) -> Contig (map chrom (apply_filter f t)).
Proof. exact filter_keeps_contig. Qed.

(* Without contiguity the statement fails: on chr1, chr2, chr1 the group key
   (level changes + chromosome ordinal) collides and rows of two chromosomes
   with different copy number are squashed into one row. *)
Theorem C14_interleaved_refuted :
  exists t a b o,
    ~ Contig (map chrom t) /\ In a t /\ In b t /\ chrom a <> chrom b /\ ~ (cn a == cn b)%Q /\
    In o (apply_filter Fcn t) /\
    chrom o = chrom a /\ lo o = lo a /\ hi o = hi b /\ probes o = probes a + probes b.
Proof. exact interleaved_merges. Qed.

(* ------------------------------------------------------- idempotence, monotonicity *)

(* never more rows, for every table (contiguous or not) and every filter *)
Theorem C14_rows_monotone : forall (f : filt) (t : list seg),
  (length (apply_filter f t) <= length t)%nat.
Proof. exact filter_rows_le. Qed.

(* every filter drops ci_lo / ci_hi / sem: ci and sem consume the columns each
   other needs, and neither can act a second time *)
Theorem C14_consumes : forall (f : filt) (t : list seg) (s : seg),
  In s (apply_filter f t) -> ci_lo s = None /\ ci_hi s = None /\ sem s = None.
Proof. exact filter_consumes. Qed.

(* cn twice = cn once (field-wise ==), when cn2 = cn - cn1 as do_call writes them *)
Theorem C14_idempotent_cn : forall t : list seg,
  Contig (map chrom t) -> alleles_consistent t ->
  table_eqv (apply_filter Fcn (apply_filter Fcn t)) (apply_filter Fcn t).
Proof. exact cn_idempotent. Qed.

(* ... and not otherwise: the first pass rewrites cn2, the second merges *)
Theorem C14_idempotent_cn_inconsistent_refuted :
  exists t, Contig (map chrom t) /\ ~ alleles_consistent t /\
    length (apply_filter Fcn t) = 2%nat /\ length (apply_filter Fcn (apply_filter Fcn t)) = 1%nat.
Proof. exact cn_idempotent_inconsistent_refuted. Qed.

(* ampdel twice <> ampdel once: amplified, neutral, amplified *)
Theorem C14_idempotent_ampdel_refuted :
  exists t, Contig (map chrom t) /\ alleles_consistent t /\
    length (apply_filter Fampdel t) = 2%nat /\
    length (apply_filter Fampdel (apply_filter Fampdel t)) = 1%nat.
Proof. exact ampdel_idempotent_refuted. Qed.

(* ---------------------------------------------------------- do_call as a whole *)

(* C14_order with the real calling step: for every exp2 / log2 oracle, every
   configuration (method threshold / clonal / none, ploidy, purity, sexes, PAR
   build, thresholds) and every admissible filter list, do_call = (ci | sem), the
   calling step of the C01 / C02 models, the remaining filters in order. *)
Theorem C14_do_call : forall (exp2 lg2 : Q -> Q) (cfg : callcfg) (fs : list filt) (t : list seg),
  NoDup fs -> ~ (In Fci fs /\ In Fsem fs) ->
  do_call_model exp2 lg2 cfg fs t =
    match call_step exp2 lg2 cfg (match find is_pre fs with Some p => apply_filter p t | None => t end) with
    | Some called => Some (fold_left (fun acc f => apply_filter f acc) (filter (fun f => negb (is_pre f)) fs) called)
    | None => None
    end.
Proof. exact do_call_order. Qed.

(* the calling step's cn column is C01's call_clonal / C02's call_threshold *)
Theorem C14_do_call_clonal : forall (exp2 lg2 : Q -> Q) (cfg : callcfg) (t called : list seg),
  c_method cfg = Mclonal -> call_step exp2 lg2 cfg t = Some called ->
  exists rows,
    Call.call_clonal (c_ploidy cfg) (c_purity cfg) (c_hapx cfg) (c_female cfg) (c_build cfg)
                     (map (in_row_of exp2) t) = Some rows /\
    map cn called = map (fun r : Call.out_row => inject_Z (fst (fst r))) rows.
Proof. exact call_step_clonal. Qed.

Theorem C14_do_call_threshold : forall (exp2 lg2 : Q -> Q) (cfg : callcfg) (t called : list seg),
  c_method cfg = Mthreshold -> call_step exp2 lg2 cfg t = Some called ->
  map cn called =
    map inject_Z (Threshold.call_threshold (c_ploidy cfg) (c_hapx cfg) (c_thresholds cfg)
                    (map (fun s => thr_row_of exp2 (rescale_row exp2 lg2 cfg (first_of t) s)) t)).
Proof. exact call_step_threshold. Qed.

Theorem C14_do_call_none : forall (exp2 lg2 : Q -> Q) (cfg : callcfg) (t called : list seg),
  c_method cfg = Mnone -> call_step exp2 lg2 cfg t = Some called ->
  map cn called = map cn t /\ map cn1 called = map cn1 t /\ map cn2 called = map cn2 t.
Proof. exact call_step_none. Qed.

(* with a baf column the step writes cn2 = cn - cn1 (or both missing): the
   hypothesis of C14_idempotent_cn holds for what do_call hands to the filters *)
Theorem C14_do_call_alleles : forall (exp2 lg2 : Q -> Q) (cfg : callcfg) (t called : list seg),
  c_method cfg <> Mnone -> c_has_baf cfg = true -> call_step exp2 lg2 cfg t = Some called ->
  alleles_consistent called.
Proof. exact call_step_alleles. Qed.

(* the step touches only log2 / cn / cn1 / cn2 *)
Theorem C14_do_call_frame : forall (exp2 lg2 : Q -> Q) (cfg : callcfg) (t called : list seg),
  call_step exp2 lg2 cfg t = Some called -> Forall2 same_frame t called.
Proof. exact call_step_frame. Qed.

(* the whole of do_call never adds rows, keeps chromosomes contiguous, and
   without ampdel conserves total probes and total weight *)
Theorem C14_do_call_conserve : forall (exp2 lg2 : Q -> Q) (cfg : callcfg) (fs : list filt) (t out : list seg),
  Contig (map chrom t) -> do_call_model exp2 lg2 cfg fs t = Some out ->
  (length out <= length t)%nat /\
  Contig (map chrom out) /\
  (~ In Fampdel fs -> total_probes out = total_probes t /\ (total_weight out == total_weight t)%Q).
Proof. exact do_call_conserve. Qed.

(* ------------------------------------------------------------------ source ties *)

(* The level assignments of ampdel / ci / sem, translated from the function
   bodies on every run (Gen/FnSegfilters.v: `levels[mask] = v` read per row,
   levels starting at the 0 of np.zeros), are the levels of the specification.
   A missing ci bound makes its comparison False, as the bound 0 does. *)
Theorem C14_source_ampdel_level : forall s : seg,
  fn_ampdel_level 0 (cn s) = spec_level Fampdel s.
Proof. exact fn_ampdel_level_eq. Qed.

Theorem C14_source_ci_level : forall s : seg,
  fn_ci_level 0 (match ci_lo s with Some l => l | None => 0 end)
                (match ci_hi s with Some h => h | None => 0 end) = spec_level Fci s.
Proof. exact fn_ci_level_eq. Qed.

Theorem C14_source_sem_level : forall (s : seg) (e : Q),
  sem s = Some e ->
  fn_sem_level 0 (log2 s) (fn_sem_margin e SegfilterDefaults.sem_zscore) = spec_level Fsem s.
Proof. exact fn_sem_level_eq. Qed.

(* ---- the hypotheses are satisfiable and the statements are not vacuous ---- *)

Definition ex_row (c : string) (a b : Z) (l2 w : Q) (n : Q) : seg :=
  mkSeg c a b "g" l2 5 w None None n None None None (Some (l2 - (1 # 2))%Q) (Some (l2 + (1 # 2))%Q) (Some (1 # 4)).

Definition ex_table : list seg :=
  [ ex_row "chr1" 0 100 1 1 5; ex_row "chr1" 150 300 2 3 5; ex_row "chr1" 300 400 0 1 2;
    ex_row "chr2" 10 20 0 0 2; ex_row "chr2" 20 50 (1 # 4) 0 2; ex_row "chr2" 60 70 (-3) 1 0 ].

Example ex_contig : Contig (map chrom ex_table).
Proof. cbn. repeat (constructor; [|first [left; reflexivity|right; cbn; intuition discriminate]]). constructor. Qed.

Example ex_sorted : coords_sorted ex_table.
Proof.
  unfold coords_sorted, ex_table.
  repeat (apply AF_cons; [cbn; intros E; try discriminate E; lia|]). apply AF_one.
Qed.

Example ex_cn :
  map (fun s => (chrom s, lo s, hi s, probes s)) (apply_filter Fcn ex_table)
  = [("chr1"%string, 0, 300, 10); ("chr1"%string, 300, 400, 5); ("chr2"%string, 10, 50, 10); ("chr2"%string, 60, 70, 5)].
Proof. vm_compute. reflexivity. Qed.

Example ex_cn_log2 :
  map (fun s => Qred (log2 s)) (apply_filter Fcn ex_table) = [7 # 4; 0; 1 # 8; -3 # 1]%Q.
Proof. vm_compute. reflexivity. Qed.

Example ex_ampdel :
  map (fun s => (chrom s, lo s, hi s)) (apply_filter Fampdel ex_table)
  = [("chr1"%string, 0, 300); ("chr2"%string, 60, 70)].
Proof. vm_compute. reflexivity. Qed.

Example ex_ci_sem :
  map (fun s => (chrom s, lo s, hi s)) (apply_filter Fci ex_table)
  = [("chr1"%string, 0, 300); ("chr1"%string, 300, 400); ("chr2"%string, 10, 50); ("chr2"%string, 60, 70)]
  /\ apply_filter Fsem ex_table = apply_filter Fci ex_table.
Proof. vm_compute. split; reflexivity. Qed.

Example ex_sorted_genome : genome_sorted ex_table.
Proof. unfold genome_sorted, ex_table. repeat (constructor; [|repeat constructor]). constructor. Qed.

Example ex_separable : names_separable ex_table.
Proof.
  assert (K : forall a, In a ex_table -> chrom a = "chr1"%string \/ chrom a = "chr2"%string).
  { intros a Ha. cbn in Ha. repeat (destruct Ha as [<-|Ha]; [cbn; tauto|]). contradiction. }
  intros a b Ha Hb. destruct (K a Ha) as [-> | ->], (K b Hb) as [-> | ->];
    vm_compute; intros E; first [reflexivity|discriminate E].
Qed.

Definition ex_cfg : callcfg := mkCfg Mthreshold 2 None false false None Threshold.default_thresholds false.

(* a run of do_call with trivial oracles (exp2 is consulted only above the last threshold) *)
Example ex_do_call :
  option_map (map (fun s => (chrom s, lo s, hi s, Qred (cn s))))
    (do_call_model (fun _ => 2%Q) (fun _ => 0%Q) ex_cfg [Fcn; Fsem] ex_table)
  = Some [("chr1"%string, 0, 300, 4%Q); ("chr1"%string, 300, 400, 2%Q); ("chr2"%string, 10, 50, 2%Q);
          ("chr2"%string, 60, 70, 0%Q)].
Proof. vm_compute. reflexivity. Qed.

Example ex_merged_cn_range :
  forall o, In o (apply_filter Fci ex_table) -> (2 <= cn o <= 5)%Q \/ (cn o == 0)%Q.
Proof.
  vm_compute. intros o H.
  repeat (destruct H as [<-|H]; [first [left; split; discriminate|right; reflexivity]|]). contradiction.
Qed.

Example ex_order :
  forall call, call_with_filters call [Fampdel; Fsem; Fcn] ex_table
               = apply_filter Fcn (apply_filter Fampdel (call (apply_filter Fsem ex_table))).
Proof. intros call. rewrite C14_order; [reflexivity| |].
  - repeat constructor; cbn; intuition discriminate.
  - cbn. intuition discriminate.
Qed.

(* ==== LOOP / PER-ROW TIES (function-body translator, tools/fnspecs/segfilters_loops.py) ====
   The table code of enumerate_changes, squash_by_groups, squash_region, ampdel's row filter
   and the require_column wrapper, read per element / per region and translated from the
   source text on every run (Gen/FnSegEnum.v, FnSegSquash.v, FnSegGroups.v, FnSegWrap.v). *)
From CNV Require Import Proofs.FnSegEnum Proofs.FnSegSquash Proofs.FnSegGroups Proofs.FnSegWrap.
From CNV Require Gen.FnSegEnum Gen.FnSegSquash Gen.FnSegGroups Gen.FnSegWrap.

(* enumerate_changes, one element: `changed` = the level differs from the one before (two missing
   levels do not differ), never at position 0 *)
Theorem C14_source_enum_changed : forall (c prev : option Q) (k n : Z),
  Gen.FnSegEnum.fn_enum_changed c prev k n = if k <? 1 then false else negb (optQ_eqb prev c).
Proof. exact source_enum_changed. Qed.

(* enumerate_changes IS the cumulative sum of the generated bit *)
Theorem C14_source_enumerate : forall l : list (option Q),
  enumerate_changes l = src_enum 0 0 (Z.of_nat (length l)) None l.
Proof. exact source_enumerate. Qed.

(* squash_region: the output columns of one region ARE the generated ones on the model's aggregates *)
Theorem C14_source_squash_region : forall (s0 : seg) (rest : list seg) (n_rows : Z),
  let r := s0 :: rest in
  let ws := map weight r in
  let s := squash_region r in
  let '(l2, g, p, w, d, b, c, c1, c2, pb) :=
    Gen.FnSegSquash.fn_squash_region (sumQ ws)
      (wavg ws (map log2 r)) (pmean (map log2 r))
      (uniq_str (map gene r))
      true (sumZ (map probes r)) n_rows
      true (wavg_opt ws (map depth r)) (pmean_opt (map depth r))
      true (wavg_opt ws (map baf r)) (pmean_opt (map baf r))
      true (Some (wmedian (map cn r) ws)) (Some (median (map cn r)))
      true (wmedian_opt (map cn1 r) ws) (median_opt (map cn1 r))
      true (fold_right omax None (map pbt r)) in
  (l2, g, p, w, d, b, c, c1, option_map Qred c2, pb) =
  (log2 s, gene s, probes s, weight s, depth s, baf s, Some (cn s), cn1 s, cn2 s, pbt s).
Proof. exact source_squash_region. Qed.

(* ... where wmean / wmean_opt are the two generated sides under the `region_weight > 0` switch *)
Theorem C14_source_squash_sides : forall (ws : list Q) (xs : list Q) (ys : list (option Q)),
  wmean ws xs = (if Qltb Gen.SegfilterDefaults.region_weight_min (sumQ ws) then wavg ws xs else pmean xs) /\
  wmean_opt ws ys = (if Qltb Gen.SegfilterDefaults.region_weight_min (sumQ ws) then wavg_opt ws ys else pmean_opt ys).
Proof. exact source_squash_sides. Qed.

(* `probes` falls back to the row count, `weight` is the summed weight, whatever the other columns *)
Theorem C14_source_squash_probes : forall (W a1 a2 : Q) (genes : list string) (hp : bool) (ps n : Z)
      (f1 f2 f3 f4 f5 : bool) (d1 d2 b1 b2 c1 c2 e1 e2 pb : option Q),
  let '(_, _, p, w, _, _, _, _, _, _) :=
    Gen.FnSegSquash.fn_squash_region W a1 a2 genes hp ps n f1 d1 d2 f2 b1 b2 f3 c1 c2 f4 e1 e2 f5 pb in
  p = (if hp then ps else n) /\ w = W.
Proof. exact source_squash_probes. Qed.

(* squash_by_groups' `_group` key and ampdel's closing row filter *)
Theorem C14_source_group_key : forall (levels : list (option Q)) (t : list seg),
  squash_by_groups levels t =
  let names := map chrom t in
  let u := uniq_str names in
  let keys := src_keys (enumerate_changes levels) (map (fun c => index_of c u) names)
                       (enumerate_changes (map cn1 t)) (enumerate_changes (map cn2 t)) in
  map (fun kg => squash_region (snd kg)) (group_by_key (combine keys t)).
Proof. exact source_squash_by_groups. Qed.

Theorem C14_source_ampdel_keep : forall (d : Z) (t : list seg),
  apply_filter Fampdel t = filter (fun o => Gen.FnSegGroups.fn_ampdel_keep d (cn o)) (squashed Fampdel t).
Proof. exact source_apply_ampdel. Qed.

(* require_column: past the column guard the wrapper returns the filter's own result *)
Theorem C14_source_wrapper : forall (enc : list seg -> Z) (name : string) (f : filt) (t : list seg),
  Gen.FnSegWrap.fn_wrapped (enc t) name (enc (apply_filter f t)) = enc (apply_filter f t).
Proof. exact source_wrapped_filter. Qed.

(* ==== LOOP TIES, wave e4 (tools/fnspecs/c14_e4.py) ====
   do_call's two filter loops (cnvlib/call.py), one iteration each translated from the source text on every run
   (Gen/FnCallPreFilter.v, Gen/FnCallPostFilter.v).  The table the loops carry is an opaque value, instantiated with the
   trace of filter names applied so far and read back by FnCallPreFilter.table_of (the named filters of the model applied
   in order). *)
From CNV Require Import Proofs.FnCallPreFilter Proofs.FnCallPostFilter.
From CNV Require Gen.FnCallPreFilter Gen.FnCallPostFilter.

(* `for filt in ("ci", "sem")`, one iteration: a filter that was asked for is applied now and taken off the list *)
Theorem C14_source_pre_step : forall (p : filt) (tr : list string) (fs : list filt),
  py_pre_iter (tr, map name_of fs) (name_of p)
  = if memf p fs then (tr ++ [name_of p], map name_of (remove_first p fs)) else (tr, map name_of fs).
Proof. exact source_pre_step. Qed.

(* ... and the model's pre_steps IS that generated step folded over the tuple: same table, same remaining list *)
Theorem C14_source_pre_steps : forall (t : list seg) (fs : list filt),
  let L := py_pre_loop (map name_of fs) in
  let r := pre_steps pre_filters t fs in
  fst r = table_of t (fst L) /\ map name_of (snd r) = snd L.
Proof. exact source_pre_steps. Qed.

(* `for filt in filters`, one iteration: the named filter applied to the carried table *)
Theorem C14_source_post_step : forall (f : filt) (t : list seg) (tr : list string),
  table_of t (py_post_iter tr (name_of f)) = apply_filter f (table_of t tr).
Proof. exact source_post_step. Qed.

(* ... and apply_seq IS that generated step folded over the remaining filters, in the order given *)
Theorem C14_source_apply_seq : forall (fs : list filt) (t : list seg),
  apply_seq fs t = table_of t (py_post_loop (map name_of fs) []).
Proof. exact source_apply_seq. Qed.

(* the filter handling of do_call (the function C14_order is about) = the two generated loops around the calling step *)
Theorem C14_source_call_with_filters : forall (call : list seg -> list seg) (fs : list filt) (t : list seg),
  call_with_filters call fs t =
  let L := py_pre_loop (map name_of fs) in
  table_of (call (table_of t (fst L))) (py_post_loop (snd L) []).
Proof. exact source_call_with_filters. Qed.

(* the reading is not vacuous: a run of the generated loops *)
Example ex_source_filter_loops :
  py_pre_loop (map name_of [Fampdel; Fsem; Fcn]) = (["sem"%string], ["ampdel"%string; "cn"%string])
  /\ py_post_loop ["ampdel"%string; "cn"%string] [] = ["ampdel"%string; "cn"%string].
Proof. vm_compute. split; reflexivity. Qed.

(* ---- squash_by_groups' key columns, squash_region's coordinates, the four filters as whole functions
        (Gen/FnSegAlleleKeys.v, FnSegSpan.v, FnSegHandOver.v) ---- *)
From CNV Require Import Proofs.FnSegAlleleKeys Proofs.FnSegSpan Proofs.FnSegHandOver.
From CNV Require Gen.FnSegAlleleKeys Gen.FnSegSpan Gen.FnSegHandOver.

(* `if "cn1" in cnarr:` -- with the allele columns the row's key is (_group, _g1, _g2) from cn1, cn2 in this order;
   without them only _group *)
Theorem C14_source_allele_keys : forall (g o g1 g2 : list Z), mk_keys g o g1 g2 = src_keys3 true g o g1 g2.
Proof. exact source_allele_keys. Qed.

Theorem C14_source_allele_keys_absent : forall (g o : list Z) (c1 c2 : list (option Q)),
  Forall (fun c => c = None) c1 -> Forall (fun c => c = None) c2 ->
  mk_keys g o (enumerate_changes c1) (enumerate_changes c2)
  = src_keys3 false g o (enumerate_changes c1) (enumerate_changes c2).
Proof. exact source_allele_keys_absent. Qed.

(* squash_by_groups groups by the generated key columns *)
Theorem C14_source_group_keys3 : forall (levels : list (option Q)) (t : list seg),
  squash_by_groups levels t =
  let names := map chrom t in
  let u := uniq_str names in
  let keys := src_keys3 true (enumerate_changes levels) (map (fun c => index_of c u) names)
                        (enumerate_changes (map cn1 t)) (enumerate_changes (map cn2 t)) in
  map (fun kg => squash_region (snd kg)) (group_by_key (combine keys t)).
Proof. exact source_group_keys3. Qed.

Theorem C14_source_group_keys3_absent : forall (levels : list (option Q)) (t : list seg),
  Forall (fun s => cn1 s = None /\ cn2 s = None) t ->
  squash_by_groups levels t =
  let names := map chrom t in
  let u := uniq_str names in
  let keys := src_keys3 false (enumerate_changes levels) (map (fun c => index_of c u) names)
                        (enumerate_changes (map cn1 t)) (enumerate_changes (map cn2 t)) in
  map (fun kg => squash_region (snd kg)) (group_by_key (combine keys t)).
Proof. exact source_group_keys3_absent. Qed.

(* squash_region: chromosome and start of the FIRST row, end of the LAST row *)
Theorem C14_source_span : forall (s0 : seg) (rest : list seg) (w : Q),
  let r := s0 :: rest in
  let l := last r s0 in
  let s := squash_region r in
  (chrom s, lo s, hi s) = Gen.FnSegSpan.fn_squash_span w (chrom s0) (chrom l) (lo s0) (lo l) (hi s0) (hi l).
Proof. exact source_span. Qed.

(* cn / ci / sem / ampdel as whole functions: whatever squash_by_groups and pd.Series do, the row's level of the model
   is what they are handed; the model's squashing step is squash_by_groups on the generated levels *)
Theorem C14_source_level : forall (f : filt) (s : seg), level f s = src_level f s.
Proof. exact source_level. Qed.

Theorem C14_source_hand_over : forall (squash : Z -> Q -> Q) (series : Q -> Z -> Q) (tbl idx : Z) (s : seg),
  Gen.FnSegHandOver.fn_cn_whole squash tbl (cn s) = squash tbl (level Fcn s) /\
  Gen.FnSegHandOver.fn_ci_whole squash series tbl idx 0 (ci_lo s) (ci_hi s) = squash tbl (series (level Fci s) idx) /\
  Gen.FnSegHandOver.fn_sem_whole squash series tbl idx 0 SegfilterDefaults.sem_zscore (sem s) (log2 s)
    = squash tbl (series (level Fsem s) idx) /\
  Gen.FnSegHandOver.fn_ampdel_whole squash series tbl idx 0 (cn s) = squash tbl (series (level Fampdel s) idx).
Proof. exact source_hand_over. Qed.

Theorem C14_source_squashed : forall (f : filt) (t : list seg),
  squashed f t = squash_by_groups (map (fun s => Some (src_level f s)) t) t.
Proof. exact source_squashed. Qed.
