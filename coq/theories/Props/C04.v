(* C04 -- fix subtracts the reference bin-for-bin by coordinate and normalises soundly.
   Property theorems only; proofs live in Proofs/Fix*.v.  The model is Model/Fix.v [do_fix_gen]:
   tables of any size; oracles with contracts: [sq] = np.sqrt on bin sizes, [bmv2] =
   descriptives.biweight_midvariance(..)**2, the permutations drawn after seed(0xA5EED), the
   half-windows.  Every theorem holds for EVERY oracle meeting the stated contract (most need none). *)
From CNV Require Import Base.Prelude Base.Str Base.QNum Model.Chromsort Model.Smoothing Model.Fix
  Spec.Fix Proofs.ChromsortLemmas Proofs.FixLib Proofs.FixBins Proofs.FixShift Proofs.FixDepth
  Proofs.FixWeights Proofs.FixWindow Proofs.FixPerm Proofs.FixFn Proofs.FnFix2 Proofs.FixCentre
  Gen.Params Gen.FixDefaults Gen.FnFix Gen.FnFixMask Gen.FnFixWeights Gen.FnCnaryLow.
Local Open Scope Q_scope.

(* The output bins are exactly the sample bins (target and antitarget) whose reference bin --
   found by (chromosome, start, end) -- passes the literal filter  -5 <= log2 <= 5, spread <= 1,
   depth > 0, 3/10 <= gc <= 7/10,  sorted genomically; whatever the row order of the three inputs. *)
Theorem C04_bins : forall bmv2 c o sq target anti ref out,
  ref_wf c ref -> distinct_bins (map skey target ++ map skey anti) ->
  perm_contract (perm_t o) (length (filter (kept_b c ref) (map skey target))) ->
  perm_contract (perm_a o) (length (filter (kept_b c ref) (map skey anti))) ->
  do_fix_gen bmv2 c o sq target anti ref = inr out ->
  map (fun p => bkey (fst p)) out = expected_bins c ref target anti /\
  regions_sorted (fun k : key => k) (map (fun p => bkey (fst p)) out).
Proof. exact bins_thm. Qed.

(* Duplicated coordinates in a sample table or in the reference, or a sample bin whose coordinates
   the reference does not have: an error and no table. *)
Theorem C04_errors : forall bmv2 c o sq target anti ref,
  malformed target anti ref -> exists e, do_fix_gen bmv2 c o sq target anti ref = inl e.
Proof. exact errors_thm. Qed.

(* Corrections off: one constant for the on-target bins and one for the off-target bins such that
   every output log2 is  sample log2 - reference log2 + the constant of its table. *)
Theorem C04_constant_shift : forall bmv2 c o sq target anti ref out,
  do_gc c = false -> do_edge c = false -> do_rmask c = false ->
  do_fix_gen bmv2 c o sq target anti ref = inr out ->
  exists ct ca, forall p, In p out ->
    (exists s r, In s target /\ skey s = bkey (fst p) /\ ref_row ref (skey s) = Some r /\
                 blog2 (fst p) == s_log2 s - r_log2 r + ct)
    \/ (exists s r, In s anti /\ skey s = bkey (fst p) /\ ref_row ref (skey s) = Some r /\
                    blog2 (fst p) == s_log2 s - r_log2 r + ca).
Proof. exact constant_shift_thm. Qed.

(* One correction step (center_by_window, used for GC, edge density and repeat fraction in this
   order, each only when enabled -- Proofs.FixWindow.corrections_def): the rows are arranged by
   non-decreasing covariate (a permutation of the table), each log2 is replaced by log2 minus the
   median of the 2*wing+1 values around its position in that arrangement (mirrored at the ends),
   and the table goes back to genomic order. *)
Theorem C04_window : forall perm wing keys l,
  perm_contract perm (length l) -> length keys = length l -> (2 <= length l)%nat -> (wing <= length l)%nat ->
  exists ko : list (Q * brow),
    Permutation ko (combine keys l) /\ cov_sorted ko /\
    center_by_window perm wing keys l = sort_brows (window_corrected wing (map snd ko)).
Proof. exact window_thm. Qed.

(* the sliding-window implementation over the padded array is the mirrored-window median *)
Theorem C04_window_rolling : forall (x : list Q) (w : nat),
  (w <= length x)%nat -> rolling_median_wing x w = rolling_spec w x.
Proof. exact rolling_wing_refines. Qed.

(* which steps run, on which covariate *)
Theorem C04_window_steps : forall c g e r perm wing l,
  corrections c g e r perm wing l =
  let l1 := if g && has_gc c then center_by_window perm wing (map (fun b => r_gc (snd b)) l) l else l in
  let l2 := if e then center_by_window perm wing (edge_bias l1) l1 else l1 in
  if r && has_rmask c then center_by_window perm wing (map (fun b => r_rmask (snd b)) l2) l2 else l2.
Proof. exact corrections_def. Qed.

(* Centred: the output is the pre-centring table moved by one constant s, and if that move takes
   no bin across the null-coverage cut-off (-15), the median of the autosomal per-chromosome medians
   of the output bins with coverage is 0. *)
Theorem C04_centred : forall bmv2 c o sq target anti ref out,
  do_fix_gen bmv2 c o sq target anti ref = inr out ->
  exists pre s,
    (map fst out = pre \/ map fst out = map (badd_log2 s) pre) /\
    ((forall b, In b pre -> null_cov_b c (fst (badd_log2 s b)) = null_cov_b c (fst b)) ->
     centred (map cl2 (filter (fun b => negb (null_cov_b c (fst b))) (map fst out)))).
Proof. exact centred_thm. Qed.

(* The same without any hypothesis on the shift: the bins that HAD coverage when the centre was estimated are centred
   in the output -- always.  (map fst out is pre or pre moved by s; the second conjunct speaks of the covered bins of
   pre, moved by s.) *)
Theorem C04_centred_selected : forall bmv2 c o sq target anti ref out,
  do_fix_gen bmv2 c o sq target anti ref = inr out ->
  exists pre s,
    (map fst out = pre \/ map fst out = map (badd_log2 s) pre) /\
    centred (map cl2 (map (badd_log2 s) (filter (fun b => negb (null_cov_b c (fst b))) pre))).
Proof. exact centred_selected_thm. Qed.

(* What the hypothesis of C04_centred excludes, exactly: a bin changes its coverage status under the final shift iff
   it has a depth and its log2 is on one side of -15 before the shift and on the other side after it. *)
Theorem C04_centred_crossing : forall c s b,
  null_cov_b c (fst (badd_log2 s b)) <> null_cov_b c (fst b) <-> crosses c s (fst b).
Proof. exact null_cov_badd_iff. Qed.

(* Sharp: with a crossing bin the covered output bins need not be centred.  Three on-target bins on chr1 with sample
   log2 -15.5 / -1 / 1 against reference log2 0 / 1 / 5, corrections off, no antitargets: the first bin is
   null-coverage when the centre is estimated (median of -2, -4: shift +3) and covered afterwards, the output is
   -12.5 / 1 / -1 with median -1.  Replayed on the code by the C04 corpus (finding c04-centred-null-crossing). *)
Theorem C04_centred_crossing_refuted :
  exists out,
    do_fix_gen (fun _ => 0) cross_cfg cross_or (fun z => inject_Z z) cross_target [] cross_ref = inr out /\
    map (fun p => Qred (blog2 (fst p))) out = [-25 # 2; 1; -1] /\
    ~ centred (map cl2 (filter (fun b => negb (null_cov_b cross_cfg (fst b))) (map fst out))).
Proof. exact centred_crossing_refuted. Qed.

(* Weights lie in [0.0001, 1].  (Stated for inputs with a usable -- reference-filter passing, not
   null-coverage -- bin in the target table and, if any antitarget bin survives, in the antitarget
   table: without one the CODE yields NaN, open finding c04-weight-nan-no-usable-target; the model
   itself needs no such assumption.) *)
Theorem C04_weight_range_usable : forall bmv2 c o sq target anti ref out,
  (exists s, In s target /\ usable c ref s) ->
  ((exists s, In s anti /\ kept_b c ref (skey s) = true) -> exists s, In s anti /\ usable c ref s) ->
  do_fix_gen bmv2 c o sq target anti ref = inr out ->
  forall p, In p out -> 1 # 10000 <= snd p <= 1.
Proof. exact weight_range_usable_thm. Qed.

(* The boundary of C04_weight_range on the CODE's side (open finding c04-weight-nan-no-usable-target): the variance of a
   class -- bins named as off-target, or the others -- is biweight_midvariance of the class's residual vector, NaN
   when that vector is empty; [l] is the table after the reference was subtracted (fix_pre).  The vector is empty
   exactly when every bin of the class is null-coverage there (log2 below -15, or depth 0) ... *)
Theorem C04_weight_nan_iff : forall c k l,
  class_residuals c k l = [] <-> class_all_null c k l.
Proof. exact class_nan_iff. Qed.

(* ... and, on the inputs: every bin of [l] carries the coordinates, gene and depth of a sample row, so a depth
   column that is 0 on every sample bin of the class empties its residual vector whatever the log2 values are
   (the canonical case of the finding: three on-target bins with depth 0 against a flat reference). *)
Theorem C04_weight_nan_depth : forall c o target anti ref l k,
  has_sdepth c = true ->
  (forall s, In s (target ++ anti) -> mem_string (s_gene s) ANTITARGET_ALIASES = k -> s_depth s == 0) ->
  fix_pre c o target anti ref = inr l -> class_all_null c k l.
Proof. exact class_nan_depth. Qed.

Theorem C04_bins_origin : forall c o target anti ref l,
  fix_pre c o target anti ref = inr l ->
  Forall (fun b => exists s, In s (target ++ anti) /\ skey s = bkey b /\ s_gene s = s_gene (fst b) /\
                             s_depth s = s_depth (fst b)) l.
Proof. exact fix_pre_origin. Qed.

(* Scope: the model is do_fix with do_cluster=False (the default), where the columns subtracted and weighted are the
   reference's plain log2 / spread; the clustered-reference path (correlation-chosen log2_<k> / spread_<k> columns)
   is outside the model and outside these theorems. *)
Theorem C04_scope_no_cluster :
  fix_do_cluster_default = false /\ fix_log2_key = "log2"%string /\ fix_spread_key = "spread"%string.
Proof. exact fix_scope_literals. Qed.

(* Within one class of bins: a larger bin never gets a smaller weight (equal reference spread), a
   larger reference spread never a larger weight (equal size).  Needs of np.sqrt only that it is
   positive on positive sizes and monotone, and of the variance that it is not negative. *)
Theorem C04_weight_mono : forall bmv2 c o sq target anti ref out,
  variance_contract bmv2 -> sqrt_contract sq ->
  do_fix_gen bmv2 c o sq target anti ref = inr out ->
  (forall p, In p out -> (0 < bsize (fst p))%Z) ->
  forall p q, In p out -> In q out -> is_anti_gene (fst p) = is_anti_gene (fst q) ->
    ((bsize (fst p) <= bsize (fst q))%Z -> r_spread (snd (fst p)) == r_spread (snd (fst q)) -> snd p <= snd q) /\
    (bsize (fst p) = bsize (fst q) -> 0 <= r_spread (snd (fst p)) -> r_spread (snd (fst p)) <= r_spread (snd (fst q)) ->
     snd q <= snd p).
Proof. exact weight_mono_thm. Qed.

(* the variance the model computes when run stand-alone meets the contract *)
Theorem C04_variance_nonneg : variance_contract var_of.
Proof. exact var_of_nonneg. Qed.

(* Adding one constant d to every sample log2 leaves the whole output (bins, log2, weights)
   unchanged, through every correction -- provided the shift moves no target bin across the
   null-coverage cut-off and some target bin is usable. *)
Theorem C04_depth_invariance : forall bmv2 c o sq target target' anti anti' ref d,
  ref_wf c ref -> (exists s, In s target /\ usable c ref s) ->
  Forall2 (fun s s' => shifted_row d s s' /\ null_cov_b c s' = null_cov_b c s) target target' ->
  Forall2 (shifted_row d) anti anti' ->
  do_fix_gen bmv2 c o sq target' anti' ref = do_fix_gen bmv2 c o sq target anti ref.
Proof. exact depth_invariance_thm. Qed.

(* Permuting the rows of the target, the antitarget and the reference table leaves the output
   unchanged -- every correction on or off, tied covariates or not. *)
Theorem C04_perm_invariance : forall bmv2 c o sq target target' anti anti' ref ref',
  Permutation target target' -> Permutation anti anti' -> Permutation ref ref' ->
  distinct_bins (map skey target) -> distinct_bins (map skey anti) ->
  do_fix_gen bmv2 c o sq target' anti' ref' = do_fix_gen bmv2 c o sq target anti ref.
Proof. exact perm_invariance_thm. Qed.

(* The edge-density covariate: the model's formulas are the bodies of cnvlib/fix.py edge_losses and
   edge_gains as translated from the source on every run (Gen/FnFix.v) ... *)
Theorem C04_source_edge_losses : forall t : Z, edge_loss t == fn_edge_losses t INSERT_SIZE.
Proof. exact fn_edge_losses_eq. Qed.

Theorem C04_source_edge_gains : forall t g : Z, edge_gain t g == fn_edge_gains t g INSERT_SIZE.
Proof. exact fn_edge_gains_eq. Qed.

(* The reference filter of one matched row is the body of cnvlib/fix.py mask_bad_bins as translated from the source on
   every run (Gen/FnFixMask.v): the three comparisons against params.MIN_REF_COVERAGE / MAX_REF_SPREAD, then the
   `if "depth" in cnarr` statement, then -- when the reference has a gc column -- the min/max bounds and the gc
   comparison (Proofs.FnFix2.fn_mask_bad_bins composes the three translated fragments in that order). *)
Theorem C04_source_mask_bad_bins : forall c r,
  bad_bin c r = fn_mask_bad_bins (has_rdepth c) (has_gc c) (r_log2 r) (r_spread r) (r_depth r) (r_gc r).
Proof. exact fn_mask_bad_bins_eq. Qed.

(* The null-coverage test used by both centring steps and by the weights' residuals is the body of
   cnvlib/cnary.py drop_low_coverage (Gen/FnCnaryLow.v). *)
Theorem C04_source_low_coverage : forall c b,
  low_b c b = fn_drop_idx (blog2 b) (has_sdepth c) (s_depth (fst b)) NULL_LOG2_COVERAGE MIN_REF_COVERAGE.
Proof. exact fn_low_coverage_eq. Qed.

(* The weight of one bin is apply_weights' arithmetic as translated from the source (Gen/FnFixWeights.v):
   `1 - var / (bin_sz / bin_sz.mean())` (the same statement for on- and off-target bins; np.sqrt of the size and the
   class mean are inputs), for a pooled reference the blend `x * (1 - spread ** 2) + (1 - x) * simple` with x as
   written in the source, then `.clip(epsilon, 1.0)`; and "pooled" is `.any()` of the two translated row tests. *)
Theorem C04_source_weights :
  (forall pooled var sz mean_sz spread,
      bin_weight pooled var sz mean_sz spread == fn_bin_weight pooled var sz mean_sz spread) /\
  (forall var sz mean_sz, fn_anti_simple_wt var sz mean_sz = fn_tgt_simple_wt var sz mean_sz) /\
  (forall l sw,
      pooled_ref l =
      existsb (fun b => fst (fn_pooled_tests (r_spread (snd b)) (frac1 (r_log2 (snd b))) sw weight_epsilon)) l
      && existsb (fun b => snd (fn_pooled_tests (r_spread (snd b)) (frac1 (r_log2 (snd b))) sw weight_epsilon)) l).
Proof. exact fn_weights_eq. Qed.

(* ... and the autosome rule / the shuffle seed are the literals the model was written for *)
Theorem C04_source_literals : autosome_pattern = "(chr)?\d+$"%string /\ shuffle_seed = 679661%Z.
Proof. exact fix_literals. Qed.

(* ---- the hypotheses are satisfiable: a three-bin sample, reference in another order ---------- *)
Local Close Scope Q_scope.
Definition ex_cfg : cfg := mkCfg true true true true false false false.
Definition ex_target : list srow :=
  [mkS "chr2" 100 200 "C" 2 1; mkS "chr1" 300 400 "B" 3 1; mkS "chr1" 100 200 "A" 1 1].
Definition ex_ref : list rrow :=
  [mkR "chr1" 300 400 (1 # 4) 1 (13 # 32) (1 # 4) (1 # 8); mkR "chr2" 100 200 0 1 (19 # 32) (3 # 8) (5 # 16);
   mkR "chr1" 100 200 (1 # 2) 1 (1 # 2) (1 # 8) (1 # 4); mkR "chr9" 5 50 6 1 (1 # 2) 0 0].
Definition ex_or : oracles := mkOr [2; 0; 1]%nat 2 [] 0.

Example C04_example_bins :
  expected_bins ex_cfg ex_ref ex_target [] = [("chr1", 100, 200); ("chr1", 300, 400); ("chr2", 100, 200)]%string
  /\ distinct_bins (map skey ex_target ++ [])
  /\ (exists s, In s ex_target /\ usable ex_cfg ex_ref s).
Proof.
  split; [reflexivity|]. split.
  - unfold distinct_bins. cbn. repeat constructor; cbn; intuition discriminate.
  - exists (mkS "chr1" 100 200 "A" 1 1). split; [cbn; auto|]. split; reflexivity.
Qed.

Example C04_example_output :
  match do_fix_gen (fun _ => (1 # 4)%Q) ex_cfg ex_or (fun z => inject_Z z) ex_target [] ex_ref with
  | inr out => map (fun p => (bkey (fst p), Qred (blog2 (fst p)))) out
               = [(("chr1", 100, 200)%string, (-21 # 16)%Q); (("chr1", 300, 400)%string, (15 # 16)%Q);
                  (("chr2", 100, 200)%string, (3 # 16)%Q)]
  | inl _ => False
  end.
Proof. vm_compute. reflexivity. Qed.

(* ---- loop ties (per-row code, control flow and a loop body translated from /repo on every run; LOOP_TIES_GUIDE) ---- *)
From CNV Require Gen.FnFixRows Gen.FnFixClassWt Gen.FnFixLow Gen.FnFixCorrections Gen.FnFixEdge.
From CNV Require Import Proofs.FnFixRows Proofs.FnFixCorrections Proofs.FnFixEdge.

(* center_by_window, per row: `df["log2"] -= biases` on the shuffled, key-sorted rows, then sorted back *)
Theorem C04_source_window_rows : forall perm wing keys l,
  center_by_window perm wing keys l
  = let sorted := map snd (stable_sort key_leb (pick (combine keys l) perm)) in
    sort_brows (map py_window_row (combine sorted (rolling wing (map blog2 sorted)))).
Proof. exact source_window_rows. Qed.

(* do_fix, per row: `cnarr.data["log2"] -= ref_matched[log2_key]` on the combined target + antitarget table *)
Theorem C04_source_subtract_reference : forall c o target anti ref,
  fix_pre c o target anti ref
  = match load_adjust c ref true (perm_t o) (wing_t o) target with
    | inl e => inl e
    | inr t =>
      match load_adjust c ref false (perm_a o) (wing_a o) anti with
      | inl e => inl e
      | inr a => inr (map py_ref_row (match a with [] => t | _ => sort_brows (t ++ a) end))
      end
    end.
Proof. exact source_subtract_reference. Qed.

(* apply_weights, per row: the two masked stores pick the class's size weight (off-target variance and mean size for
   an Antitarget-named bin, on-target otherwise); the model's weight is the generated arithmetic on that value *)
Theorem C04_source_class_weights : forall pooled anti var_t var_a sz mt ma spread,
  let simple := py_simple_wt anti (Gen.FnFixWeights.fn_tgt_simple_wt var_t sz mt)
                                  (Gen.FnFixWeights.fn_anti_simple_wt var_a sz ma) in
  (bin_weight pooled (if anti then var_a else var_t) sz (if anti then ma else mt) spread
   == (if pooled then Gen.FnFixWeights.fn_weight_pooled spread simple weight_epsilon
       else Gen.FnFixWeights.fn_weight_flat simple weight_epsilon))%Q.
Proof. exact source_class_weights. Qed.

(* load_adjust_coverages: the corrections are skipped when at most half of the rows exceed the low-coverage cut ... *)
Theorem C04_source_mostly_low : forall l sf,
  mostly_low l
  = Gen.FnFixLow.fn_mostly_low
      (Z.of_nat (length (filter (fun b => Gen.FnFixLow.fn_low_row (blog2 b) NULL_LOG2_COVERAGE MIN_REF_COVERAGE sf) l)))
      (Z.of_nat (length l)) sf.
Proof. exact source_mostly_low. Qed.

(* ... otherwise GC, then edge density, then RepeatMasker, each only when requested (and the reference has the column),
   each computed from the table the previous statements leave: the model's corrections *)
Theorem C04_source_corrections : forall c fix_gc fix_edge fix_rmask perm wing l,
  corrections c fix_gc fix_edge fix_rmask perm wing l = py_corrections c fix_gc fix_edge fix_rmask perm wing l.
Proof. exact source_corrections. Qed.

(* get_edge_bias, the loop body per gap and per tile, composed along a chromosome = the model's edge_go *)
Theorem C04_source_edge_bias : forall l (prev : option (Z * Z)),
  Forall2 Qeq (edge_go (option_map snd prev) l) (py_edge_go prev l).
Proof. exact source_edge_go. Qed.

(* ---- control-flow ties of do_fix (tools/fnspecs/fix_flow.py) [loop ties e3] ----------------------------------------- *)
From CNV Require Gen.FnFixFlow Gen.FnFixTail.
From CNV Require Proofs.FnFixFlow Proofs.FnFixTail.

(* do_fix's two load_adjust_coverages calls: the model's pipeline for the target / antitarget table is
   load_adjust_coverages run with the four flags (skip_low, fix_gc, fix_edge, fix_rmask) of the first / second call as
   they stand in the source -- (True, do_gc, do_edge, False) and (False, do_gc, False, do_rmask) *)
Theorem C04_source_load_flags : forall c ref perm wing samp,
  load_adjust c ref true perm wing samp = Proofs.FnFixFlow.py_load_target c ref perm wing samp /\
  load_adjust c ref false perm wing samp = Proofs.FnFixFlow.py_load_anti c ref perm wing samp.
Proof. exact Proofs.FnFixFlow.source_load_flags. Qed.

(* ... and everything up to the subtraction of the reference runs exactly these two *)
Theorem C04_source_fix_pre_flags : forall c o target anti ref,
  fix_pre c o target anti ref
  = match Proofs.FnFixFlow.py_load_target c ref (perm_t o) (wing_t o) target with
    | inl e => inl e
    | inr t =>
      match Proofs.FnFixFlow.py_load_anti c ref (perm_a o) (wing_a o) anti with
      | inl e => inl e
      | inr a =>
          let all := match a with [] => t | _ => sort_brows (t ++ a) end in
          inr (map (fun b => bset_log2 (Qred (blog2 b - r_log2 (snd b))) b) all)
      end
    end.
Proof. exact Proofs.FnFixFlow.source_fix_pre_flags. Qed.

(* the rest of do_fix as generated: merge the antitarget bins iff there are any, (subtract,) apply_weights on the
   columns "log2" / "spread" (do_cluster off), then center_all(skip_low=True) -- under every reading of table ids in
   which the function inputs are the model's operations this is do_fix_gen *)
Theorem C04_source_do_fix_tail : forall (c : cfg) (sq : Z -> Q) (bmv2 : list Q -> Q) (tbl : Z -> list brow)
    (wtbl : Z -> list (brow * Q)) (add_fn : Z -> Z -> Z) (weights_fn : Z -> Z -> string -> string -> Z)
    (center_fn : Z -> bool -> Z -> Z) (o : oracles) (target anti : list srow) (ref : list rrow)
    (cnarr_id ref_id anti_id ref_anti_id build : Z) (cl2k clsk : string) (rl rr : Q),
  Proofs.FnFixTail.tail_reading c sq bmv2 tbl wtbl add_fn weights_fn center_fn ->
  load_adjust c ref true (perm_t o) (wing_t o) target = inr (tbl cnarr_id) ->
  load_adjust c ref false (perm_a o) (wing_a o) anti = inr (tbl anti_id) ->
  tbl ref_id = tbl cnarr_id -> tbl ref_anti_id = tbl anti_id ->
  let '(out, _, lk, sk) :=
    Proofs.FnFixTail.run_tail tbl add_fn weights_fn center_fn cnarr_id ref_id anti_id ref_anti_id build cl2k clsk rl rr in
  do_fix_gen bmv2 c o sq target anti ref = inr (wtbl out) /\ lk = "log2"%string /\ sk = "spread"%string.
Proof. exact Proofs.FnFixTail.source_do_fix_tail. Qed.

(* the code's order (weights, then the final centring) and the model's (centring, then weights) give the same table:
   no weight reads the sample log2 *)
Theorem C04_source_weights_then_centre : forall c sq vt va l,
  Proofs.FnFixTail.center_w c true (apply_weights sq vt va l) = apply_weights sq vt va (center_all c true l).
Proof. exact Proofs.FnFixTail.center_w_apply_weights. Qed.
