(* C05 -- the pooled reference is the robust per-bin consensus in the chosen reference sex.
   Statements only; proofs are in Proofs/Reference*.v.  Model: Model/Reference.v (on Center, Sex,
   Descriptives, Chromsort); specification: Spec/Biweight.v, Spec/Reference.v. *)
From CNV Require Import Base.Prelude Base.Str Base.QNum Model.Chromsort Model.Center Model.Sex
  Model.Reference Spec.Biweight Spec.Reference
  Proofs.ChromsortLemmas Proofs.ReferenceGc Proofs.ReferenceFlat Proofs.ReferenceBins
  Proofs.ReferenceBiweight Proofs.ReferenceEstimator Proofs.ReferenceCentre Proofs.ReferenceCohort
  Proofs.ReferenceNoise Proofs.ReferenceNoiseCohort
  Proofs.QNumLemmas Proofs.FnReference Gen.FnReference Gen.FnReferenceGc Gen.FnCnaryFlat.
From Coq Require Import Qabs.
Local Open Scope Q_scope.

(* ---- C05_bins ---------------------------------------------------------------------------------------- *)
(* an accepted cohort: the pooled keys are the keys of the first target file followed by those of
   the first antitarget file, in genomic order, and every file has exactly those keys *)
Theorem C05_bins : forall hap build sexes targets antis rows,
  pool hap build sexes targets antis = ROk rows ->
  map ref_key rows = map key_of (sort_regions bin_proj (block_bins targets ++ anti_bins antis)) /\
  (forall s, In s targets -> keys (s_bins s) = keys (block_bins targets)) /\
  (forall s, In s antis -> keys (s_bins s) = keys (anti_bins antis)).
Proof. exact pool_bins. Qed.

(* "sorted" said without the sorting function: a rearrangement of the input keys in genomic order *)
Theorem C05_bins_sorted : forall hap build sexes targets antis rows,
  pool hap build sexes targets antis = ROk rows ->
  Permutation (map key_of (block_bins targets ++ anti_bins antis)) (map ref_key rows) /\
  regions_sorted key_proj (map ref_key rows).
Proof. exact pool_bins_perm_sorted. Qed.

(* files whose bins differ are rejected (f: the first file of the block by sample id) *)
Theorem C05_bins_reject_targets : forall hap build sexes targets antis f s,
  first_file targets = Some f ->
  In s targets -> keys (s_bins s) <> keys (s_bins f) ->
  exists m, pool hap build sexes targets antis = RErr m.
Proof. exact pool_rejects_targets. Qed.

Theorem C05_bins_reject_antitargets : forall hap build sexes targets antis f s,
  first_file antis = Some f ->
  In s antis -> keys (s_bins s) <> keys (s_bins f) ->
  exists m, pool hap build sexes targets antis = RErr m.
Proof. exact pool_rejects_antitargets. Qed.

Theorem C05_bins_reject_unequal_counts : forall hap build sexes targets antis,
  antis <> [] -> length targets <> length antis ->
  pool hap build sexes targets antis = RErr "ValueError".
Proof. exact pool_rejects_unequal_counts. Qed.

(* ---- C05_estimator ------------------------------------------------------------------------------------ *)
(* every row: log2 and spread^2 are Tukey's biweight location (c = 6, at most 5 iterations,
   epsilon = the double 1e-3) and midvariance (c = 9) of the row's column, which has at least the
   flat pseudo-sample and one sample *)
Theorem C05_estimator : forall hap build sexes targets antis rows r,
  pool hap build sexes targets antis = ROk rows -> In r rows ->
  exists bc, In bc (pool_cols hap build sexes targets antis) /\
    ref_key r = key_of (bc_bin bc) /\
    (2 <= length (bc_col bc))%nat /\
    r_log2 r == biweight_location_spec 6 eps_1e3 5 (bc_col bc) /\
    r_spread_sq r == biweight_midvar_sq_spec 9 eps_1e3 mad_to_sd (bc_col bc)
                       (biweight_location_spec 6 eps_1e3 5 (bc_col bc)).
Proof. exact pool_estimator. Qed.

(* which values enter: the column of bin i of a block is the flat level of the bin followed by one
   value per file of the block (in sample-id order) *)
Theorem C05_estimator_column : forall hap build sexes targets antis rows r,
  pool hap build sexes targets antis = ROk rows -> In r rows ->
  exists skip files i,
    ((skip = true /\ files = targets) \/ (skip = false /\ files = antis /\ antis <> [])) /\
    files <> [] /\ (i < length (block_bins files))%nat /\
    (forall d, ref_key r = key_of (nth i (block_bins files) d)) /\
    r_log2 r == consensus_log2
                  (nth i (expect_flat hap build (block_bins files)) 0
                   :: map (sample_value hap build sexes skip (block_bins files) i) (sort_samples files)) /\
    r_spread_sq r == consensus_spread_sq
                  (nth i (expect_flat hap build (block_bins files)) 0
                   :: map (sample_value hap build sexes skip (block_bins files) i) (sort_samples files)).
Proof. exact pool_row_column. Qed.

(* ... and a file's value is its median-centred log2 at the bin, shifted to the reference sex:
   plus the flat level; male / unknown samples +1 on X and Y; female samples -1 on Y *)
Theorem C05_estimator_sample : forall hap build sexes skip bins i s d,
  (i < length bins)%nat -> length (s_bins s) = length bins ->
  sample_value hap build sexes skip bins i s ==
  shifted_value (sample_is_xx sexes (s_id s))
    (flat_at hap build bins (nth i bins d))
    (chr_x_filter bins build (nth i bins d)) (chr_y_filter bins build (nth i bins d))
    (b_log2 (nth i (center_all median true skip build (s_bins s)) d)).
Proof. exact sample_value_spec. Qed.

(* the depth column (summarize_info: depth_centers): the same location estimator over the depths the files of the
   row's block hold at its bin, in sample-id order -- as many values as files, the flat pseudo-sample does NOT enter;
   with one file it is that file's depth.  (s_depth: the depth column, or 2^log2 where a file has none.) *)
Theorem C05_estimator_depth : forall hap build sexes targets antis rows r,
  pool hap build sexes targets antis = ROk rows -> In r rows ->
  exists skip files i,
    ((skip = true /\ files = targets) \/ (skip = false /\ files = antis /\ antis <> [])) /\
    files <> [] /\ (i < length (block_bins files))%nat /\
    (forall d, ref_key r = key_of (nth i (block_bins files) d)) /\
    length (depth_column files i) = length files /\
    r_depth r == consensus_depth (depth_column files i).
Proof. exact pool_row_depth. Qed.

(* the two literals of the code are the doubles next to 1/1000 and 1.4826 *)
Theorem C05_literals :
  Qabs (eps_1e3 - 1 / 1000) < 1 / 1000000000000000000 /\
  Qabs (mad_to_sd - 14826 / 10000) < 1 / 1000000000000000.
Proof. split; reflexivity. Qed.

(* sqrt is an oracle with a contract; a zero variance is a zero spread for every such function *)
Theorem C05_spread_zero : forall sqrt : Q -> Q,
  (forall x, 0 <= x -> 0 <= sqrt x /\ sqrt x * sqrt x == x) ->
  forall x, x == 0 -> sqrt x == 0.
Proof. exact spread_zero. Qed.

(* ---- C05_depth_only ----------------------------------------------------------------------------------- *)
(* a block (the target files, or the antitarget files) whose files are one profile `base` plus a
   per-file constant, all with the same sex label, without null-coverage bins: every bin's column
   has the consensus v = the profile's centred value shifted to the reference sex, and spread 0 --
   with two or more files, or when v is the flat level itself.  (A flat level strictly within
   epsilon of v is not masked out and pulls the location by less than epsilon: excluded.) *)
Theorem C05_depth_only : forall hap build sexes skip files,
  files <> [] ->
  forall base,
  existsb is_auto_bin base = true ->
  (forall s, In s files -> exists d, centred_like build base s d) ->
  (skip = true ->
     (forall b, In b base -> is_low b = false) /\
     (forall s, In s files -> forall b, In b (s_bins s) -> is_low b = false)) ->
  forall xx i d0,
  (forall s, In s files -> sample_is_xx sexes (s_id s) = xx) ->
  (forall s, In s files -> exists d, Forall2 (bin_rel d (fun _ => true)) base (s_bins s)) ->
  (i < length base)%nat ->
  exists c, center_shift median true skip build base = Some c /\
    let b := nth i base d0 in
    let fl := flat_at hap build base b in
    let v := shifted_value xx fl (chr_x_filter base build b) (chr_y_filter base build b) (b_log2 b + c) in
    (fl == v \/ (eps_1e3 <= Qabs (fl - v) /\ (2 <= length files)%nat) ->
     consensus_log2 (block_column hap build sexes skip files i) == v /\
     consensus_spread_sq (block_column hap build sexes skip files i) == 0).
Proof. exact depth_only_bin. Qed.

(* ---- C05_sex_levels ------------------------------------------------------------------------------------- *)
(* a noise-free block of any male / female mix around a profile `base` (autosomes and PAR-X at
   the profile plus the file's depth constant; X one below it for males; Y one below it for males,
   anything for females): an X bin whose baseline is a above the autosomal centre comes out at
   a - 1 for a male reference and at a for a female one, spread 0 *)
Theorem C05_sex_levels_x : forall (hap : bool) build sexes skip files,
  files <> [] ->
  forall base,
  existsb is_auto_bin base = true ->
  (forall s, In s files -> exists d, centred_like build base s d) ->
  (skip = true ->
     (forall b, In b base -> is_low b = false) /\
     (forall s, In s files -> forall b, In b (s_bins s) -> is_low b = false)) ->
  (forall s, In s files -> exists d, centred_like build base s d /\ sexed_like build sexes base s d) ->
  forall i d0,
  (i < length base)%nat -> chr_x_filter base build (nth i base d0) = true ->
  exists c, center_shift median true skip build base = Some c /\
    let a := b_log2 (nth i base d0) + c in
    let v := a + (if hap then -1 else 0) in
    (a == 0 \/ (eps_1e3 <= Qabs a /\ (2 <= length files)%nat) ->
     consensus_log2 (block_column hap build sexes skip files i) == v /\
     consensus_spread_sq (block_column hap build sexes skip files i) == 0).
Proof. exact sex_levels_x. Qed.

(* ... and a Y bin whose baseline is the autosomal centre comes out at -1 for both reference sexes
   (females are set to -1 there whatever they show, so for another baseline a mixed column is not
   constant) *)
Theorem C05_sex_levels_y : forall hap build sexes skip files,
  files <> [] ->
  forall base,
  existsb is_auto_bin base = true ->
  (forall s, In s files -> exists d, centred_like build base s d) ->
  (skip = true ->
     (forall b, In b base -> is_low b = false) /\
     (forall s, In s files -> forall b, In b (s_bins s) -> is_low b = false)) ->
  (forall s, In s files -> exists d, centred_like build base s d /\ sexed_like build sexes base s d) ->
  forall i d0,
  (i < length base)%nat -> chr_y_filter base build (nth i base d0) = true ->
  exists c, center_shift median true skip build base = Some c /\
    (b_log2 (nth i base d0) + c == 0 ->
     consensus_log2 (block_column hap build sexes skip files i) == -1 /\
     consensus_spread_sq (block_column hap build sexes skip files i) == 0).
Proof. exact sex_levels_y. Qed.

(* Beyond "baseline = autosomal centre".  (1) A block of males only keeps the Y bin's own baseline a (relative to
   the autosomal centre) one copy below it -- a - 1 -- as an X bin does under a male reference. *)
Theorem C05_sex_levels_y_males : forall hap build sexes skip files,
  files <> [] ->
  forall base,
  existsb is_auto_bin base = true ->
  (forall s, In s files -> exists d, centred_like build base s d) ->
  (skip = true ->
     (forall b, In b base -> is_low b = false) /\
     (forall s, In s files -> forall b, In b (s_bins s) -> is_low b = false)) ->
  (forall s, In s files -> exists d, centred_like build base s d /\ sexed_like build sexes base s d) ->
  forall i d0,
  (forall s, In s files -> sample_is_xx sexes (s_id s) = false) ->
  (i < length base)%nat -> chr_y_filter base build (nth i base d0) = true ->
  exists c, center_shift median true skip build base = Some c /\
    let a := b_log2 (nth i base d0) + c in
    (a == 0 \/ (eps_1e3 <= Qabs a /\ (2 <= length files)%nat) ->
     consensus_log2 (block_column hap build sexes skip files i) == a - 1 /\
     consensus_spread_sq (block_column hap build sexes skip files i) == 0).
Proof. exact sex_levels_y_males. Qed.

(* (2) A block of females only puts every Y bin at -1 with spread 0, whatever its baseline and whatever the files
   show there (nothing is assumed about their Y values). *)
Theorem C05_sex_levels_y_females : forall hap build sexes skip files,
  files <> [] ->
  forall base,
  (forall s, In s files -> exists d, centred_like build base s d) ->
  forall i d0,
  (forall s, In s files -> sample_is_xx sexes (s_id s) = true) ->
  (i < length base)%nat -> chr_y_filter base build (nth i base d0) = true ->
  consensus_log2 (block_column hap build sexes skip files i) == -1 /\
  consensus_spread_sq (block_column hap build sexes skip files i) == 0.
Proof. exact sex_levels_y_females. Qed.

(* (3) Sharp: with both sexes in a block and a Y baseline off the autosomal centre, C05_sex_levels_y does not extend.
   Two males and a female over chr1, chr2, chrX, chrY with the Y bin's baseline 1/2 above the autosomes meet every
   hypothesis of C05_sex_levels_y except the baseline one (the profile's shift is 0); the column of the Y bin is
   -1 (flat), -1 (female, set), -1/2, -1/2 (males), its biweight location the midpoint -3/4 -- neither -1 nor the
   males' 1/2 - 1 -- and its spread is not 0. *)
Theorem C05_sex_levels_y_mixed_hypotheses :
  ymix_files <> [] /\ existsb is_auto_bin ymix_base = true /\
  (forall s, In s ymix_files -> forall b, In b (s_bins s) -> is_low b = false) /\
  (forall b, In b ymix_base -> is_low b = false) /\
  (forall s, In s ymix_files -> centred_like None ymix_base s 0 /\ sexed_like None ymix_sexes ymix_base s 0) /\
  chr_y_filter ymix_base None (nth 3 ymix_base (mkBin "" 0 0 "" 0 None None)) = true /\
  center_shift median true true None ymix_base = Some 0.
Proof. exact ymix_hypotheses. Qed.

Theorem C05_sex_levels_y_mixed_refuted :
  consensus_log2 (block_column false None ymix_sexes true ymix_files 3) == -3 # 4 /\
  ~ consensus_log2 (block_column false None ymix_sexes true ymix_files 3) == -1 /\
  ~ consensus_spread_sq (block_column false None ymix_sexes true ymix_files 3) == 0.
Proof. exact sex_levels_y_mixed_refuted. Qed.

(* ---- C05_flat ------------------------------------------------------------------------------------------------ *)
(* outside the open finding's situation (male reference AND a PAR build AND a bin inside PAR-Y) *)
Theorem C05_flat : forall exp2 hap build T A r,
  let t := flat_table T A in
  In r (flat_reference exp2 hap build T A) ->
  ~ (hap = true /\ exists p, build = Some p /\ r_chrom r = y_label t /\
       inside_par (par_y p) (r_start r) (r_end r) = true) ->
  r_log2 r == flat_level hap (option_map par_x build) (x_label t) (y_label t)
                (r_chrom r) (r_start r) (r_end r)
  /\ r_spread_sq r == 0.
Proof. exact flat_levels. Qed.

Theorem C05_flat_bins : forall exp2 hap build T A,
  map ref_key (flat_reference exp2 hap build T A) = map key_of (flat_table T A) /\
  Permutation (T ++ A) (flat_table T A) /\
  regions_sorted bin_proj (flat_table T A).
Proof.
  intros. split; [apply flat_reference_keys|]. split; [apply flat_table_perm|apply flat_table_sorted].
Qed.

(* the faithful model reproduces the open finding c05-flat-pary-male-ref *)
Theorem C05_flat_pary_refuted :
  exists p, resolve_build "grch37" = Some p /\
  exists r, In r (flat_reference (fun _ => 0) true (Some p)
                    [mkBin "chr1" 100 200 "A" 0 None None; mkBin "chrX" 3000000 3000100 "B" 0 None None;
                     mkBin "chrY" 20000 20100 "C" 0 None None; mkBin "chrY" 5000000 5000100 "D" 0 None None] [])
            /\ r_chrom r = "chrY"%string /\ r_start r = 20000%Z /\ r_log2 r == 0 /\ ~ r_log2 r == -1.
Proof. exact flat_pary_refuted. Qed.

(* ---- C05_gc_rmask --------------------------------------------------------------------------------------------- *)
Theorem C05_gc_rmask : forall s start stop,
  fst (bin_gc_lo s start stop) == gc_fraction (bases_of s start stop) /\
  snd (bin_gc_lo s start stop) == rmask_fraction (bases_of s start stop).
Proof. exact bin_gc_lo_spec. Qed.

Theorem C05_gc_rmask_bases : forall (s : list ascii) start stop i d,
  (0 <= start)%Z -> (i < Z.to_nat (stop - start))%nat ->
  nth i (bases_of s start stop) d = nth (Z.to_nat start + i) s d.
Proof. exact (@bases_of_nth ascii). Qed.

(* the gc / rmask columns of the POOLED reference (Model/Reference.v pool_gc: load_sample_block's ref_columns and
   combine_probes' concatenation).  With a FASTA: gc -- when do_gc -- is the G+C fraction of the unambiguous bases of
   the bin's own sequence, for target and antitarget bins alike; rmask -- when do_rmask -- is the lowercase fraction,
   for the antitarget bins only: the target block is loaded with fix_rmask=False, so target bins hold NaN (None). *)
Theorem C05_pooled_gc_rmask : forall seq_of do_gc do_rmask tbins abins tgc agc r,
  In r (snd (pool_gc (Some seq_of) do_gc do_rmask tbins abins tgc agc)) ->
  In (g_bin r) (tbins ++ abins) /\
  (if do_gc then exists g, g_gc r = Some g /\ g == gc_fraction (bin_seq seq_of (g_bin r)) else g_gc r = None) /\
  match g_rmask r with
  | Some m => do_rmask = true /\ In (g_bin r) abins /\ m == rmask_fraction (bin_seq seq_of (g_bin r))
  | None => do_rmask = false \/ In (g_bin r) tbins
  end.
Proof. exact pool_gc_fasta. Qed.

(* Without a FASTA there is no rmask column, and the gc column of each block is taken over, row for row, from the gc
   column of the block's first file by sample id (import-picard files), when do_gc and that file has one. *)
Theorem C05_pooled_gc_first_file : forall do_gc do_rmask tbins abins tgc agc,
  snd (pool_gc None do_gc do_rmask tbins abins tgc agc) =
  sort_regions (fun r => bin_proj (g_bin r))
    (gc_rows tbins (if do_gc then tgc else None) None ++
     match abins with [] => [] | _ => gc_rows abins (if do_gc then agc else None) None end) /\
  snd (fst (pool_gc None do_gc do_rmask tbins abins tgc agc)) = false.
Proof. exact pool_gc_nofasta. Qed.

(* ---- the hypotheses are satisfiable: a cohort of two females and a male, depths 0 / +1 / -1/2 --------- *)
Definition ex_bins (d : Q) (male : bool) : list bin :=
  [mkBin "chr1" 0 100 "G1" (qadd 0 d) (Some 1) None;
   mkBin "chr1" 200 300 "G1" (qadd (1 # 2) d) (Some 1) None;
   mkBin "chr2" 0 100 "G2" (qadd (-1 # 4) d) (Some 1) None;
   mkBin "chrX" 0 100 "GX" (qadd (if male then -1 else 0) d) (Some 1) None;
   mkBin "chrY" 0 100 "GY" (qadd (if male then -1 else -7) d) (Some 1) None].
Definition ex_files : list sample :=
  [mkSample "b" (ex_bins 1 false) [1; 1; 1; 1; 1]; mkSample "a" (ex_bins 0 false) [1; 1; 1; 1; 1];
   mkSample "c" (ex_bins (-1 # 2) true) [1; 1; 1; 1; 1]].
Definition ex_sexes : list (string * bool) := [("a"%string, true); ("b"%string, true); ("c"%string, false)].

(* male reference: X at -1, Y at -1; the autosomal profile 0, 1/2, -1/4 is centred by its median of
   chromosome medians (0): log2 = profile, spread^2 = 0 everywhere *)
Example C05_example_male_reference :
  match pool true None ex_sexes ex_files [] with
  | ROk rows => map (fun r => (Qred (r_log2 r), Qred (r_spread_sq r))) rows
                = [(0, 0); (1 # 2, 0); (-1 # 4, 0); (-1 # 1, 0); (-1 # 1, 0)]
  | RErr _ => False
  end.
Proof. vm_compute. reflexivity. Qed.

Example C05_example_female_reference :
  match pool false None ex_sexes ex_files [] with
  | ROk rows => map (fun r => (Qred (r_log2 r), Qred (r_spread_sq r))) rows
                = [(0, 0); (1 # 2, 0); (-1 # 4, 0); (0, 0); (-1 # 1, 0)]
  | RErr _ => False
  end.
Proof. vm_compute. reflexivity. Qed.

(* a file with one bin end moved is rejected *)
Example C05_example_rejected :
  pool false None ex_sexes
    (mkSample "d" [mkBin "chr1" 0 101 "G1" 0 (Some 1) None] [1] :: ex_files) [] = RErr "RuntimeError".
Proof. vm_compute. reflexivity. Qed.

(* the regression of 2c65616: column [0; -1; 1] has location 0 and variance 245760000/350475841
   (spread 0.8374), not the MAD fallback 1.4826 *)
Example C05_example_cancelling_column :
  let col := [0; -1; 1] in
  Qred (ref_biloc col) = 0 /\ Qred (ref_bivar_sq col (ref_biloc col)) = 245760000 # 350475841.
Proof. vm_compute. split; reflexivity. Qed.

(* ---- source ties (DESIGN 9.4): bodies translated from cnvlib/reference.py / cnary.py on every run -------------- *)
(* shift_sex_chroms per bin: add the flat pseudo-sample; female (sexes.get true): Y := -1; otherwise X and Y += 1 *)
Theorem C05_source_shift_sex : forall is_xx fl xm ym v,
  shift_one is_xx (fl, xm, ym) v == fn_shift_sex v is_xx fl xm ym.
Proof. exact fn_shift_sex_eq. Qed.

(* a whole sample row of all_logr (corrections off): centre, then every bin through the translated shift, started
   from the translated expect_flat_log2 and the X / Y masks of the block's first file *)
Theorem C05_source_shift_sex_row : forall hap build first sexes skip_low s,
  eqQ (sample_logr build sexes skip_low (sex_rows hap build first) s)
      (map (fun p => fn_shift_sex (b_log2 (snd p)) (sample_is_xx sexes (s_id s))
                       (fn_expect_flat 0 hap (chr_x_filter first build (fst p)) (chr_y_filter first build (fst p))
                                       (chr_y_filter first None (fst p)))
                       (chr_x_filter first build (fst p)) (chr_y_filter first build (fst p)))
           (combine first (center_all median true skip_low build (s_bins s)))).
Proof. exact fn_shift_sex_row. Qed.

(* calculate_gc_lo: both fractions from the eight letter counts, (0, 0) when no unambiguous base *)
Theorem C05_source_gc_lo : forall s,
  let p := gc_lo s in
  let q := fn_calculate_gc_lo (count_char "a" s) (count_char "t" s) (count_char "A" s) (count_char "T" s)
                              (count_char "g" s) (count_char "c" s) (count_char "G" s) (count_char "C" s) in
  fst p == fst q /\ snd p == snd q.
Proof. exact fn_gc_lo_eq. Qed.

(* ================================================================================================================== *)
(* ---- C05_bounded_noise: the statistical clauses ("spread ~ 0", X / Y "~ -1 / 0 / -1") as deterministic theorems ---- *)
(* Corrections off; any number k >= 1 of files, any bins, exact rational arithmetic.  A block (the target files, or
   the antitarget files) is a BOUNDED-NOISE cohort around a profile `base` with noise level eps when every file s is,
   for some per-file constant d (its depth), within eps of profile + d at every bin the centre is taken over
   (autosomes, and PAR-X with a build): [noisy_like build base eps s d]; the files may show anything elsewhere.
   [sexed_near] adds: X bins within eps of profile + d (females) / profile + d - 1 (males), Y bins of males within
   eps of profile + d - 1 (females: anything).  [no_low]: target files hold no null-coverage bin (the centring
   would drop it).  c is the profile's own centring shift, so b_log2 b + c is the CENTRED profile. *)

(* the lemma under everything: the median is 1-Lipschitz in the sup norm (l' is l + d up to e in every coordinate) *)
Theorem C05_median_lipschitz : forall d e l l',
  l <> [] -> Forall2 (fun x y => Qabs (y - (x + d)) <= e) l l' ->
  Qabs (median l' - (median l + d)) <= e.
Proof. exact median_lipschitz. Qed.

(* centring moves a file by the median of its per-chromosome medians, which is within eps of (the profile's - d) *)
Theorem C05_bounded_noise_centring : forall d e skip build t t',
  Forall2 (bin_near d e (auto_sel t build)) t t' ->
  existsb is_auto_bin t = true ->
  (skip = true -> (forall b, In b t -> is_low b = false) /\ (forall b, In b t' -> is_low b = false)) ->
  exists c c', center_shift median true skip build t = Some c /\
               center_shift median true skip build t' = Some c' /\ Qabs (c' - (c - d)) <= e.
Proof. exact center_shift_near. Qed.

(* one column, whatever it comes from: all its values (the flat pseudo-sample is one of them) within r of v  =>
   the reference log2 within r of v -- by the RANGE property of the biweight location alone -- and
   spread^2 <= 62 r^2 (midvariance as coded: c = 9, scale floor 1e-3, MAD fallback 1.4826 MAD) *)
Theorem C05_bounded_noise_column : forall col v r,
  (2 <= length col)%nat -> (forall x, In x col -> Qabs (x - v) <= r) ->
  Qabs (consensus_log2 col - v) <= r /\ consensus_spread_sq col <= 62 * (r * r).
Proof. exact column_near. Qed.

(* 1. + 2.  A bin the centre is taken over (autosomal, PAR-X).  v = centred profile + flat shift (the flat level
   is 0 there).  Every file's centred, shifted value is within 2 eps of v (eps of noise + eps the centring moved);
   the column is flat :: those values, so with R = max (2 eps) |flat - v| the reference log2 is within R of v and
   spread^2 <= 62 R^2; when the centred profile is 0 at the bin (= the flat level), R = 2 eps and
   spread^2 <= 248 eps^2. *)
Theorem C05_bounded_noise_log2 : forall hap build sexes skip files base eps,
  files <> [] -> existsb is_auto_bin base = true -> no_low skip base files ->
  (forall s, In s files -> exists d, noisy_like build base eps s d) ->
  forall i d0, (i < length base)%nat -> auto_sel base build (nth i base d0) = true ->
  exists c, center_shift median true skip build base = Some c /\
    let b := nth i base d0 in
    let fl := flat_at hap build base b in
    let v := b_log2 b + c + fl in
    let R := noise_radius eps fl v in
    fl == 0 /\
    (forall s, In s files -> Qabs (sample_value hap build sexes skip (block_bins files) i s - v) <= 2 * eps) /\
    Qabs (consensus_log2 (block_column hap build sexes skip files i) - v) <= R /\
    consensus_spread_sq (block_column hap build sexes skip files i) <= spread_K_radius * (R * R) /\
    (b_log2 b + c == 0 ->
       Qabs (consensus_log2 (block_column hap build sexes skip files i) - v) <= 2 * eps /\
       consensus_spread_sq (block_column hap build sexes skip files i) <= spread_K * (eps * eps)).
Proof. exact bounded_noise_auto. Qed.

(* the same theorem read for the spread alone, with the constants written out: K = 62 per squared radius,
   248 = 62 * 4 per eps^2 *)
Theorem C05_bounded_noise_spread : forall hap build sexes skip files base eps,
  files <> [] -> existsb is_auto_bin base = true -> no_low skip base files ->
  (forall s, In s files -> exists d, noisy_like build base eps s d) ->
  forall i d0, (i < length base)%nat -> auto_sel base build (nth i base d0) = true ->
  exists c, center_shift median true skip build base = Some c /\
    let a := b_log2 (nth i base d0) + c in
    consensus_spread_sq (block_column hap build sexes skip files i)
      <= 62 * (Qmax2 (2 * eps) (Qabs a) * Qmax2 (2 * eps) (Qabs a)) /\
    (a == 0 -> consensus_spread_sq (block_column hap build sexes skip files i) <= 248 * (eps * eps)).
Proof. exact bounded_noise_spread. Qed.

(* 3.  X bins of any male / female mix: with a the bin's centred baseline, the reference X lies within
   max (2 eps) |a| of a - 1 (male reference) / a (female reference); for a = 0: within 2 eps of -1 / 0. *)
Theorem C05_bounded_noise_sex_x : forall (hap : bool) build sexes skip files base eps,
  files <> [] -> existsb is_auto_bin base = true -> no_low skip base files ->
  (forall s, In s files -> exists d, noisy_like build base eps s d /\ sexed_near build sexes base eps s d) ->
  forall i d0, (i < length base)%nat -> chr_x_filter base build (nth i base d0) = true ->
  exists c, center_shift median true skip build base = Some c /\
    let a := b_log2 (nth i base d0) + c in
    let v := a + (if hap then -1 else 0) in
    let R := Qmax2 (2 * eps) (Qabs a) in
    (forall s, In s files -> Qabs (sample_value hap build sexes skip (block_bins files) i s - v) <= 2 * eps) /\
    Qabs (consensus_log2 (block_column hap build sexes skip files i) - v) <= R /\
    consensus_spread_sq (block_column hap build sexes skip files i) <= spread_K_radius * (R * R) /\
    (a == 0 ->
       Qabs (consensus_log2 (block_column hap build sexes skip files i) - (if hap then -1 else 0)) <= 2 * eps /\
       consensus_spread_sq (block_column hap build sexes skip files i) <= spread_K * (eps * eps)).
Proof. exact bounded_noise_x. Qed.

(* Y bins of an all-male block: within max (2 eps) |a| of a - 1; for a = 0 within 2 eps of -1 *)
Theorem C05_bounded_noise_sex_y_males : forall hap build sexes skip files base eps,
  files <> [] -> existsb is_auto_bin base = true -> no_low skip base files ->
  (forall s, In s files -> exists d, noisy_like build base eps s d /\ sexed_near build sexes base eps s d) ->
  (forall s, In s files -> sample_is_xx sexes (s_id s) = false) ->
  forall i d0, (i < length base)%nat -> chr_y_filter base build (nth i base d0) = true ->
  exists c, center_shift median true skip build base = Some c /\
    let a := b_log2 (nth i base d0) + c in
    let v := a - 1 in
    let R := Qmax2 (2 * eps) (Qabs a) in
    (forall s, In s files -> Qabs (sample_value hap build sexes skip (block_bins files) i s - v) <= 2 * eps) /\
    Qabs (consensus_log2 (block_column hap build sexes skip files i) - v) <= R /\
    consensus_spread_sq (block_column hap build sexes skip files i) <= spread_K_radius * (R * R) /\
    (a == 0 ->
       Qabs (consensus_log2 (block_column hap build sexes skip files i) - -1) <= 2 * eps /\
       consensus_spread_sq (block_column hap build sexes skip files i) <= spread_K * (eps * eps)).
Proof. exact bounded_noise_y_males. Qed.

(* Y bins of an all-female block: exactly -1 with spread 0 under any noise (females are SET to -1 there) *)
Theorem C05_bounded_noise_sex_y_females : forall hap build sexes skip files base eps,
  files <> [] -> existsb is_auto_bin base = true -> no_low skip base files ->
  (forall s, In s files -> exists d, noisy_like build base eps s d /\ sexed_near build sexes base eps s d) ->
  (forall s, In s files -> sample_is_xx sexes (s_id s) = true) ->
  forall i d0, (i < length base)%nat -> chr_y_filter base build (nth i base d0) = true ->
  consensus_log2 (block_column hap build sexes skip files i) == -1 /\
  consensus_spread_sq (block_column hap build sexes skip files i) == 0.
Proof. exact bounded_noise_y_females. Qed.

(* Y bins of a MIXED block whose baseline is the autosomal centre (a = 0): females are at -1 exactly, males within
   2 eps of -1, the flat level is -1: within 2 eps of -1.  For a <> 0 a mixed column is not constant even without
   noise: C05_sex_levels_y_mixed_refuted above stays the sharp counter-example. *)
Theorem C05_bounded_noise_sex_y_mixed : forall hap build sexes skip files base eps,
  files <> [] -> existsb is_auto_bin base = true -> no_low skip base files ->
  (forall s, In s files -> exists d, noisy_like build base eps s d /\ sexed_near build sexes base eps s d) ->
  0 <= eps ->
  forall i d0, (i < length base)%nat -> chr_y_filter base build (nth i base d0) = true ->
  exists c, center_shift median true skip build base = Some c /\
    (b_log2 (nth i base d0) + c == 0 ->
     (forall s, In s files -> Qabs (sample_value hap build sexes skip (block_bins files) i s - -1) <= 2 * eps) /\
     Qabs (consensus_log2 (block_column hap build sexes skip files i) - -1) <= 2 * eps /\
     consensus_spread_sq (block_column hap build sexes skip files i) <= spread_K * (eps * eps)).
Proof. exact bounded_noise_y_mixed. Qed.

(* 4.  The property's tolerance: |delta| <= 0.15 is reached by 2 eps at eps = 3/40 = 0.075; the literal constants *)
Theorem C05_bounded_noise_tolerance :
  spread_K_radius == 62 /\ spread_K == 248 /\ tolerance == 15 # 100 /\ tolerance_eps == 75 # 1000 /\
  (forall eps, eps <= tolerance_eps -> 2 * eps <= tolerance) /\
  (forall eps, 0 <= eps -> eps <= 1 # 105 -> spread_K * (eps * eps) <= tolerance * tolerance).
Proof.
  split; [reflexivity|]. split; [reflexivity|]. split; [reflexivity|]. split; [reflexivity|].
  split; [exact tolerance_radius|exact tolerance_spread].
Qed.

(* ... instantiated: a bounded-noise cohort with eps <= 0.075 whose profile is centred at 0 at an autosomal bin has
   its reference log2 there within 0.15 of the centred profile + flat shift *)
Corollary C05_bounded_noise_log2_at_tolerance : forall hap build sexes skip files base eps,
  files <> [] -> existsb is_auto_bin base = true -> no_low skip base files ->
  (forall s, In s files -> exists d, noisy_like build base eps s d) ->
  eps <= 75 # 1000 ->
  forall i d0, (i < length base)%nat -> auto_sel base build (nth i base d0) = true ->
  exists c, center_shift median true skip build base = Some c /\
    (b_log2 (nth i base d0) + c == 0 ->
     Qabs (consensus_log2 (block_column hap build sexes skip files i)
           - (b_log2 (nth i base d0) + c + flat_at hap build base (nth i base d0))) <= 15 # 100).
Proof. exact bounded_noise_auto_tolerance. Qed.

(* ... and X within 0.15 of -1 (male reference) / 0 (female reference), for any sex mix *)
Corollary C05_bounded_noise_sex_x_at_tolerance : forall (hap : bool) build sexes skip files base eps,
  files <> [] -> existsb is_auto_bin base = true -> no_low skip base files ->
  (forall s, In s files -> exists d, noisy_like build base eps s d /\ sexed_near build sexes base eps s d) ->
  eps <= 75 # 1000 ->
  forall i d0, (i < length base)%nat -> chr_x_filter base build (nth i base d0) = true ->
  exists c, center_shift median true skip build base = Some c /\
    (b_log2 (nth i base d0) + c == 0 ->
     Qabs (consensus_log2 (block_column hap build sexes skip files i) - (if hap then -1 else 0)) <= 15 # 100).
Proof. exact bounded_noise_x_tolerance. Qed.

(* the hypotheses are satisfiable with eps > 0 (a female and two males, depths 0 / 1 / -1/2, eps = 1/16; the
   profile's centring shift is 0) ... *)
Theorem C05_bounded_noise_hypotheses :
  nz_files <> [] /\ existsb is_auto_bin nz_base = true /\ no_low true nz_base nz_files /\ 0 < nz_eps /\
  center_shift median true true None nz_base = Some 0 /\
  (forall s, In s nz_files ->
     exists d, noisy_like None nz_base nz_eps s d /\ sexed_near None nz_sexes nz_base nz_eps s d).
Proof. exact nz_hypotheses. Qed.

(* ... and the bounds are not vacuous.  A second cohort (flat profile, two males and a female, eps = 1/16, noise laid
   out so that every column is symmetric about its median: the exact rational evaluation then stops after one step)
   meets the hypotheses as well ... *)
Theorem C05_bounded_noise_hypotheses_2 :
  sy_files <> [] /\ existsb is_auto_bin sy_base = true /\ no_low true sy_base sy_files /\
  center_shift median true true None sy_base = Some 0 /\
  (forall s, In s sy_files ->
     exists d, noisy_like None sy_base nz_eps s d /\ sexed_near None sy_sexes sy_base nz_eps s d).
Proof. exact sy_hypotheses. Qed.

(* ... and its pooled reference (both reference sexes) is 1/32, 0, -1/32 on each autosome, x + 1/32 on X and
   -1 + 1/32 on Y: off the ideal levels 0 / x / -1 but within 2 eps = 1/8 of them, with spread^2 > 0 in six of the
   eight bins and <= 248 eps^2 in all (sy_check) *)
Example C05_example_bounded_noise : sy_check true = true /\ sy_check false = true.
Proof. vm_compute. split; reflexivity. Qed.

(* the constant 62 cannot be lowered below 400/361 = 1.108: flat -1 and one sample at +1 are within r = 1 of
   v = 0, the location is 0, spread^2 = 400/361 *)
Example C05_example_spread_lower :
  Qred (consensus_log2 [-1; 1]) = 0 /\ Qred (consensus_spread_sq [-1; 1]) = 400 # 361.
Proof. exact spread_K_radius_lower. Qed.

(* ============================================================================================== *)
(* loop ties / function-body ties, second batch (LOOP_TIES_GUIDE.md; specs tools/fnspecs/reference_loops.py): dispatch code
   and per-row code of cnvlib/reference.py translated on every run, each equal to the model's function *)
From CNV Require Proofs.FnRefColumns.

(* load_sample_block's gc / rmask decision per bin: the cells of the block's optional gc / rmask columns are the two
   results of the translated `if fa_fname and (fix_rmask or fix_gc): ... elif "gc" in cnarr1 and fix_gc: ...` *)
Theorem C05_source_ref_columns : forall fa name fix_gc fix_rmask gc_first bins i,
  name <> ""%string ->
  let r := Gen.FnRefColumns.fn_ref_columns (Proofs.FnRefColumns.fa_name fa name) fix_rmask fix_gc
             (fst (Proofs.FnRefColumns.stat_at fa bins i)) (snd (Proofs.FnRefColumns.stat_at fa bins i))
             (is_some_col gc_first) (Proofs.FnRefColumns.stored_at gc_first i) in
  Proofs.FnRefColumns.cell (block_gc fa fix_gc fix_rmask gc_first bins) i = fst r /\
  Proofs.FnRefColumns.cell (block_rmask fa fix_gc fix_rmask bins) i = snd r.
Proof. exact Proofs.FnRefColumns.fn_ref_columns_eq. Qed.

From CNV Require Proofs.FnRefFlatRow Proofs.FnRefBedRow.

(* do_reference_flat's column code per row: log2 is the flat level, depth is np.exp2 OF THAT VALUE (spread stays 0) *)
Theorem C05_source_flat_row : forall exp2 hap build targets antis fa (gs rs : bin -> Q),
  let t := flat_table targets antis in
  flat_reference exp2 hap build targets antis =
  map (fun b => let row := Gen.FnRefFlatRow.fn_flat_row exp2 (flat_at hap build t b) fa (gs b) (rs b) in
                mkRef (b_chrom b) (b_start b) (b_end b) (b_gene b)
                      (Proofs.FnRefFlatRow.flat_row_log2 row) (Proofs.FnRefFlatRow.flat_row_depth row) 0) t.
Proof. exact Proofs.FnRefFlatRow.fn_flat_row_eq. Qed.

(* ... its gc / rmask columns exist exactly when a FASTA is given, and then hold the row's two FASTA statistics *)
Theorem C05_source_flat_row_fasta : forall exp2 v fa g r,
  snd (fst (Gen.FnRefFlatRow.fn_flat_row exp2 v fa g r)) = (if String.eqb fa "" then None else Some g) /\
  snd (Gen.FnRefFlatRow.fn_flat_row exp2 v fa g r) = (if String.eqb fa "" then None else Some r).
Proof. exact Proofs.FnRefFlatRow.fn_flat_row_fasta. Qed.

(* bed2probes' column code per row: the spread of every row of the flat reference is the translated 0.0 *)
Theorem C05_source_bed_row_spread : forall exp2 hap build targets antis g h r,
  In r (flat_reference exp2 hap build targets antis) -> r_spread_sq r = qsq (snd (Gen.FnRefBedRow.fn_bed_row g h)).
Proof. exact Proofs.FnRefBedRow.fn_bed_row_spread. Qed.

Theorem C05_source_bed_row_gene : forall g h,
  fst (fst (Gen.FnRefBedRow.fn_bed_row g h)) = (if h then g else "-"%string) /\
  snd (fst (Gen.FnRefBedRow.fn_bed_row g h)) = 0.
Proof. exact Proofs.FnRefBedRow.fn_bed_row_gene. Qed.

From CNV Require Proofs.FnRefSexesLib Proofs.FnRefSexesInfer Proofs.FnRefSexesMerge Proofs.FnRefSexesGiven.

(* the `sexes` dictionary.  infer_sexes' loop, the generated iteration folded over the files from {}: the model's
   infer_dict (a file without rows or without a guess leaves no entry; a later file of the same sample overrides) *)
Theorem C05_source_infer_sexes : forall files k,
  Proofs.FnRefSexesInfer.infer_loop (fun _ => None) files k =
  dict_get (infer_dict (map Proofs.FnRefSexesInfer.f_id files) (map Proofs.FnRefSexesInfer.f_effective files)) k.
Proof. exact Proofs.FnRefSexesInfer.fn_infer_loop_eq. Qed.

(* do_reference's merge loop, one generated iteration: an antitarget call always ends up as the sample's entry
   ("preferring antitargets"), whatever the target call was ... *)
Theorem C05_source_sexes_merge_step : forall sid a p,
  Gen.FnRefSexesMerge.fn_merge_step sid (Some a) p p = Some a.
Proof. exact Proofs.FnRefSexesMerge.fn_merge_step_some. Qed.

(* ... and the loop over the antitarget calls, started from the target calls, leaves the model's sexes_inferred *)
Theorem C05_source_sexes_inferred : forall tids tguess aids aguess k,
  Proofs.FnRefSexesMerge.merge_loop (dict_get (infer_dict tids tguess)) (infer_dict aids aguess) k =
  dict_get (sexes_inferred tids tguess aids aguess) k.
Proof. exact Proofs.FnRefSexesMerge.fn_sexes_inferred_eq. Qed.

(* female_samples given: the generated iteration folded over the target files leaves the model's sexes_given *)
Theorem C05_source_sexes_given : forall female targets k,
  Proofs.FnRefSexesGiven.given_loop female (fun _ => None) (map s_id targets) k = dict_get (sexes_given female targets) k.
Proof. exact Proofs.FnRefSexesGiven.fn_given_loop_eq. Qed.

From CNV Require Proofs.FnRefSummarize.

(* summarize_info per bin (= per column of all_logr / all_depths): the model's consensus is the translated code -- log2 the
   biweight location of the log2 column, depth that of the depth column, spread the biweight midvariance of the log2 column
   with initial = the log2 centre (the model carries its square) *)
Theorem C05_source_summarize : forall b col dcol (bivar : list Q -> Q -> Q),
  let r := Gen.FnRefSummarize.fn_summarize col dcol ref_biloc bivar in
  let c := consensus (b, col, dcol) in
  r_log2 c = fst (fst r) /\ r_depth c = snd (fst r) /\ snd r = bivar col (r_log2 c) /\
  r_spread_sq c = ref_bivar_sq col (r_log2 c).
Proof. exact Proofs.FnRefSummarize.fn_summarize_eq. Qed.

Theorem C05_source_summarize_spread : forall b col dcol (bivar : list Q -> Q -> Q),
  (forall a i, qsq (bivar a i) == ref_bivar_sq a i) ->
  r_spread_sq (consensus (b, col, dcol)) == qsq (snd (Gen.FnRefSummarize.fn_summarize col dcol ref_biloc bivar)).
Proof. exact Proofs.FnRefSummarize.fn_summarize_spread. Qed.

From CNV Require Proofs.FnRefBlock Proofs.FnRefBias.

(* load_sample_block's matrices, column by column: for every bin, the generated initial lists (flat pseudo-sample first,
   then the first file) with the generated loop iteration folded over the remaining files ARE the columns of load_block's
   depth and log2 matrices *)
Theorem C05_source_block_columns : forall exp2 hap build sexes skip_low files first rest bins logr depths lg i,
  sort_samples files = first :: rest ->
  load_block hap build sexes skip_low files = BlkOk bins logr depths ->
  bins <> [] ->
  let rows := sex_rows hap build (s_bins first) in
  let rowL := fun s => nth i (sample_logr build sexes skip_low rows s) 0 in
  let rowD := fun s => nth i (s_depth s) 0 in
  fold_left (Proofs.FnRefBlock.block_iter exp2 rowD rowL lg) rest
            (Gen.FnRefBlock.fn_block_init exp2 true (rowD first) lg (nth i (expect_flat hap build (s_bins first)) 0)
                                          (rowL first)) =
  (column depths i, column logr i).
Proof. exact Proofs.FnRefBlock.fn_load_block_columns. Qed.

(* bias_correct_logr's dispatch: with the three corrections off (the model's case) the table whose log2 is returned is the
   centred, sex-shifted table itself ... *)
Theorem C05_source_bias_off : forall id n_cov n_rows has_gc has_rmask by_gc by_rmask by_edge,
  Gen.FnRefBias.fn_bias_table id n_cov n_rows has_gc has_rmask false false false by_gc by_rmask by_edge = id.
Proof. exact Proofs.FnRefBias.fn_bias_table_off. Qed.

(* ... as it is for a sample with at most half of its bins covered, whatever the flags; otherwise gc, rmask, edge run in
   that order, each on the previous result *)
Theorem C05_source_bias_mostly_low : forall id n_cov n_rows has_gc has_rmask fg fr fe by_gc by_rmask by_edge,
  (n_cov <= n_rows / 2)%Z ->
  Gen.FnRefBias.fn_bias_table id n_cov n_rows has_gc has_rmask fg fr fe by_gc by_rmask by_edge = id.
Proof. exact Proofs.FnRefBias.fn_bias_table_mostly_low. Qed.

Theorem C05_source_bias_corrections : forall id n_cov n_rows has_gc has_rmask fg fr fe by_gc by_rmask by_edge,
  (n_rows / 2 < n_cov)%Z ->
  Gen.FnRefBias.fn_bias_table id n_cov n_rows has_gc has_rmask fg fr fe by_gc by_rmask by_edge =
  if fe then by_edge else if has_rmask && fr then by_rmask else if has_gc && fg then by_gc else id.
Proof. exact Proofs.FnRefBias.fn_bias_table_corrections. Qed.
