(* C18 -- VCF genotypes become allele frequencies and per-segment BAF as defined.
   Property theorems only; proofs live in Proofs/Vcf.v, Proofs/VBaf.v, Proofs/VcfLib.v.
   The model (Model/Vcf.v, Model/VBaf.v) works on the structured VCF pysam hands
   to the code; literal numbers below are those of the property text. *)
From CNV Require Import Base.Prelude Base.Str Model.Vcf Model.VBaf Spec.Vcf
  Proofs.VcfLib Proofs.Vcf Proofs.VBaf Proofs.VBafLib Proofs.FnVary.
From CNV Require Gen.FnVary Gen.FnHet Gen.FnVcfRead Gen.FnCallBaf Gen.FnFormatsVcfio.

(* ---- C18_rows: one row per record, fields as defined ---------------------- *)

(* zygosity 0 / 0.5 / 1 from the genotype *)
Theorem C18_rows_zygosity : forall gt, gt <> [] -> zygosity_spec gt (zygosity_of gt).
Proof. exact zygosity_of_spec. Qed.

(* depth, alt count, alt_freq = count / depth of one sample's call *)
Theorem C18_rows_genotype : forall r c, s_gt c <> [] -> geno_spec r c (geno r c).
Proof. exact geno_geno_spec. Qed.

(* every row of the table is the row of one record of the file: 0-based start = POS - 1,
   the record's contig / ref / alt / SOMATIC flag, and the columns of the chosen sample's
   (and chosen normal's) own call in that record -- whatever filters were asked for *)
Theorem C18_rows_sound : forall h recs ssel nsel md sr ss t row,
  read_vcf h recs ssel nsel md sr ss = Ok t -> In row (t_rows t) ->
  exists p r, choose_samples h ssel nsel = Ok p /\ In r recs /\
    row_from (fst (chosen_indices h p)) (snd (chosen_indices h p)) r row.
Proof. exact read_row_sound. Qed.

Theorem C18_rows_sample_columns : forall i nidx r row,
  row_from (Some i) nidx r row -> Forall (fun c => s_gt c <> []) (r_calls r) ->
  exists c, nth_error (r_calls r) i = Some c /\ geno_spec r c (v_t row).
Proof. exact row_from_geno_spec. Qed.

Theorem C18_rows_normal_columns : forall i j r row,
  row_from (Some i) (Some j) r row -> Forall (fun c => s_gt c <> []) (r_calls r) ->
  exists cn g, nth_error (r_calls r) j = Some cn /\ v_n row = Some g /\ geno_spec r cn g.
Proof. exact row_from_geno_spec_normal. Qed.

(* without filters: one row per biallelic record, and every alt allele of every record has its row *)
Theorem C18_rows_one_per_record : forall h recs ssel nsel t,
  read_vcf h recs ssel nsel None false false = Ok t -> Forall biallelic recs ->
  length (t_rows t) = length recs.
Proof. exact read_one_row_per_record. Qed.

Theorem C18_rows_complete : forall h recs ssel nsel t r alt,
  read_vcf h recs ssel nsel None false false = Ok t -> In r recs -> In alt (real_alts r) ->
  exists row, In row (t_rows t) /\ row_spec r row /\ v_alt row = alt.
Proof. exact read_row_complete. Qed.

(* a VCF without records: a table without rows that still is paired exactly when a normal was
   chosen, whatever depth / somatic filters are asked for *)
Theorem C18_rows_empty_file : forall h ssel nsel md sr ss p,
  choose_samples h ssel nsel = Ok p ->
  read_vcf h [] ssel nsel md sr ss = Ok {| t_paired := truthy (snd p); t_rows := [] |}.
Proof. exact read_empty_file. Qed.

(* the paired normal's columns are there exactly when the chosen pair has a normal *)
Theorem C18_rows_paired_flag : forall h recs ssel nsel md sr ss t,
  read_vcf h recs ssel nsel md sr ss = Ok t ->
  exists p, choose_samples h ssel nsel = Ok p /\ t_paired t = truthy (snd p).
Proof. exact read_paired_flag. Qed.

(* ---- C18_choose: the documented selection rules as a decision table -------- *)

(* PEDIGREE-declared pairs first (whatever normal id is given) *)
Theorem C18_choose_pedigree_first : forall h d o rest nsel nid,
  NoDup (h_samples h) -> h_peds h = (d, o) :: rest -> peds_in_file h ->
  resolve (h_samples h) nsel = Ok nid -> selected_ok h nid ->
  choose_samples h SelNone nsel = Ok (Some d, Some o).
Proof. exact choose_pedigree_first. Qed.

(* a requested sample that is a declared tumour brings its declared normal *)
Theorem C18_choose_pedigree_sample : forall h s o rest nsel nid,
  NoDup (h_samples h) -> h_peds h <> [] -> peds_in_file h -> s <> ""%string -> In s (h_samples h) ->
  filter (fun p => String.eqb (fst p) s) (h_peds h) = (s, o) :: rest ->
  resolve (h_samples h) nsel = Ok nid -> selected_ok h nid ->
  choose_samples h (SelName s) nsel = Ok (Some s, Some o).
Proof. exact choose_pedigree_sample. Qed.

(* a requested sample that is not a declared tumour is read unpaired *)
Theorem C18_choose_pedigree_salvage : forall h s nsel nid,
  NoDup (h_samples h) -> h_peds h <> [] -> s <> ""%string -> In s (h_samples h) ->
  filter (fun p => String.eqb (fst p) s) (h_peds h) = [] ->
  resolve (h_samples h) nsel = Ok nid -> selected_ok h nid ->
  choose_samples h (SelName s) nsel = Ok (Some s, None).
Proof. exact choose_pedigree_salvage. Qed.

(* else the given tumour and normal ids *)
Theorem C18_choose_given_ids : forall h s n,
  NoDup (h_samples h) -> h_peds h = [] -> s <> ""%string -> n <> ""%string -> s <> n ->
  In s (h_samples h) -> In n (h_samples h) ->
  choose_samples h (SelName s) (SelName n) = Ok (Some s, Some n).
Proof. exact choose_given_ids. Qed.

Theorem C18_choose_normal_only : forall h n o rest,
  NoDup (h_samples h) -> h_peds h = [] -> n <> ""%string -> In n (h_samples h) ->
  filter (fun x => negb (String.eqb x n)) (h_samples h) = o :: rest ->
  choose_samples h SelNone (SelName n) = Ok (Some o, Some n).
Proof. exact choose_normal_only. Qed.

Theorem C18_choose_named_single : forall h s,
  NoDup (h_samples h) -> h_peds h = [] -> s <> ""%string -> In s (h_samples h) ->
  choose_samples h (SelName s) SelNone = Ok (Some s, None).
Proof. exact choose_named_single. Qed.

(* else the first sample *)
Theorem C18_choose_first_sample : forall h s0 rest,
  NoDup (h_samples h) -> h_peds h = [] -> h_samples h = s0 :: rest ->
  choose_samples h SelNone SelNone = Ok (Some s0, None).
Proof. exact choose_first_sample. Qed.

(* an index selects the sample at that position of the header *)
Theorem C18_choose_index : forall h i s nsel,
  0 <= i -> nth_error (h_samples h) (Z.to_nat i) = Some s ->
  choose_samples h (SelIdx i) nsel = choose_samples h (SelName s) nsel.
Proof. exact choose_index. Qed.

(* a negative index counts from the end of the header *)
Theorem C18_choose_negative_index : forall h i s nsel,
  - Z.of_nat (length (h_samples h)) <= i < 0 ->
  nth_error (h_samples h) (Z.to_nat (i + Z.of_nat (length (h_samples h)))) = Some s ->
  choose_samples h (SelIdx i) nsel = choose_samples h (SelName s) nsel.
Proof. exact choose_negative_index. Qed.

(* selectors that name no sample of the file are refused *)
Theorem C18_choose_unknown_sample : forall h s nsel,
  s <> ""%string -> ~ In s (h_samples h) -> exists e, choose_samples h (SelName s) nsel = Fail e.
Proof. exact choose_unknown_sample. Qed.

Theorem C18_choose_unknown_normal : forall h ssel n,
  n <> ""%string -> ~ In n (h_samples h) -> exists e, choose_samples h ssel (SelName n) = Fail e.
Proof. exact choose_unknown_normal. Qed.

Theorem C18_choose_index_out_of_range : forall h i nsel,
  i < - Z.of_nat (length (h_samples h)) \/ Z.of_nat (length (h_samples h)) <= i ->
  choose_samples h (SelIdx i) nsel = Fail IndexError.
Proof. exact choose_index_out_of_range. Qed.

(* ---- C18_filters ------------------------------------------------------------ *)

(* the filtered table is exactly the unfiltered table restricted to the rows whose (paired
   normal's, else own) depth reaches min_depth -- when there is depth information at all --
   and, with skip_somatic, not flagged SOMATIC *)
Theorem C18_filters : forall h recs ssel nsel md sr ss t t0,
  read_vcf h recs ssel nsel md sr ss = Ok t ->
  read_vcf h recs ssel nsel None sr false = Ok t0 ->
  Permutation (t_rows t) (filter (keep_spec md ss (t_rows t0)) (t_rows t0)).
Proof. exact read_filters. Qed.

Theorem C18_filters_hold : forall h recs ssel nsel md sr ss t,
  read_vcf h recs ssel nsel md sr ss = Ok t ->
  (ss = true -> Forall (fun r => v_somatic r = false) (t_rows t)) /\
  (forall m, md = Some m -> m <> 0 ->
     existsb (fun r => negb (g_depth (v_t r) =? 0)) (t_rows t) = true ->
     Forall (fun r => m <= filter_depth r) (t_rows t)).
Proof. exact read_filters_forall. Qed.

(* the defaults load_het_snps reads with: depth 20, somatic records skipped, frequency 1/4 fallback *)
Theorem C18_load_het_defaults :
  VcfDefaults.min_variant_depth = 20 /\ VcfDefaults.het_skip_somatic = true /\
  VcfDefaults.fallback_zygosity_freq = (1 # 4)%Q.
Proof. repeat split. Qed.

(* ---- C18_het ------------------------------------------------------------------ *)

(* zygosity_freq: below f -> 0, at or above 1 - f -> 1, else 1/2 *)
Theorem C18_het_zygosity_from_freq : forall het hom f,
  zyg_from_freq het hom f = zyg_from_freq_spec het hom f.
Proof. exact zyg_from_freq_eq. Qed.

(* the reader's zygosities are 0, 1/2 or 1 (precondition of the next theorems) *)
Theorem C18_het_rows_valid : forall h recs ssel nsel md sr ss t,
  read_vcf h recs ssel nsel md sr ss = Ok t -> Forall row_valid (t_rows t).
Proof. exact read_rows_valid. Qed.

(* when at least one record is germline-heterozygous, exactly those are kept, in order *)
Theorem C18_het : forall paired zf rows out,
  Forall row_valid rows ->
  load_het_core paired zf false rows = Ok out ->
  existsb germline_het (genotyped paired zf rows) = true ->
  map snd out = filter germline_het (genotyped paired zf rows).
Proof. exact load_het_exact. Qed.

(* the documented fallback: no heterozygous record at all => everything is kept
   (minus tumour-variant / normal-reference records when paired) *)
Theorem C18_het_fallback : forall paired zf rows out,
  Forall row_valid rows ->
  load_het_core paired zf false rows = Ok out ->
  existsb germline_het (genotyped paired zf rows) = false ->
  map snd out = if paired then filter (fun r => negb (inferred_somatic r)) (genotyped paired zf rows)
                else genotyped paired zf rows.
Proof. exact load_het_fallback. Qed.

(* hence "keeps exactly the germline-heterozygous records" is false for the faithful model *)
Theorem C18_het_exact_refuted :
  exists rows out, Forall row_valid rows /\ load_het_core false None false rows = Ok out /\
    map snd out <> filter germline_het rows.
Proof. exact load_het_exact_refuted. Qed.

(* ---- C18_baf -------------------------------------------------------------------- *)

(* the model's mirror is 1/2 +- |v - 1/2| *)
Theorem C18_baf_mirror : forall above v, (mirror above v == mirror_spec above v)%Q.
Proof. exact mirror_eq. Qed.

(* missing where no heterozygous variant lies in the range *)
Theorem C18_baf_missing : forall rows rg ah,
  (forall lr, In lr rows -> overlaps rg (snd lr) = false) ->
  series2value ah (hits_of rows rg) = XNaN.
Proof. exact hits_none. Qed.

(* ONE or more hits, any above_half: the median of the frequencies mirrored to one side of 1/2
   (the requested side, else that of the majority); on the requested side of 1/2; inside [0,1]
   for frequencies inside [0,1] *)
Theorem C18_baf : forall ah qs,
  qs <> [] ->
  exists m, series2value ah (map Fin qs) = Fin m /\
    is_median m (map (mirror (direction ah qs)) qs) /\
    (ah = Some true -> (1 # 2 <= m)%Q) /\
    (ah = Some false -> (m <= 1 # 2)%Q) /\
    (Forall (fun v => (0 <= v /\ v <= 1)%Q) qs -> (0 <= m /\ m <= 1)%Q).
Proof. exact baf_any. Qed.

(* unspecified direction = that of the majority: median of the raw values above 1/2 *)
Theorem C18_baf_majority : forall qs,
  qs <> [] -> direction None qs = Qlt_bool (1 # 2) (median_value qs).
Proof. exact direction_none. Qed.

(* a single hit with the majority direction is returned as it is, which IS its mirrored value *)
Theorem C18_baf_single_majority : forall x,
  series2value None [Fin x] = Fin x /\ (mirror (direction None [x]) x == x)%Q.
Proof. exact baf_single_majority. Qed.

(* a single hit with an explicit side is mirrored to that side (repaired in /repo 98a0701) *)
Theorem C18_baf_single_side : forall b x,
  exists m, series2value (Some b) [Fin x] = Fin m /\ (m == mirror_spec b x)%Q /\
    (b = true -> (1 # 2 <= m)%Q) /\ (b = false -> (m <= 1 # 2)%Q).
Proof. exact baf_single_side. Qed.

(* one value per range, in the order of the ranges, each from the heterozygous variants that
   overlap the range (TumorBoost-ed first when asked and a normal is there) *)
Theorem C18_baf_per_range : forall paired rows ranges ah boost,
  ranges <> [] ->
  baf_by_ranges paired rows ranges ah boost =
    Some (map (fun rg => series2value ah (hits_of (baf_source paired rows boost) rg)) ranges).
Proof. exact baf_by_ranges_shape. Qed.

(* no variant at all (e.g. a VCF without records): every range is missing *)
Theorem C18_baf_no_variants : forall paired ranges ah boost,
  ranges <> [] -> baf_by_ranges paired [] ranges ah boost = Some (map (fun _ => XNaN) ranges).
Proof. exact baf_by_ranges_empty. Qed.

(* het_frac_by_ranges: per range the fraction of (germline-)heterozygous variants among the variants
   overlapping it -- a number in [0,1], missing where there is none *)
Theorem C18_het_frac : forall hits,
  hits <> [] ->
  exists q, het_frac_value hits = Fin q /\
    (q == inject_Z (count_true hits) / inject_Z (Z.of_nat (length hits)))%Q /\ (0 <= q)%Q /\ (q <= 1)%Q.
Proof. exact het_frac_value_spec. Qed.

Theorem C18_het_frac_per_range : forall rows ranges,
  ranges <> [] ->
  het_frac_by_ranges rows ranges = Some (map (fun rg => het_frac_value (het_flags rows rg)) ranges).
Proof. exact het_frac_shape. Qed.

Theorem C18_het_frac_flags : forall rows rg,
  Forall (fun lr => row_valid (snd lr)) rows ->
  het_flags rows rg = map (fun lr => germline_het (snd lr)) (filter (fun lr => overlaps rg (snd lr)) rows).
Proof. exact het_flags_germline. Qed.

(* ---- C18_boost, C18_rescale ------------------------------------------------------- *)

Theorem C18_boost : forall t n,
  ((t < n)%Q \/ ~ (n == 1)%Q) -> exists q, boost_q t n = Fin q /\ (q == boost_spec t n)%Q.
Proof. exact boost_formula. Qed.

Theorem C18_boost_same : forall n, ~ (n == 1)%Q -> (boost_spec n n == 1 # 2)%Q.
Proof. exact boost_same. Qed.

Theorem C18_rescale : forall p o, (rescale_baf p o == rescale_spec p o)%Q.
Proof. exact rescale_formula. Qed.

Theorem C18_rescale_inverse : forall p t,
  ~ (p == 0)%Q -> (rescale_baf p (p * t + (1 - p) / 2) == t)%Q.
Proof. exact rescale_inverse. Qed.

(* the baf column of do_call: per segment the default BAF (majority direction, no TumorBoost) of the
   heterozygous variants, put through the purity formula exactly when 0 <> purity < 1 *)
Theorem C18_call_baf : forall paired rows ranges purity,
  rows <> [] -> ranges <> [] ->
  call_baf paired rows ranges purity =
    Some (map (fun rg =>
                 let b := series2value None (hits_of (heterozygous rows) rg) in
                 match purity_rescales purity with Some p => rescale_x p b | None => b end) ranges).
Proof. exact call_baf_spec. Qed.

Theorem C18_call_baf_rescales : forall p, ~ (p == 0)%Q -> (p < 1)%Q -> purity_rescales (Some p) = Some p.
Proof. exact purity_rescales_some. Qed.

Theorem C18_call_baf_pure : forall p, (1 <= p)%Q -> purity_rescales (Some p) = None.
Proof. exact purity_rescales_pure. Qed.

(* a missing BAF stays missing; a number becomes (obs - (1 - p)/2) / p *)
Theorem C18_call_baf_cell : forall p v,
  match v with
  | Fin q => exists q', rescale_x p v = Fin q' /\ (q' == rescale_spec p q)%Q
  | _ => rescale_x p v = v
  end.
Proof. exact rescale_x_cases. Qed.

(* ---- C18_attached ------------------------------------------------------------------- *)

(* load_het_snps (no TumorBoost): every kept row is a row of the table that was read, with its
   own coordinates, depth, count and frequencies (row-wise map and filter only) *)
Theorem C18_attached : forall paired zf rows out lr,
  load_het_core paired zf false rows = Ok out -> In lr out ->
  exists r, In r rows /\ same_site (snd lr) r.
Proof. exact load_het_attached. Qed.

(* the sort is a permutation of whole rows *)
Theorem C18_attached_sort : forall rows, Permutation (sort_rows rows) rows.
Proof. exact sort_rows_perm. Qed.

(* load_het_snps(tumor_boost=True): whatever rows were dropped before (any label pattern), every
   kept row has its own coordinates, depth, count and normal frequency, and its frequency is
   exactly TumorBoost of ITS OWN tumour and normal frequencies (repaired in /repo 1e91c33) *)
Theorem C18_attached_boost : forall paired zf rows out lr,
  load_het_core paired zf true rows = Ok out -> In lr out ->
  exists r, In r rows /\ same_locus (snd lr) r /\ g_freq (v_t (snd lr)) = boost_row r.
Proof. exact load_het_boost_attached. Qed.

(* ... and tumor_boost changes neither which rows are kept, nor their order, nor their labels *)
Theorem C18_attached_boost_same_rows : forall paired zf rows out,
  load_het_core paired zf true rows = Ok out ->
  exists out0, load_het_core paired zf false rows = Ok out0 /\
    map fst out = map fst out0 /\ Forall2 (fun a b => same_locus (snd a) (snd b)) out out0.
Proof. exact load_het_boost_same_rows. Qed.

(* any table, any labels: the assignment is row by row *)
Theorem C18_attached_boost_rowwise : forall rows,
  boost_assign rows = map (fun lr => (fst lr, set_freq (snd lr) (boost_row (snd lr)))) rows.
Proof. reflexivity. Qed.

(* baf_by_ranges(tumor_boost=True): the values summarised in a range are the TumorBoost values of
   exactly the rows overlapping that range, each from its own frequencies *)
Theorem C18_attached_boost_baf : forall rows rg,
  hits_of (boost_assign rows) rg
  = map (fun lr => boost_row (snd lr)) (filter (fun lr => overlaps rg (snd lr)) rows).
Proof. exact hits_of_boost_assign. Qed.

(* ---- hypotheses are satisfiable ------------------------------------------------------- *)

Definition ex_call (gt : list (option Z)) (a0 a1 d : Z) : scall :=
  {| s_gt := gt; s_ad := [Some a0; Some a1]; s_dp := Some d |}.

Definition ex_rec (pos : Z) (t n : scall) : vrec :=
  {| r_chrom := "chr1"; r_ckey := 0; r_pos := pos; r_ref := "A"; r_alts := ["G"%string];
     r_filter := ["PASS"%string]; r_somatic := false; r_info_dp := None; r_info_end := None;
     r_has_ad := true; r_has_dp := true; r_calls := [t; n] |}.

Definition ex_header : header := {| h_samples := ["T"; "N"]%string; h_peds := [("T", "N")]%string |}.

Definition ex_recs : list vrec :=
  [ex_rec 300 (ex_call [Some 0; Some 1] 8 32 40) (ex_call [Some 0; Some 1] 18 22 40);
   ex_rec 100 (ex_call [Some 0; Some 1] 10 30 40) (ex_call [Some 0; Some 1] 20 20 40);
   ex_rec 200 (ex_call [Some 0; Some 1] 30 10 40) (ex_call [Some 0; Some 0] 40 0 40)].

Example ex_choose : choose_samples ex_header SelNone SelNone = Ok (Some "T", Some "N")%string.
Proof. reflexivity. Qed.

Example ex_read :
  match read_vcf ex_header ex_recs SelNone SelNone (Some 20) false true with
  | Ok t => map (fun r => (v_start r, g_freq (v_t r))) (t_rows t)
  | Fail _ => []
  end = [(99, Fin (3 # 4)); (199, Fin (1 # 4)); (299, Fin (4 # 5))].
Proof. vm_compute. reflexivity. Qed.

Example ex_load_het :
  match load_het_snps ex_header ex_recs SelNone SelNone (Some 20) None false with
  | Ok t => map (fun lr => (fst lr, v_start (snd lr))) (ht_rows t)
  | Fail _ => []
  end = [(0, 99); (2, 299)].
Proof. vm_compute. reflexivity. Qed.

(* record 200 is dropped (tumour het, normal ref): labels 0 and 2 survive, each with its own boost *)
Example ex_load_het_boost :
  match load_het_snps ex_header ex_recs SelNone SelNone (Some 20) None true with
  | Ok t => map (fun lr => (fst lr, v_start (snd lr), g_freq (v_t (snd lr)))) (ht_rows t)
  | Fail _ => []
  end = [(0, 99, Fin (3 # 4)); (2, 299, Fin (7 # 9))].
Proof. vm_compute. reflexivity. Qed.

Example ex_baf :
  series2value (Some true) [Fin (1 # 4); Fin (7 # 10); Fin (4 # 5)] = Fin (3 # 4).
Proof. vm_compute. reflexivity. Qed.

Example ex_baf_single : series2value (Some false) [Fin (7 # 10)] = Fin (3 # 10).
Proof. vm_compute. reflexivity. Qed.

Example ex_empty_file :
  read_vcf ex_header [] SelNone SelNone (Some 20) false true = Ok {| t_paired := true; t_rows := [] |}.
Proof. reflexivity. Qed.

(* ======================================================================================================
   Extension: source ties (function bodies regenerated from /repo on every run, Gen/FnVary.v, Gen/FnHet.v,
   Gen/FnVcfRead.v, Gen/FnCallBaf.v), TumorBoost edges and range, any summary function, where the majority
   direction is taken, load_het_snps as one decision table.
   ====================================================================================================== *)
Local Open Scope Q_scope.

(* ---- C18_source_*: the Python bodies, translated, ARE the model functions ----------------------------- *)

(* _tumor_boost per element (lt_mask = t_freqs < n_freqs; out[lt] = 0.5 t / n; out[~lt] = 1 - 0.5 (1 - t) / (1 - n)):
   equal to the model's boost_q on all finite inputs except where the `otherwise` branch divides by zero ... *)
Theorem C18_source_tumor_boost : forall t n,
  (t < n \/ ~ n == 1) -> exists q, boost_q t n = Fin q /\ q == Gen.FnVary.fn_tumor_boost t n.
Proof. exact fn_tumor_boost_eq. Qed.

(* ... i.e. n == 1 (then t >= 1): numpy gives NaN for t == 1 and +inf for t > 1, and so does the model;
   the generated definition carries Coq's totalised x / 0 = 0 and is 1 there *)
Theorem C18_source_tumor_boost_singular : forall t n,
  n == 1 -> ~ t < n ->
  boost_q t n = (if Qeq_bool (qsub 1 t) 0 then XNaN else PInf) /\ Gen.FnVary.fn_tumor_boost t n == 1.
Proof. exact fn_tumor_boost_singular. Qed.

(* _mirrored_baf per element given above_half: 1/2 +- |v - 1/2| as the model mirrors; NaN stays NaN;
   `vals.median() > 0.5` is the majority direction when above_half is None *)
Theorem C18_source_mirror : forall v above m,
  match Gen.FnVary.fn_mirrored_baf (Some v) above m with
  | Some q => q == mirror above v
  | None => False
  end.
Proof. exact fn_mirrored_baf_eq. Qed.

Theorem C18_source_mirror_nan : forall above m, Gen.FnVary.fn_mirrored_baf None above m = None.
Proof. exact fn_mirrored_baf_nan. Qed.

Theorem C18_source_mirror_direction : forall vals,
  majority_above vals =
  match median vals with Some m => Gen.FnVary.fn_mirror_direction m | None => false end.
Proof. exact fn_mirror_direction_eq. Qed.

(* call.rescale_baf with its default normal_baf (the same generated definition C02 is tied to) *)
Theorem C18_source_rescale : forall p o,
  rescale_baf p o == Gen.FnCallBaf.fn_rescale_baf p o (1 # 2).
Proof. exact fn_rescale_eq. Qed.

(* zygosity_from_freq per element: 0.5 by default, `>= hom_freq` -> 1.0, then `< het_freq` -> 0.0 *)
Theorem C18_source_zygosity_from_freq : forall f het hom,
  Gen.FnVary.fn_zygosity_from_freq f het hom = zyg_from_freq het hom (Fin f) /\
  Gen.FnVary.fn_zygosity_from_freq f het hom =
    (if Qlt_bool f het then 0 else if Qle_bool hom f then 1 else 1 # 2).
Proof. intros f het hom. split; [apply fn_zygosity_from_freq_eq | reflexivity]. Qed.

(* heterozygous(): (zygosity != 0.0) & (zygosity != 1.0); load_het_snps: (zygosity != 0.0) & (n_zygosity == 0.0) *)
Theorem C18_source_het_mask : forall z, Gen.FnVary.fn_het_mask z = is_het_z z.
Proof. exact fn_het_mask_eq. Qed.

Theorem C18_source_somatic_mask : forall r,
  inferred_somatic r =
  match v_n r with Some n => Gen.FnHet.fn_somatic_mask (g_zyg (v_t r)) (g_zyg n) | None => false end.
Proof. exact fn_somatic_mask_eq. Qed.

(* read_vcf: table["alt_freq"] = table["alt_count"] / table["depth"], then fillna(0.0) (the paired normal's
   columns go through the same expression): the model's frequency, except a non-zero count at depth 0,
   where numpy's +inf (which fillna leaves) is the model's PInf and Coq's division is 0 *)
Theorem C18_source_alt_freq : forall c d,
  match freq_of c d with
  | Fin q => q == Gen.FnVcfRead.fn_alt_freq (ocell c) (ocell d)
  | PInf => exists c', c = Some c' /\ c' <> 0%Z /\ d = Some 0%Z
  | XNaN => False
  end.
Proof. exact fn_alt_freq_eq. Qed.

Theorem C18_source_n_alt_freq : forall c d, Gen.FnVcfRead.fn_n_alt_freq c d = Gen.FnVcfRead.fn_alt_freq c d.
Proof. exact fn_n_alt_freq_same. Qed.

(* _extract_genotype: len(gts) > 1 -> 0.5; gts.pop() == 0 -> 0.0; else 1.0 *)
Theorem C18_source_zygosity : forall gt a rest,
  dedup gt = Some a :: rest ->
  zygosity_of gt = Gen.FnVcfRead.fn_zygosity (Z.of_nat (length (dedup gt))) a.
Proof. exact fn_zygosity_eq. Qed.

(* _get_alt_count, AD given as a tuple: AD[1] when there are two values, else 0 *)
Theorem C18_source_alt_count : forall r c a,
  r_has_ad r = true -> ad_is_missing (s_ad c) = false ->
  ((1 < Z.of_nat (length (s_ad c)))%Z -> nth 1 (s_ad c) None = Some a) ->
  exists z, alt_count_of r c = Some z /\
            inject_Z z == Gen.FnVcfRead.fn_ad_alt (Z.of_nat (length (s_ad c))) (inject_Z a).
Proof. exact fn_ad_alt_eq. Qed.

(* _get_end with `"END" in info` False (pysam keeps the reserved END out of record.info): start + len(alt) *)
Theorem C18_source_get_end : forall start alt info_end e,
  get_end start alt info_end = Gen.FnFormatsVcfio.fn_get_end start false e (Z.of_nat (String.length alt)).
Proof. exact fn_get_end_model. Qed.

(* ---- C18_boost_edges / C18_boost_range ------------------------------------------------------------------ *)

(* boost_ieee evaluates the two-branch formula the way numpy does (x / +0 = +-inf, 0 / 0 = NaN, NaN
   propagates, NaN < x is False); on finite inputs it IS the model's boost_q, except for a negative tumour
   frequency over a normal frequency of 0 *)
Theorem C18_boost_ieee_finite : forall t n,
  ~ (t < n /\ n == 0) -> xr_eq (boost_ieee (RFin t) (RFin n)) (xr_of_xq (boost_q t n)).
Proof. exact boost_ieee_finite. Qed.

(* what the code returns on the edges: normal frequency exactly 0 -> (1 + t)/2 (t >= 0; -inf for t < 0);
   exactly 1 -> t/2 below, NaN at t = 1, +inf above; t = n (not 1) -> exactly 1/2; a missing t or n -> NaN;
   an infinite t -> +inf (normal <= 1) / -inf (normal > 1) / NaN (both infinite); an infinite n -> 0 *)
Theorem C18_boost_edges :
  (forall t n, n == 0 -> 0 <= t -> xr_eq (boost_ieee (RFin t) (RFin n)) (RFin ((1 + t) / 2))) /\
  (forall t n, n == 0 -> t < 0 -> boost_ieee (RFin t) (RFin n) = RNInf) /\
  (forall t n, n == 1 -> t < 1 -> xr_eq (boost_ieee (RFin t) (RFin n)) (RFin (t / 2))) /\
  (forall t n, n == 1 -> t == 1 -> boost_ieee (RFin t) (RFin n) = RNaN) /\
  (forall t n, n == 1 -> 1 < t -> boost_ieee (RFin t) (RFin n) = RPInf) /\
  (forall t n, t == n -> ~ n == 1 -> xr_eq (boost_ieee (RFin t) (RFin n)) (RFin (1 # 2))) /\
  (forall x, boost_ieee RNaN x = RNaN /\ boost_ieee x RNaN = RNaN) /\
  (forall n, (n <= 1 -> boost_ieee RPInf (RFin n) = RPInf) /\ (1 < n -> boost_ieee RPInf (RFin n) = RNInf)) /\
  boost_ieee RPInf RPInf = RNaN /\
  (forall t, xr_eq (boost_ieee (RFin t) RPInf) (RFin 0)).
Proof. exact boost_edges. Qed.

(* the IEEE layer (used where a table holds inf / NaN cells) agrees with the finite model wherever both speak:
   the mirror per element, Series.median of finite values, and VariantArray.mirrored_baf of a table whose
   frequencies are all finite *)
Theorem C18_ieee_mirror : forall above v,
  xr_eq (mirror_ieee above (RFin v)) (xr_of_xq (mirror_x above (Fin v))).
Proof. exact mirror_ieee_fin. Qed.

Theorem C18_ieee_median : forall l,
  median_r (map RFin l) = match median l with Some m => RFin m | None => RNaN end.
Proof. exact median_r_RFin. Qed.

Theorem C18_ieee_mirrored_baf : forall paired rows ah qs,
  map (fun lr => g_freq (v_t (snd lr))) rows = map Fin qs ->
  Forall2 xr_eq (mirrored_baf_r paired rows ah false) (map xr_of_xq (mirrored_baf paired rows ah false)).
Proof. exact mirrored_baf_r_finite. Qed.

(* frequencies in [0,1], normal strictly inside: the boosted value is a frequency again, and it is exactly
   1/2 iff tumour and normal agree *)
Theorem C18_boost_range : forall t n,
  0 <= t -> t <= 1 -> 0 < n -> n < 1 ->
  exists q, boost_q t n = Fin q /\ 0 <= q /\ q <= 1 /\ (q == 1 # 2 <-> t == n).
Proof. exact boost_range. Qed.

(* ---- baf_by_ranges with any summary_func ------------------------------------------------------------------ *)

(* the default (np.nanmedian) is the instance nanmedian_x of the general form *)
Theorem C18_baf_general : forall paired rows ranges ah boost,
  baf_by_ranges paired rows ranges ah boost = baf_by_ranges_gen nanmedian_x paired rows ranges ah boost.
Proof. exact baf_by_ranges_general. Qed.

(* any summary function f: one value per range, in order, from the hits of that range *)
Theorem C18_baf_general_per_range : forall f paired rows ranges ah boost,
  ranges <> [] ->
  baf_by_ranges_gen f paired rows ranges ah boost =
    Some (map (fun rg => gen_value f ah (hits_of (baf_source paired rows boost) rg)) ranges).
Proof. exact baf_by_ranges_gen_shape. Qed.

(* ... no hit: missing; ONE hit: that frequency without calling f (mirrored only when a side was requested);
   more: f of the frequencies mirrored to the requested side, else to the side of THEIR OWN majority *)
Theorem C18_baf_general_cases : forall f ah,
  gen_value f ah [] = XNaN /\
  (forall x, gen_value f ah [x] = match ah with Some b => mirror_x b x | None => x end) /\
  (forall x y t, gen_value f ah (x :: y :: t) =
     f (map (mirror_x (match ah with Some b => b | None => majority_above (finite_of (x :: y :: t)) end))
            (x :: y :: t))).
Proof. exact gen_value_cases. Qed.

Theorem C18_baf_nanmean : forall qs,
  qs <> [] -> exists m, nanmean_x (map Fin qs) = Fin m /\ m == qsum qs / inject_Z (Z.of_nat (length qs)).
Proof. exact nanmean_x_Fin. Qed.

Theorem C18_baf_nanmin : forall qs,
  qs <> [] -> exists m, nanmin_x (map Fin qs) = Fin m /\ Forall (fun y => m <= y) qs.
Proof. exact nanmin_x_Fin. Qed.

Theorem C18_baf_nanmax : forall qs,
  qs <> [] -> exists m, nanmax_x (map Fin qs) = Fin m /\ Forall (fun y => y <= m) qs.
Proof. exact nanmax_x_Fin. Qed.

(* ---- C18_majority_direction --------------------------------------------------------------------------------- *)

(* baf_by_ranges(above_half=None) takes the direction PER RANGE: from the median of the heterozygous
   frequencies inside that range, not of the whole table *)
Theorem C18_majority_direction : forall paired rows ranges boost,
  ranges <> [] ->
  baf_by_ranges paired rows ranges None boost =
    Some (map (fun rg => majority_value (hits_of (baf_source paired rows boost) rg)) ranges).
Proof. exact baf_majority_per_range. Qed.

(* VariantArray.mirrored_baf(above_half=None) takes ONE direction for the WHOLE table *)
Theorem C18_majority_direction_whole_table : forall paired rows boost,
  let vals := if boost && paired then map (fun lr => boost_row (snd lr)) rows
              else map (fun lr => g_freq (v_t (snd lr))) rows in
  mirrored_baf paired rows None boost = map (mirror_x (majority_above (finite_of vals))) vals.
Proof. exact mirrored_baf_whole_table. Qed.

(* and the two differ: frequencies 1/5, 3/10 in one range and 7/10, 4/5 in the next give the per-range BAFs
   1/4 and 3/4, while the whole table (median exactly 1/2) is mirrored below 1/2 throughout *)
Theorem C18_majority_direction_differs :
  baf_by_ranges false dir_rows [("chr1"%string, 0%Z, 50%Z); ("chr1"%string, 100%Z, 150%Z)] None false
    = Some [Fin (1 # 4); Fin (3 # 4)] /\
  mirrored_baf false dir_rows None false = [Fin (1 # 5); Fin (3 # 10); Fin (3 # 10); Fin (1 # 5)].
Proof. exact majority_direction_witness. Qed.

(* ---- C18_load_het_table ------------------------------------------------------------------------------------- *)

(* everything load_het_snps does after the read, as one case analysis (Spec/Vcf.v load_het_table):
   zygosity_freq in force = the one given, else 1/4 when a normal is there and all its genotypes are 0/0 or
   missing; refused (AssertionError) unless 0 <= f <= 1/2; genotypes of sample AND normal recomputed from
   the frequencies (below f -> 0, at or above 1 - f -> 1, else 1/2) BEFORE the somatic drop; paired: records
   with a non-reference tumour and a reference normal dropped; the heterozygous subset (everything when it is
   empty); TumorBoost on the kept rows, ValueError without a normal *)
Theorem C18_load_het_table : forall paired zf boost rows,
  load_het_core paired zf boost rows = load_het_table paired zf boost rows.
Proof. exact load_het_core_table. Qed.

(* load_het_snps = the reader with min_variant_depth, no FILTER test, SOMATIC-flagged records skipped; then the table *)
Theorem C18_load_het_snps_table : forall h recs ssel nsel md zf boost,
  load_het_snps h recs ssel nsel md zf boost =
  match read_vcf h recs ssel nsel md false true with
  | Fail e => Fail e
  | Ok t => match load_het_table (t_paired t) zf boost (t_rows t) with
            | Fail e => Fail e
            | Ok rows => Ok {| ht_paired := t_paired t; ht_rows := rows |}
            end
  end.
Proof. exact load_het_snps_table. Qed.

Theorem C18_load_het_bad_freq : forall paired boost rows f,
  ~ (0 <= f /\ f <= 1 # 2) -> load_het_core paired (Some f) boost rows = Fail "AssertionError"%string.
Proof. exact load_het_bad_freq. Qed.

(* the Mutect2 work-around: all normal genotypes 0/0 or missing = zygosity_freq 1/4 *)
Theorem C18_load_het_auto_quarter : forall boost rows,
  normal_all_ref rows = true ->
  load_het_core true None boost rows = load_het_core true (Some (1 # 4)) boost rows.
Proof. exact load_het_auto_quarter. Qed.

Theorem C18_load_het_genotypes_kept : forall paired boost rows,
  paired && normal_all_ref rows = false ->
  load_het_core paired None boost rows = load_het_finish paired boost rows.
Proof. exact load_het_genotypes_kept. Qed.

Theorem C18_load_het_boost_unpaired : forall zf rows,
  (forall f, zf = Some f -> 0 <= f /\ f <= 1 # 2) ->
  load_het_core false zf true rows = Fail "ValueError"%string.
Proof. exact load_het_boost_unpaired. Qed.

(* zygosity is recomputed from the frequency BEFORE the T/N somatic drop: tumour 0/1, normal called 0/0 at
   frequency 2/5 -- dropped as somatic by the genotypes, kept once zygosity_freq 1/4 makes the normal 1/2 *)
Theorem C18_load_het_order :
  match load_het_core true None false order_rows, load_het_core true (Some (1 # 4)) false order_rows with
  | Ok a, Ok b => map fst a = [1%Z] /\ map fst b = [0%Z; 1%Z]
  | _, _ => False
  end.
Proof. exact load_het_order_witness. Qed.

(* min_variant_depth acts on the NORMAL's depth when a normal was chosen: every kept record reaches it *)
Theorem C18_load_het_depth : forall h recs ssel nsel m zf boost t,
  load_het_snps h recs ssel nsel (Some m) zf boost = Ok t -> m <> 0%Z ->
  (exists lr, In lr (ht_rows t) /\ g_depth (v_t (snd lr)) <> 0%Z) ->
  Forall (fun lr => (m <= filter_depth (snd lr))%Z) (ht_rows t).
Proof. exact load_het_snps_depth. Qed.

(* ---- the new hypotheses are satisfiable ------------------------------------------------------------------------ *)

Example ex_boost_ieee_nan : boost_ieee (RFin 1) (RFin 1) = RNaN.
Proof. vm_compute. reflexivity. Qed.

Example ex_boost_ieee_inf : boost_ieee (RFin (3 # 2)) (RFin 1) = RPInf.
Proof. vm_compute. reflexivity. Qed.

Example ex_boost_range : boost_q (3 # 10) (2 # 5) = Fin (3 # 8).
Proof. vm_compute. reflexivity. Qed.

Example ex_fn_tumor_boost : Gen.FnVary.fn_tumor_boost (3 # 10) (2 # 5) == 3 # 8.
Proof. vm_compute. reflexivity. Qed.

Example ex_gen_mean :
  baf_by_ranges_gen nanmean_x false dir_rows [("chr1"%string, 0%Z, 150%Z)] (Some true) false = Some [Fin (3 # 4)].
Proof. vm_compute. reflexivity. Qed.

(* ---- loop ties (whole decision chains and loop iterations, translated from /repo on every run; LOOP_TIES_GUIDE) -- *)
From CNV Require Gen.FnVcfGenotype Gen.FnVcfAltCount Gen.FnVcfRecords Gen.FnVarySeries.
From CNV Require Import Proofs.FnVcfGenotype Proofs.FnVcfRecords Proofs.FnVarySeries.

(* vcfio._get_alt_count as a whole (AD / CLCAD2 / AO / NaN chain) on a pysam sample = the model's alt_count_of *)
Theorem C18_source_get_alt_count : forall r c, omapQ (alt_count_of r c) = py_alt_count r c.
Proof. exact source_alt_count. Qed.

(* vcfio._extract_genotype as a whole: the depth chain, the zygosity chain, the alt count = the model's three *)
Theorem C18_source_extract_genotype : forall r c,
  py_extract_genotype r c = (depth_of r c, zygosity_of (s_gt c), omapQ (alt_count_of r c)).
Proof. exact source_extract_genotype. Qed.

(* vcfio._parse_records, one iteration of the inner `for alt in record.alts`: the alleles that get a row are the
   model's real_alts (<NON_REF> skipped) *)
Theorem C18_source_real_alts : forall r s e,
  real_alts r
  = flat_map (fun alt => map (fun _ => alt) (Gen.FnVcfRecords.fn_alt_step alt s (e alt) 0%Z)) (r_alts r).
Proof. exact source_real_alts. Qed.

(* ... one iteration of the outer `for record in records`: a record with a FILTER other than . / PASS / KEEP is
   counted and skipped when skip_reject; otherwise the inner loop's rows pass when the record has alleles ... *)
Theorem C18_source_parse_step : forall n_bad, (forall r, n_bad r <> 0%Z <-> rejected r = true) ->
  forall cnt skip_reject r rows,
  step_on n_bad cnt skip_reject r rows
  = if skip_reject && rejected r then ((cnt + 1)%Z, [])
    else (cnt, if FnVcfRecords.is_nil (r_alts r) then [] else rows).
Proof. exact source_parse_step. Qed.

(* ... and the generator run over the records is the model's all_rows (None: a genotype block raised), the counter
   the number of rejected records *)
Theorem C18_source_parse_records : forall n_bad, (forall r, n_bad r <> 0%Z <-> rejected r = true) ->
  forall sidx nidx skip_reject recs cnt,
  fst (py_all_rows n_bad sidx nidx skip_reject cnt recs) = all_rows sidx nidx skip_reject recs /\
  snd (py_all_rows n_bad sidx nidx skip_reject cnt recs)
  = (cnt + Z.of_nat (length (filter (fun r => skip_reject && rejected r) recs)))%Z.
Proof.
  intros n_bad H sidx nidx skip_reject recs cnt.
  exact (conj (source_parse_records n_bad H sidx nidx skip_reject recs cnt)
              (source_parse_count n_bad H sidx nidx skip_reject recs cnt)).
Qed.

(* ... a record without samples: depth from INFO DP (else 0), no AF: count 0, zygosity 0 = the model's geno_info *)
Theorem C18_source_info_geno : forall r af,
  let '(d, z, a) := Gen.FnVcfRecords.fn_info_geno (is_some (r_info_dp r)) (inject_Z (fillZ (r_info_dp r))) false af in
  d = inject_Z (g_depth (geno_info r)) /\ z = g_zyg (geno_info r) /\ a = g_count (geno_info r).
Proof. exact source_info_geno. Qed.

(* intersect.into_ranges.series2value (the per-range step of baf_by_ranges): no hit -> the default, one hit -> that
   value as it is, else the summary function's value -- the model's s2v_gen for any summary function *)
Theorem C18_source_series2value : forall f hits,
  enc (s2v_gen f hits)
  = Gen.FnVarySeries.fn_series2value (Z.of_nat (length hits)) None (enc (hd XNaN hits)) (enc (f hits)).
Proof. exact source_s2v_gen. Qed.

Theorem C18_source_summary : forall hits,
  enc (summary hits)
  = Gen.FnVarySeries.fn_series2value (Z.of_nat (length hits)) None (enc (hd XNaN hits)) (enc (nanmedian_x hits)).
Proof. exact source_summary. Qed.
