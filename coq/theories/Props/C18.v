(* C18 -- VCF genotypes become allele frequencies and per-segment BAF as defined.
   Property theorems only; proofs live in Proofs/Vcf.v, Proofs/VBaf.v, Proofs/VcfLib.v.
   The model (Model/Vcf.v, Model/VBaf.v) works on the structured VCF pysam hands
   to the code; literal numbers below are those of the property text. *)
From CNV Require Import Base.Prelude Base.Str Model.Vcf Model.VBaf Spec.Vcf
  Proofs.VcfLib Proofs.Vcf Proofs.VBaf.

(* ---- C18_rows: one row per record, fields as defined ---------------------- *)

(* zygosity 0 / 0.5 / 1 from the genotype *)
Theorem C18_rows_zygosity : forall gt, gt <> [] -> zygosity_spec gt (zygosity_of gt).
Proof. exact zygosity_of_spec. Qed.

(* depth, alt count, alt_freq = count / depth of one sample's call *)
Theorem C18_rows_genotype : forall r c, s_gt c <> [] -> geno_spec r c (geno r c).
Proof. exact geno_geno_spec. Qed.

(* every row of the table is the row of one record of the file: 0-based start = POS - 1,
   the record's contig / ref / alt / SOMATIC flag, and the columns of the chosen sample's
   (and chosen normal's) own call in that record -- whatever filters were asked for *)
Theorem C18_rows_sound : forall h recs ssel nsel md sr ss t row,
  read_vcf h recs ssel nsel md sr ss = Ok t -> In row (t_rows t) ->
  exists p r, choose_samples h ssel nsel = Ok p /\ In r recs /\
    row_from (fst (chosen_indices h p)) (snd (chosen_indices h p)) r row.
Proof. exact read_row_sound. Qed.

Theorem C18_rows_sample_columns : forall i nidx r row,
  row_from (Some i) nidx r row -> Forall (fun c => s_gt c <> []) (r_calls r) ->
  exists c, nth_error (r_calls r) i = Some c /\ geno_spec r c (v_t row).
Proof. exact row_from_geno_spec. Qed.

Theorem C18_rows_normal_columns : forall i j r row,
  row_from (Some i) (Some j) r row -> Forall (fun c => s_gt c <> []) (r_calls r) ->
  exists cn g, nth_error (r_calls r) j = Some cn /\ v_n row = Some g /\ geno_spec r cn g.
Proof. exact row_from_geno_spec_normal. Qed.

(* without filters: one row per biallelic record, and every alt allele of every record has its row *)
Theorem C18_rows_one_per_record : forall h recs ssel nsel t,
  read_vcf h recs ssel nsel None false false = Ok t -> Forall biallelic recs ->
  length (t_rows t) = length recs.
Proof. exact read_one_row_per_record. Qed.

Theorem C18_rows_complete : forall h recs ssel nsel t r alt,
  read_vcf h recs ssel nsel None false false = Ok t -> In r recs -> In alt (real_alts r) ->
  exists row, In row (t_rows t) /\ row_spec r row /\ v_alt row = alt.
Proof. exact read_row_complete. Qed.

(* a VCF without records: a table without rows that still is paired exactly when a normal was
   chosen, whatever depth / somatic filters are asked for *)
Theorem C18_rows_empty_file : forall h ssel nsel md sr ss p,
  choose_samples h ssel nsel = Ok p ->
  read_vcf h [] ssel nsel md sr ss = Ok {| t_paired := truthy (snd p); t_rows := [] |}.
Proof. exact read_empty_file. Qed.

(* the paired normal's columns are there exactly when the chosen pair has a normal *)
Theorem C18_rows_paired_flag : forall h recs ssel nsel md sr ss t,
  read_vcf h recs ssel nsel md sr ss = Ok t ->
  exists p, choose_samples h ssel nsel = Ok p /\ t_paired t = truthy (snd p).
Proof. exact read_paired_flag. Qed.

(* ---- C18_choose: the documented selection rules as a decision table -------- *)

(* PEDIGREE-declared pairs first (whatever normal id is given) *)
Theorem C18_choose_pedigree_first : forall h d o rest nsel nid,
  NoDup (h_samples h) -> h_peds h = (d, o) :: rest -> peds_in_file h ->
  resolve (h_samples h) nsel = Ok nid -> selected_ok h nid ->
  choose_samples h SelNone nsel = Ok (Some d, Some o).
Proof. exact choose_pedigree_first. Qed.

(* a requested sample that is a declared tumour brings its declared normal *)
Theorem C18_choose_pedigree_sample : forall h s o rest nsel nid,
  NoDup (h_samples h) -> h_peds h <> [] -> peds_in_file h -> s <> ""%string -> In s (h_samples h) ->
  filter (fun p => String.eqb (fst p) s) (h_peds h) = (s, o) :: rest ->
  resolve (h_samples h) nsel = Ok nid -> selected_ok h nid ->
  choose_samples h (SelName s) nsel = Ok (Some s, Some o).
Proof. exact choose_pedigree_sample. Qed.

(* a requested sample that is not a declared tumour is read unpaired *)
Theorem C18_choose_pedigree_salvage : forall h s nsel nid,
  NoDup (h_samples h) -> h_peds h <> [] -> s <> ""%string -> In s (h_samples h) ->
  filter (fun p => String.eqb (fst p) s) (h_peds h) = [] ->
  resolve (h_samples h) nsel = Ok nid -> selected_ok h nid ->
  choose_samples h (SelName s) nsel = Ok (Some s, None).
Proof. exact choose_pedigree_salvage. Qed.

(* else the given tumour and normal ids *)
Theorem C18_choose_given_ids : forall h s n,
  NoDup (h_samples h) -> h_peds h = [] -> s <> ""%string -> n <> ""%string -> s <> n ->
  In s (h_samples h) -> In n (h_samples h) ->
  choose_samples h (SelName s) (SelName n) = Ok (Some s, Some n).
Proof. exact choose_given_ids. Qed.

Theorem C18_choose_normal_only : forall h n o rest,
  NoDup (h_samples h) -> h_peds h = [] -> n <> ""%string -> In n (h_samples h) ->
  filter (fun x => negb (String.eqb x n)) (h_samples h) = o :: rest ->
  choose_samples h SelNone (SelName n) = Ok (Some o, Some n).
Proof. exact choose_normal_only. Qed.

Theorem C18_choose_named_single : forall h s,
  NoDup (h_samples h) -> h_peds h = [] -> s <> ""%string -> In s (h_samples h) ->
  choose_samples h (SelName s) SelNone = Ok (Some s, None).
Proof. exact choose_named_single. Qed.

(* else the first sample *)
Theorem C18_choose_first_sample : forall h s0 rest,
  NoDup (h_samples h) -> h_peds h = [] -> h_samples h = s0 :: rest ->
  choose_samples h SelNone SelNone = Ok (Some s0, None).
Proof. exact choose_first_sample. Qed.

(* an index selects the sample at that position of the header *)
Theorem C18_choose_index : forall h i s nsel,
  0 <= i -> nth_error (h_samples h) (Z.to_nat i) = Some s ->
  choose_samples h (SelIdx i) nsel = choose_samples h (SelName s) nsel.
Proof. exact choose_index. Qed.

(* a negative index counts from the end of the header *)
Theorem C18_choose_negative_index : forall h i s nsel,
  - Z.of_nat (length (h_samples h)) <= i < 0 ->
  nth_error (h_samples h) (Z.to_nat (i + Z.of_nat (length (h_samples h)))) = Some s ->
  choose_samples h (SelIdx i) nsel = choose_samples h (SelName s) nsel.
Proof. exact choose_negative_index. Qed.

(* selectors that name no sample of the file are refused *)
Theorem C18_choose_unknown_sample : forall h s nsel,
  s <> ""%string -> ~ In s (h_samples h) -> exists e, choose_samples h (SelName s) nsel = Fail e.
Proof. exact choose_unknown_sample. Qed.

Theorem C18_choose_unknown_normal : forall h ssel n,
  n <> ""%string -> ~ In n (h_samples h) -> exists e, choose_samples h ssel (SelName n) = Fail e.
Proof. exact choose_unknown_normal. Qed.

Theorem C18_choose_index_out_of_range : forall h i nsel,
  i < - Z.of_nat (length (h_samples h)) \/ Z.of_nat (length (h_samples h)) <= i ->
  choose_samples h (SelIdx i) nsel = Fail IndexError.
Proof. exact choose_index_out_of_range. Qed.

(* ---- C18_filters ------------------------------------------------------------ *)

(* the filtered table is exactly the unfiltered table restricted to the rows whose (paired
   normal's, else own) depth reaches min_depth -- when there is depth information at all --
   and, with skip_somatic, not flagged SOMATIC *)
Theorem C18_filters : forall h recs ssel nsel md sr ss t t0,
  read_vcf h recs ssel nsel md sr ss = Ok t ->
  read_vcf h recs ssel nsel None sr false = Ok t0 ->
  Permutation (t_rows t) (filter (keep_spec md ss (t_rows t0)) (t_rows t0)).
Proof. exact read_filters. Qed.

Theorem C18_filters_hold : forall h recs ssel nsel md sr ss t,
  read_vcf h recs ssel nsel md sr ss = Ok t ->
  (ss = true -> Forall (fun r => v_somatic r = false) (t_rows t)) /\
  (forall m, md = Some m -> m <> 0 ->
     existsb (fun r => negb (g_depth (v_t r) =? 0)) (t_rows t) = true ->
     Forall (fun r => m <= filter_depth r) (t_rows t)).
Proof. exact read_filters_forall. Qed.

(* the defaults load_het_snps reads with: depth 20, somatic records skipped, frequency 1/4 fallback *)
Theorem C18_load_het_defaults :
  VcfDefaults.min_variant_depth = 20 /\ VcfDefaults.het_skip_somatic = true /\
  VcfDefaults.fallback_zygosity_freq = (1 # 4)%Q.
Proof. repeat split. Qed.

(* ---- C18_het ------------------------------------------------------------------ *)

(* zygosity_freq: below f -> 0, at or above 1 - f -> 1, else 1/2 *)
Theorem C18_het_zygosity_from_freq : forall het hom f,
  zyg_from_freq het hom f = zyg_from_freq_spec het hom f.
Proof. exact zyg_from_freq_eq. Qed.

(* the reader's zygosities are 0, 1/2 or 1 (precondition of the next theorems) *)
Theorem C18_het_rows_valid : forall h recs ssel nsel md sr ss t,
  read_vcf h recs ssel nsel md sr ss = Ok t -> Forall row_valid (t_rows t).
Proof. exact read_rows_valid. Qed.

(* when at least one record is germline-heterozygous, exactly those are kept, in order *)
Theorem C18_het : forall paired zf rows out,
  Forall row_valid rows ->
  load_het_core paired zf false rows = Ok out ->
  existsb germline_het (genotyped paired zf rows) = true ->
  map snd out = filter germline_het (genotyped paired zf rows).
Proof. exact load_het_exact. Qed.

(* the documented fallback: no heterozygous record at all => everything is kept
   (minus tumour-variant / normal-reference records when paired) *)
Theorem C18_het_fallback : forall paired zf rows out,
  Forall row_valid rows ->
  load_het_core paired zf false rows = Ok out ->
  existsb germline_het (genotyped paired zf rows) = false ->
  map snd out = if paired then filter (fun r => negb (inferred_somatic r)) (genotyped paired zf rows)
                else genotyped paired zf rows.
Proof. exact load_het_fallback. Qed.

(* hence "keeps exactly the germline-heterozygous records" is false for the faithful model *)
Theorem C18_het_exact_refuted :
  exists rows out, Forall row_valid rows /\ load_het_core false None false rows = Ok out /\
    map snd out <> filter germline_het rows.
Proof. exact load_het_exact_refuted. Qed.

(* ---- C18_baf -------------------------------------------------------------------- *)

(* the model's mirror is 1/2 +- |v - 1/2| *)
Theorem C18_baf_mirror : forall above v, (mirror above v == mirror_spec above v)%Q.
Proof. exact mirror_eq. Qed.

(* missing where no heterozygous variant lies in the range *)
Theorem C18_baf_missing : forall rows rg ah,
  (forall lr, In lr rows -> overlaps rg (snd lr) = false) ->
  series2value ah (hits_of rows rg) = XNaN.
Proof. exact hits_none. Qed.

(* ONE or more hits, any above_half: the median of the frequencies mirrored to one side of 1/2
   (the requested side, else that of the majority); on the requested side of 1/2; inside [0,1]
   for frequencies inside [0,1] *)
Theorem C18_baf : forall ah qs,
  qs <> [] ->
  exists m, series2value ah (map Fin qs) = Fin m /\
    is_median m (map (mirror (direction ah qs)) qs) /\
    (ah = Some true -> (1 # 2 <= m)%Q) /\
    (ah = Some false -> (m <= 1 # 2)%Q) /\
    (Forall (fun v => (0 <= v /\ v <= 1)%Q) qs -> (0 <= m /\ m <= 1)%Q).
Proof. exact baf_any. Qed.

(* unspecified direction = that of the majority: median of the raw values above 1/2 *)
Theorem C18_baf_majority : forall qs,
  qs <> [] -> direction None qs = Qlt_bool (1 # 2) (median_value qs).
Proof. exact direction_none. Qed.

(* a single hit with the majority direction is returned as it is, which IS its mirrored value *)
Theorem C18_baf_single_majority : forall x,
  series2value None [Fin x] = Fin x /\ (mirror (direction None [x]) x == x)%Q.
Proof. exact baf_single_majority. Qed.

(* a single hit with an explicit side is mirrored to that side (repaired in /repo 98a0701) *)
Theorem C18_baf_single_side : forall b x,
  exists m, series2value (Some b) [Fin x] = Fin m /\ (m == mirror_spec b x)%Q /\
    (b = true -> (1 # 2 <= m)%Q) /\ (b = false -> (m <= 1 # 2)%Q).
Proof. exact baf_single_side. Qed.

(* one value per range, in the order of the ranges, each from the heterozygous variants that
   overlap the range (TumorBoost-ed first when asked and a normal is there) *)
Theorem C18_baf_per_range : forall paired rows ranges ah boost,
  ranges <> [] ->
  baf_by_ranges paired rows ranges ah boost =
    Some (map (fun rg => series2value ah (hits_of (baf_source paired rows boost) rg)) ranges).
Proof. exact baf_by_ranges_shape. Qed.

(* no variant at all (e.g. a VCF without records): every range is missing *)
Theorem C18_baf_no_variants : forall paired ranges ah boost,
  ranges <> [] -> baf_by_ranges paired [] ranges ah boost = Some (map (fun _ => XNaN) ranges).
Proof. exact baf_by_ranges_empty. Qed.

(* het_frac_by_ranges: per range the fraction of (germline-)heterozygous variants among the variants
   overlapping it -- a number in [0,1], missing where there is none *)
Theorem C18_het_frac : forall hits,
  hits <> [] ->
  exists q, het_frac_value hits = Fin q /\
    (q == inject_Z (count_true hits) / inject_Z (Z.of_nat (length hits)))%Q /\ (0 <= q)%Q /\ (q <= 1)%Q.
Proof. exact het_frac_value_spec. Qed.

Theorem C18_het_frac_per_range : forall rows ranges,
  ranges <> [] ->
  het_frac_by_ranges rows ranges = Some (map (fun rg => het_frac_value (het_flags rows rg)) ranges).
Proof. exact het_frac_shape. Qed.

Theorem C18_het_frac_flags : forall rows rg,
  Forall (fun lr => row_valid (snd lr)) rows ->
  het_flags rows rg = map (fun lr => germline_het (snd lr)) (filter (fun lr => overlaps rg (snd lr)) rows).
Proof. exact het_flags_germline. Qed.

(* ---- C18_boost, C18_rescale ------------------------------------------------------- *)

Theorem C18_boost : forall t n,
  ((t < n)%Q \/ ~ (n == 1)%Q) -> exists q, boost_q t n = Fin q /\ (q == boost_spec t n)%Q.
Proof. exact boost_formula. Qed.

Theorem C18_boost_same : forall n, ~ (n == 1)%Q -> (boost_spec n n == 1 # 2)%Q.
Proof. exact boost_same. Qed.

Theorem C18_rescale : forall p o, (rescale_baf p o == rescale_spec p o)%Q.
Proof. exact rescale_formula. Qed.

Theorem C18_rescale_inverse : forall p t,
  ~ (p == 0)%Q -> (rescale_baf p (p * t + (1 - p) / 2) == t)%Q.
Proof. exact rescale_inverse. Qed.

(* the baf column of do_call: per segment the default BAF (majority direction, no TumorBoost) of the
   heterozygous variants, put through the purity formula exactly when 0 <> purity < 1 *)
Theorem C18_call_baf : forall paired rows ranges purity,
  rows <> [] -> ranges <> [] ->
  call_baf paired rows ranges purity =
    Some (map (fun rg =>
                 let b := series2value None (hits_of (heterozygous rows) rg) in
                 match purity_rescales purity with Some p => rescale_x p b | None => b end) ranges).
Proof. exact call_baf_spec. Qed.

Theorem C18_call_baf_rescales : forall p, ~ (p == 0)%Q -> (p < 1)%Q -> purity_rescales (Some p) = Some p.
Proof. exact purity_rescales_some. Qed.

Theorem C18_call_baf_pure : forall p, (1 <= p)%Q -> purity_rescales (Some p) = None.
Proof. exact purity_rescales_pure. Qed.

(* a missing BAF stays missing; a number becomes (obs - (1 - p)/2) / p *)
Theorem C18_call_baf_cell : forall p v,
  match v with
  | Fin q => exists q', rescale_x p v = Fin q' /\ (q' == rescale_spec p q)%Q
  | _ => rescale_x p v = v
  end.
Proof. exact rescale_x_cases. Qed.

(* ---- C18_attached ------------------------------------------------------------------- *)

(* load_het_snps (no TumorBoost): every kept row is a row of the table that was read, with its
   own coordinates, depth, count and frequencies (row-wise map and filter only) *)
Theorem C18_attached : forall paired zf rows out lr,
  load_het_core paired zf false rows = Ok out -> In lr out ->
  exists r, In r rows /\ same_site (snd lr) r.
Proof. exact load_het_attached. Qed.

(* the sort is a permutation of whole rows *)
Theorem C18_attached_sort : forall rows, Permutation (sort_rows rows) rows.
Proof. exact sort_rows_perm. Qed.

(* load_het_snps(tumor_boost=True): whatever rows were dropped before (any label pattern), every
   kept row has its own coordinates, depth, count and normal frequency, and its frequency is
   exactly TumorBoost of ITS OWN tumour and normal frequencies (repaired in /repo 1e91c33) *)
Theorem C18_attached_boost : forall paired zf rows out lr,
  load_het_core paired zf true rows = Ok out -> In lr out ->
  exists r, In r rows /\ same_locus (snd lr) r /\ g_freq (v_t (snd lr)) = boost_row r.
Proof. exact load_het_boost_attached. Qed.

(* ... and tumor_boost changes neither which rows are kept, nor their order, nor their labels *)
Theorem C18_attached_boost_same_rows : forall paired zf rows out,
  load_het_core paired zf true rows = Ok out ->
  exists out0, load_het_core paired zf false rows = Ok out0 /\
    map fst out = map fst out0 /\ Forall2 (fun a b => same_locus (snd a) (snd b)) out out0.
Proof. exact load_het_boost_same_rows. Qed.

(* any table, any labels: the assignment is row by row *)
Theorem C18_attached_boost_rowwise : forall rows,
  boost_assign rows = map (fun lr => (fst lr, set_freq (snd lr) (boost_row (snd lr)))) rows.
Proof. reflexivity. Qed.

(* baf_by_ranges(tumor_boost=True): the values summarised in a range are the TumorBoost values of
   exactly the rows overlapping that range, each from its own frequencies *)
Theorem C18_attached_boost_baf : forall rows rg,
  hits_of (boost_assign rows) rg
  = map (fun lr => boost_row (snd lr)) (filter (fun lr => overlaps rg (snd lr)) rows).
Proof. exact hits_of_boost_assign. Qed.

(* ---- hypotheses are satisfiable ------------------------------------------------------- *)

Definition ex_call (gt : list (option Z)) (a0 a1 d : Z) : scall :=
  {| s_gt := gt; s_ad := [Some a0; Some a1]; s_dp := Some d |}.

Definition ex_rec (pos : Z) (t n : scall) : vrec :=
  {| r_chrom := "chr1"; r_ckey := 0; r_pos := pos; r_ref := "A"; r_alts := ["G"%string];
     r_filter := ["PASS"%string]; r_somatic := false; r_info_dp := None; r_info_end := None;
     r_has_ad := true; r_has_dp := true; r_calls := [t; n] |}.

Definition ex_header : header := {| h_samples := ["T"; "N"]%string; h_peds := [("T", "N")]%string |}.

Definition ex_recs : list vrec :=
  [ex_rec 300 (ex_call [Some 0; Some 1] 8 32 40) (ex_call [Some 0; Some 1] 18 22 40);
   ex_rec 100 (ex_call [Some 0; Some 1] 10 30 40) (ex_call [Some 0; Some 1] 20 20 40);
   ex_rec 200 (ex_call [Some 0; Some 1] 30 10 40) (ex_call [Some 0; Some 0] 40 0 40)].

Example ex_choose : choose_samples ex_header SelNone SelNone = Ok (Some "T", Some "N")%string.
Proof. reflexivity. Qed.

Example ex_read :
  match read_vcf ex_header ex_recs SelNone SelNone (Some 20) false true with
  | Ok t => map (fun r => (v_start r, g_freq (v_t r))) (t_rows t)
  | Fail _ => []
  end = [(99, Fin (3 # 4)); (199, Fin (1 # 4)); (299, Fin (4 # 5))].
Proof. vm_compute. reflexivity. Qed.

Example ex_load_het :
  match load_het_snps ex_header ex_recs SelNone SelNone (Some 20) None false with
  | Ok t => map (fun lr => (fst lr, v_start (snd lr))) (ht_rows t)
  | Fail _ => []
  end = [(0, 99); (2, 299)].
Proof. vm_compute. reflexivity. Qed.

(* record 200 is dropped (tumour het, normal ref): labels 0 and 2 survive, each with its own boost *)
Example ex_load_het_boost :
  match load_het_snps ex_header ex_recs SelNone SelNone (Some 20) None true with
  | Ok t => map (fun lr => (fst lr, v_start (snd lr), g_freq (v_t (snd lr)))) (ht_rows t)
  | Fail _ => []
  end = [(0, 99, Fin (3 # 4)); (2, 299, Fin (7 # 9))].
Proof. vm_compute. reflexivity. Qed.

Example ex_baf :
  series2value (Some true) [Fin (1 # 4); Fin (7 # 10); Fin (4 # 5)] = Fin (3 # 4).
Proof. vm_compute. reflexivity. Qed.

Example ex_baf_single : series2value (Some false) [Fin (7 # 10)] = Fin (3 # 10).
Proof. vm_compute. reflexivity. Qed.

Example ex_empty_file :
  read_vcf ex_header [] SelNone SelNone (Some 20) false true = Ok {| t_paired := true; t_rows := [] |}.
Proof. reflexivity. Qed.
