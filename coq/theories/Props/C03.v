(* C03 -- segments tile each chromosome and account for every surviving bin.
   Property theorems only; proofs live in Proofs/Seg*.v.

   Reading guide.  `bins` are the input bins of one chromosome (precondition
   bins_wf: sorted, lo < hi, non-overlapping).  `flag_bins skip_low min_weight
   bins mask` marks the bins that survive the three filters (mask = the outlier
   oracle, any list of booleans).  `bps` is the breakpoint oracle: ANY list of
   integers -- the theorems do not depend on where haar / the HMM cut.
   `chrom_segs m ...` is what the per-arm methods (m = MNone, MHaar; cbs shares
   the same transfer_fields) report on the chromosome; `chrom_hmm_segs a b c`
   is what the whole-table (hmm, hmm-tumor, hmm-germline) methods report on chromosome c, a / b telling
   whether c is the table's first / last chromosome (hmm_table_rows). *)
From CNV Require Import Base.Prelude Base.Str Model.Arms Model.Segment Spec.Segments
  Proofs.SegFields Proofs.SegChrom Proofs.SegProps Gen.Params Gen.SegDefaults.

(* ---- per-arm methods: none, haar (cbs) ------------------------------------- *)

(* sorted, positive length, pairwise disjoint, inside [lo(first bin), hi(last bin)] *)
Theorem C03_tiling : forall m skip_low min_weight bins mask bps,
  bins_wf bins ->
  tiling bins (chrom_segs m (flag_bins skip_low min_weight bins mask) bps).
Proof. exact p_tiling. Qed.

(* every surviving bin lies in exactly one segment; probes = number of survivors
   the segment contains; probes sum to the number of survivors; a chromosome
   with a survivor has a segment *)
Theorem C03_accounting : forall m skip_low min_weight bins mask bps,
  bins_wf bins ->
  accounting (survivors (flag_bins skip_low min_weight bins mask))
             (chrom_segs m (flag_bins skip_low min_weight bins mask) bps).
Proof. exact p_accounting. Qed.

(* the report is the concatenation, arm by arm (arms as by_arm cuts the UNFILTERED
   chromosome), of segment lists that stay inside their arm, are empty iff the arm
   has no survivor, and otherwise start at the arm's first input bin and end at
   its last input bin -- whatever was filtered *)
Theorem C03_arm_edges : forall m skip_low min_weight bins mask bps,
  bins_wf bins ->
  exists parts,
    concat parts = chrom_segs m (flag_bins skip_low min_weight bins mask) bps /\
    Forall2 (fun arm part => arm_edges (map fst arm) (survivors arm) part)
            (chrom_arms (flag_bins skip_low min_weight bins mask)) parts.
Proof. exact p_arm_edges. Qed.

(* weight = sum of the weights, depth = weight-averaged depth of ALL input bins the
   segment overlaps; gene = their distinct meaningful names in order, or "-" *)
Theorem C03_fields : forall m skip_low min_weight bins mask bps,
  bins_wf bins ->
  Forall (fields_ok bins) (chrom_segs m (flag_bins skip_low min_weight bins mask) bps).
Proof. exact p_fields. Qed.

(* method none: log2 = weight-averaged log2 of the survivors the segment contains *)
Theorem C03_log2_mean : forall m skip_low min_weight bins mask bps,
  bins_wf bins -> m <> MHaar ->
  Forall (fun b => (0 <= weight_of b)%Q) bins ->
  Forall (log2_mean_ok (survivors (flag_bins skip_low min_weight bins mask)))
         (chrom_segs m (flag_bins skip_low min_weight bins mask) bps).
Proof. exact p_log2. Qed.

(* ---- whole-table methods: hmm, hmm-tumor, hmm-germline --------------------- *)

(* every row of the table-level model is some chromosome's chrom_hmm_segs *)
Theorem C03_hmm_table_rows : forall tbl,
  Forall2 (fun c row => exists a b, row = (c_name c, chrom_hmm_segs a b c)) tbl (hmm_table tbl).
Proof. exact (hmm_rows_shape true). Qed.

Theorem C03_hmm_tiling : forall skip_low min_weight name bins mask bps a b,
  bins_wf bins ->
  tiling bins (chrom_hmm_segs a b (mkChrom name (flag_bins skip_low min_weight bins mask) bps)).
Proof. exact h_tiling. Qed.

Theorem C03_hmm_accounting : forall skip_low min_weight name bins mask bps a b,
  bins_wf bins ->
  accounting (survivors (flag_bins skip_low min_weight bins mask))
             (chrom_hmm_segs a b (mkChrom name (flag_bins skip_low min_weight bins mask) bps)).
Proof. exact h_accounting. Qed.

Theorem C03_hmm_fields : forall skip_low min_weight name bins mask bps a b,
  Forall (fields_ok bins)
         (chrom_hmm_segs a b (mkChrom name (flag_bins skip_low min_weight bins mask) bps)).
Proof. exact h_fields. Qed.

Theorem C03_hmm_log2_mean : forall skip_low min_weight name bins mask bps a b,
  bins_wf bins ->
  Forall (log2_mean_ok (survivors (flag_bins skip_low min_weight bins mask)))
         (chrom_hmm_segs a b (mkChrom name (flag_bins skip_low min_weight bins mask) bps)).
Proof. exact h_log2. Qed.

(* ---- the filters and the constants the model reads from /repo -------------- *)

Theorem C03_flags_positional : forall skip_low min_weight bins mask,
  map fst (flag_bins skip_low min_weight bins mask) = bins.
Proof. exact flag_bins_bins. Qed.

Theorem C03_low_coverage_rule : forall b,
  low_coverage b = true <-> (b_log2 b < -15 # 1)%Q \/ (b_depth b == 0)%Q.
Proof. exact low_coverage_rule. Qed.

Theorem C03_survives_rule : forall skip_low min_weight outlier b,
  survives skip_low min_weight outlier b = true <->
  (skip_low = true -> low_coverage b = false) /\ outlier = false /\
  exists w, b_weight b = Some w /\
            (if Qeq_bool min_weight 0 then ~ (w == 0)%Q else ~ (w < min_weight)%Q).
Proof. exact survives_rule. Qed.

Theorem C03_gene_names_source :
  ignored_names = ["-"; "."; "CGH"; "Antitarget"; "Background"]%string.
Proof. reflexivity. Qed.

Theorem C03_by_arm_constants :
  by_arm_min_gap_size = 100000 /\ by_arm_min_arm_bins = 50 /\ by_arm_frac = (1, 10).
Proof. repeat split; reflexivity. Qed.

(* ---- the hypotheses are satisfiable; a worked case ------------------------- *)

Definition ex_bins : list bin :=
  [ mkBin 0 100 "A" (0 # 1) (Some (0 # 1)) (1 # 1);       (* weight 0: filtered, at the edge *)
    mkBin 100 200 "A" (1 # 1) (Some (1 # 1)) (2 # 1);
    mkBin 300 400 "B" (3 # 1) (Some (1 # 1)) (4 # 1);
    mkBin 400 500 "-" (5 # 1) (Some (0 # 1)) (6 # 1) ]%string.   (* filtered, at the other edge *)

Example C03_ex_wf : bins_wf ex_bins /\ Forall (fun b => (0 <= weight_of b)%Q) ex_bins.
Proof. split; [cbn; lia|]. repeat constructor; discriminate. Qed.

(* none: one segment 0-500 (stretched over both filtered edge bins), 2 probes,
   log2 (1+3)/2, weight 0+1+1+0, depth (2+4)/2, genes A,B *)
Example C03_ex_none :
  chrom_segs MNone (flag_bins false (0 # 1) ex_bins []) [] =
  [ mkSeg 0 500 2 (Some (2 # 1)) "A,B" (Some (2 # 1)) (3 # 1) ]%string.
Proof. vm_compute. reflexivity. Qed.

(* haar with a breakpoint after the first survivor: 0-200 and 300-500 *)
Example C03_ex_haar :
  map (fun s => (s_lo s, s_hi s, s_probes s))
      (chrom_segs MHaar (flag_bins false (0 # 1) ex_bins []) [1]) = [(0, 200, 1); (300, 500, 1)].
Proof. vm_compute. reflexivity. Qed.

(* hmm on a middle chromosome of the table: no stretch, 100-400 *)
Example C03_ex_hmm :
  map (fun s => (s_lo s, s_hi s, s_probes s))
      (chrom_hmm_segs false false (mkChrom "chr2" (flag_bins false (0 # 1) ex_bins []) [])) = [(100, 400, 2)].
Proof. vm_compute. reflexivity. Qed.
