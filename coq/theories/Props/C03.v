(* C03 -- segments tile each chromosome and account for every surviving bin.
   Property theorems only; proofs live in Proofs/Seg*.v.

   Reading guide.  `bins` are the input bins of one chromosome (precondition
   bins_wf: sorted, lo < hi, non-overlapping).  `flag_bins skip_low min_weight
   bins mask` marks the bins that survive the three filters (mask = the outlier
   oracle, any list of booleans).  `bps` is the breakpoint oracle: ANY list of
   integers -- the theorems do not depend on where haar / the HMM cut.
   `chrom_segs m ...` is what the per-arm methods (m = MNone, MHaar; cbs shares
   the same transfer_fields) report on the chromosome; `chrom_hmm_segs a b c`
   is what the whole-table (hmm, hmm-tumor, hmm-germline) methods report on chromosome c, a / b telling
   whether c is the table's first / last chromosome (hmm_table_rows).

   Second layer (the code's own path; what the entry points run): `*_code` are the same
   tables with the aggregation step going through the C07 model of iter_slices
   (C03_code_path: equal, by the imported C07_slices); `arm_full baf c am fl variants` is
   _do_segmentation on one arm -- am = AGiven m bps (breakpoints as oracle) or AHaar .. os
   (haar computed by the C11 core from the oracles os), variants = the `variants=` data
   (variant rows, HMM state paths); `table_segs baf p assign tm tbl` is do_segmentation
   with p processes.  C03_arm_given / C03_haar_arm tie arm_full back to arm_segs, so the
   first-layer theorems speak about what the second layer computes. *)
From CNV Require Import Base.Prelude Base.Str Model.Arms Model.Segment Spec.Segments
  Proofs.SegFields Proofs.SegChrom Proofs.SegProps Proofs.SegSlices Proofs.SegByArm Proofs.SegParallel Proofs.SegVariants Proofs.SegHaar Proofs.SegTable Gen.Params Gen.SegDefaults Gen.FnSegTransfer Proofs.FnSegTransfer.

(* ---- per-arm methods: none, haar (cbs) ------------------------------------- *)

(* sorted, positive length, pairwise disjoint, inside [lo(first bin), hi(last bin)] *)
Theorem C03_tiling : forall m skip_low min_weight bins mask bps,
  bins_wf bins ->
  tiling bins (chrom_segs m (flag_bins skip_low min_weight bins mask) bps).
Proof. exact p_tiling. Qed.

(* every surviving bin lies in exactly one segment; probes = number of survivors
   the segment contains; probes sum to the number of survivors; a chromosome
   with a survivor has a segment *)
Theorem C03_accounting : forall m skip_low min_weight bins mask bps,
  bins_wf bins ->
  accounting (survivors (flag_bins skip_low min_weight bins mask))
             (chrom_segs m (flag_bins skip_low min_weight bins mask) bps).
Proof. exact p_accounting. Qed.

(* the report is the concatenation, arm by arm (arms as by_arm cuts the UNFILTERED
   chromosome), of segment lists that stay inside their arm, are empty iff the arm
   has no survivor, and otherwise start at the arm's first input bin and end at
   its last input bin -- whatever was filtered *)
Theorem C03_arm_edges : forall m skip_low min_weight bins mask bps,
  bins_wf bins ->
  exists parts,
    concat parts = chrom_segs m (flag_bins skip_low min_weight bins mask) bps /\
    Forall2 (fun arm part => arm_edges (map fst arm) (survivors arm) part)
            (chrom_arms (flag_bins skip_low min_weight bins mask)) parts.
Proof. exact p_arm_edges. Qed.

(* weight = sum of the weights, depth = weight-averaged depth of ALL input bins the
   segment overlaps; gene = their distinct meaningful names in order, or "-" *)
Theorem C03_fields : forall m skip_low min_weight bins mask bps,
  bins_wf bins ->
  Forall (fields_ok bins) (chrom_segs m (flag_bins skip_low min_weight bins mask) bps).
Proof. exact p_fields. Qed.

(* method none: log2 = weight-averaged log2 of the survivors the segment contains *)
Theorem C03_log2_mean : forall m skip_low min_weight bins mask bps,
  bins_wf bins -> m <> MHaar ->
  Forall (fun b => (0 <= weight_of b)%Q) bins ->
  Forall (log2_mean_ok (survivors (flag_bins skip_low min_weight bins mask)))
         (chrom_segs m (flag_bins skip_low min_weight bins mask) bps).
Proof. exact p_log2. Qed.

(* ---- whole-table methods: hmm, hmm-tumor, hmm-germline --------------------- *)

(* every row of the table-level model is some chromosome's chrom_hmm_segs *)
Theorem C03_hmm_table_rows : forall tbl,
  Forall2 (fun c row => exists a b, row = (c_name c, chrom_hmm_segs a b c)) tbl (hmm_table tbl).
Proof. exact (hmm_rows_shape true). Qed.

Theorem C03_hmm_tiling : forall skip_low min_weight name bins mask bps a b,
  bins_wf bins ->
  tiling bins (chrom_hmm_segs a b (mkChrom name (flag_bins skip_low min_weight bins mask) bps)).
Proof. exact h_tiling. Qed.

Theorem C03_hmm_accounting : forall skip_low min_weight name bins mask bps a b,
  bins_wf bins ->
  accounting (survivors (flag_bins skip_low min_weight bins mask))
             (chrom_hmm_segs a b (mkChrom name (flag_bins skip_low min_weight bins mask) bps)).
Proof. exact h_accounting. Qed.

Theorem C03_hmm_fields : forall skip_low min_weight name bins mask bps a b,
  Forall (fields_ok bins)
         (chrom_hmm_segs a b (mkChrom name (flag_bins skip_low min_weight bins mask) bps)).
Proof. exact h_fields. Qed.

Theorem C03_hmm_log2_mean : forall skip_low min_weight name bins mask bps a b,
  bins_wf bins ->
  Forall (log2_mean_ok (survivors (flag_bins skip_low min_weight bins mask)))
         (chrom_hmm_segs a b (mkChrom name (flag_bins skip_low min_weight bins mask) bps)).
Proof. exact h_log2. Qed.

(* ---- the aggregation step as the code runs it: imported from C07 ------------- *)

(* transfer_fields asks iter_slices(cdata, segments.data, "outer", False) for the bins of
   each segment row.  `slices` is that call on the C07 model (by_shared_chroms, idx_ranges,
   numpy's binary search); by C07_slices -- used, not re-proved -- it yields, for the rows
   of one piece, the input bins overlapping each row, rows without any dropped (`kept`:
   unless keep_empty is set; the theorems below hold for either value of that flag).
   Precondition beyond bins_wf: genomic coordinates (0 <= first start), which C07 needs
   because a query start of 0 is read as "no start". *)
Theorem C03_slices_are_overlaps : forall c bins (ranges : list (Z * Z)) e E,
  bins_in e bins E -> 0 <= e ->
  slices c bins ranges = filter kept (map (fun q => spanned bins (fst q) (snd q)) ranges).
Proof. exact slices_spec. Qed.

(* hence the table computed along the code's path (chrom_segs_code: what the model entry
   points run and the correspondence compares) is the table of the theorems above ... *)
Theorem C03_code_path : forall m skip_low min_weight bins mask bps,
  bins_wf bins -> 0 <= span_lo bins ->
  chrom_segs_code m (flag_bins skip_low min_weight bins mask) bps =
  chrom_segs m (flag_bins skip_low min_weight bins mask) bps.
Proof. exact p_code_path. Qed.

(* ... and C03_fields holds of it: no row is left with the "-", 0, 0 placeholders, no row
   gets a neighbour's selection *)
Theorem C03_fields_code_path : forall m skip_low min_weight bins mask bps,
  bins_wf bins -> 0 <= span_lo bins ->
  Forall (fields_ok bins) (chrom_segs_code m (flag_bins skip_low min_weight bins mask) bps).
Proof. exact p_fields_code. Qed.

Theorem C03_hmm_code_path : forall skip_low min_weight name bins mask bps a b,
  bins_wf bins -> 0 <= span_lo bins ->
  chrom_hmm_segs_code a b (mkChrom name (flag_bins skip_low min_weight bins mask) bps) =
  chrom_hmm_segs a b (mkChrom name (flag_bins skip_low min_weight bins mask) bps).
Proof. exact h_code_path. Qed.

Theorem C03_transfer_call_source : transfer_slices_mode = "outer"%string.
Proof. reflexivity. Qed.

(* ---- chromosome arms: GenomicArray.by_arm exactly ----------------------------- *)

(* r is the code's int(round(0.1 * n)) (any integer here: the margin is max(50, r)).
   The arms are the chromosome's rows in order, none empty, at most two; the chromosome is
   split iff some gap keeping the margin to both ends is >= 100000 (i.e. iff the largest
   interior gap is), and then in front of the first row carrying the largest interior gap. *)
Theorem C03_arms : forall (A : Type) (lo hi : A -> Z) r l,
  arms_spec lo hi r l (arm_split_with lo hi r l).
Proof. exact @arm_split_spec. Qed.

(* the arms the segmentation model uses are those for the exactly rounded share ... *)
Theorem C03_chrom_arms : forall fl,
  arms_spec fb_lo fb_hi (round_share (Z.of_nat (length fl))) fl (chrom_arms fl).
Proof. intros fl. exact (arm_split_spec fb_lo fb_hi _ fl). Qed.

(* ... which is a correctly rounded share (within 1/2 of n/10); away from n = 5 (mod 10)
   there is no other, at the tie it is one of the two neighbours (which one the float
   product 0.1 * n gives is the oracle's business), *)
Theorem C03_share_exact : forall n, share_ok n (round_share n).
Proof. exact round_share_ok. Qed.

Theorem C03_share_unique : forall n r, share_ok n r -> n mod 10 <> 5 -> r = round_share n.
Proof. exact share_unique. Qed.

Theorem C03_share_tie : forall n r, share_ok n r -> n mod 10 = 5 -> r = n / 10 \/ r = n / 10 + 1.
Proof. exact share_tie. Qed.

(* and on chromosomes of at most 504 rows (the property's 1..400) the rounding is
   immaterial: the margin is 50 *)
Theorem C03_arms_any_rounding : forall (A : Type) (lo hi : A -> Z) l r,
  share_ok (Z.of_nat (length l)) r -> Z.of_nat (length l) <= 504 ->
  arm_split_with lo hi r l = arm_split lo hi l.
Proof. exact @arm_split_small. Qed.

Theorem C03_share_contract_source : forall n r, round_contract n r <-> share_ok n r.
Proof. exact round_contract_literal. Qed.

(* first-maximum tie-breaking, on a chromosome of 103 rows with two equal 100 kb gaps in
   front of rows 51 and 52 (both interior): cut at 51 *)
Example C03_ex_arms_tie :
  let rows := map (fun i => let i := Z.of_nat i in
                     let s := i * 1000 + (if 51 <=? i then 100000 else 0) + (if 52 <=? i then 100000 else 0) in
                     (s, s + 900)) (seq 0 103) in
  map (fun a => Z.of_nat (length a)) (arm_split fst snd rows) = [51; 52].
Proof. vm_compute. reflexivity. Qed.

(* ---- haar end to end: the breakpoints are the ones the C11 core computes -------- *)

(* One haarSeg call (one piece s of an arm's survivors; o: the smoothed signal
   cnarr.smooth_log2() of the piece and the FDR p-values -- oracles; weights: the piece's
   own).  By C11_sizes (imported) the breakpoints are strictly increasing inside 1 .. n-2;
   the table one_chrom builds has one row per index range [s, e) between them: from the
   start of bin s to the end of bin e-1, probes e - s, and log2 = SegmentByPeaks' mean of
   the signal over that range; and these are the rows of groups_of_breaks at those
   breakpoints. *)
Theorem C03_haar_piece : forall (su sw : Z -> Q) q s o,
  s <> [] -> length (ho_signal o) = length s ->
  let bps := piece_breaks su sw q s o in
  let n := Z.of_nat (length s) in
  Spec.Haar.ssorted bps /\ (forall b, In b bps -> 1 <= b <= n - 2) /\
  haar_table s (haar_one su sw q s o) =
    map (bound_row s (ho_signal o) (Some (map wt0 s))) (Model.Haar.seg_bounds 0 bps n) /\
  map raw_coords (haar_table s (haar_one su sw q s o)) = map group_coords (groups_from 0 bps s).
Proof. exact haar_piece_rows. Qed.

(* that mean is the weight-averaged signal (plain mean if the weights in the range do not
   sum to something positive) *)
Theorem C03_haar_log2 : forall data w s e,
  let d := Model.Haar.slice data s e in
  let ws := Model.Haar.slice w s e in
  ((0 < fold_right Qplus 0 ws)%Q ->
     (Model.Haar.seg_mean data (Some w) s e == fold_right Qplus 0 (Model.Haar.qmul2 d ws) / fold_right Qplus 0 ws)%Q) /\
  (~ (0 < fold_right Qplus 0 ws)%Q ->
     (Model.Haar.seg_mean data (Some w) s e == fold_right Qplus 0 d / inject_Z (Z.of_nat (length d)))%Q).
Proof. exact seg_mean_spec. Qed.

(* segment_haar on the survivors of an arm (haar's own by_arm may cut them again): start,
   end and probes of its rows are those of the survivors cut at haar_arm_bps -- every piece's
   C11 breakpoints moved to the piece's offset, plus the piece boundaries *)
Theorem C03_haar_table : forall (su sw : Z -> Q) q surv os,
  oracle_fits (arm_split b_lo b_hi surv) os ->
  map raw_coords (segment_haar su sw q surv os) =
  map raw_coords (method_rows (AGiven MHaar (haar_arm_bps su sw q 0 (arm_split b_lo b_hi surv) os)) surv).
Proof. exact haar_rows_spec. Qed.

(* hence what _do_segmentation reports for the arm with method haar is, in every column but
   log2, arm_segs at those breakpoints -- the object of C03_tiling / C03_accounting /
   C03_arm_edges / C03_fields, which hold for every breakpoint list *)
Theorem C03_haar_arm : forall (B : Type) (baf : Z -> Z -> B) c (su sw : Z -> Q) q os fl out,
  bins_wf (map fst fl) -> 0 <= span_lo (map fst fl) ->
  oracle_fits (arm_split b_lo b_hi (survivors fl)) os ->
  arm_full baf c (AHaar su sw q os) fl None = Some out ->
  map strip (map fst out) =
  map strip (arm_segs MHaar fl (haar_arm_bps su sw q 0 (arm_split b_lo b_hi (survivors fl)) os)).
Proof. exact @arm_full_haar. Qed.

(* and with the breakpoints given (method none: no breakpoint) it is arm_segs itself *)
Theorem C03_arm_given : forall (B : Type) (baf : Z -> Z -> B) c m bps fl out,
  bins_wf (map fst fl) -> 0 <= span_lo (map fst fl) ->
  arm_full baf c (AGiven m bps) fl None = Some out -> map fst out = arm_segs m fl bps.
Proof. exact @arm_full_given. Qed.

(* ---- `variants=` for the per-arm methods ------------------------------------------- *)

(* hmm.variants_in_segment on one row w (vs: the variants overlapping it, states: the state
   path of its allele-frequency HMM -- an oracle): the resulting rows tile w's own range
   (first starts at w's start, each starts where its predecessor ends, the last ends at w's
   end, all of positive length), carry w's log2, and are either w itself or one row per run
   of equal states (>= 2 runs), `probes` being the number of VARIANTS in the run *)
Theorem C03_variant_resplit : forall w vs states part,
  resplit w vs states = Some part -> w_lo w < w_hi w ->
  resplit_of w (map run_count (runs_of vs states)) part.
Proof. exact resplit_spec. Qed.

(* all rows of the arm: each method row is replaced, in order, by its own re-split *)
Theorem C03_variant_parts : forall vars ws states rows,
  resplit_all ws vars states = Some rows -> Forall (fun w => w_lo w < w_hi w) ws ->
  exists parts, concat parts = rows /\ resplit_parts ws vars states parts.
Proof. exact resplit_all_spec. Qed.

(* the arm's report, any method, with or without variants (baf: the BAF of a range, an
   oracle function): one reported row per row, in order; row i's baf is baf(range of row i)
   -- the range it had when the baf column was written, i.e. before the edge stretch --;
   the reported coordinates are the stretched ones, probes and log2 are carried over, and
   gene / weight / depth are those of exactly the input bins the reported row overlaps
   (fields_ok), also for a row that overlaps none: "-", 0, 0 *)
Theorem C03_variant_rows : forall (B : Type) (baf : Z -> Z -> B) c am fl variants out,
  bins_wf (map fst fl) -> 0 <= span_lo (map fst fl) ->
  arm_full baf c am fl variants = Some out ->
  exists rows, arm_rows am fl variants = Some rows /\
    length out = length rows /\
    map snd out = map (fun w => baf (w_lo w) (w_hi w)) rows /\
    map fst out = map (fill_spanned (map fst fl)) (stretched (map fst fl) rows) /\
    Forall2 carries (stretched (map fst fl) rows) (map fst out) /\
    Forall (fields_ok (map fst fl)) (map fst out).
Proof. exact @arm_full_spec. Qed.

(* the call in the source keeps rows without bins in step (repaired in /repo 0138a18) *)
Theorem C03_transfer_keeps_empty_source : transfer_slices_keep_empty = true.
Proof. reflexivity. Qed.

(* ---- processes: the table does not depend on the pool --------------------------------- *)

(* concurrent.futures map with p workers and ANY assignment of the items to them: the
   results in submission order *)
Theorem C03_pool : forall (X Y : Type) (f : X -> Y) p assign xs,
  (forall i, (i < length xs)%nat -> (assign i < p)%nat) -> pool_map f p assign xs = map f xs.
Proof. exact @pool_map_spec. Qed.

(* do_segmentation(..., processes = p) = the serial table, for every p >= 1 and every schedule *)
Theorem C03_parallel : forall (B : Type) (baf : string -> Z -> Z -> B) p assign tm tbl,
  (forall i, (i < length (table_jobs tm tbl))%nat -> (assign i < p)%nat) ->
  table_segs baf p assign tm tbl = table_segs_serial baf tm tbl.
Proof. exact @table_parallel. Qed.

(* which is the (stably, by chromosome key, start, end) sorted concatenation, over the arms
   in order, of the per-arm reports; the arms are those of every chromosome, in table order *)
Theorem C03_table_shape : forall (B : Type) (baf : string -> Z -> Z -> B) tm tbl rows,
  table_segs_serial baf tm tbl = Some rows ->
  exists rets, Forall2 (fun j r => run_job baf j = Some r) (table_jobs tm tbl) rets /\
               rows = concat_sorted rets.
Proof. exact @table_serial_shape. Qed.

Theorem C03_table_arms : forall tm tbl,
  map aj_fl (table_jobs tm tbl) = flat_map (fun c => chrom_arms (cj_fl c)) tbl.
Proof. exact table_jobs_arms. Qed.

(* five items, three workers, a scrambled assignment *)
Example C03_ex_pool :
  pool_map (fun x => x * x) 3 (fun i => Nat.modulo (2 * i + 1) 3) [1; 2; 3; 4; 5] = [1; 4; 9; 16; 25].
Proof. vm_compute. reflexivity. Qed.

(* the regression input of /repo 0138a18 (corpus/c03.json): four bins around a wide gap,
   60 variants in three allele-frequency runs, the middle run wholly inside the gap.
   method none gives one row 0-62000, re-split at the midpoints 5880 and 54025; the middle
   row overlaps no bin and reports "-", weight 0, depth 0; probes are the run sizes (20
   variants each, although 4 bins survive); each row's baf is asked for its own range *)
Definition ex_var_bins : list bin :=
  [ mkBin 0 1000 "A" (1 # 10) (Some 1%Q) 10%Q; mkBin 1000 2000 "A" (1 # 10) (Some 1%Q) 10%Q;
    mkBin 60000 61000 "B" (1 # 10) (Some 2%Q) 30%Q; mkBin 61000 62000 "B" (1 # 10) (Some 2%Q) 30%Q ]%string.
Definition ex_var_rows : list vrow :=
  map (fun i => let p := 50 + Z.of_nat i * 90 in (p, p + 1)) (seq 0 20) ++
  map (fun i => let p := 10000 + Z.of_nat i * 2000 in (p, p + 1)) (seq 0 20) ++
  map (fun i => let p := 60050 + Z.of_nat i * 90 in (p, p + 1)) (seq 0 20).
Definition ex_var_states : list Z := repeat 0 20 ++ repeat 1 20 ++ repeat 0 20.

Example C03_ex_variants :
  option_map (map (fun x => (s_lo (fst x), s_hi (fst x), s_probes (fst x), s_gene (fst x), s_weight (fst x),
                             s_depth (fst x), snd x)))
    (arm_full (fun lo hi => (lo, hi)) "chr1" (AGiven MNone []) (flag_bins false 0 ex_var_bins [])
              (Some (ex_var_rows, [ex_var_states]))) =
  Some [ (0, 5880, 20, "A", Some (2 # 1), 10 # 1, (0, 5880));
         (5880, 54025, 20, "-", Some (0 # 1), 0 # 1, (5880, 54025));
         (54025, 62000, 20, "B", Some (4 # 1), 30 # 1, (54025, 62000)) ]%string.
Proof. vm_compute. reflexivity. Qed.

(* whole-table methods: the table along the code's path is the table of the theorems *)
Theorem C03_hmm_table_code : forall tbl,
  Forall (fun c => bins_wf (map fst (c_fl c)) /\ 0 <= span_lo (map fst (c_fl c))) tbl ->
  hmm_table_code tbl = hmm_table tbl.
Proof. intros tbl H. exact (hmm_rows_code_eq tbl true H). Qed.

(* ---- the filters and the constants the model reads from /repo -------------- *)

Theorem C03_flags_positional : forall skip_low min_weight bins mask,
  map fst (flag_bins skip_low min_weight bins mask) = bins.
Proof. exact flag_bins_bins. Qed.

Theorem C03_low_coverage_rule : forall b,
  low_coverage b = true <-> (b_log2 b < -15 # 1)%Q \/ (b_depth b == 0)%Q.
Proof. exact low_coverage_rule. Qed.

Theorem C03_survives_rule : forall skip_low min_weight outlier b,
  survives skip_low min_weight outlier b = true <->
  (skip_low = true -> low_coverage b = false) /\ outlier = false /\
  exists w, b_weight b = Some w /\
            (if Qeq_bool min_weight 0 then ~ (w == 0)%Q else ~ (w < min_weight)%Q).
Proof. exact survives_rule. Qed.

Theorem C03_gene_names_source :
  ignored_names = ["-"; "."; "CGH"; "Antitarget"; "Background"]%string.
Proof. reflexivity. Qed.

Theorem C03_by_arm_constants :
  by_arm_min_gap_size = 100000 /\ by_arm_min_arm_bins = 50 /\ by_arm_frac = (1, 10).
Proof. repeat split; reflexivity. Qed.

(* ---- the hypotheses are satisfiable; a worked case ------------------------- *)

Definition ex_bins : list bin :=
  [ mkBin 0 100 "A" (0 # 1) (Some (0 # 1)) (1 # 1);       (* weight 0: filtered, at the edge *)
    mkBin 100 200 "A" (1 # 1) (Some (1 # 1)) (2 # 1);
    mkBin 300 400 "B" (3 # 1) (Some (1 # 1)) (4 # 1);
    mkBin 400 500 "-" (5 # 1) (Some (0 # 1)) (6 # 1) ]%string.   (* filtered, at the other edge *)

Example C03_ex_wf : bins_wf ex_bins /\ Forall (fun b => (0 <= weight_of b)%Q) ex_bins.
Proof. split; [cbn; lia|]. repeat constructor; discriminate. Qed.

(* none: one segment 0-500 (stretched over both filtered edge bins), 2 probes,
   log2 (1+3)/2, weight 0+1+1+0, depth (2+4)/2, genes A,B *)
Example C03_ex_none :
  chrom_segs MNone (flag_bins false (0 # 1) ex_bins []) [] =
  [ mkSeg 0 500 2 (Some (2 # 1)) "A,B" (Some (2 # 1)) (3 # 1) ]%string.
Proof. vm_compute. reflexivity. Qed.

(* haar with a breakpoint after the first survivor: 0-200 and 300-500 *)
Example C03_ex_haar :
  map (fun s => (s_lo s, s_hi s, s_probes s))
      (chrom_segs MHaar (flag_bins false (0 # 1) ex_bins []) [1]) = [(0, 200, 1); (300, 500, 1)].
Proof. vm_compute. reflexivity. Qed.

(* hmm on a middle chromosome of the table: no stretch, 100-400 *)
Example C03_ex_hmm :
  map (fun s => (s_lo s, s_hi s, s_probes s))
      (chrom_hmm_segs false false (mkChrom "chr2" (flag_bins false (0 # 1) ex_bins []) [])) = [(100, 400, 2)].
Proof. vm_compute. reflexivity. Qed.

(* ---- loop tie: ONE ITERATION of transfer_fields' aggregation loop, translated from the Python source on every
   run (Gen/FnSegTransfer.v fn_transfer_step): the gene / weight / depth stored at row i.  With the model's
   aggregates of the selected bins it is exactly what `fill` receives for that row *)
Theorem C03_source_transfer_step : forall i bc pm (sp : list bin) s names,
  sum_weights sp = Some s ->
  fn_transfer_step i true s (Qred (qdot (map b_depth sp) (map wt0 sp) / s)) bc pm (kept_genes names)
  = (gene_field names, s, agg_depth sp).
Proof. exact source_transfer_weighted. Qed.

(* the gene column whatever the weights: "-" when no kept name is left, else the kept names joined by "," *)
Theorem C03_source_transfer_gene : forall i hw ws wm bc pm names,
  fst (fst (fn_transfer_step i hw ws wm bc pm (kept_genes names))) = gene_field names.
Proof. exact source_transfer_gene. Qed.

(* a table without a weight column: the bin count and the plain mean *)
Theorem C03_source_transfer_unweighted : forall i ws wm bc pm names,
  fn_transfer_step i false ws wm bc pm (kept_genes names) = (gene_field names, inject_Z bc, pm).
Proof. exact source_transfer_unweighted. Qed.

(* ---- source tie: _do_segmentation's weight rule per row (`if min_weight: weight_too_low = (w < min_weight) | w.isna()
   else: weight_too_low = (w == 0) | w.isna()`), translated from the Python source on every run
   (Gen/FnSegWeightMask.v fn_weight_too_low): it is the model's weight_too_low, the third factor of `survives` *)
From CNV Require Import Gen.FnSegWeightMask Proofs.FnSegWeightMask.

Theorem C03_source_weight_mask : forall (min_weight : Q) (b : bin),
  fn_weight_too_low min_weight (b_weight b) = weight_too_low min_weight b.
Proof. exact source_weight_mask. Qed.

Theorem C03_source_weight_survives : forall skip_low (min_weight : Q) outlier (b : bin),
  survives skip_low min_weight outlier b
  = negb (skip_low && low_coverage b) && negb outlier && negb (fn_weight_too_low min_weight (b_weight b)).
Proof. exact source_weight_survives. Qed.

(* ---- source tie: transfer_fields' endpoint stretch (the two `if <chromosome test>: segments.data.iloc[K, get_loc(col)] = v`
   statements), translated from the Python source on every run (Gen/FnSegStretch.v fn_stretch: the first row's start and the
   last row's end afterwards).  Written back into the rows (code_stretch) it is the model's raw_stretch_lo / raw_stretch_hi,
   each exactly when its chromosome test holds *)
From CNV Require Import Gen.FnSegStretch Proofs.FnSegStretch.

Theorem C03_source_stretch_rows : forall sc0 bc0 scl bcl bs be w t,
  code_stretch sc0 bc0 scl bcl bs be (w :: t)
  = (if String.eqb scl bcl then raw_stretch_hi be else (fun l => l))
      ((if String.eqb sc0 bc0 then raw_stretch_lo bs else (fun l => l)) (w :: t)).
Proof. exact source_stretch_rows. Qed.

(* a piece within one chromosome: transfer_fields aggregates over exactly the rows the generated stretch leaves *)
Theorem C03_source_stretch_transfer : forall c cl (b : bin) bt ws,
  transfer c (b :: bt) ws
  = aggregate c (b :: bt) (code_stretch c c cl cl (b_lo b) (b_hi (last bt b)) ws).
Proof. exact source_stretch_transfer. Qed.

(* first / last row on another chromosome than the bins' first / last (whole-table methods): left alone *)
Theorem C03_source_stretch_other : forall sc0 bc0 scl bcl bs be ws,
  String.eqb sc0 bc0 = false -> String.eqb scl bcl = false ->
  code_stretch sc0 bc0 scl bcl bs be ws = ws.
Proof. exact source_stretch_other. Qed.

(* ---- source tie: drop_outliers, the WHOLE function read per row as "the bin is kept" (an empty table is returned as it is,
   otherwise "return cnarr[~outlier_mask]"), translated from the Python source on every run (Gen/FnSegOutliers.v
   fn_drop_outliers_keep): on a table with a row it is negb outlier, and the model's survives is the conjunction of the
   generated bits of drop_outliers and of the weight rule *)
From CNV Require Import Gen.FnSegOutliers Proofs.FnSegOutliers.

Theorem C03_source_drop_outliers : forall (nrows : Z) (outlier : bool) (n_outliers : Z),
  nrows <> 0 -> fn_drop_outliers_keep nrows outlier n_outliers = negb outlier.
Proof. exact source_drop_outliers. Qed.

Theorem C03_source_survives_bits : forall skip_low (min_weight : Q) (outlier : bool) (b : bin) (nrows n_outliers : Z),
  nrows <> 0 ->
  survives skip_low min_weight outlier b
  = negb (skip_low && low_coverage b) && fn_drop_outliers_keep nrows outlier n_outliers
    && negb (fn_weight_too_low min_weight (b_weight b)).
Proof. exact source_survives_bits. Qed.
