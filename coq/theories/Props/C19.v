(* C19 -- robust estimators and smoothers obey their defining invariants.
   Property theorems only; proofs live in Proofs/Descriptives*.v and
   Proofs/Smoothing*.v.  Models: Model/Descriptives.v, Model/Smoothing.v (exact
   rational arithmetic); textbook definitions: Spec/Stats.v.  Square roots
   (biweight midvariance, weighted std, gapper's sqrt(pi)) are outside: the
   squared / unscaled quantities are stated. *)
From CNV Require Import Base.Prelude Base.QNum Proofs.QNumLemmas Gen.DescDefaults
  Model.Descriptives Model.Smoothing Spec.Stats
  Proofs.DescriptivesWMedian Proofs.DescriptivesWMedianEqual Proofs.DescriptivesShift
  Proofs.DescriptivesWMedianTop Proofs.DescriptivesScale Proofs.DescriptivesBiweight
  Proofs.Smoothing Proofs.SmoothingSavgol Proofs.DescriptivesMore Proofs.DescriptivesBivar
  Proofs.SmoothingWeighted Proofs.DescriptivesLib Proofs.DescriptivesWMedianPos Proofs.SmoothingMore
  Gen.FnDescriptives Gen.FnSmoothing Proofs.FnDescriptives.
From Coq Require Import Qabs Qround.
Local Open Scope Q_scope.

(* ========================================================================== *)
(** * Weighted median *)

(* [ps] are the (value, weight) pairs as given, [r] ANY arrangement of them by
   value (the package takes numpy's argsort; the order of equal values is
   numpy's business; the model's own stable sort [psort] is one instance).

   The value returned leaves at most half of the total weight strictly below
   and at most half strictly above it -- provided no running sum of the
   arranged weights falls inside the package's rounding allowance
   n * 2^-52 * W around W/2 without being exactly W/2 ([wm_no_near_tie], a
   decidable condition, true for all weights on a grid coarser than the
   allowance). *)
Theorem C19_wmedian_halves : forall ps r : list (Q * Q),
  Permutation r ps -> sorted_by_value r -> nonneg_weights ps -> ps <> [] ->
  wm_no_near_tie r ->
  is_weighted_median (wmedian_sorted r) ps.
Proof. exact arranged_halves. Qed.

(* Without that proviso: always within the allowance n * 2^-52 * W of the half. *)
Theorem C19_wmedian_halves_tol : forall ps r : list (Q * Q),
  Permutation r ps -> sorted_by_value r -> nonneg_weights ps -> ps <> [] ->
  is_weighted_median_upto (wmed_tol ps) (wmedian_sorted r) ps.
Proof. exact arranged_halves_tol. Qed.

Theorem C19_wmed_tol_is : forall ps,
  wmed_tol ps == inject_Z (Z.of_nat (length ps)) * (1 # 4503599627370496) * wtotal ps.
Proof. exact wmed_tol_spec. Qed.

(* ... and the proviso cannot be dropped: with weights 1, 2^-50, 1 the running sum 1
   is within the allowance of the half 1 + 2^-51, the package averages 0 and 1,
   and 1 + 2^-50 > W/2 of the weight lies above 0.5 (confirmed on the real code:
   weighted_median([0,1,2],[1,2**-50,1]) = 0.5; the weighted median is 1). *)
Lemma C19_wmedian_halves_strict_refuted :
  exists ps, sorted_by_value ps /\ pos_weights ps /\ ~ is_weighted_median (wmedian_sorted ps) ps.
Proof.
  exists [(0, 1); (1, 1 # 1125899906842624); (2, 1)]. split; [|split].
  - unfold sorted_by_value. repeat constructor; unfold Qle; cbn; lia.
  - intros p [<-|[<-|[<-|[]]]]; reflexivity.
  - intros [_ B]. vm_compute in B. apply B. reflexivity.
Qed.

(* The decorated function on the model's own arrangement (one pair: that value). *)
Theorem C19_wmedian_halves_fn : forall ps m,
  nonneg_weights ps -> wm_no_near_tie (psort ps) -> weighted_median_ps ps = Some m ->
  is_weighted_median m ps.
Proof. exact weighted_median_ps_halves. Qed.

Example C19_wmedian_example :
  weighted_median [3; 1; 2; 5; 4] [1; 2; 1; 1 # 2; 1 # 2] = Some 2 /\
  wm_no_near_tie_b (psort (combine [3; 1; 2; 5; 4] [1; 2; 1; 1 # 2; 1 # 2])) = true /\
  wbelow 2 (combine [3; 1; 2; 5; 4] [1; 2; 1; 1 # 2; 1 # 2]) == 2 /\
  wabove 2 (combine [3; 1; 2; 5; 4] [1; 2; 1; 1 # 2; 1 # 2]) == 2 /\
  wtotal (combine [3; 1; 2; 5; 4] [1; 2; 1; 1 # 2; 1 # 2]) == 5.
Proof. vm_compute. repeat split. Qed.

(* the decidable form of the proviso *)
Theorem C19_wm_no_near_tie_decidable : forall r, wm_no_near_tie_b r = true -> wm_no_near_tie r.
Proof. exact wm_no_near_tie_b_sound. Qed.

(* The result lies between two of the values. *)
Theorem C19_wmedian_range : forall ps r : list (Q * Q),
  Permutation r ps -> sorted_by_value r -> nonneg_weights ps -> ps <> [] ->
  exists p q, In p ps /\ In q ps /\ fst p <= wmedian_sorted r <= fst q.
Proof. exact arranged_range. Qed.

(* Equal positive weights: the ordinary median (n^2 * 2^-52 < 1/2, i.e. fewer
   than 2^25.5 values: beyond that the allowance exceeds half a weight). *)
Theorem C19_wmedian_equal : forall (ps r : list (Q * Q)) (w : Q),
  Permutation r ps -> sorted_by_value r -> ps <> [] -> 0 < w ->
  (forall p, In p ps -> snd p = w) ->
  (Z.of_nat (length ps) * Z.of_nat (length ps) < 2 ^ 51)%Z ->
  wmedian_sorted r == median (map fst ps).
Proof.
  intros ps r w Hp Hs Hne Hw He Hn.
  exact (wmedian_equal_median ps r w Hp Hs Hne Hw He (tol_units_small _ Hn)).
Qed.

Example C19_wmedian_equal_example :
  weighted_median [3; 1; 2; 4] [1 # 3; 1 # 3; 1 # 3; 1 # 3] = Some (5 # 2) /\ median [3; 1; 2; 4] == 5 # 2 /\
  (400 * 400 < 2 ^ 51)%Z.
Proof. vm_compute. repeat split; discriminate. Qed.

(* Shift and scale: the search looks at the weights only. *)
Theorem C19_wmedian_shift : forall c ps, ps <> [] -> nonneg_weights ps ->
  wmedian_sorted (map_values (fun x => x + c) ps) == wmedian_sorted ps + c.
Proof. exact wmedian_sorted_shift. Qed.

Theorem C19_wmedian_scale : forall k ps, ps <> [] -> nonneg_weights ps ->
  wmedian_sorted (map_values (fun x => k * x) ps) == k * wmedian_sorted ps.
Proof. exact wmedian_sorted_scale. Qed.

Example C19_wmedian_shift_example :
  wmedian_sorted (map_values (fun x => x + 10) [(1, 2); (2, 1); (3, 1); (5, 1 # 2)]) == 12 /\
  wmedian_sorted [(1, 2); (2, 1); (3, 1); (5, 1 # 2)] == 2.
Proof. vm_compute. split; reflexivity. Qed.

(* NOT invariant under permuting pairs with equal values and different weights when a
   zero weight sits on the half: both answers are weighted medians (confirmed on the
   real code: weighted_median([0,0,1,2],[2,0,2,0]) = 0.0, ([0,0,1,2],[0,2,2,0]) = 0.5). *)
Lemma C19_wmedian_perm_refuted :
  exists ps ps', Permutation ps ps' /\ nonneg_weights ps /\ sorted_by_value ps /\ sorted_by_value ps' /\
                 ~ wmedian_sorted ps == wmedian_sorted ps'.
Proof.
  exists [(0, 2); (0, 0); (1, 2); (2, 0)], [(0, 0); (0, 2); (1, 2); (2, 0)].
  split; [apply perm_swap|]. split; [|split; [|split]].
  - intros p [<-|[<-|[<-|[<-|[]]]]]; unfold Qle; cbn; lia.
  - unfold sorted_by_value. repeat constructor; unfold Qle; cbn; lia.
  - unfold sorted_by_value. repeat constructor; unfold Qle; cbn; lia.
  - vm_compute. discriminate.
Qed.

(* The sharp positive version: with strictly positive weights and no near-tie the weighted
   median is a function of the multiset -- [wm_determined] has at most one solution, and the
   search returns it on EVERY arrangement sorted by value. *)
Theorem C19_wmedian_unique : forall ps m m',
  pos_weights ps -> wm_determined m ps -> wm_determined m' ps -> m == m'.
Proof. exact wm_determined_unique. Qed.
Theorem C19_wmedian_determined : forall ps,
  sorted_by_value ps -> pos_weights ps -> ps <> [] -> wm_no_near_tie ps -> wm_determined (wmedian_sorted ps) ps.
Proof. exact wmedian_sorted_determined. Qed.
Theorem C19_wmedian_perm_positive : forall ps r r' : list (Q * Q),
  Permutation r ps -> Permutation r' ps -> sorted_by_value r -> sorted_by_value r' ->
  pos_weights ps -> ps <> [] -> wm_no_near_tie r -> wm_no_near_tie r' ->
  wmedian_sorted r == wmedian_sorted r'.
Proof. exact wmedian_perm_positive. Qed.
(* hence equivariant under every non-zero rescaling of the values, negative ones included
   (with a zero weight on the tie it is not: weighted_median([0,0,1,2],[2,0,2,0]) = 0,
   weighted_median([0,0,-1,-2],[2,0,2,0]) = -0.5) *)
Theorem C19_wmedian_scale_positive : forall k ps, ~ k == 0 -> pos_weights ps -> ps <> [] ->
  wm_no_near_tie (psort ps) -> wm_no_near_tie (psort (scale_values k ps)) ->
  wmedian_sorted (psort (scale_values k ps)) == k * wmedian_sorted (psort ps).
Proof. exact wmedian_psort_scale. Qed.

Example C19_wmedian_determined_example :
  wm_no_near_tie_b (psort [(3, 1); (1, 2); (2, 1); (5, 1 # 2); (4, 1 # 2)]) = true /\
  wmedian_sorted (psort [(3, 1); (1, 2); (2, 1); (5, 1 # 2); (4, 1 # 2)]) == 2 /\
  wmedian_sorted (psort (scale_values (-3) [(3, 1); (1, 2); (2, 1); (5, 1 # 2); (4, 1 # 2)])) == -6.
Proof. vm_compute. repeat split. Qed.

(* No contract hypothesis is left for the arrangement: the model's own stable sort is a sorted
   permutation, and an order supplied by numpy is used only after [arrange_pairs] has checked
   that it is one. *)
Theorem C19_psort_sorted_perm : forall ps, Permutation (psort ps) ps /\ sorted_by_value (psort ps).
Proof. exact psort_sorted_perm. Qed.
Theorem C19_arrange_pairs_sound : forall ord ps r,
  arrange_pairs ord ps = Some r -> Permutation r ps /\ sorted_by_value r.
Proof. exact arrange_pairs_sound. Qed.
Theorem C19_wmedian_ord_halves : forall ps ord m,
  nonneg_weights ps -> weighted_median_ord ps ord = Some (Some m) ->
  (forall r, arrange_pairs ord ps = Some r -> wm_no_near_tie r) ->
  is_weighted_median m ps.
Proof. exact weighted_median_ord_halves. Qed.
Theorem C19_wmedian_ord_range : forall ps ord m,
  nonneg_weights ps -> weighted_median_ord ps ord = Some (Some m) ->
  exists p q, In p ps /\ In q ps /\ fst p <= m <= fst q.
Proof. exact weighted_median_ord_range. Qed.

(* ========================================================================== *)
(** * The trivial-length decorators *)

(* nothing (all NaN) -> NaN; one value -> that value (location) / the default 0 (scale);
   two or more values -> the estimator proper *)
Theorem C19_on_array : forall (d : option Q) (f : list Q -> option Q),
  on_array d f [] = None /\
  (forall x, on_array d f [x] = Some (match d with Some v => v | None => x end)) /\
  (forall x y t, on_array d f (x :: y :: t) = f (x :: y :: t)).
Proof. intros. split; [reflexivity|split; [intro x; destruct d; reflexivity|intros; reflexivity]]. Qed.

Example C19_single_value_examples :
  biweight_location [7] None = Some 7 /\ median_absolute_deviation [7] true = Some 0 /\
  interquartile_range [7] = Some 0 /\ q_n [7] = Some 0 /\ biweight_midvariance_sq [7] None = Some 0 /\
  weighted_mad_ps [(7, 2)] true = Some 0 /\ weighted_median_ps [(7, 2)] = Some 7 /\
  biweight_location (strip_nan [None; None]) None = None.
Proof. vm_compute. repeat split. Qed.

(* ========================================================================== *)
(** * Each estimator is its published formula  (C19_defs) *)

(* the doubles the package holds, as exact fractions *)
Example C19_literals_are_the_decimals :
  Qabs ((6677036807539497 # 4503599627370496) - (14826 # 10000)) < 1 # 4503599627370496 /\   (* 1.4826 *)
  Qabs ((3134505340649865 # 2251799813685248) - (1392 # 1000)) < 1 # 2251799813685248 /\     (* 1.392  *)
  Qabs ((1152921504606847 # 1152921504606846976) - (1 # 1000)) < 1 # 1152921504606846976.    (* 0.001  *)
Proof. vm_compute. repeat split. Qed.

Theorem C19_defs_mean : forall a, qmean a == meanQ a.
Proof. exact qmean_meanQ. Qed.

Theorem C19_defs_mad : forall a,
  mad_core a false == madQ a /\
  mad_core a true == madQ a * (6677036807539497 # 4503599627370496).
Proof. intro a. split; [exact (mad_core_unscaled a)|exact (mad_core_scaled a)]. Qed.

Theorem C19_defs_iqr : forall a, iqr_core a == percentile 75 a - percentile 25 a.
Proof. exact iqr_core_spec. Qed.

(* Q_n: first quartile of the pairwise distances over the sample-size factor
   1.392 (n <= 10), 1 + 4/n (10 < n < 400), 1 (n >= 400) *)
Theorem C19_defs_qn : forall a, qn_core a == qn_quartileQ a / qn_scale (length a).
Proof. exact qn_core_spec. Qed.
Theorem C19_defs_qn_factor : forall n : nat,
  qn_scale n ==
  if (Z.of_nat n <=? 10)%Z then (3134505340649865 # 2251799813685248)
  else if ((10 <? Z.of_nat n) && (Z.of_nat n <? 400))%Z then 1 + 4 / inject_Z (Z.of_nat n)
  else 1.
Proof.
  intro n. unfold qn_scale, QN_SMALL_N, QN_MID_LO, QN_MID_HI, QN_SMALL_SCALE, QN_LARGE_SCALE, QN_MID_BASE, QN_MID_NUM.
  destruct (Z.of_nat n <=? 10)%Z; [reflexivity|].
  destruct ((10 <? Z.of_nat n) && (Z.of_nat n <? 400))%Z; [|reflexivity].
  now rewrite qadd_spec, qdiv_spec.
Qed.

(* mean squared error: from zero unless a reference is given *)
Theorem C19_defs_mse : forall a,
  mse_core a None == mseQ 0 a /\ forall r, mse_core a (Some r) == mseQ r a.
Proof. intro a. split; [exact (mse_core_spec a None)|intro r; exact (mse_core_spec a (Some r))]. Qed.

(* weighted variance (the square of weighted_std): sum w (x - mu)^2 / sum w *)
Theorem C19_defs_wvar : forall ps v, weighted_var_core ps = Some v -> v == wvarQ ps.
Proof. exact weighted_var_core_spec. Qed.

(* biweight location: the published iteration, c = 6, at most 5 steps, stop at 0.001 *)
Theorem C19_defs_biweight_location : forall a,
  biweight_location_core a None == biweight_locationQ 5 6 (1152921504606847 # 1152921504606846976) a.
Proof. exact biweight_location_core_spec. Qed.

Example C19_defs_example :
  mad_core [1; 2; 4; 8; 16] false == 3 /\ iqr_core [1; 2; 4; 8; 16] == 6 /\
  qn_quartileQ [1; 2; 4; 8; 16] == 13 # 4 /\ mse_core [1; 2; 3] None == 14 # 3 /\
  weighted_var_core [(1, 1); (3, 1); (5, 2)] = Some (11 # 4) /\
  biweight_locationQ 5 6 (1152921504606847 # 1152921504606846976) [1; 1; 2; 2] == 3 # 2.
Proof. vm_compute. repeat split. Qed.

(* ========================================================================== *)
(** * Scale estimators: non-negative, zero on constant data, unchanged by a shift,
      proportional under rescaling *)

Theorem C19_mad_nonneg : forall a, 0 <= madQ a.
Proof. exact madQ_nonneg. Qed.
Theorem C19_mad_const : forall c a, a <> [] -> (forall x, In x a -> x == c) -> madQ a == 0.
Proof. exact madQ_const. Qed.
Theorem C19_mad_shift : forall c a, a <> [] -> madQ (map (fun x => x + c) a) == madQ a.
Proof. exact madQ_shift. Qed.
Theorem C19_mad_scale : forall k a, madQ (map (fun x => k * x) a) == Qabs k * madQ a.
Proof. exact madQ_scale. Qed.

Theorem C19_iqr_nonneg : forall a, a <> [] -> 0 <= iqrQ a.
Proof. exact iqrQ_nonneg. Qed.
Theorem C19_iqr_const : forall c a, a <> [] -> (forall x, In x a -> x == c) -> iqrQ a == 0.
Proof. exact iqrQ_const. Qed.
Theorem C19_iqr_shift : forall c a, a <> [] -> iqrQ (map (fun x => x + c) a) == iqrQ a.
Proof. exact iqrQ_shift. Qed.
(* every factor, negative ones included: the quartiles swap and change sign *)
Theorem C19_iqr_scale : forall k a, a <> [] -> iqrQ (map (fun x => k * x) a) == Qabs k * iqrQ a.
Proof. exact iqrQ_scale. Qed.

Theorem C19_qn_nonneg : forall a, (2 <= length a)%nat -> 0 <= qn_quartileQ a /\ 0 < qn_scale (length a).
Proof. intros a H. split; [now apply qn_quartileQ_nonneg|apply qn_scale_pos]. Qed.
Theorem C19_qn_const : forall c a, (2 <= length a)%nat -> (forall x, In x a -> x == c) -> qn_quartileQ a == 0.
Proof. exact qn_quartileQ_const. Qed.
Theorem C19_qn_shift : forall c a, qn_quartileQ (map (fun x => x + c) a) == qn_quartileQ a.
Proof. exact qn_quartileQ_shift. Qed.
Theorem C19_qn_scale : forall k a, (2 <= length a)%nat ->
  qn_quartileQ (map (fun x => k * x) a) == Qabs k * qn_quartileQ a.
Proof. exact qn_quartileQ_scale. Qed.

(* weighted variance = weighted_std^2: scales with k^2 (the std with |k|) *)
Theorem C19_wvar_nonneg : forall ps, nonneg_weights ps -> 0 < wtotal ps -> 0 <= wvarQ ps.
Proof. exact wvarQ_nonneg. Qed.
Theorem C19_wvar_const : forall c ps, ~ wtotal ps == 0 -> (forall p, In p ps -> fst p == c) -> wvarQ ps == 0.
Proof. exact wvarQ_const. Qed.
Theorem C19_wvar_shift : forall c ps, ~ wtotal ps == 0 -> wvarQ (shift_values c ps) == wvarQ ps.
Proof. exact wvarQ_shift. Qed.
Theorem C19_wvar_scale : forall k ps, wvarQ (scale_values k ps) == (k * k) * wvarQ ps.
Proof. exact wvarQ_scale. Qed.

Example C19_scale_example :
  madQ [1; 2; 4; 8; 16] == 3 /\ madQ (map (fun x => x + 10) [1; 2; 4; 8; 16]) == 3 /\
  madQ (map (fun x => -2 * x) [1; 2; 4; 8; 16]) == 6 /\ madQ [5; 5; 5] == 0 /\
  iqrQ (map (fun x => 3 * x) [1; 2; 4; 8; 16]) == 18 /\
  wvarQ (scale_values (-2) [(1, 1); (3, 1); (5, 2)]) == 11.
Proof. vm_compute. repeat split. Qed.

(* ========================================================================== *)
(** * Biweight location *)

Theorem C19_biloc_range : forall a, a <> [] ->
  qmin a <= biweight_location_core a None <= qmax a.
Proof. exact biweight_location_core_range. Qed.

Theorem C19_biloc_shift : forall a k, a <> [] ->
  biweight_location_core (map (fun x => x + k) a) None == biweight_location_core a None + k.
Proof. exact biweight_location_core_shift. Qed.

Theorem C19_biloc_const : forall a v, a <> [] -> (forall x, In x a -> x == v) ->
  biweight_location_core a None == v.
Proof. exact biweight_location_core_const. Qed.

Theorem C19_biloc_perm : forall a a', Permutation a a' ->
  biweight_location_core a None == biweight_location_core a' None.
Proof. exact biweight_location_core_perm. Qed.

(* the harness replays the loop from the code's own iterates ([biloc_chain]); on the exact
   iterates that replay IS the loop, so what is left to the comparison is float closeness only *)
Theorem C19_biloc_chain_exact : forall fuel c eps a i its m rs m',
  biloc_chain fuel c eps a i its m = (rs, m') ->
  (forall k, (S k < length rs)%nat -> nth k its 0 = nth k rs 0) ->
  last rs i = biloc_loop fuel c eps a i i.
Proof. exact biloc_chain_exact. Qed.

Example C19_biloc_example :
  biweight_location [1; 1; 2; 2] None = Some (3 # 2) /\
  biweight_location (map (fun x => x + 10) [1; 1; 2; 2]) None = Some (23 # 2) /\
  biweight_location [2; 1; 2; 1] None = Some (3 # 2) /\
  biweight_location [4; 4; 4] None = Some 4.
Proof. vm_compute. repeat split. Qed.

(* ========================================================================== *)
(** * Smoothers *)

(* the half-window fits the signal: 1 <= wing <= n - 1, for every accepted width
   (a fraction of the length, or an integer window size, also wider than the signal) *)
Theorem C19_wing : forall (n : Z) (width : Q) (ceil_oracle w : Z),
  width2wing n width ceil_oracle = WingOk w -> (1 <= w <= n - 1)%Z.
Proof. exact width2wing_ok. Qed.

Example C19_wing_example :
  width2wing 10 50 0 = WingOk 4 /\ width2wing 10 (1 # 2) 3 = WingOk 3 /\ width2wing 400 7 0 = WingOk 3 /\
  width2wing 10 (3 # 2) 0 = WingValueError /\ width2wing 1 3 0 = WingAssert.
Proof. vm_compute. repeat split. Qed.

(* one output per input *)
Theorem C19_length_rolling_median : forall x width o y,
  rolling_median x width o = inl y -> length y = length x.
Proof. exact rolling_median_length. Qed.
Theorem C19_length_kaiser : forall x width o window y,
  kaiser x width o window = inl y -> length y = length x.
Proof. exact kaiser_length. Qed.
Theorem C19_length_savgol : forall x tw o ww ord it coeffs el er y,
  savgol x tw o ww ord it coeffs el er = inl y -> length y = length x.
Proof. exact savgol_length. Qed.

(* a constant signal is reproduced: rolling median always; Kaiser for any window whose
   sum is not 0 (it is normalised); Savitzky-Golay for any coefficients / edge-fit rows
   summing to 1 *)
Theorem C19_const_rolling_median : forall x width o y c,
  rolling_median x width o = inl y -> all_eq c x -> all_eq c y.
Proof. exact rolling_median_const. Qed.
Theorem C19_const_kaiser : forall x width o window y c,
  kaiser x width o window = inl y -> ~ qsum window == 0 -> all_eq c x -> all_eq c y.
Proof. exact kaiser_const. Qed.
Theorem C19_const_savgol : forall x tw o ww ord it coeffs el er y c,
  savgol x tw o ww ord it coeffs el er = inl y ->
  qsum coeffs == 1 -> (forall row, In row (el ++ er) -> length row = length coeffs /\ qsum row == 1) ->
  all_eq c x -> all_eq c y.
Proof. exact savgol_const. Qed.

(* rolling median and a non-negative (Kaiser) window stay within the input range *)
Theorem C19_rolling_range : forall x width o y lo hi,
  rolling_median x width o = inl y -> within lo hi x -> within lo hi y.
Proof. exact rolling_median_within. Qed.
Theorem C19_kaiser_range : forall x width o window y lo hi,
  kaiser x width o window = inl y -> 0 < qsum window -> (forall c, In c window -> 0 <= c) ->
  within lo hi x -> within lo hi y.
Proof. exact kaiser_within. Qed.

Example C19_smoother_example :
  rolling_median [1; 9; 2; 8; 3; 7] 3 0 = inl [2; 3; 3; 7; 7; 7] /\
  kaiser [4; 4; 4; 4; 4] 3 0 [1; 2; 4; 2; 1; 0; 0] = inl [4; 4; 4; 4; 4] /\
  kaiser [0; 8; 0; 8; 0] 3 0 [0; 1; 2; 2; 2; 1; 0] = inl [3; 3; 4; 3; 3].
Proof. vm_compute. repeat split. Qed.

(* ========================================================================== *)
(** * Mode, gapper, weighted MAD, biweight midvariance, weighted Savitzky-Golay *)

(* the mode is one of the values -- whatever arg-max index the kernel density estimate
   (an oracle: scipy.stats.gaussian_kde) returns -- hence within the range; it moves with
   the data as long as the density peak stays at the same order statistic *)
Theorem C19_mode_range : forall a idx, a <> [] -> (idx < length a)%nat ->
  In (modal_core a idx) a /\ qmin a <= modal_core a idx <= qmax a.
Proof. intros a idx N H. split; [now apply modal_core_In|now apply modal_core_range]. Qed.
Theorem C19_mode_shift : forall a idx c, a <> [] -> (idx < length a)%nat ->
  modal_core (map (fun x => x + c) a) idx == modal_core a idx + c.
Proof. exact modal_core_shift. Qed.

(* gapper (the positive factor sqrt(pi) is an argument) *)
Theorem C19_gapper_nonneg : forall sqrt_pi a, 0 <= sqrt_pi -> 0 <= gapper_core sqrt_pi a.
Proof. exact gapper_core_nonneg. Qed.
Theorem C19_gapper_const : forall sqrt_pi c a, (forall x, In x a -> x == c) -> gapper_core sqrt_pi a == 0.
Proof. exact gapper_core_const. Qed.
Theorem C19_gapper_shift : forall sqrt_pi c a, gapper_core sqrt_pi (map (fun x => x + c) a) == gapper_core sqrt_pi a.
Proof. exact gapper_core_shift. Qed.
Theorem C19_gapper_scale : forall sqrt_pi k a,
  gapper_core sqrt_pi (map (fun x => k * x) a) == Qabs k * gapper_core sqrt_pi a.
Proof. exact gapper_core_scale_abs. Qed.
(* the published formula (Wainer & Thissen 1976): sum_i i (n-i) (x_(i+1) - x_(i)) / (n (n-1)), times sqrt(pi) *)
Theorem C19_defs_gapper : forall sqrt_pi a, gapper_core sqrt_pi a == gapperQ a * sqrt_pi.
Proof. exact gapper_core_spec. Qed.

(* weighted MAD *)
Theorem C19_wmad_nonneg : forall ps s, ps <> [] -> nonneg_weights ps -> 0 <= weighted_mad_core ps s.
Proof. exact weighted_mad_core_nonneg. Qed.
Theorem C19_wmad_const : forall ps s c, ps <> [] -> nonneg_weights ps ->
  (forall p, In p ps -> fst p == c) -> weighted_mad_core ps s == 0.
Proof. exact weighted_mad_core_const. Qed.
(* unchanged by a shift; proportional under every non-negative factor -- any non-negative weights *)
Theorem C19_wmad_shift : forall c ps s, ps <> [] -> nonneg_weights ps ->
  weighted_mad_core (shift_values c ps) s == weighted_mad_core ps s.
Proof. exact weighted_mad_core_shift. Qed.
Theorem C19_wmad_scale : forall k ps s, 0 <= k -> ps <> [] -> nonneg_weights ps ->
  weighted_mad_core (scale_values k ps) s == k * weighted_mad_core ps s.
Proof. exact weighted_mad_core_scale_nonneg. Qed.
(* every factor (|k|), when all weights are strictly positive and neither weighted median sits on a near-tie *)
Theorem C19_wmad_scale_positive : forall k ps s, pos_weights ps -> ps <> [] ->
  wm_no_near_tie (psort ps) -> wm_no_near_tie (psort (scale_values k ps)) ->
  weighted_mad_core (scale_values k ps) s == Qabs k * weighted_mad_core ps s.
Proof. exact weighted_mad_core_scale_positive. Qed.
(* ... and NOT for a negative factor when a zero weight sits on the tie: finding
   wmad-negative-scale-zero-weight-tie (real code: weighted_mad([0,0,1,2],[2,0,2,0]) = 0.0,
   weighted_mad([0,0,-1,-2],[2,0,2,0]) = 0.7413) *)
Lemma C19_wmad_scale_neg_refuted :
  exists ps, nonneg_weights ps /\ 0 < wtotal ps /\
             ~ weighted_mad_core (scale_values (-1) ps) false == Qabs (-1) * weighted_mad_core ps false.
Proof. exact wmad_scale_neg_refuted. Qed.

(* biweight midvariance, squared: Tukey's formula (c = 9) about the biweight location; the
   scaled MAD (1.4826 MAD)^2 only when no kept point deviates from the centre at all *)
Theorem C19_defs_bivar : forall a,
  bivar_sq_core a None ==
  biweight_midvariance_sqQ 9 (1152921504606847 # 1152921504606846976) (6677036807539497 # 4503599627370496) a
    (biweight_location_core a None).
Proof. intro a. exact (bivar_sq_core_spec a None). Qed.
Theorem C19_bivar_nonneg : forall a initial, 0 <= bivar_sq_core a initial.
Proof. exact bivar_sq_core_nonneg. Qed.
Theorem C19_bivar_const : forall a v, a <> [] -> (forall x, In x a -> x == v) -> bivar_sq_core a None == 0.
Proof. exact bivar_sq_core_const. Qed.
(* since fix 2c65616 the fallback no longer depends on symmetry: unchanged by a shift *)
Theorem C19_bivar_shift : forall a t, a <> [] ->
  bivar_sq_core (map (fun x => x + t) a) None == bivar_sq_core a None.
Proof. exact bivar_sq_core_shift. Qed.

Example C19_more_examples :
  modal_core [3; 1; 2; 2; 9] 1 == 2 /\ gapper_core 1 [1; 2; 4; 8] == 23 # 12 /\
  weighted_mad_core [(1, 1); (2, 1); (4, 1); (8, 2)] false == 3 /\
  biweight_midvariance_sq [0; -1; 1] None = Some (245760000 # 350475841).
Proof. vm_compute. repeat split. Qed.

(* Savitzky-Golay with weights: one output per input; on a constant signal every FINITE
   output is that constant, for any window and any weights (None = non-finite: the open
   finding savgol-weighted-zero-window) *)
Theorem C19_length_savgol_weighted : forall x w tw o ww ord it coeffs y,
  savgol_w x w tw o ww ord it coeffs = inl y -> length y = length x.
Proof. exact savgol_w_length. Qed.
Theorem C19_const_savgol_weighted : forall x w tw o ww ord it coeffs y c,
  savgol_w x w tw o ww ord it coeffs = inl y -> all_eq c x -> all_eq_opt c y.
Proof. exact savgol_w_const. Qed.

(* the canonical case of the open finding, on the model: a window with no weight gives a
   non-finite value *)
Example C19_savgol_weighted_zero_window :
  exists y, savgol_w [1; 5; 2; 8; 3; 9; 4; 7; 6; 0] [1; 1; 1; 0; 0; 0; 0; 0; 0; 0] (Some 7) 0 7 3 1
              [-2 # 21; 3 # 21; 6 # 21; 7 # 21; 6 # 21; 3 # 21; -2 # 21] = inl y /\ In None y.
Proof. eexists. split; [vm_compute; reflexivity|]. cbn. tauto. Qed.

(* ========================================================================== *)
(** * Smoothers, characterised *)

(* rolling median: every output is the median of the 2 wing + 1 values around it, the signal
   being reflected at both ends -- for every accepted width (every wing >= 1, every n > wing) *)
Theorem C19_rolling_median_is_median : forall x width o y, rolling_median x width o = inl y ->
  ((length x < 2)%nat /\ y = x) \/
  (exists wing, width2wing (Z.of_nat (length x)) width o = WingOk (Z.of_nat wing) /\ (1 <= wing < length x)%nat /\
     length y = length x /\ forall i, (i < length x)%nat -> nthq i y = median (mirrored_window x wing i)).
Proof. exact rolling_median_is_median. Qed.

(* Kaiser (any window): every output is the same linear combination of its mirrored window;
   the coefficients are non-negative and sum to 1 when the window is non-negative *)
Theorem C19_kaiser_convex : forall x width o window y, kaiser x width o window = inl y -> (2 <= length x)%nat ->
  exists wing, width2wing (Z.of_nat (length x)) width o = WingOk (Z.of_nat wing) /\ (1 <= wing < length x)%nat /\
    length window = (2 * wing + 1)%nat /\ length y = length x /\
    (forall i, (i < length x)%nat -> nthq i y = qdot (rev (normalize window)) (mirrored_window x wing i)) /\
    (0 < qsum window -> (forall c, In c window -> 0 <= c) ->
       qsum (rev (normalize window)) == 1 /\ forall c, In c (rev (normalize window)) -> 0 <= c).
Proof. exact kaiser_convex. Qed.

Example C19_mirrored_window_example :
  mirrored_window [1; 2; 3; 4; 5] 2 0 = [2; 1; 1; 2; 3] /\ mirrored_window [1; 2; 3; 4; 5] 2 4 = [3; 4; 5; 5; 4] /\
  mirrored_window [1; 2; 3; 4; 5] 1 2 = [2; 3; 4].
Proof. vm_compute. repeat split. Qed.

(* Savitzky-Golay with weights, one pass: the i-th output is finite exactly when the windowed,
   coefficient-weighted sum N of the (mirrored, rolled-off) weights at that position is not 0 --
   the precise boundary of the open finding savgol-weighted-zero-window *)
Theorem C19_savgol_weighted_finite_iff : forall x w wing coeffs i,
  length x = length w -> (wing <= length x)%nat -> (i < length x)%nat ->
  (exists v, nth i (savgol_weighted x w wing 1 coeffs) None = Some v) <->
  ~ nthq (i + wing) (conv_same (normalize coeffs) (pad_weights w wing)) == 0.
Proof. exact savgol_weighted_finite_iff. Qed.
(* any number of passes, through the function itself: the non-finite positions are those of the
   mask recursion (N = 0 at this pass, or a non-finite value under the window of the pass before) *)
Theorem C19_savgol_weighted_nonfinite : forall x w tw o ww ord it coeffs y,
  savgol_w x w tw o ww ord it coeffs = inl y -> (2 <= length x)%nat ->
  exists p, savgol_plan (Z.of_nat (length x)) tw o ww ord it = inl p /\
    map is_none y =
    unpad (nonfinite_mask (Z.to_nat (sg_iter p)) (normalize coeffs)
             (repeat false (length x + 2 * Z.to_nat (sg_wing p)))
             (pad_weights w (Z.to_nat (sg_wing p)))) (Z.to_nat (sg_wing p)).
Proof. exact savgol_w_nonfinite. Qed.
(* the finding's region: all weights under a window are 0 => N = 0 there, whatever the coefficients *)
Theorem C19_zero_window_nonfinite : forall win (w : list Q) j, (j < length w)%nat ->
  (forall v, In v (firstn (length win) (skipn j (repeat 0 (length win - 1 - Nat.div (length win) 2) ++ w
                               ++ repeat 0 (Nat.div (length win) 2)))) -> v == 0) ->
  nthq j (conv_same win w) == 0.
Proof. exact zero_window_nonfinite. Qed.

(* ========================================================================== *)
(** * Source ties: statements of descriptives.py / smoothing.py translated by tools/py2v_fn.py
      (Gen/FnDescriptives.v, Gen/FnSmoothing.v) equal the model's step functions *)

(* biweight_location.biloc_iter: w = d / max(c*mad, epsilon); mask = |w| < 1; w = (1 - w**2)**2 per element ... *)
Theorem C19_source_biloc_weight : forall c eps a initial,
  let d := sub_all initial a in
  let mad := median (abs_all d) in
  Forall2 pair_rel (biloc_masked c eps a initial)
    (map (fun di => (di, snd (fn_biloc_weight di mad c eps)))
         (filter (fun di => fst (fn_biloc_weight di mad c eps)) d)).
Proof. exact fn_biloc_masked. Qed.
(* ... and the update: initial if the kept weights sum to 0, else initial + sum(d w) / sum(w) *)
Theorem C19_source_biloc_update : forall c eps a initial,
  let dw := biloc_masked c eps a initial in
  biloc_iter c eps a initial == fn_biloc_update (qsum (map snd dw)) (qdot (map fst dw) (map snd dw)) initial.
Proof. exact fn_biloc_iter. Qed.
(* biweight_midvariance: w = d / max(c*mad, epsilon); mask = |w| < 1 per element *)
Theorem C19_source_bivar_weight : forall c eps (d : list Q),
  let mad := median (abs_all d) in
  let scale := qmax2 (qmul c mad) eps in
  Forall2 pair_rel
    (filter (fun p => qlt_b (qabs (snd p)) BIVAR_MASK_BOUND) (combine d (map (fun di => qdiv di scale) d)))
    (map (fun di => (di, fst (fn_bivar_weight di mad c eps)))
         (filter (fun di => snd (fn_bivar_weight di mad c eps)) d)).
Proof. exact fn_bivar_masked. Qed.
(* weighted_median: midpoint, rounding allowance, and the decision at the index the search stops at *)
Theorem C19_source_wm_midpoint_tolerance : forall ps,
  fn_wm_midpoint (qsum (map snd ps)) == qmul WMEDIAN_HALF (qsum (map snd ps)) /\
  fn_wm_tolerance (Z.of_nat (length ps)) WMEDIAN_TOL_EPS (qsum (map snd ps)) == wmed_tol ps.
Proof. intro ps. split; [apply fn_wm_midpoint_eq|apply fn_wm_tolerance_eq]. Qed.
Theorem C19_source_wm_pick : forall mid tol acc (pre : list (Q * Q)) v w rest,
  qle_b (qsub mid tol) (qadd acc w) = true ->
  wmed_walk mid tol acc ((v, w) :: rest) =
  fn_wm_pick (Z.of_nat (length pre)) (Z.of_nat (length (pre ++ (v, w) :: rest))) (qadd acc w) mid tol
             (match rest with (v2, _) :: _ => qdiv (qadd v v2) 2 | [] => v end) v.
Proof. exact fn_wm_pick_eq. Qed.
(* `if scale_to_sd: mad *= 1.4826` of median_absolute_deviation and weighted_mad *)
Theorem C19_source_mad_scale : forall a s mad,
  mad_core a s == fn_mad_scale (median (abs_all (sub_all (median a) a))) s /\
  wmad_scale s mad == fn_wmad_scale mad s.
Proof. intros a s mad. split; [apply fn_mad_scale_eq|apply fn_wmad_scale_eq]. Qed.
(* mean_squared_error: `if initial: a = a - initial` per element *)
Theorem C19_source_mse_centre : forall a initial,
  mse_core a initial == qmean (map (fun x => qsq (fn_mse_centre x initial)) a).
Proof. exact fn_mse_centre_eq. Qed.
Theorem C19_source_qn_result : forall a,
  qn_core a == fn_qn_result (percentile QN_PCT (pair_diffs a)) (qn_scale (length a)).
Proof. exact fn_qn_result_eq. Qed.
(* _width2wing: the three arithmetic fragments under the model's dispatch *)
Theorem C19_source_width2wing : forall n width fo,
  let clamp w0 := if (WING_ASSERT_MIN <=? fn_wing_clamp w0 MIN_WING n)%Z
                  then WingOk (fn_wing_clamp w0 MIN_WING n) else WingAssert in
  width2wing n width fo =
  if qlt_b 0 width && qlt_b width 1 then
    if (Z.abs (fo - fn_wing_frac n width) <=? 1)%Z then clamp fo else WingOracleBad
  else if qle_b WIDTH_INT_MIN width && is_integer_q width then clamp (fn_wing_int n (Qfloor width))
  else WingValueError.
Proof. exact fn_width2wing. Qed.
Theorem C19_source_guess_window_size : forall n sd pow45, fn_guess_width sd pow45 n = guess_window_size n sd pow45.
Proof. exact fn_guess_width_eq. Qed.
Theorem C19_source_savgol_params : forall wing ww ord,
  fn_savgol_params wing ww ord =
  (sg_window (savgol_params wing ww ord), sg_order (savgol_params wing ww ord), sg_iter (savgol_params wing ww ord)).
Proof. exact fn_savgol_params_eq. Qed.

(* ---- loop tie: ONE ITERATION of biweight_location's `for _i in range(max_iter)` loop, translated from the Python
   source on every run (Gen/FnBilocLoop.v fn_biloc_step): the convergence test and the re-centring *)
From CNV Require Gen.FnBilocLoop Proofs.FnBilocLoop.
Theorem C19_source_biloc_step : forall c eps a initial last,
  Gen.FnBilocLoop.fn_biloc_step initial last eps (biloc_iter c eps a initial)
  = let r := biloc_iter c eps a initial in
    if qle_b (qabs (qsub r initial)) eps then (initial, r, true) else (r, r, false).
Proof. exact Proofs.FnBilocLoop.source_biloc_step. Qed.

(* ... and the step iterated (at most fuel times, stopping at the first break) IS the model's loop *)
Theorem C19_source_biloc_loop : forall fuel c eps a initial last,
  Proofs.FnBilocLoop.for_range fuel (fun i r => Gen.FnBilocLoop.fn_biloc_step i r eps (biloc_iter c eps a i)) initial last
  = biloc_loop fuel c eps a initial last.
Proof. exact Proofs.FnBilocLoop.source_biloc_loop. Qed.

(* ========================================================================== *)
(** * Source ties, second wave [loop ties e2]: control flow, loops and result formulas of descriptives.py
      (tools/fnspecs/descriptives_e2.py; one generated module per tie) *)
From CNV Require Gen.FnQnTail Proofs.FnQnTail Gen.FnQnPairs Proofs.FnQnPairs Gen.FnBivarFormula Proofs.FnBivarFormula
  Gen.FnGapper Proofs.FnGapper Gen.FnIqr Proofs.FnIqr Gen.FnWmedianTail Proofs.FnWmedianTail.

(* q_n: `n = len(a)` .. `return quartile / scale` (the scale dispatch with its chained comparison `10 < n < 400`) *)
Theorem C19_source_qn_tail : forall a,
  qn_core a == Gen.FnQnTail.fn_qn_tail (percentile QN_PCT (pair_diffs a)) (Z.of_nat (length a)).
Proof. exact Proofs.FnQnTail.source_qn_tail. Qed.
(* q_n's nested loops, built from the generated inner iteration, produce the model's pairwise differences ... *)
Theorem C19_source_qn_pairs : forall a, eqQ (Proofs.FnQnPairs.qn_loops a []) (pair_diffs a).
Proof. exact Proofs.FnQnPairs.source_qn_pairs. Qed.
(* ... and loops + quartile + tail are q_n's whole body *)
Theorem C19_source_qn : forall a,
  qn_core a == Gen.FnQnTail.fn_qn_tail (percentile QN_PCT (Proofs.FnQnPairs.qn_loops a [])) (Z.of_nat (length a)).
Proof. exact Proofs.FnQnPairs.source_qn. Qed.

(* biweight_midvariance: the masked pair (d_, w_ = (w ** 2)[mask]) per kept element ... *)
Theorem C19_source_bivar_terms : forall c eps a initial,
  Forall2 pair_rel (map (fun p => (fst p, qsq (snd p))) (Proofs.FnBivarFormula.bivar_kept c eps a initial))
                   (map (fun p => Gen.FnBivarFormula.fn_bivar_terms (fst p) (snd p) true)
                        (Proofs.FnBivarFormula.bivar_kept c eps a initial)).
Proof. exact Proofs.FnBivarFormula.source_bivar_terms. Qed.
(* ... and the result statement: sqrt of the model's formula when some kept w is non-zero, else (mad * 1.4826) *)
Theorem C19_source_bivar_result : forall (sqrtf : Q -> Q) c eps a initial d0 w0 m0,
  let P := bivar_parts_of c eps a initial in
  let dw := Proofs.FnBivarFormula.bivar_kept c eps a initial in
  let terms := map (fun p => Gen.FnBivarFormula.fn_bivar_terms (fst p) (snd p) true) dw in
  let r := Gen.FnBivarFormula.fn_bivar_result sqrtf d0 w0 m0 (median (abs_all (sub_all initial a))) (bv_any P)
             (Z.of_nat (length dw)) (qsum (map Proofs.FnBivarFormula.bivar_num_term terms))
             (qsum (map Proofs.FnBivarFormula.bivar_den_term terms)) in
  if bv_any P then exists x, r = sqrtf x /\ x == bv_formula P else r * r == bv_fallback P.
Proof. exact Proofs.FnBivarFormula.source_bivar_result. Qed.

(* gapper_scale: the per-gap weights idx * (n - idx), idx = 1 .. n-1, and the result *)
Theorem C19_source_gapper_weights : forall n,
  gapper_weights n = map (fun i => inject_Z (Gen.FnGapper.fn_gapper_weight (Z.of_nat n) (Z.of_nat i))) (seq 1 (n - 1)).
Proof. exact Proofs.FnGapper.source_gapper_weights. Qed.
Theorem C19_source_gapper_result : forall sqrt_pi a idx,
  gapper_core sqrt_pi a ==
  Gen.FnGapper.fn_gapper_result (Z.of_nat (length a)) idx (qdot (diffs (qsort a)) (gapper_weights (length a))) sqrt_pi.
Proof. exact Proofs.FnGapper.source_gapper_result. Qed.

(* interquartile_range's body, np.percentile being the model's percentile *)
Theorem C19_source_iqr : forall a, iqr_core a == Gen.FnIqr.fn_iqr (fun l p => percentile (inject_Z p) l) a.
Proof. exact Proofs.FnIqr.source_iqr. Qed.

(* weighted_median from `midpoint = ..` to the end as ONE definition: majority shortcut, allowance, the index searchsorted
   finds (wm_index), tie test, averaging rule *)
Theorem C19_source_wmedian_tail : forall ps,
  let w := map snd ps in
  let vals := map fst ps in
  let mid := qmul WMEDIAN_HALF (qsum w) in
  let i := Proofs.FnWmedianTail.wm_index (qsub mid (wmed_tol ps)) 0 ps in
  wmedian_sorted ps =
  Gen.FnWmedianTail.fn_wm_tail (qsum w) (existsb (fun p => qlt_b mid (snd p)) ps)
             (match ps with [] => 0 | p :: t => fst (argmax_from p t) end)
             (qcumsum w) (Z.of_nat (length ps)) WMEDIAN_TOL_EPS (qsum w)
             (Z.of_nat i) (nth i (qcumsum w) 0)
             (qdiv (qadd (nth i vals 0) (nth (S i) vals 0)) 2) (nth i vals 0).
Proof. exact Proofs.FnWmedianTail.source_wmedian_tail. Qed.

(* the decorators (signature `wrapper(a, **kwargs)`): empty / one-value short cuts and the call of the wrapped function *)
From CNV Require Gen.FnOnArray Proofs.FnOnArray.
Theorem C19_source_on_array : forall default f a,
  on_array default f a = Gen.FnOnArray.fn_on_array (Z.of_nat (length a)) (hd 0 a) default (f a).
Proof. exact Proofs.FnOnArray.source_on_array. Qed.
Theorem C19_source_on_weighted_array : forall default f ps n_w w any_nan,
  on_weighted_array default f ps =
  Gen.FnOnArray.fn_on_weighted_empty (Z.of_nat (length ps)) n_w
    (Gen.FnOnArray.fn_on_weighted_array (Z.of_nat (length ps)) (fst (hd (0, 0) ps)) default w any_nan (f ps)).
Proof. exact Proofs.FnOnArray.source_on_weighted_array. Qed.
(* `w_nan = np.isnan(w); if w_nan.any(): w[w_nan] = 0.0` per weight: the weight column of clean_weighted *)
Theorem C19_source_weight_fill : forall any_nan a w,
  (In None w -> any_nan = true) ->
  clean_weighted a w =
  Proofs.FnOnArray.clean_weighted_with (fun ow => Gen.FnOnArray.fn_weight_fill ow any_nan) a w.
Proof. exact Proofs.FnOnArray.source_weight_fill. Qed.
