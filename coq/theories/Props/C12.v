(* C12 -- target and antitarget bins partition exactly the space they should.
   Property theorems only; proofs live in Proofs/Target*.v, Proofs/Antitarget*.v.

   A genome table is `list grow`, rows (start, end, (chromosome, gene)), 0-based
   half-open; `gcovers t c x` says base x of chromosome c lies in some row of t.
   `cut` is the oracle for subdivide's float cut points int(i * (span / nbins))
   (DESIGN section 2, contract as in C06); the average size is a positive
   rational.  Literal numbers are those of the property text: 500-base margin,
   1.5 x average, bins named Antitarget, default minimum 1/16 of the average
   (2 * floor(avg / 32)); they are tied to cnvlib/params.py and antitarget.py
   through Gen/BinsDefaults.v (Proofs/Antitarget.v: pad_size_500; the name and the
   default minimum by computation). *)
From CNV Require Import Base.Prelude Base.Str Model.IvRow Model.Intervals Model.Access
  Model.Target Model.Antitarget Spec.Cover Spec.Bins.
From CNV Require Import Proofs.AntitargetContigs Proofs.TargetProps.
From CNV Require Proofs.Target.
From CNV Require Gen.BinsDefaults.

(* `target` without --split returns the non-empty baits unchanged (same rows, same order). *)
Theorem C12_target_nosplit : forall (avg : Q) (cut : Z -> Z -> Z -> Z) (baits : list grow),
  do_target false avg cut baits = filter (fun r => negb (lo r =? hi r)) baits /\
  (forall r, In r (do_target false avg cut baits) <-> In r baits /\ lo r <> hi r).
Proof. exact c12_target_nosplit. Qed.

(* `target --split`, on every chromosome c: the output is the concatenation over the
   merged baits m (sorted, separated, covering exactly the baits' bases) of
   n = max(1, round_half_even(length / avg)) consecutive abutting bins of equal size
   (+-1) carrying the merged bait's fields; it is sorted, non-overlapping, and covers
   exactly the union of the non-empty baits. *)
Theorem C12_target_split : forall (avg : Q) (cut : Z -> Z -> Z -> Z) (baits : list grow) (c : string),
  (0 < avg)%Q -> (forall span n, cut_contract span n (cut span n)) ->
  Forall (fun r => lo r <= hi r) baits ->
  let out := do_target true avg cut baits in
  exists m : list grow,
    (forall x, covers m x <-> gcovers baits c x) /\ sorted_separated m /\ valid m /\
    filter (on c) out = flat_map (split_row_q avg 0 cut) m /\
    Forall (fun r => exists n, is_nbins (hi r - lo r) avg n /\
                               equal_bins (lo r) (hi r) n (pay r) (split_row_q avg 0 cut r)) m /\
    sorted_disjoint (filter (on c) out) /\
    Forall (fun b => lo b <= hi b) (filter (on c) out) /\
    (forall x, gcovers out c x <-> gcovers baits c x).
Proof. exact c12_target_split. Qed.

Example C12_target_split_example :
  do_target true (400 # 1) (fun span n i => i * span / n)
    [(100, 100, ("chr1", "z")); (100, 500, ("chr1", "a")); (300, 900, ("chr1", "b")); (900, 1300, ("chr1", "c"))]%string
  = [(100, 500, ("chr1", "a,b,c")); (500, 900, ("chr1", "a,b,c")); (900, 1300, ("chr1", "a,b,c"))]%string.
Proof. vm_compute. reflexivity. Qed.

(* Label shortening emits one name per input label whatever name it picks among the
   equally short candidates: number and coordinates of bins are unchanged. *)
Theorem C12_labels : forall (pick : list string -> string) (split : bool) (avg : Q)
                            (cut : Z -> Z -> Z -> Z) (baits : list grow),
  let plain := do_target split avg cut baits in
  let short := do_target_short pick split avg cut baits in
  length (shorten_labels (map gene plain)) = length plain /\
  length short = length plain /\ map coords short = map coords plain.
Proof. exact c12_labels. Qed.

(* Antitargets.  E is the access table actually binned (C12_contigs), out the result. *)

(* every antitarget base lies inside an accessible region shrunk by 500 bases at both ends *)
Theorem C12_anti_inside : forall T access avg mn cut E out,
  anti_pre T access avg cut -> effective_access T access = Some E ->
  get_antitargets T access avg mn cut = Some out ->
  forall c x, gcovers out c x -> shrunk_access E c x.
Proof. exact c12_anti_inside. Qed.

(* no antitarget base is within 500 bases of any target row (zero-width rows included), in
   particular more than 500 away from every target base -- whatever the targets' overlaps
   and nesting *)
Theorem C12_anti_margin : forall T access avg mn cut E out,
  anti_pre T access avg cut -> effective_access T access = Some E ->
  get_antitargets T access avg mn cut = Some out ->
  forall c y, gcovers out c y ->
    ~ near_target T c y /\
    (forall t x, In t T -> chrom t = c -> lo t <= x < hi t -> y + 500 < x \/ x + 500 < y).
Proof. exact c12_anti_margin. Qed.

Example C12_anti_margin_nested :
  get_antitargets [(10000, 50000, ("chr1", "A")); (20000, 30000, ("chr1", "B"))]%string
                  (Some [(0, 100000, ("chr1", ""))]%string) (45000 # 1) 1000 (fun span n i => i * span / n)
  = Some [(500, 9500, ("chr1", "Antitarget")); (50500, 99500, ("chr1", "Antitarget"))]%string.
Proof. vm_compute. reflexivity. Qed.

(* antitargets of a chromosome are in genomic order and do not overlap *)
Theorem C12_anti_disjoint : forall T access avg mn cut E out,
  anti_pre T access avg cut -> effective_access T access = Some E ->
  get_antitargets T access avg mn cut = Some out ->
  forall c, sorted_disjoint (filter (on c) out) /\ Forall (fun b => lo b <= hi b) (filter (on c) out).
Proof. exact c12_anti_disjoint. Qed.

(* every bin is named Antitarget, is at least the minimum size when min <= 3/4 avg - 1
   (or min <= 0), and at most 1.5 x the average size (avg >= 4: the cut points are only
   known to within one base) *)
Theorem C12_anti_sizes : forall T access avg mn cut E out,
  anti_pre T access avg cut -> effective_access T access = Some E ->
  get_antitargets T access avg mn cut = Some out ->
  forall b, In b out ->
    gene b = "Antitarget"%string /\
    (min_guard avg mn -> mn <= hi b - lo b) /\
    ((4 <= avg)%Q -> (inject_Z (hi b - lo b) <= (3 # 2) * avg)%Q).
Proof. exact c12_anti_sizes. Qed.

(* without the guard the lower bound is false: avg 100, min 90, an off-target stretch of
   160 bases is cut into two bins of 80 *)
Theorem C12_anti_min_refuted :
  exists (T acc : list grow) (avg : Q) (mn : Z) (cut : Z -> Z -> Z -> Z) (out : list grow) (b : grow),
    anti_pre T (Some acc) avg cut /\ 0 < mn /\
    get_antitargets T (Some acc) avg mn cut = Some out /\ In b out /\ hi b - lo b < mn.
Proof. exact c12_anti_min_refuted. Qed.

(* do_antitarget is get_antitargets with the given minimum, or the default when none (or 0)
   is given; the default is 2 * floor(avg / 32) and always meets the guard *)
Theorem C12_do_antitarget : forall T access avg mn cut out,
  do_antitarget T access avg mn cut = AntiRows out <->
  exists m, effective_min avg mn = Some m /\ get_antitargets T access avg m cut = Some out.
Proof. exact c12_do_antitarget. Qed.

Theorem C12_default_min : forall (avg : Q) (mn : option Z),
  (0 < avg)%Q -> mn = None \/ mn = Some 0 ->
  exists m, effective_min avg mn = Some m /\ default_min_spec avg m /\ min_guard avg m.
Proof. exact c12_default_min. Qed.

Example C12_default_min_example : effective_min (150000 # 1) None = Some 9374.
Proof. vm_compute. reflexivity. Qed.

(* in terms of the access table E actually binned (also the guessed extents when no access
   table is given, and the code's own contig rule in general): every maximal stretch of
   off-target accessible sequence (shrunk access minus the 500-base neighbourhood of the
   targets) of at least the minimum size is covered entirely, shorter ones not at all, and
   nothing else is covered *)
Theorem C12_anti_complete_effective : forall T access avg mn cut E out,
  anti_pre T access avg cut -> effective_access T access = Some E ->
  get_antitargets T access avg mn cut = Some out ->
  forall c,
    (forall s e, stretch (off_target E T c) s e ->
       (mn <= e - s -> forall x, s <= x < e -> gcovers out c x) /\
       (e - s < mn -> forall x, s <= x < e -> ~ gcovers out c x)) /\
    (forall x, gcovers out c x ->
       exists s e, stretch (off_target E T c) s e /\ mn <= e - s /\ s <= x < e).
Proof. exact c12_anti_complete. Qed.

(* the property's rule: when some targeted contig is canonically named, the access rows
   binned are exactly those on contigs that are targeted or canonically named (ValueError
   when no name is shared) ... *)
Theorem C12_contigs : forall (T acc : list grow),
  some_canonical_target T -> acc <> [] ->
  (~ shared_contig acc T -> effective_access T (Some acc) = None) /\
  (shared_contig acc T ->
   exists E, effective_access T (Some acc) = Some E /\
             forall r, In r E <-> In r acc /\ binned_contig T (chrom r)).
Proof. exact c12_contigs_text. Qed.

(* ... and on every such contig the antitargets cover exactly the stretches of off-target
   accessible sequence (access shrunk by 500, minus the 500-base neighbourhood of the
   targets) of at least the minimum size *)
Theorem C12_anti_complete : forall T acc avg mn cut out,
  anti_pre T (Some acc) avg cut -> some_canonical_target T -> acc <> [] ->
  get_antitargets T (Some acc) avg mn cut = Some out ->
  forall c,
    (forall s e, stretch (off_target_text acc T c) s e ->
       (mn <= e - s -> forall x, s <= x < e -> gcovers out c x) /\
       (e - s < mn -> forall x, s <= x < e -> ~ gcovers out c x)) /\
    (forall x, gcovers out c x ->
       exists s e, stretch (off_target_text acc T c) s e /\ mn <= e - s /\ s <= x < e).
Proof. exact c12_anti_complete_text. Qed.

(* without a canonically named targeted contig the rule is false of the code: only chrM
   targeted, access chr1 / chr10 / chrM: the name-length fallback drops chr10, so the
   off-target accessible stretch chr10:500-19500 gets no bin (open finding
   c12-no-canonical-target-name-length-rule) *)
Theorem C12_contigs_name_length_refuted :
  exists (T acc E out : list grow) (a : grow),
    acc <> [] /\ anti_pre T (Some acc) (5000 # 1) Proofs.Target.floor_cut /\
    effective_access T (Some acc) = Some E /\
    get_antitargets T (Some acc) (5000 # 1) 1000 Proofs.Target.floor_cut = Some out /\
    In a acc /\ binned_contig T (chrom a) /\ ~ In a E /\
    (forall x, 500 <= x < 19500 -> off_target_text acc T (chrom a) x) /\
    (forall b, In b out -> chrom b <> chrom a).
Proof. exact c12_contigs_name_length_refuted. Qed.

(* the rule the code actually has, for all inputs: with an access table, its rows on
   contigs that are targeted or canonically named when some targeted contig is canonically
   named, otherwise not longer named than the longest targeted name -- ValueError when no
   name is shared; without an access table, one region per targeted contig from
   TELOMERE_SIZE to the end of its last target *)
Theorem C12_contigs_code_rule : forall (T : list grow),
  (forall acc, acc <> [] ->
     (~ shared_contig acc T -> effective_access T (Some acc) = None) /\
     (shared_contig acc T ->
      exists E, effective_access T (Some acc) = Some E /\
                forall r, In r E <-> In r acc /\ kept_contig T (chrom r))) /\
  (forall access, access = None \/ access = Some [] ->
     effective_access T access = Some (guess_regions T Gen.BinsDefaults.TELOMERE_SIZE) /\
     forall r, In r (guess_regions T Gen.BinsDefaults.TELOMERE_SIZE) <->
               targeted T (chrom r) /\ lo r = Gen.BinsDefaults.TELOMERE_SIZE /\
               hi r = last_end (filter (on (chrom r)) T) /\ gene r = EmptyString).
Proof. exact c12_contigs. Qed.

(* ... and antitargets appear only on those contigs *)
Theorem C12_anti_contigs : forall T access avg mn cut E out,
  effective_access T access = Some E ->
  get_antitargets T access avg mn cut = Some out ->
  forall b, In b out -> exists a, In a E /\ chrom a = chrom b.
Proof. exact c12_anti_contigs. Qed.

Example C12_contigs_example :
  effective_access [(1000, 2000, ("chr1", "a"))]%string
    (Some [(0, 9000, ("chr1", "")); (0, 9000, ("chr2", "")); (0, 9000, ("chrM", "")); (0, 9000, ("chr5_GL339449_alt", ""))]%string)
  = Some [(0, 9000, ("chr1", "")); (0, 9000, ("chr2", ""))]%string.
Proof. vm_compute. reflexivity. Qed.
