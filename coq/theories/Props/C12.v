(* C12 -- target and antitarget bins partition exactly the space they should.
   Property theorems only; proofs live in Proofs/Target*.v, Proofs/Antitarget*.v.

   A genome table is `list grow`, rows (start, end, (chromosome, gene)), 0-based
   half-open; `gcovers t c x` says base x of chromosome c lies in some row of t.
   `cut` is the oracle for subdivide's float cut points int(i * (span / nbins))
   (DESIGN section 2, contract as in C06); the average size is a positive
   rational.  Literal numbers are those of the property text: 500-base margin,
   1.5 x average, bins named Antitarget, default minimum 1/16 of the average
   (2 * floor(avg / 32)); they are tied to cnvlib/params.py and antitarget.py
   through Gen/BinsDefaults.v (Proofs/Antitarget.v: pad_size_500; the name and the
   default minimum by computation). *)
From CNV Require Import Base.Prelude Base.Str Model.IvRow Model.Intervals Model.Access
  Model.Target Model.Antitarget Spec.Cover Spec.Bins.
From CNV Require Import Proofs.AntitargetContigs Proofs.TargetProps.
From CNV Require Proofs.Target Proofs.TargetOrderProps Proofs.TargetSizes Proofs.TargetLabels Proofs.TargetAnnot
  Proofs.FnBins Proofs.TargetGrouped.
From CNV Require Import Base.QNum Model.Chromsort.
From CNV Require Model.Ranges Spec.RangeQuery.
From CNV Require Gen.BinsDefaults Gen.FnBins Gen.FnBinsSplit.

(* `target` without --split returns the non-empty baits unchanged (same rows, same order). *)
Theorem C12_target_nosplit : forall (avg : Q) (cut : Z -> Z -> Z -> Z) (baits : list grow),
  do_target false avg cut baits = filter (fun r => negb (lo r =? hi r)) baits /\
  (forall r, In r (do_target false avg cut baits) <-> In r baits /\ lo r <> hi r).
Proof. exact c12_target_nosplit. Qed.

(* `target --split`, on every chromosome c: the output is the concatenation over the
   merged baits m (sorted, separated, covering exactly the baits' bases) of
   n = max(1, round_half_even(length / avg)) consecutive abutting bins of equal size
   (+-1) carrying the merged bait's fields; it is sorted, non-overlapping, and covers
   exactly the union of the non-empty baits. *)
Theorem C12_target_split : forall (avg : Q) (cut : Z -> Z -> Z -> Z) (baits : list grow) (c : string),
  (0 < avg)%Q -> (forall span n, cut_contract span n (cut span n)) ->
  Forall (fun r => lo r <= hi r) baits ->
  let out := do_target true avg cut baits in
  exists m : list grow,
    (forall x, covers m x <-> gcovers baits c x) /\ sorted_separated m /\ valid m /\
    filter (on c) out = flat_map (split_row_q avg 0 cut) m /\
    Forall (fun r => exists n, is_nbins (hi r - lo r) avg n /\
                               equal_bins (lo r) (hi r) n (pay r) (split_row_q avg 0 cut r)) m /\
    sorted_disjoint (filter (on c) out) /\
    Forall (fun b => lo b <= hi b) (filter (on c) out) /\
    (forall x, gcovers out c x <-> gcovers baits c x).
Proof. exact c12_target_split. Qed.

Example C12_target_split_example :
  do_target true (400 # 1) (fun span n i => i * span / n)
    [(100, 100, ("chr1", "z")); (100, 500, ("chr1", "a")); (300, 900, ("chr1", "b")); (900, 1300, ("chr1", "c"))]%string
  = [(100, 500, ("chr1", "a,b,c")); (500, 900, ("chr1", "a,b,c")); (900, 1300, ("chr1", "a,b,c"))]%string.
Proof. vm_compute. reflexivity. Qed.

(* Label shortening emits one name per input label whatever name it picks among the
   equally short candidates: number and coordinates of bins are unchanged. *)
Theorem C12_labels : forall (pick : list string -> string) (split : bool) (avg : Q)
                            (cut : Z -> Z -> Z -> Z) (baits : list grow),
  let plain := do_target split avg cut baits in
  let short := do_target_short pick split avg cut baits in
  length (shorten_labels (map gene plain)) = length plain /\
  length short = length plain /\ map coords short = map coords plain.
Proof. exact c12_labels. Qed.

(* Antitargets.  E is the access table actually binned (C12_contigs), out the result. *)

(* every antitarget base lies inside an accessible region shrunk by 500 bases at both ends *)
Theorem C12_anti_inside : forall T access avg mn cut E out,
  anti_pre T access avg cut -> effective_access T access = Some E ->
  get_antitargets T access avg mn cut = Some out ->
  forall c x, gcovers out c x -> shrunk_access E c x.
Proof. exact c12_anti_inside. Qed.

(* no antitarget base is within 500 bases of any target row (zero-width rows included), in
   particular more than 500 away from every target base -- whatever the targets' overlaps
   and nesting *)
Theorem C12_anti_margin : forall T access avg mn cut E out,
  anti_pre T access avg cut -> effective_access T access = Some E ->
  get_antitargets T access avg mn cut = Some out ->
  forall c y, gcovers out c y ->
    ~ near_target T c y /\
    (forall t x, In t T -> chrom t = c -> lo t <= x < hi t -> y + 500 < x \/ x + 500 < y).
Proof. exact c12_anti_margin. Qed.

Example C12_anti_margin_nested :
  get_antitargets [(10000, 50000, ("chr1", "A")); (20000, 30000, ("chr1", "B"))]%string
                  (Some [(0, 100000, ("chr1", ""))]%string) (45000 # 1) 1000 (fun span n i => i * span / n)
  = Some [(500, 9500, ("chr1", "Antitarget")); (50500, 99500, ("chr1", "Antitarget"))]%string.
Proof. vm_compute. reflexivity. Qed.

(* antitargets of a chromosome are in genomic order and do not overlap *)
Theorem C12_anti_disjoint : forall T access avg mn cut E out,
  anti_pre T access avg cut -> effective_access T access = Some E ->
  get_antitargets T access avg mn cut = Some out ->
  forall c, sorted_disjoint (filter (on c) out) /\ Forall (fun b => lo b <= hi b) (filter (on c) out).
Proof. exact c12_anti_disjoint. Qed.

(* every bin is named Antitarget, is at least the minimum size when min <= 3/4 avg - 1
   (or min <= 0), and at most 1.5 x the average size (avg >= 4: the cut points are only
   known to within one base) *)
Theorem C12_anti_sizes : forall T access avg mn cut E out,
  anti_pre T access avg cut -> effective_access T access = Some E ->
  get_antitargets T access avg mn cut = Some out ->
  forall b, In b out ->
    gene b = "Antitarget"%string /\
    (min_guard avg mn -> mn <= hi b - lo b) /\
    ((4 <= avg)%Q -> (inject_Z (hi b - lo b) <= (3 # 2) * avg)%Q).
Proof. exact c12_anti_sizes. Qed.

(* without the guard the lower bound is false: avg 100, min 90, an off-target stretch of
   160 bases is cut into two bins of 80 *)
Theorem C12_anti_min_refuted :
  exists (T acc : list grow) (avg : Q) (mn : Z) (cut : Z -> Z -> Z -> Z) (out : list grow) (b : grow),
    anti_pre T (Some acc) avg cut /\ 0 < mn /\
    get_antitargets T (Some acc) avg mn cut = Some out /\ In b out /\ hi b - lo b < mn.
Proof. exact c12_anti_min_refuted. Qed.

(* do_antitarget is get_antitargets with the given minimum, or the default when none (or 0)
   is given; the default is 2 * floor(avg / 32) and always meets the guard *)
Theorem C12_do_antitarget : forall T access avg mn cut out,
  do_antitarget T access avg mn cut = AntiRows out <->
  exists m, effective_min avg mn = Some m /\ get_antitargets T access avg m cut = Some out.
Proof. exact c12_do_antitarget. Qed.

Theorem C12_default_min : forall (avg : Q) (mn : option Z),
  (0 < avg)%Q -> mn = None \/ mn = Some 0 ->
  exists m, effective_min avg mn = Some m /\ default_min_spec avg m /\ min_guard avg m.
Proof. exact c12_default_min. Qed.

Example C12_default_min_example : effective_min (150000 # 1) None = Some 9374.
Proof. vm_compute. reflexivity. Qed.

(* in terms of the access table E actually binned (also the guessed extents when no access
   table is given, and the code's own contig rule in general): every maximal stretch of
   off-target accessible sequence (shrunk access minus the 500-base neighbourhood of the
   targets) of at least the minimum size is covered entirely, shorter ones not at all, and
   nothing else is covered *)
Theorem C12_anti_complete_effective : forall T access avg mn cut E out,
  anti_pre T access avg cut -> effective_access T access = Some E ->
  get_antitargets T access avg mn cut = Some out ->
  forall c,
    (forall s e, stretch (off_target E T c) s e ->
       (mn <= e - s -> forall x, s <= x < e -> gcovers out c x) /\
       (e - s < mn -> forall x, s <= x < e -> ~ gcovers out c x)) /\
    (forall x, gcovers out c x ->
       exists s e, stretch (off_target E T c) s e /\ mn <= e - s /\ s <= x < e).
Proof. exact c12_anti_complete. Qed.

(* the property's rule: when some targeted contig is canonically named, the access rows
   binned are exactly those on contigs that are targeted or canonically named (ValueError
   when no name is shared) ... *)
Theorem C12_contigs : forall (T acc : list grow),
  some_canonical_target T -> acc <> [] ->
  (~ shared_contig acc T -> effective_access T (Some acc) = None) /\
  (shared_contig acc T ->
   exists E, effective_access T (Some acc) = Some E /\
             forall r, In r E <-> In r acc /\ binned_contig T (chrom r)).
Proof. exact c12_contigs_text. Qed.

(* ... and on every such contig the antitargets cover exactly the stretches of off-target
   accessible sequence (access shrunk by 500, minus the 500-base neighbourhood of the
   targets) of at least the minimum size *)
Theorem C12_anti_complete : forall T acc avg mn cut out,
  anti_pre T (Some acc) avg cut -> some_canonical_target T -> acc <> [] ->
  get_antitargets T (Some acc) avg mn cut = Some out ->
  forall c,
    (forall s e, stretch (off_target_text acc T c) s e ->
       (mn <= e - s -> forall x, s <= x < e -> gcovers out c x) /\
       (e - s < mn -> forall x, s <= x < e -> ~ gcovers out c x)) /\
    (forall x, gcovers out c x ->
       exists s e, stretch (off_target_text acc T c) s e /\ mn <= e - s /\ s <= x < e).
Proof. exact c12_anti_complete_text. Qed.

(* without a canonically named targeted contig the rule is false of the code: only chrM
   targeted, access chr1 / chr10 / chrM: the name-length fallback drops chr10, so the
   off-target accessible stretch chr10:500-19500 gets no bin (open finding
   c12-no-canonical-target-name-length-rule) *)
Theorem C12_contigs_name_length_refuted :
  exists (T acc E out : list grow) (a : grow),
    acc <> [] /\ anti_pre T (Some acc) (5000 # 1) Proofs.Target.floor_cut /\
    effective_access T (Some acc) = Some E /\
    get_antitargets T (Some acc) (5000 # 1) 1000 Proofs.Target.floor_cut = Some out /\
    In a acc /\ binned_contig T (chrom a) /\ ~ In a E /\
    (forall x, 500 <= x < 19500 -> off_target_text acc T (chrom a) x) /\
    (forall b, In b out -> chrom b <> chrom a).
Proof. exact c12_contigs_name_length_refuted. Qed.

(* the rule the code actually has, for all inputs: with an access table, its rows on
   contigs that are targeted or canonically named when some targeted contig is canonically
   named, otherwise not longer named than the longest targeted name -- ValueError when no
   name is shared; without an access table, one region per targeted contig from
   TELOMERE_SIZE to the end of its last target *)
Theorem C12_contigs_code_rule : forall (T : list grow),
  (forall acc, acc <> [] ->
     (~ shared_contig acc T -> effective_access T (Some acc) = None) /\
     (shared_contig acc T ->
      exists E, effective_access T (Some acc) = Some E /\
                forall r, In r E <-> In r acc /\ kept_contig T (chrom r))) /\
  (forall access, access = None \/ access = Some [] ->
     effective_access T access = Some (guess_regions T Gen.BinsDefaults.TELOMERE_SIZE) /\
     forall r, In r (guess_regions T Gen.BinsDefaults.TELOMERE_SIZE) <->
               targeted T (chrom r) /\ lo r = Gen.BinsDefaults.TELOMERE_SIZE /\
               hi r = last_end (filter (on (chrom r)) T) /\ gene r = EmptyString).
Proof. exact c12_contigs. Qed.

(* ... and antitargets appear only on those contigs *)
Theorem C12_anti_contigs : forall T access avg mn cut E out,
  effective_access T access = Some E ->
  get_antitargets T access avg mn cut = Some out ->
  forall b, In b out -> exists a, In a E /\ chrom a = chrom b.
Proof. exact c12_anti_contigs. Qed.

Example C12_contigs_example :
  effective_access [(1000, 2000, ("chr1", "a"))]%string
    (Some [(0, 9000, ("chr1", "")); (0, 9000, ("chr2", "")); (0, 9000, ("chrM", "")); (0, 9000, ("chr5_GL339449_alt", ""))]%string)
  = Some [(0, 9000, ("chr1", "")); (0, 9000, ("chr2", ""))]%string.
Proof. vm_compute. reflexivity. Qed.

(* ==== extension ===================================================================================== *)

(* ---- order of the chromosome blocks ------------------------------------------------------------------
   `key_sorted t`: the Chromsort keys (sorter_chrom of the chromosome name) never decrease along t;
   `genomic_sorted t`: every earlier row has a smaller key, or lies on the same chromosome entirely
   before the later one.  merge() inside subdivide takes a whole-table fast path (table order kept)
   when `all_gaps 0` holds, otherwise regroups by name and re-sorts the groups by key. *)

(* target: on the fast path (and without --split) the output inherits the key order of the input,
   on the slow path it is key-ordered whatever the input; with --split and distinct keys for
   distinct names it is in genomic order across chromosomes *)
Theorem C12_block_order : forall (split : bool) (avg : Q) (cut : Z -> Z -> Z -> Z) (baits : list grow),
  (0 < avg)%Q -> (forall span n, cut_contract span n (cut span n)) ->
  Forall (fun r => lo r <= hi r) baits ->
  (split = false \/ all_gaps 0 (drop_zero_width baits) = true -> key_sorted baits) ->
  let out := do_target split avg cut baits in
  key_sorted out /\ (split = true -> key_injective baits -> genomic_sorted out).
Proof. exact Proofs.TargetOrderProps.c12_block_order_target. Qed.

(* in particular for a bait table as GenomicArray.sort leaves it, whichever path is taken *)
Theorem C12_block_order_sorted_input : forall (split : bool) (avg : Q) (cut : Z -> Z -> Z -> Z) (baits : list grow),
  (0 < avg)%Q -> (forall span n, cut_contract span n (cut span n)) ->
  Forall (fun r => lo r <= hi r) baits -> genome_sorted baits ->
  let out := do_target split avg cut baits in
  key_sorted out /\ (split = true -> key_injective baits -> genomic_sorted out).
Proof. exact Proofs.TargetOrderProps.c12_block_order_target_sorted. Qed.

Theorem C12_block_order_slow_path : forall (avg : Q) (cut : Z -> Z -> Z -> Z) (baits : list grow),
  all_gaps 0 (drop_zero_width baits) = false -> key_sorted (do_target true avg cut baits).
Proof. exact Proofs.TargetOrderProps.c12_block_order_target_slow. Qed.

Example C12_block_order_example :
  do_target true (400 # 1) (fun span n i => i * span / n)
    [(0, 300, ("chr10", "a")); (100, 900, ("chr2", "b")); (500, 600, ("chr2", "c")); (0, 10, ("chrX", "x"))]%string
  = [(100, 500, ("chr2", "b,c")); (500, 900, ("chr2", "b,c")); (0, 300, ("chr10", "a")); (0, 10, ("chrX", "x"))]%string.
Proof. vm_compute. reflexivity. Qed.

(* antitarget: with targets and access in key order the bins are in key order, and in genomic order
   when distinct contigs of the binned access table have distinct keys *)
Theorem C12_block_order_anti : forall T access avg mn cut E out,
  anti_pre T access avg cut -> effective_access T access = Some E ->
  get_antitargets T access avg mn cut = Some out ->
  key_sorted T -> (forall acc, access = Some acc -> key_sorted acc) ->
  key_sorted out /\ (key_injective E -> genomic_sorted out).
Proof. exact Proofs.TargetOrderProps.c12_block_order_anti. Qed.

(* ---- annotation ----------------------------------------------------------------------------------------
   annotate annot t models  compare_chrom_names(tgt, annotation); if len(tgt): tgt["gene"] =
   list(annotation.into_ranges(tgt, "gene", "-"))  through the C07 model of into_ranges; rows carry no
   index labels: the labels are assigned by position, whatever row labels the table has *)

(* number and coordinates of the bins are unchanged, whatever the annotation table *)
Theorem C12_annotate_coords : forall (annot t t' : list grow),
  annotate annot t = AnnotRows t' -> length t' = length t /\ map coords t' = map coords t.
Proof. exact Proofs.TargetAnnot.annotate_coords. Qed.

(* ... and so for do_target with every option (split, annotate, short names) *)
Theorem C12_options_coords : forall pick split avg cut annot short (baits out : list grow),
  do_target_full pick split avg cut annot short baits = AnnotRows out ->
  map coords out = map coords (do_target split avg cut baits).
Proof. exact Proofs.TargetAnnot.do_target_full_coords. Qed.

(* the label of each bin is the C07 summary of the annotation rows overlapping it *)
Theorem C12_annotate_labels : forall (annot t : list grow),
  Spec.RangeQuery.table_ok (trows_of annot) -> Spec.RangeQuery.grouped (trows_of t) ->
  compare_chrom_names t annot <> None ->
  annotate annot t = AnnotRows (map (fun b => (lo b, hi b, (chrom b, annot_label annot b))) t).
Proof. exact Proofs.TargetAnnot.annotate_labels. Qed.

(* the precondition on the bin table follows from key order and distinct keys for distinct names ... *)
Theorem C12_annotate_grouped : forall t : list grow,
  key_sorted t -> key_injective t -> Spec.RangeQuery.grouped (trows_of t).
Proof. exact Proofs.TargetGrouped.grouped_of_sorted. Qed.

(* ... so for do_target end to end: sorted baits, distinct keys for distinct names, an annotation table
   as the reader leaves it, a shared chromosome name -- every bin keeps its coordinates and gets its label *)
Theorem C12_annotate_do_target : forall (split : bool) (avg : Q) (cut : Z -> Z -> Z -> Z) (baits annot : list grow),
  genome_sorted baits -> key_injective baits ->
  Spec.RangeQuery.table_ok (trows_of annot) ->
  compare_chrom_names (do_target split avg cut baits) annot <> None ->
  annotate annot (do_target split avg cut baits)
  = AnnotRows (map (fun b => (lo b, hi b, (chrom b, annot_label annot b))) (do_target split avg cut baits)).
Proof. exact Proofs.TargetGrouped.annotate_do_target. Qed.

(* that summary in words: "-" without an overlapping row, otherwise the distinct names of the
   overlapping rows (same chromosome, at least one base in common) joined by "," *)
Theorem C12_annotate_label_spec : forall (annot : list grow) (b : grow),
  (overlapping annot b = [] -> annot_label annot b = "-"%string) /\
  (overlapping annot b <> [] ->
   annot_label annot b = String.concat "," (Spec.RangeQuery.unique_scan (map gene (overlapping annot b))) /\
   Spec.RangeQuery.is_distinct_of (Spec.RangeQuery.unique_scan (map gene (overlapping annot b)))
                                  (map gene (overlapping annot b))) /\
  (forall a, In a (overlapping annot b) <-> In a annot /\ chrom a = chrom b /\ lo a < hi b /\ lo b < hi a).
Proof. exact Proofs.TargetAnnot.annot_label_spec. Qed.

(* the precondition on the annotation table holds for every table a reader delivers *)
Theorem C12_annotate_table_ok : forall (annot : list grow),
  sorted_table annot -> Forall (fun r => 0 <= lo r < hi r) annot -> Spec.RangeQuery.table_ok (trows_of annot).
Proof. exact Proofs.TargetAnnot.table_ok_trows. Qed.

Example C12_annotate_example :
  annotate [(99, 500, ("chr1", "GENEA")); (399, 900, ("chr1", "GENEB")); (449, 700, ("chr1", "GENEA"))]%string
           [(0, 99, ("chr1", "a")); (100, 450, ("chr1", "b")); (899, 2000, ("chr1", "c")); (0, 10, ("chr3", "e"))]%string
  = AnnotRows [(0, 99, ("chr1", "-")); (100, 450, ("chr1", "GENEA,GENEB")); (899, 2000, ("chr1", "GENEB"));
               (0, 10, ("chr3", "-"))]%string.
Proof. vm_compute. reflexivity. Qed.

(* ---- label shortening, exactly ---------------------------------------------------------------------------
   `pick` is the choice min(names, key=len) makes among the equally short names of a set (first in
   iteration order); shorten_labels_pick is the code with that choice, shorten_labels the candidates *)

(* whatever the iteration order, every emitted name is one of the candidates of its position *)
Theorem C12_labels_candidates : forall pick labels,
  pick_ok pick ->
  Forall2 (fun name cands => In name cands) (shorten_labels_pick pick labels) (shorten_labels labels).
Proof. exact Proofs.TargetLabels.shorten_labels_pick_in. Qed.

(* where every position has a single candidate the output is that candidate for every order *)
Theorem C12_labels_deterministic_when : forall pick labels,
  pick_ok pick -> Forall (fun c => exists x, c = [x]) (shorten_labels labels) ->
  map Some (shorten_labels_pick pick labels) = shorten_labels_det labels.
Proof. exact Proofs.TargetLabels.shorten_labels_deterministic. Qed.

(* a unique shortest name gives a single candidate *)
Theorem C12_labels_unique_shortest : forall names x,
  shortest_names names = [x] -> shortest_cands names = [strip_db x].
Proof. exact Proofs.TargetLabels.unique_shortest_single. Qed.

(* two equally short names: the output does depend on the order *)
Theorem C12_labels_order_dependent :
  exists (labels : list string) (pick1 pick2 : list string -> string),
    pick_ok pick1 /\ pick_ok pick2 /\
    shorten_labels labels = [["AB"; "CD"]]%string /\
    shorten_labels_pick pick1 labels = ["AB"]%string /\ shorten_labels_pick pick2 labels = ["CD"]%string.
Proof. exact Proofs.TargetLabels.shorten_labels_order_dependent. Qed.

(* filter_names: a single name, or names that all start with "mRNA", are left alone; otherwise
   exactly the names starting with "mRNA" are removed *)
Theorem C12_filter_names : forall names,
  ((length names <= 1)%nat -> filter_names names = names) /\
  ((2 <= length names)%nat -> filter not_mrna names <> [] -> filter_names names = filter not_mrna names) /\
  ((2 <= length names)%nat -> filter not_mrna names = [] -> filter_names names = names) /\
  incl (filter_names names) names /\
  (names <> [] -> filter_names names <> []).
Proof. exact Proofs.TargetLabels.filter_names_spec. Qed.

(* shortest_name: a shortest of the names filter_names leaves, with the DB| prefix of an accession removed *)
Theorem C12_shortest_name : forall names x,
  In x (shortest_cands names) <->
  exists n, In n (filter_names names) /\ (forall m, In m (filter_names names) -> slen n <= slen m) /\
            x = strip_db n.
Proof. exact Proofs.TargetLabels.shortest_cands_spec. Qed.

Example C12_shorten_example :
  shorten_labels_det ["mRNA|JX093079,ens|ENST00000342066,mRNA|JX093077,ref|SAMD11,mRNA|AF161376,mRNA|JX093104";
                      "ens|ENST00000483767,mRNA|AF161376,ccds|CCDS3.1,ref|NOC2L"]%string
  = [Some "AF161376"; Some "AF161376"]%string.
Proof. vm_compute. reflexivity. Qed.

(* ---- the scalar arithmetic as translated from the source (Gen/FnBins.v, Gen/FnBinsSplit.v) -------------- *)

(* min_bin_size = 2 * int(avg_bin_size * (2 ** MIN_REF_COVERAGE)), for every exp2 with 2 ** -5 = 1/32 *)
Theorem C12_source_default_min : forall exp2 : Q -> Q,
  (exp2 (-5 # 1) == 1 # 32)%Q -> forall avg,
  default_min_size avg = Some (Gen.FnBins.fn_default_min exp2 avg Gen.BinsDefaults.MIN_REF_COVERAGE).
Proof. exact Proofs.FnBins.fn_default_min_eq. Qed.

(* if not min_bin_size: min_bin_size = <the default> *)
Theorem C12_source_effective_min : forall exp2 : Q -> Q,
  (exp2 (-5 # 1) == 1 # 32)%Q -> forall avg m,
  effective_min avg (Some m) = Some (Gen.FnBins.fn_effective_min exp2 avg m Gen.BinsDefaults.MIN_REF_COVERAGE).
Proof. exact Proofs.FnBins.fn_effective_min_eq. Qed.

(* pad_size = 2 * INSERT_SIZE = 500; TELOMERE_SIZE = 150000 *)
Theorem C12_source_pad_size : Gen.FnBins.fn_pad_size Gen.BinsDefaults.INSERT_SIZE = pad_size /\ pad_size = 500.
Proof. exact Proofs.FnBins.fn_pad_size_eq. Qed.

Theorem C12_source_telomere :
  Gen.FnBins.fn_telomere_size = Gen.BinsDefaults.TELOMERE_SIZE /\ Gen.FnBins.fn_telomere_size = 150000.
Proof. exact Proofs.FnBins.fn_telomere_eq. Qed.

(* the scalar head of _split_targets' loop: span, the keep test, round(span / avg_size) [or 1] *)
Theorem C12_source_split_scalar : forall (A : Type) (avg : Q) (mn : Z) (cut : Z -> Z -> Z -> Z) (r : @row A),
  (0 < avg)%Q ->
  let '(span, keep, count) := Gen.FnBinsSplit.fn_split_scalar (lo r) (hi r) avg mn in
  span = hi r - lo r /\ keep = negb (span <? mn) /\
  nbins_q avg span = (if count =? 0 then 1 else count) /\
  split_row_q avg mn cut r =
    (if keep then
       let n := if count =? 0 then 1 else count in
       if n =? 1 then [r] else bins_from (cut span n) (lo r) (lo r) 1 (Z.to_nat (n - 1)) (hi r) (pay r)
     else []).
Proof. exact @Proofs.FnBins.fn_split_scalar_eq. Qed.

(* ---- number of bins: exact rule and floating point ---------------------------------------------------------- *)

(* the model's integer rule is max(1, round-half-even(span / avg)) of the exact rational quotient *)
Theorem C12_nbins_round : forall (avg : Q) (span : Z), (0 < avg)%Q -> 0 <= span ->
  nbins_q avg span = Z.max 1 (round_half_even (inject_Z span / avg)).
Proof. exact Proofs.FnBins.nbins_q_round. Qed.

(* a float quotient q' that is a monotone rounding of the exact q and leaves half-integers fixed
   (IEEE division) rounds to the same integer unless q' is exactly a tie and q is not: those
   (span, avg) are the float-ambiguous pairs, and only a non-integer avg has any *)
Theorem C12_nbins_float : forall q q' : Q,
  rounding_of q q' -> (~ is_tie q' \/ (q == q')%Q) -> round_half_even q' = round_half_even q.
Proof. exact Proofs.FnBins.round_half_even_rounding. Qed.

(* ---- sizes without the restriction avg >= 4 --------------------------------------------------------------- *)

(* for every positive average a bin is at most 3/2 avg (unsplit stretch) or 5/4 avg + 1 (split
   stretch: the cut points are only known to within one base); hence at most 3/2 avg for every
   integer average >= 2 as well *)
Theorem C12_anti_sizes_upper : forall T access avg mn cut E out,
  anti_pre T access avg cut -> effective_access T access = Some E ->
  get_antitargets T access avg mn cut = Some out ->
  forall b, In b out ->
    ((inject_Z (hi b - lo b) <= (3 # 2) * avg)%Q \/ (inject_Z (hi b - lo b) <= (5 # 4) * avg + 1)%Q) /\
    (Qden avg = 1%positive -> (2 <= avg)%Q -> (inject_Z (hi b - lo b) <= (3 # 2) * avg)%Q).
Proof. exact Proofs.TargetSizes.c12_anti_sizes_upper. Qed.

(* avg = 1: one base per bin, given exact cut points for evenly dividing stretches *)
Theorem C12_anti_sizes_avg1 : forall T access mn cut E out,
  anti_pre T access (inject_Z 1) cut -> (forall span n, cut_contract_exact span n (cut span n)) ->
  effective_access T access = Some E ->
  get_antitargets T access (inject_Z 1) mn cut = Some out ->
  forall b, In b out -> hi b - lo b = 1.
Proof. exact Proofs.TargetSizes.c12_anti_sizes_avg1. Qed.

(* the boundary: for a small non-integer average the clause is false (bins are whole bases):
   avg = 6/5, a stretch of 3 bases gives bins of 1 and 2 bases, 2 > 9/5 *)
Theorem C12_anti_sizes_small_avg_refuted :
  exists (T acc : list grow) (avg : Q) (mn : Z) (cut : Z -> Z -> Z -> Z) (out : list grow) (b : grow),
    anti_pre T (Some acc) avg cut /\ (forall span n, cut_contract_exact span n (cut span n)) /\
    get_antitargets T (Some acc) avg mn cut = Some out /\ In b out /\
    ~ (inject_Z (hi b - lo b) <= (3 # 2) * avg)%Q.
Proof. exact Proofs.TargetSizes.c12_anti_sizes_small_avg_refuted. Qed.

(* ==== LOOP TIES (function-body translator, tools/fnspecs/bins_loops.py) ================
   Loop bodies, helper functions and per-row decisions of cnvlib/target.py and
   cnvlib/antitarget.py, and the bin loop of skgenome/subdivide.py for a rational average,
   translated from the source text on every run (Gen/FnTargetShorten.v, FnTargetNames.v,
   FnTargetZero.v, FnAntiSkip.v; Gen/FnBinsSplit.v + Gen/FnIvSplitLoop.v). *)
From CNV Require Import Proofs.FnTargetShorten Proofs.FnTargetNames Proofs.FnTargetZero Proofs.FnAntiSkip
  Proofs.FnBinsLoop Proofs.FnIvSplitLoop.
From CNV Require Gen.FnTargetShorten Gen.FnTargetNames Gen.FnTargetZero Gen.FnAntiSkip.

(* shorten_labels, one iteration of `for label in gene_labels` as generated: continuing a gene
   (the overlap is not empty) or closing it (the emission range's yields, count back to 1) *)
Theorem C12_source_shorten_step : forall (curr : list string) (count len0 : Z)
    (next ov filtered emitted : list string) (len1 : Z),
  Gen.FnTargetShorten.fn_shorten_step curr count len0 next ov filtered emitted len1 =
  match ov with
  | [] => (next, 1, len1, emitted)
  | _ => (filtered, count + 1, len0, [])
  end.
Proof. exact source_shorten_step. Qed.

(* shorten_labels IS the generated step folded over the labels, then the final emission *)
Theorem C12_source_shorten : forall (pick : list string -> string) (labels : list string) (len0 : Z),
  src_shorten pick [] 0 len0 labels = shorten_labels_pick pick labels.
Proof. exact source_shorten_labels. Qed.

(* filter_names and shortest_name, whole bodies *)
Theorem C12_source_filter_names : forall names : list string,
  filter_names names = Gen.FnTargetNames.fn_filter_names names (ok_names names).
Proof. exact source_filter_names. Qed.

Theorem C12_source_shortest_name : forall (pick : list string -> string) (names : list string),
  shortest_name_pick pick names =
  let name := pick (shortest_names names) in
  Gen.FnTargetNames.fn_shortest_name name (inner_bar name) (accession name).
Proof. exact source_shortest_name. Qed.

(* do_target's `tgt_arr[tgt_arr.start != tgt_arr.end]` *)
Theorem C12_source_drop_zero : forall (d : Z) (t : list grow),
  drop_zero_width t = filter (fun r => Gen.FnTargetZero.fn_keep_target d (lo r) (hi r)) t.
Proof. exact source_drop_zero. Qed.

(* drop_noncanonical_contigs: the skipped chromosomes and the surviving rows *)
Theorem C12_source_chroms_to_skip : forall (d : Z) (access_chroms target_chroms : list string),
  chroms_to_skip access_chroms target_chroms =
  filter (fun c => Gen.FnAntiSkip.fn_skip_chrom d (existsb Access.is_canonical_contig_name target_chroms)
                     (Access.is_canonical_contig_name c) c (max_len target_chroms))
         (filter (fun c => negb (mem_string c target_chroms)) access_chroms).
Proof. exact source_chroms_to_skip. Qed.

Theorem C12_source_drop_rows : forall access targets : list grow,
  drop_noncanonical access targets =
  match compare_chrom_names access targets with
  | None => None
  | Some (ac, tc) =>
      Some (filter (fun r => Gen.FnAntiSkip.fn_keep_access_row (mem_string (chrom r) (chroms_to_skip ac tc))) access)
  end.
Proof. exact source_drop_rows. Qed.

(* subdivide for a rational average: one merged region through the generated rule and the
   generated bin loop IS split_row_q with the cut points read exactly; gsubdivide is that per
   merged region; and the exact cut points meet the contract of the size theorems *)
Theorem C12_source_split_loop : forall (A : Type) (avg : Q) (mn : Z) (r : @row A), (0 < avg)%Q ->
  src_split_row_q avg mn r = split_row_q avg mn cut_of_source r.
Proof. exact @source_split_row_q. Qed.

Theorem C12_source_subdivide : forall (avg : Q) (mn : Z) (t : list grow), (0 < avg)%Q ->
  gsubdivide avg mn cut_of_source t =
  flat_map (src_split_row_q avg mn) (gmerge Gen.IvDefaults.merge_bp_default t).
Proof. exact source_gsubdivide. Qed.

Theorem C12_source_cut_contract : forall span n : Z, 0 <= span -> 0 < n ->
  cut_contract span n (cut_of_source span n).
Proof. exact source_cut_contract. Qed.

(* ==== CONTROL-FLOW TIES (function-body translator, tools/fnspecs/bins_flow.py) [loop ties e3] ====
   Which table operation is applied to which table, with which arguments, in which order and under which
   option: the bodies of get_antitargets, do_antitarget, do_target, compare_chrom_names and
   guess_chromosome_regions translated from the source text on every run (Gen/FnAntiFlow.v, FnAntiDo.v,
   FnTargetFlow.v, FnChromNames.v, FnGuessRegions.v).  Tables are opaque ids and the table functions are
   function inputs on ids; each theorem holds under EVERY reading of ids as tables in which the function
   inputs are the model's operations. *)
From CNV Require Proofs.FnAntiFlow Proofs.FnAntiDo Proofs.FnTargetFlow Proofs.FnChromNames Proofs.FnGuessRegions.
From CNV Require Gen.FnAntiFlow Gen.FnAntiDo Gen.FnTargetFlow Gen.FnChromNames Gen.FnGuessRegions.

(* get_antitargets: accessible regions from drop_noncanonical_contigs or (none given) guess_chromosome_regions
   with 150000; shrunk by 2 * INSERT_SIZE; the targets grown by the same pad subtracted; subdivided with the
   average and the minimum; every row named ANTITARGET_NAME -- the model's get_antitargets *)
Theorem C12_source_get_antitargets : forall (tbl : Z -> list grow) (drop_fn guess_fn resize_fn subtract_fn : Z -> Z -> Z)
    (subdivide_fn : Z -> Q -> Z -> Z) (cut : Z -> Z -> Z -> Z) (targets access : Z) (avg : Q) (mn : Z),
  Proofs.FnAntiFlow.anti_reading tbl drop_fn guess_fn resize_fn subtract_fn subdivide_fn cut ->
  (access <> 0 -> tbl access <> []) ->
  effective_access (tbl targets) (Proofs.FnAntiFlow.access_of tbl access) <> None ->
  get_antitargets (tbl targets) (Proofs.FnAntiFlow.access_of tbl access) avg mn cut =
  Some (Proofs.FnAntiFlow.src_get_antitargets tbl drop_fn guess_fn resize_fn subtract_fn subdivide_fn targets access avg mn).
Proof. exact Proofs.FnAntiFlow.source_get_antitargets. Qed.

(* the generated body, spelled out with the literals it was read with *)
Theorem C12_source_get_antitargets_body : forall (t a : Z) (avg : Q) (mn : Z) (nm : string) (isz : Z)
    (drop_fn guess_fn resize_fn subtract_fn : Z -> Z -> Z) (subdivide_fn : Z -> Q -> Z -> Z),
  Gen.FnAntiFlow.fn_get_antitargets t a avg mn isz nm drop_fn guess_fn resize_fn subtract_fn subdivide_fn =
  (subdivide_fn (subtract_fn (resize_fn (if a =? 0 then guess_fn t 150000 else drop_fn a t) (- (2 * isz)))
                             (resize_fn t (2 * isz))) avg mn, nm).
Proof. exact Proofs.FnAntiFlow.source_flow_literals. Qed.

(* do_antitarget: the default minimum exactly when none (0) is given, then get_antitargets(targets, access, avg, min) *)
Theorem C12_source_do_antitarget : forall (exp2 : Q -> Q), (exp2 (-5 # 1) == 1 # 32)%Q ->
  forall (tbl : Z -> list grow) (get_fn : Z -> Z -> Q -> Z -> Z) (cut : Z -> Z -> Z -> Z) (t a : Z) (avg : Q) (m : Z),
  Proofs.FnAntiDo.get_is_model tbl get_fn cut ->
  do_antitarget (tbl t) (Proofs.FnAntiFlow.access_of tbl a) avg (Some m) cut <> AntiValueError ->
  do_antitarget (tbl t) (Proofs.FnAntiFlow.access_of tbl a) avg (Some m) cut
  = AntiRows (tbl (Gen.FnAntiDo.fn_do_antitarget exp2 t a avg m Gen.BinsDefaults.MIN_REF_COVERAGE get_fn)).
Proof. exact Proofs.FnAntiDo.source_do_antitarget. Qed.

(* do_target: split first (minimum size 0), then the annotation (name check; nothing written into an empty table;
   into_ranges on "gene" with default "-"), then the shortening of the labels the annotation left -- the model's
   do_target_full; the third result says whether the compare_chrom_names statement raised *)
Theorem C12_source_do_target : forall (tbl : Z -> list grow) (col : Z -> list string) (pick : list string -> string)
    (cut : Z -> Z -> Z -> Z) (copy_fn read_fn len_fn list_fn shorten_fn : Z -> Z) (subdivide_fn : Z -> Q -> Z -> Z)
    (names_raise : Z -> Z -> bool) (into_fn : Z -> Z -> string -> string -> Z)
    (bait annot_id : Z) (short split : bool) (avg : Q) (nonzero genes : Z),
  Proofs.FnTargetFlow.target_reading tbl col pick cut len_fn list_fn shorten_fn subdivide_fn names_raise into_fn ->
  tbl nonzero = drop_zero_width (tbl bait) ->
  let '(out, g, raised) :=
    Proofs.FnTargetFlow.run_do_target copy_fn read_fn len_fn list_fn shorten_fn subdivide_fn names_raise into_fn
      bait annot_id short split avg nonzero genes in
  col genes = map gene (tbl out) ->
  tbl out = do_target split avg cut (tbl bait) /\
  match do_target_full pick split avg cut (Proofs.FnTargetFlow.annot_of tbl read_fn annot_id) short (tbl bait) with
  | AnnotRows rows => raised = false /\ rows = set_genes (tbl out) (col g)
  | AnnotValueError => raised = true \/ Proofs.FnTargetFlow.into_raises (Proofs.FnTargetFlow.annot_of tbl read_fn annot_id) (tbl out)
  end.
Proof. exact Proofs.FnTargetFlow.source_do_target. Qed.

(* compare_chrom_names: ValueError exactly when the first table has a chromosome and shares none with the second *)
Theorem C12_source_compare_chrom_names : forall a b : list grow,
  compare_chrom_names a b =
  let '(raises, ac, bc) := Gen.FnChromNames.fn_chrom_names (chroms_of a) (chroms_of b) Proofs.FnChromNames.disjoint_names in
  if raises then None else Some (ac, bc).
Proof. exact Proofs.FnChromNames.source_compare_chrom_names. Qed.

(* guess_chromosome_regions: one row per target chromosome, from telomere_size to the end of its last row *)
Theorem C12_source_guess_regions : forall (d : Z) (targets : list grow) (telomere : Z),
  guess_regions targets telomere =
  map (fun c => let '(s, e) := Gen.FnGuessRegions.fn_guess_row telomere (last_end (filter (on c) targets)) d in
                (s, e, (c, EmptyString)))
      (chroms_of targets).
Proof. exact Proofs.FnGuessRegions.source_guess_regions. Qed.
