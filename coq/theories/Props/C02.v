(* C02 -- threshold calls are a monotone step function of log2; cn1 + cn2 = cn.
   Property theorems only; proofs live in Proofs/CallThreshold.v and
   Proofs/CallThresholdDefaults.v.

   thr_cn v e ts k r is the model of one row of absolute_threshold: v the log2 (None = NaN),
   e = 2^v (oracle value), ts the thresholds, k the ploidy, r the reference copies of the
   row's chromosome.  exp2 is an oracle: theorems that need it quantify over every function
   meeting the stated contract; that the real 2^v meets it is the separately named
   corollary at the end (the only statement here depending on the stdlib Reals axioms). *)
From Coq Require Import Qround Qabs.
From CNV Require Import Base.Prelude Base.Str Gen.CallDefaults Model.Call Model.Threshold Model.Baf
  Spec.CallThreshold Proofs.CallNum Proofs.Call Proofs.CallThreshold Proofs.CallThresholdDefaults Gen.FnCall Proofs.FnCall.

Local Open Scope Z_scope.

(* strictly increasing thresholds, log2 not above all of them: cn is the number of
   thresholds strictly below log2, scaled by r/ploidy and truncated where r <> ploidy *)
Theorem C02_step :
  forall v e ts k r, strictly_increasing ts -> ~ above_all v ts ->
    thr_cn (Some v) e ts k r = scale_cn (count_below v ts) r k.
Proof. exact thr_step. Qed.

(* the code's int(i * r / ploidy) is the truncation of i * (r / ploidy) *)
Theorem C02_step_scale :
  forall i r k, 0 <= i -> 0 <= r -> 0 < k -> scale_cn i r k = spec_scale i r k.
Proof. exact scale_cn_spec. Qed.

(* above the last threshold: ceil(r * 2^log2) *)
Theorem C02_above :
  forall v e ts k r, above_all v ts -> thr_cn (Some v) e ts k r = Qceiling (inject_Z r * e).
Proof. exact thr_above. Qed.

(* both together: the model is the step function of the property, for all thresholds,
   ploidies and reference copy numbers *)
Theorem C02_spec_function :
  forall v e ts k r, strictly_increasing ts -> 0 <= r -> 0 < k ->
    thr_cn (Some v) e ts k r = spec_thr v e ts k r.
Proof. exact thr_spec. Qed.

(* a missing log2 yields the neutral reference copy number *)
Theorem C02_nan : forall e ts k r, thr_cn None e ts k r = r.
Proof. exact thr_nan. Qed.

(* the number of rows never changes *)
Theorem C02_rows :
  forall k hapx ts rows, length (call_threshold k hapx ts rows) = length rows.
Proof. exact call_threshold_rows. Qed.

Theorem C02_thr_nonneg :
  forall v e ts k r, 0 <= r -> 0 < k -> (0 <= e)%Q -> 0 <= thr_cn v e ts k r.
Proof. exact thr_nonneg. Qed.

(* default thresholds -1.1, -0.25, 0.2, 0.7; ploidy 2..6; r = ploidy or ploidy/2 (every
   chromosome class under either reference sex): cn never decreases as log2 increases *)
Theorem C02_monotone :
  forall (exp2 : Q -> Q) k r,
    exp2_monotone exp2 -> (3 # 2 < exp2 (7 # 10))%Q ->
    2 <= k <= 6 -> r = k \/ r = k / 2 ->
    forall v v', (v <= v')%Q ->
      thr_cn (Some v) (exp2 v) lit_thresholds k r <= thr_cn (Some v') (exp2 v') lit_thresholds k r.
Proof. exact monotone_literal. Qed.

(* the same for the thresholds the code actually holds (the doubles nearest the documented
   values, generated from do_call's signature), per row on any chromosome name *)
Theorem C02_monotone_code_defaults :
  forall (exp2 : Q -> Q) k hapx chrom,
    exp2_monotone exp2 -> (3 # 2 < exp2 (3 # 5))%Q -> 2 <= k <= 6 ->
    forall v v', (v <= v')%Q ->
      thr_row_cn k hapx default_thresholds (chrom, Some v, exp2 v)
      <= thr_row_cn k hapx default_thresholds (chrom, Some v', exp2 v').
Proof. exact monotone_rows. Qed.

Theorem C02_defaults_literal :
  Forall2 (fun g l => (Qabs (g - l) <= 1 # 1000000000000000)%Q) default_thresholds lit_thresholds.
Proof. exact defaults_literal. Qed.

(* cn is 2 at log2 0 on a diploid autosome *)
Theorem C02_diploid_zero :
  forall e, thr_cn (Some 0%Q) e lit_thresholds 2 2 = 2 /\ thr_cn (Some 0%Q) e default_thresholds 2 2 = 2.
Proof. exact diploid_zero. Qed.

(* FINDING (known, open): for ploidy 1 with one reference copy the monotonicity clause is
   false of the faithful model -- three thresholds lie strictly below log2 0.7 (cn = 3)
   while just above the last threshold cn = ceil(1 * 2^0.71) = 2. *)
Theorem C02_monotone_ploidy1_refuted :
  exists v v' e e' : Q,
    (v <= v')%Q /\ (0 < e)%Q /\ (e <= e')%Q /\
    thr_cn (Some v') e' lit_thresholds 1 1 < thr_cn (Some v) e lit_thresholds 1 1.
Proof. exact monotone_ploidy1_refuted. Qed.

Theorem C02_monotone_ploidy1_refuted_code_defaults :
  exists v v' e e' : Q,
    (v <= v')%Q /\ (0 < e)%Q /\ (e <= e')%Q /\
    thr_cn (Some v') e' default_thresholds 1 1 < thr_cn (Some v) e default_thresholds 1 1.
Proof. exact monotone_ploidy1_refuted_defaults. Qed.

(* the refutation does not depend on the stand-in values of 2^0.7, 2^0.71: every oracle
   meeting the contract shows the decrease between log2 0.7 and 0.71 *)
Theorem C02_monotone_ploidy1_refuted_any_oracle :
  forall exp2 : Q -> Q,
    exp2_monotone exp2 -> (exp2 0 == 1)%Q -> (forall v, exp2 (v + 1) == 2 * exp2 v)%Q ->
    (3 # 2 < exp2 (7 # 10))%Q ->
    thr_cn (Some (71 # 100)%Q) (exp2 (71 # 100)%Q) lit_thresholds 1 1
    < thr_cn (Some (7 # 10)%Q) (exp2 (7 # 10)%Q) lit_thresholds 1 1.
Proof. exact monotone_ploidy1_refuted_any. Qed.

(* allelic split: cn1 + cn2 = cn with both within [0, cn] ... *)
Theorem C02_alleles :
  forall a b cn c1 c2, 0 <= cn -> alleles a b cn = (Some c1, Some c2) ->
    c1 + c2 = cn /\ 0 <= c1 <= cn /\ 0 <= c2 <= cn.
Proof. exact alleles_sum. Qed.

(* ... both missing exactly where the segment has no BAF and cn > 0, both present otherwise *)
Theorem C02_missing :
  forall a b cn,
    (alleles a b cn = (None, None) <-> b = None /\ 0 < cn) /\
    (alleles a b cn = (None, None) \/ exists c1 c2, alleles a b cn = (Some c1, Some c2)).
Proof. exact alleles_missing. Qed.

(* BAF purity rescale inverts the admixture of normal cells at BAF 1/2 *)
Theorem C02_rescale_baf :
  forall p b t, ~ (p == 0)%Q -> rescale_baf p (Some b) = Some t -> (t * p + (1 # 2) * (1 - p) == b)%Q.
Proof. exact rescale_baf_spec. Qed.

(* hypotheses are satisfiable / non-trivial instances *)
Example C02_ex_increasing : strictly_increasing lit_thresholds /\ strictly_increasing default_thresholds.
Proof. split; [exact lit_increasing | exact defaults_increasing]. Qed.

Example C02_ex_step :   (* haploid X (r = 1) at ploidy 2, log2 0.3: three thresholds below, int(3*1/2) = 1 *)
  thr_cn (Some (3 # 10)%Q) (5 # 4)%Q lit_thresholds 2 1 = 1 /\ count_below (3 # 10)%Q lit_thresholds = 3.
Proof. split; reflexivity. Qed.

Example C02_ex_alleles : alleles 3%Q (Some (3 # 10)%Q) 3 = (Some 2, Some 1) /\ alleles 3%Q None 3 = (None, None)
                         /\ alleles 0%Q None 0 = (Some 0, Some 0).
Proof. vm_compute. repeat split; reflexivity. Qed.

(* ------------------------------------------------------------------------------------
   Corollary over the reals (depends on the stdlib Reals axioms via RealFacts; nothing
   above does): the real function 2^v meets the oracle contract used above -- positive,
   monotone, 2^0 = 1, 2^(v+1) = 2*2^v, 3/2 < 2^(7/10) -- and 3/2 < 2^(3/5). *)
From Coq Require Import Reals.
From CNV Require Base.RealFacts.

Corollary C02_real_corollary_exp2_contract :
  RealFacts.exp2_contract RealFacts.exp2 /\ (3 / 2 < RealFacts.exp2 (3 / 5))%R.
Proof. exact (conj RealFacts.exp2_contract_real RealFacts.exp2_3_5). Qed.

(* ---- source tie: rescale_baf and _reference_copies_pure as translated from the Python
   source on every run (Gen/FnCall.v) are the model functions used above. *)
Theorem C02_source_rescale_baf :
  forall p b, match rescale_baf p (Some b) with
              | Some t => (fn_rescale_baf p b normal_baf == t)%Q
              | None => False
              end.
Proof. exact fn_rescale_baf_eq. Qed.

Theorem C02_source_ref_pure :
  forall chrom k hapx, fn_reference_copies_pure chrom k hapx = ref_pure chrom k hapx.
Proof. exact fn_ref_pure_eq. Qed.
