(* C02 -- threshold calls are a monotone step function of log2; cn1 + cn2 = cn.
   Property theorems only; proofs live in Proofs/CallThreshold.v and
   Proofs/CallThresholdDefaults.v.

   thr_cn v e ts k r is the model of one row of absolute_threshold: v the log2 (None = NaN),
   e = 2^v (oracle value), ts the thresholds, k the ploidy, r the reference copies of the
   row's chromosome.  exp2 is an oracle: theorems that need it quantify over every function
   meeting the stated contract; that the real 2^v meets it is the separately named
   corollary at the end (the only statement here depending on the stdlib Reals axioms). *)
From Coq Require Import Qround Qabs.
From CNV Require Import Base.Prelude Base.Str Gen.CallDefaults Model.Call Model.Threshold Model.Baf
  Spec.Call Spec.CallThreshold Proofs.CallNum Proofs.Call Proofs.CallThreshold Proofs.CallThresholdDefaults
  Proofs.CallScan Proofs.CallDoCall Gen.FnCall Gen.FnCallBaf Proofs.FnCall Proofs.FnCallBaf.

Local Open Scope Z_scope.

(* strictly increasing thresholds, log2 not above all of them: cn is the number of
   thresholds strictly below log2, scaled by r/ploidy and truncated where r <> ploidy *)
Theorem C02_step :
  forall v e ts k r, strictly_increasing ts -> ~ above_all v ts ->
    thr_cn (Some v) e ts k r = scale_cn (count_below v ts) r k.
Proof. exact thr_step. Qed.

(* the code's int(i * r / ploidy) is the truncation of i * (r / ploidy) *)
Theorem C02_step_scale :
  forall i r k, 0 <= i -> 0 <= r -> 0 < k -> scale_cn i r k = spec_scale i r k.
Proof. exact scale_cn_spec. Qed.

(* above the last threshold: ceil(r * 2^log2) *)
Theorem C02_above :
  forall v e ts k r, above_all v ts -> thr_cn (Some v) e ts k r = Qceiling (inject_Z r * e).
Proof. exact thr_above. Qed.

(* both together: the model is the step function of the property, for all thresholds,
   ploidies and reference copy numbers *)
Theorem C02_spec_function :
  forall v e ts k r, strictly_increasing ts -> 0 <= r -> 0 < k ->
    thr_cn (Some v) e ts k r = spec_thr v e ts k r.
Proof. exact thr_spec. Qed.

(* a missing log2 yields the neutral reference copy number *)
Theorem C02_nan : forall e ts k r, thr_cn None e ts k r = r.
Proof. exact thr_nan. Qed.

(* the number of rows never changes *)
Theorem C02_rows :
  forall k hapx ts rows, length (call_threshold k hapx ts rows) = length rows.
Proof. exact call_threshold_rows. Qed.

Theorem C02_thr_nonneg :
  forall v e ts k r, 0 <= r -> 0 < k -> (0 <= e)%Q -> 0 <= thr_cn v e ts k r.
Proof. exact thr_nonneg. Qed.

(* default thresholds -1.1, -0.25, 0.2, 0.7; ploidy 2..6; r = ploidy or ploidy/2 (every
   chromosome class under either reference sex): cn never decreases as log2 increases *)
Theorem C02_monotone :
  forall (exp2 : Q -> Q) k r,
    exp2_monotone exp2 -> (3 # 2 < exp2 (7 # 10))%Q ->
    2 <= k <= 6 -> r = k \/ r = k / 2 ->
    forall v v', (v <= v')%Q ->
      thr_cn (Some v) (exp2 v) lit_thresholds k r <= thr_cn (Some v') (exp2 v') lit_thresholds k r.
Proof. exact monotone_literal. Qed.

(* the same for the thresholds the code actually holds (the doubles nearest the documented
   values, generated from do_call's signature), per row on any chromosome name *)
Theorem C02_monotone_code_defaults :
  forall (exp2 : Q -> Q) k hapx chrom,
    exp2_monotone exp2 -> (3 # 2 < exp2 (3 # 5))%Q -> 2 <= k <= 6 ->
    forall v v', (v <= v')%Q ->
      thr_row_cn k hapx default_thresholds (chrom, Some v, exp2 v)
      <= thr_row_cn k hapx default_thresholds (chrom, Some v', exp2 v').
Proof. exact monotone_rows. Qed.

Theorem C02_defaults_literal :
  Forall2 (fun g l => (Qabs (g - l) <= 1 # 1000000000000000)%Q) default_thresholds lit_thresholds.
Proof. exact defaults_literal. Qed.

(* cn is 2 at log2 0 on a diploid autosome *)
Theorem C02_diploid_zero :
  forall e, thr_cn (Some 0%Q) e lit_thresholds 2 2 = 2 /\ thr_cn (Some 0%Q) e default_thresholds 2 2 = 2.
Proof. exact diploid_zero. Qed.

(* FINDING (known, open): for ploidy 1 with one reference copy the monotonicity clause is
   false of the faithful model -- three thresholds lie strictly below log2 0.7 (cn = 3)
   while just above the last threshold cn = ceil(1 * 2^0.71) = 2. *)
Theorem C02_monotone_ploidy1_refuted :
  exists v v' e e' : Q,
    (v <= v')%Q /\ (0 < e)%Q /\ (e <= e')%Q /\
    thr_cn (Some v') e' lit_thresholds 1 1 < thr_cn (Some v) e lit_thresholds 1 1.
Proof. exact monotone_ploidy1_refuted. Qed.

Theorem C02_monotone_ploidy1_refuted_code_defaults :
  exists v v' e e' : Q,
    (v <= v')%Q /\ (0 < e)%Q /\ (e <= e')%Q /\
    thr_cn (Some v') e' default_thresholds 1 1 < thr_cn (Some v) e default_thresholds 1 1.
Proof. exact monotone_ploidy1_refuted_defaults. Qed.

(* the refutation does not depend on the stand-in values of 2^0.7, 2^0.71: every oracle
   meeting the contract shows the decrease between log2 0.7 and 0.71 *)
Theorem C02_monotone_ploidy1_refuted_any_oracle :
  forall exp2 : Q -> Q,
    exp2_monotone exp2 -> (exp2 0 == 1)%Q -> (forall v, exp2 (v + 1) == 2 * exp2 v)%Q ->
    (3 # 2 < exp2 (7 # 10))%Q ->
    thr_cn (Some (71 # 100)%Q) (exp2 (71 # 100)%Q) lit_thresholds 1 1
    < thr_cn (Some (7 # 10)%Q) (exp2 (7 # 10)%Q) lit_thresholds 1 1.
Proof. exact monotone_ploidy1_refuted_any. Qed.

(* allelic split: cn1 + cn2 = cn with both within [0, cn] ... *)
Theorem C02_alleles :
  forall a b cn c1 c2, 0 <= cn -> alleles a b cn = (Some c1, Some c2) ->
    c1 + c2 = cn /\ 0 <= c1 <= cn /\ 0 <= c2 <= cn.
Proof. exact alleles_sum. Qed.

(* ... both missing exactly where the segment has no BAF and cn > 0, both present otherwise *)
Theorem C02_missing :
  forall a b cn,
    (alleles a b cn = (None, None) <-> b = None /\ 0 < cn) /\
    (alleles a b cn = (None, None) \/ exists c1 c2, alleles a b cn = (Some c1, Some c2)).
Proof. exact alleles_missing. Qed.

(* BAF purity rescale inverts the admixture of normal cells at BAF 1/2 *)
Theorem C02_rescale_baf :
  forall p b t, ~ (p == 0)%Q -> rescale_baf p (Some b) = Some t -> (t * p + (1 # 2) * (1 - p) == b)%Q.
Proof. exact rescale_baf_spec. Qed.

(* ------------------------------------------------------------------------------------
   The loop itself.  scan_row is a literal transcription of absolute_threshold's per-row body
   (NaN test, for/else over enumerate(thresholds), `int(cnum * ref_copies / ploidy)` with the
   FLOAT quotient `fdiv`, `int(np.ceil(...))` in the else branch; the statements are pinned
   in tools/genspecs/c01.py).  Python's int / int is the correctly rounded quotient:
   exact when the division is exact, relative error <= 2^-53 otherwise (fdiv_contract).
   Under that contract the truncated float quotient is the integer quotient for every
   dividend below 2^53 ... *)
Theorem C02_float_quotient :
  forall fdiv a b, fdiv_contract fdiv -> 0 <= a -> a < 2 ^ 53 -> 0 < b ->
    trunc_Q (fdiv a b) = a / b /\ a / b = Z.quot a b.
Proof. exact float_quotient. Qed.

(* ... so the walk computes the model's thr_cn (first_le / scale_cn) whenever
   len(thresholds) * ref_copies <= 2^53 -- cnum, ref_copies, ploidy small non-negative integers *)
Theorem C02_scan_equiv :
  forall fdiv, fdiv_contract fdiv ->
  forall v e ts k r, 0 <= r -> 0 < k -> Z.of_nat (length ts) * r <= 2 ^ 53 ->
    scan_row fdiv v e ts k r = thr_cn v e ts k r.
Proof. exact scan_equiv_pow. Qed.

(* with the exact quotient (which meets the contract) the two agree for every size *)
Theorem C02_scan_equiv_exact :
  fdiv_contract exact_div /\
  forall v e ts k r, 0 <= r -> 0 < k -> scan_row exact_div v e ts k r = thr_cn v e ts k r.
Proof. exact scan_equiv_exact_all. Qed.

(* hence the loop as written is the step function of the property *)
Theorem C02_scan_spec :
  forall fdiv, fdiv_contract fdiv ->
  forall v e ts k r, strictly_increasing ts -> 0 <= r -> 0 < k -> Z.of_nat (length ts) * r <= 2 ^ 53 ->
    scan_row fdiv (Some v) e ts k r = spec_thr v e ts k r.
Proof. exact scan_spec_pow. Qed.

Example C02_ex_scan :   (* haploid X at ploidy 2, log2 0.3: the loop breaks at cnum = 3, int(3 * 1 / 2) = 1 *)
  scan_row exact_div (Some (3 # 10)%Q) (5 # 4)%Q lit_thresholds 2 1 = 1.
Proof. vm_compute. reflexivity. Qed.

(* ------------------------------------------------------------------------------------
   do_call end to end (Model/Baf.v: do_call_row = purity rewrite, then the method, then the
   allelic split, composed as in the Python body).  Threshold method without a purity
   adjustment: the log2 column is untouched, cn is the step function of the property on the
   row's reference copies (NaN: the reference copies), the baf column is untouched and the
   allelic split is `alleles` of the integer cn (C02_alleles / C02_missing apply to it). *)
Theorem C02_do_call_threshold :
  forall k purity hapx female build ts variants with_baf first row,
    use_purity purity = None -> strictly_increasing ts -> 0 < k ->
    exists o, do_call_row MThreshold k purity hapx female build ts variants with_baf first row = Some o /\
      let r := ref_pure (d_chrom row) k hapx in
      let cn := match d_log2 row with Some v => spec_thr v (d_e row) ts k r | None => r end in
      o_log2 o = d_log2 row /\ o_ratio o = None /\ o_cn o = Some cn /\
      o_baf o = (if with_baf || variants then d_baf row else None) /\
      o_alleles o = (if with_baf || variants then Some (alleles (inject_Z cn) (d_baf row) cn) else None).
Proof. exact do_call_threshold_spec. Qed.

(* whatever purity: the scan runs on the (log2, 2^log2) the table holds after the purity
   step, the baf is rescaled exactly when it came from variants on the purity-adjusted path *)
Theorem C02_do_call_threshold_any :
  forall k purity hapx female build ts variants with_baf first row,
    exists o, do_call_row MThreshold k purity hapx female build ts variants with_baf first row = Some o /\
      let '(v1, e1) := dc_seen purity row in
      let cn := thr_cn v1 e1 ts k (ref_pure (d_chrom row) k hapx) in
      o_log2 o = v1 /\ o_cn o = Some cn /\ o_abs o = Some (inject_Z cn) /\
      o_baf o = (if with_baf || variants then dc_baf purity variants (d_baf row) else None) /\
      o_alleles o = (if with_baf || variants
                     then Some (alleles (inject_Z cn) (dc_baf purity variants (d_baf row)) cn) else None).
Proof. exact do_call_row_threshold. Qed.

(* a missing log2 yields the neutral reference copy number, with or without purity *)
Theorem C02_do_call_nan :
  forall k purity hapx female build ts variants with_baf first row,
    d_log2 row = None ->
    exists o, do_call_row MThreshold k purity hapx female build ts variants with_baf first row = Some o /\
      o_cn o = Some (ref_pure (d_chrom row) k hapx) /\ o_log2 o = None /\ o_ratio o = None.
Proof. exact do_call_threshold_nan. Qed.

(* With purity < 1 the threshold method sees the RESCALED log2 of C01_rescaled_log2: for
   every oracle pair with exp2 (log2 y) == y on y > 0, when the row carries v2 = log2 q and
   e2 = exp2 v2 for the ratio q the C01 path rewrites the row to, the log2 column becomes
   log2 q, cn is the property's step function at log2 q (above the last threshold:
   ceil(r * q)), and for a row generated from the mixing model (even ploidy) q is
   max(n, 0.001*ploidy)/r, the ratio of a pure n-copy sample against the reference. *)
Theorem C02_purity_then_threshold :
  forall (log2f exp2f : Q -> Q),
    (forall y, (0 < y)%Q -> (exp2f (log2f y) == y)%Q) ->
    forall k purity p hapx female build ts variants with_baf first row v q,
      use_purity purity = Some p -> d_log2 row = Some v ->
      let c := row_class build first (d_chrom row) (d_lo row) (d_hi row) in
      dc_ratio k p hapx female c (d_e row) = Some q ->
      d_v2 row = log2f q -> d_e2 row = exp2f (d_v2 row) ->
      exists o, do_call_row MThreshold k purity hapx female build ts variants with_baf first row = Some o /\
        let rp := ref_pure (d_chrom row) k hapx in
        o_ratio o = Some q /\ o_log2 o = Some (log2f q) /\ (0 < q)%Q /\ (d_e2 row == q)%Q /\
        o_cn o = Some (thr_cn (Some (log2f q)) (d_e2 row) ts k rp) /\
        (strictly_increasing ts -> 0 < k -> o_cn o = Some (spec_thr (log2f q) (d_e2 row) ts k rp)) /\
        (above_all (log2f q) ts -> o_cn o = Some (Qceiling (inject_Z rp * q))) /\
        (forall n r x, 0 < k -> Z.even k = true -> (0 < p)%Q -> 0 <= n ->
           ref_expect k hapx female c = (r, x) -> 0 < r -> (d_e row == mix n p r x)%Q ->
           (q == spec_rescaled n k r min_abs_val)%Q).
Proof. exact purity_then_threshold. Qed.

(* the rewritten ratio exists and is positive on every row with a finite log2 *)
Theorem C02_purity_ratio_defined :
  forall k p hapx female c e, exists q, dc_ratio k p hapx female c e = Some q /\ (0 < q)%Q.
Proof. exact dc_ratio_some. Qed.

(* the number of rows never changes, whatever method / purity / baf source *)
Theorem C02_do_call_rows :
  forall m k purity hapx female build ts variants with_baf rows out,
    do_call_model m k purity hapx female build ts variants with_baf rows = DcOk out ->
    length out = length rows.
Proof. exact do_call_model_len. Qed.

(* hypotheses are satisfiable / non-trivial instances *)
Example C02_ex_increasing : strictly_increasing lit_thresholds /\ strictly_increasing default_thresholds.
Proof. split; [exact lit_increasing | exact defaults_increasing]. Qed.

Example C02_ex_step :   (* haploid X (r = 1) at ploidy 2, log2 0.3: three thresholds below, int(3*1/2) = 1 *)
  thr_cn (Some (3 # 10)%Q) (5 # 4)%Q lit_thresholds 2 1 = 1 /\ count_below (3 # 10)%Q lit_thresholds = 3.
Proof. split; reflexivity. Qed.

Example C02_ex_alleles : alleles 3%Q (Some (3 # 10)%Q) 3 = (Some 2, Some 1) /\ alleles 3%Q None 3 = (None, None)
                         /\ alleles 0%Q None 0 = (Some 0, Some 0).
Proof. vm_compute. repeat split; reflexivity. Qed.

(* ------------------------------------------------------------------------------------
   Corollary over the reals (depends on the stdlib Reals axioms via RealFacts; nothing
   above does): the real function 2^v meets the oracle contract used above -- positive,
   monotone, 2^0 = 1, 2^(v+1) = 2*2^v, 3/2 < 2^(7/10) -- and 3/2 < 2^(3/5). *)
From Coq Require Import Reals.
From CNV Require Base.RealFacts.

Corollary C02_real_corollary_exp2_contract :
  RealFacts.exp2_contract RealFacts.exp2 /\ (3 / 2 < RealFacts.exp2 (3 / 5))%R.
Proof. exact (conj RealFacts.exp2_contract_real RealFacts.exp2_3_5). Qed.

(* ---- source tie: rescale_baf and _reference_copies_pure as translated from the Python
   source on every run (Gen/FnCall.v) are the model functions used above. *)
Theorem C02_source_rescale_baf :
  forall p b, match rescale_baf p (Some b) with
              | Some t => (fn_rescale_baf p b normal_baf == t)%Q
              | None => False
              end.
Proof. exact fn_rescale_baf_eq. Qed.

Theorem C02_source_ref_pure :
  forall chrom k hapx, fn_reference_copies_pure chrom k hapx = ref_pure chrom k hapx.
Proof. exact fn_ref_pure_eq. Qed.

(* the allelic split of do_call as written (upper_baf = ((baf - 0.5).abs() + 0.5).fillna(1.0);
   cn1 = (absolutes * upper_baf).round().clip(0, cn).astype(int); cn2 = cn - cn1; both NaN
   where baf is null and cn > 0), read per element, IS Model/Baf.v's `alleles` -- the function
   C02_alleles / C02_missing speak about -- for every input *)
Theorem C02_source_alleles :
  forall (baf : option Q) (a : Q) (cn : Z), fn_alleles baf a cn = alleles a baf cn.
Proof. exact fn_alleles_eq. Qed.

(* ---- source tie of the threshold scan (Gen/FnCallScan.v: ONE ITERATION of absolute_threshold's
   `for cnum, thresh in enumerate(thresholds):` regenerated from the Python source as
   fn_threshold_step cnum thresh log2 ref_copies ploidy = (cnum after the iteration, left by `break`?),
   and the for/else fallback as fn_threshold_else). *)
From CNV Require Import Gen.FnCallScan Proofs.FnCallScan.

(* what the hand-written recursion scan_loop does with the head (cnum, thresh) pair IS the generated
   step: with the exact quotient for every input; with Python's float quotient (any fdiv meeting
   fdiv_contract) exactly where C02_float_quotient applies -- 0 <= cnum * ref_copies < 2^53, 0 < ploidy *)
Theorem C02_source_scan_step :
  (forall v e k r cnum thresh rest,
     scan_loop exact_div v e k r ((cnum, thresh) :: rest)
     = let '(c, brk) := fn_threshold_step cnum thresh v r k in
       if brk then c else scan_loop exact_div v e k r rest) /\
  (forall fdiv v e k r cnum thresh rest,
     fdiv_contract fdiv -> 0 <= cnum * r -> cnum * r < 2 ^ 53 -> 0 < k ->
     scan_loop fdiv v e k r ((cnum, thresh) :: rest)
     = let '(c, brk) := fn_threshold_step cnum thresh v r k in
       if brk then c else scan_loop fdiv v e k r rest).
Proof. exact source_scan_step. Qed.

(* the for/else fallback as written: int(np.ceil(_log2_ratio_to_absolute_pure(log2, ref_copies))) *)
Theorem C02_source_scan_else :
  forall (exp2 : Q -> Q) v r,
    fn_threshold_else exp2 v r = trunc_Q (inject_Z (Qceiling (abs_pure (exp2 v) r))).
Proof. exact fn_threshold_else_eq. Qed.

(* hence the whole scan: folding the generated step over enumerate(thresholds) -- stop at the first step
   that answers true, the generated for/else fallback when none does (for_else, Proofs/FnCallScan.v) --
   equals scan_row, for every threshold list, ploidy and reference copy number ... *)
Theorem C02_source_scan :
  forall (exp2 : Q -> Q) v ts k r,
    scan_row exact_div (Some v) (exp2 v) ts k r
    = for_else (fun cnum thresh => fn_threshold_step cnum thresh v r k) (fn_threshold_else exp2 v r)
               (enumerate_from 0 ts).
Proof. exact source_scan. Qed.

(* ... and with Python's float quotient under its contract whenever len(thresholds) * ref_copies <= 2^53 *)
Theorem C02_source_scan_float :
  forall (exp2 : Q -> Q) fdiv, fdiv_contract fdiv ->
  forall v ts k r, 0 <= r -> 0 < k -> Z.of_nat (length ts) * r <= 2 ^ 53 ->
    scan_row fdiv (Some v) (exp2 v) ts k r
    = for_else (fun cnum thresh => fn_threshold_step cnum thresh v r k) (fn_threshold_else exp2 v r)
               (enumerate_from 0 ts).
Proof. exact source_scan_float. Qed.

(* the driver is not vacuous: default thresholds, log2 0.3, haploid X at ploidy 2 -> three steps answer
   false, the fourth leaves the loop with int(3 * 1 / 2) = 1; log2 1.0 runs off the end into the fallback *)
Example C02_ex_source_scan :
  for_else (fun cnum thresh => fn_threshold_step cnum thresh (3 # 10)%Q 1 2) 99 (enumerate_from 0 lit_thresholds) = 1
  /\ for_else (fun cnum thresh => fn_threshold_step cnum thresh 1%Q 1 2) 99 (enumerate_from 0 lit_thresholds) = 99.
Proof. split; reflexivity. Qed.

(* ---- source tie of absolute_threshold's OUTER loop (Gen/FnCallScanRow.v fn_threshold_row, one iteration of
   `for idx, row in enumerate(cnarr)`; the inner scan is an opaque range there, tied by C02_source_scan* above):
   the value stored at absolutes[idx] IS scan_row -- the reference copies for a NaN log2, the scan otherwise *)
From CNV Require Gen.FnCallScanRow Proofs.FnCallScanRow.
Theorem C02_source_scan_row : forall fdiv idx chrom (v : option Q) e ts k hapx,
  let r := ref_pure chrom k hapx in
  Gen.FnCallScanRow.fn_threshold_row idx chrom v k hapx
    (match v with Some q => scan_loop fdiv q e k r (enumerate_from 0 ts) | None => 0 end)
  = scan_row fdiv v e ts k r.
Proof. exact Proofs.FnCallScanRow.source_scan_row. Qed.

(* ---- [loop ties e1] source tie of do_call's last calling step (Gen/FnCallFinish.v fn_finish: the WHOLE statement
   `if method != "none": outarr["cn"] = absolutes.round().astype("int"); if "baf" in outarr: <allelic split>`, per row,
   regenerated from the Python source on every run): it is cn = round-half-even(absolutes) and, exactly when the table has
   a baf column, `alleles` of that cn; nothing for method "none" ... *)
From CNV Require Gen.FnCallFinish Proofs.FnCallFinish.
Theorem C02_source_finish : forall m a has_baf baf,
  Gen.FnCallFinish.fn_finish m a has_baf baf
  = if String.eqb m "none" then (0, None, None)
    else let cn := round_he a in
         let '(c1, c2) := if has_baf then alleles a baf cn else (None, None) in (cn, c1, c2).
Proof. exact Proofs.FnCallFinish.fn_finish_eq. Qed.

(* ... which IS the model's dc_finish (the function do_call_row ends in) for every method that runs it ... *)
Theorem C02_source_finish_model : forall m ratio v1 a has_baf b,
  String.eqb m "none" = false ->
  let '(cn, c1, c2) := Gen.FnCallFinish.fn_finish m a has_baf b in
  dc_finish ratio v1 a has_baf b
  = mk_dc_out ratio v1 (Some a) (Some cn) (if has_baf then b else None) (if has_baf then Some (c1, c2) else None).
Proof. exact Proofs.FnCallFinish.source_finish. Qed.

(* ... so the threshold row of do_call is the generated statement applied to the scanned copy number *)
Theorem C02_source_finish_threshold : forall k purity hapx female build ts variants with_baf first row,
  let '(v1, e1, _, ratio) := dc_purity_step MThreshold k purity hapx female build first row in
  let a := inject_Z (thr_cn v1 e1 ts k (ref_pure (d_chrom row) k hapx)) in
  let has_baf := with_baf || variants in
  let b := dc_baf purity variants (d_baf row) in
  let '(cn, c1, c2) := Gen.FnCallFinish.fn_finish "threshold" a has_baf b in
  do_call_row MThreshold k purity hapx female build ts variants with_baf first row
  = Some (mk_dc_out ratio v1 (Some a) (Some cn) (if has_baf then b else None) (if has_baf then Some (c1, c2) else None)).
Proof. exact Proofs.FnCallFinish.source_finish_row_threshold. Qed.
