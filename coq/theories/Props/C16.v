(* C16 -- gene-level grouping yields each gene's own bins, each bin exactly once.
   Property theorems only; proofs live in Proofs/GenesMap.v, Proofs/Genes.v. *)
From Coq Require Import Qabs.
From CNV Require Import Base.Prelude Base.Str Gen.Params Gen.GenesDefaults
  Model.Genes Spec.Genes Proofs.GenesMap Proofs.Genes Proofs.GenesReports Proofs.GenesBreaks.

(* The names that never count as genes are those of the property text; bin names are
   split on commas. *)
Theorem C16_ignored_names :
  full_ignore IGNORE_GENE_NAMES = ["-"; "."; "CGH"; "Antitarget"; "Background"]%string
  /\ GENE_SPLIT_SEP = ","%string.
Proof. exact (conj eq_refl eq_refl). Qed.

(* For every table that lists its chromosomes one after the other (blocks) and in
   which, on every chromosome, the spans [first bin, last bin] of distinct genes are
   disjoint: on every chromosome by_gene yields a correct grouping (each gene exactly
   its bins first..last, once; every other group a non-empty Antitarget stretch of
   bins carrying no gene, no two of them adjacent), by_gene of the table is these
   groupings one chromosome after the other, and the groups concatenated in the order
   yielded are the table itself: genomic order, every bin exactly once.  Any ignore
   list, any number of chromosomes, genes and bins. *)
Theorem C16_partition : forall (ignore : list string) (blocks : list (string * list bin)),
  chrom_blocks blocks ->
  Forall (fun cb => spans_disjoint (full_ignore ignore) (snd cb)) blocks ->
  Forall (fun cb => partition_spec (full_ignore ignore) (snd cb)
                                   (by_gene_chrom (full_ignore ignore) (snd cb))) blocks /\
  by_gene ignore (concat (map snd blocks)) =
    flat_map (fun cb => by_gene_chrom (full_ignore ignore) (snd cb)) blocks /\
  concat (map snd (by_gene ignore (concat (map snd blocks)))) = concat (map snd blocks).
Proof. exact by_gene_partition_blocks. Qed.

(* The same for an arbitrary row order: the code groups the rows by chromosome name
   (order of first appearance); each group is that chromosome's rows in table order,
   is grouped correctly, and nothing else is yielded. *)
Theorem C16_partition_any_order : forall (ignore : list string) (rows : list bin),
  (forall c, spans_disjoint (full_ignore ignore) (chrom_rows c rows)) ->
  Forall (fun cr => snd cr = chrom_rows (fst cr) rows /\ snd cr <> [] /\
                    partition_spec (full_ignore ignore) (snd cr)
                                   (by_gene_chrom (full_ignore ignore) (snd cr)))
         (by_chromosome rows) /\
  concat (map snd (by_gene ignore rows)) = concat (map snd (by_chromosome rows)).
Proof. exact by_gene_partition. Qed.

(* Whatever the table (no precondition): a group labelled with a gene name is exactly
   that gene's bins first..last, and every gene has such a group. *)
Theorem C16_gene_groups : forall ign rows g grp,
  mem_string g ign = false ->
  (In (g, grp) (by_gene_chrom ign rows) /\ g <> "Antitarget"%string <->
   g <> "Antitarget"%string /\ exists f l, gene_span rows g f l /\ grp = slice rows f (S l)).
Proof. exact by_gene_chrom_gene_groups. Qed.

(* The gene map of the code is exactly the set of gene spans. *)
Theorem C16_gene_map : forall rows g f l,
  In (g, f, l) (gene_map rows) <-> gene_span rows g f l.
Proof. exact gene_map_iff. Qed.

(* ---- the hypotheses are satisfiable: the inputs of the repaired defect ------------------ *)

Definition ex_bin (c g : string) (i : Z) : bin :=
  mkBin c (100 * i) (100 * i + 80) g (1 # 2) 1 10 1.

Definition ex_chr1 : list bin :=
  [ex_bin "chr1" "A" 0; ex_bin "chr1" "A" 1; ex_bin "chr1" "A" 2; ex_bin "chr1" "Antitarget" 3;
   ex_bin "chr1" "-" 4; ex_bin "chr1" "B" 5; ex_bin "chr1" "CGH" 6; ex_bin "chr1" "B,-" 7;
   ex_bin "chr1" "Antitarget" 8].
Definition ex_chr2 : list bin :=
  [ex_bin "chr2" "." 0; ex_bin "chr2" "C" 1; ex_bin "chr2" "C" 2; ex_bin "chr2" "Antitarget" 3].

Example C16_example_pre :
  chrom_blocks [("chr1"%string, ex_chr1); ("chr2"%string, ex_chr2)] /\
  Forall (fun cb => spans_disjoint (full_ignore IGNORE_GENE_NAMES) (snd cb))
         [("chr1"%string, ex_chr1); ("chr2"%string, ex_chr2)].
Proof.
  split.
  - split.
    + repeat constructor; cbn; intuition discriminate.
    + repeat constructor; discriminate.
  - apply Forall_cons; [|apply Forall_cons; [|apply Forall_nil]];
      apply spans_okb_sound; vm_compute; reflexivity.
Qed.

Example C16_example_groups :
  map (fun gr => (fst gr, map b_start (snd gr))) (by_gene IGNORE_GENE_NAMES (ex_chr1 ++ ex_chr2)) =
  [("A", [0; 100; 200]); ("Antitarget", [300; 400]); ("B", [500; 600; 700]); ("Antitarget", [800]);
   ("Antitarget", [0]); ("C", [100; 200]); ("Antitarget", [300])]%string%Z.
Proof. vm_compute. reflexivity. Qed.

(* ---- genemetrics without segments ----------------------------------------------------------- *)

(* After the X-chromosome adjustment (shift_xx), the rows reported are exactly: for every
   named gene of every chromosome (not "-", ".", "CGH", "Antitarget", "Background", "")
   whose weighted mean log2 over its usable bins reaches the threshold in absolute value
   and that has at least min_probes bins, the row computed on exactly its bins
   first..last: that mean, the start of its first bin, the end of its last bin, the
   number of bins, the summed weight and the weight-averaged depth.  Any table. *)
Theorem C16_genemetrics : forall rows threshold min_probes skip_low haploid_x_ref is_female r,
  In r (do_genemetrics rows None threshold min_probes skip_low haploid_x_ref is_female) <->
  genemetrics_row (shift_xx haploid_x_ref is_female rows) threshold min_probes skip_low r.
Proof. exact do_genemetrics_by_gene. Qed.

(* the adjustment is -1 on X for a female sample on a haploid-X reference, +1 for a male
   sample on a diploid-X reference, nothing otherwise; low coverage is log2 < -15 *)
Theorem C16_adjustment_literals :
  xx_shift true true = (-1 # 1)%Q /\ xx_shift false false = (1 # 1)%Q /\
  xx_shift true false = 0%Q /\ xx_shift false true = 0%Q /\ min_cvg = (-15 # 1)%Q.
Proof. exact (conj eq_refl (conj eq_refl (conj eq_refl (conj eq_refl eq_refl)))). Qed.

(* the reduced-fraction weighted mean of the model is the textbook one *)
Theorem C16_weighted_mean : forall xs ws, (wavg xs ws == weighted_mean xs ws)%Q.
Proof. exact wavg_textbook. Qed.

(* ---- squash_genes ------------------------------------------------------------------------------ *)

(* squash_genes is, chromosome by chromosome, the groups of by_gene (C16_partition) each
   turned into rows: an Antitarget stretch is kept bin by bin, a gene's group becomes
   one row on the gene's chromosome from the start of its first bin to the end of its
   last bin, carrying the summed probes and (if it has several bins) the gene's name. *)
Theorem C16_squash : forall ignore squash_antitarget blocks,
  chrom_blocks blocks ->
  squash_genes ignore squash_antitarget (concat (map snd blocks)) =
    flat_map (fun cb => flat_map (squash_group squash_antitarget)
                                 (by_gene_chrom (full_ignore ignore) (snd cb))) blocks
  /\ (forall gr, fst gr = "Antitarget"%string -> squash_antitarget = false ->
        squash_group squash_antitarget gr = map srow_of_bin (snd gr))
  /\ (forall rows g f l, real (full_ignore ignore) g -> gene_span rows g f l ->
        exists bf bl row,
          nth_error rows f = Some bf /\ nth_error rows l = Some bl /\
          squash_group squash_antitarget (g, slice rows f (S l)) = [row] /\
          s_chr row = b_chr bf /\ s_start row = b_start bf /\ s_end row = b_end bl /\
          s_probes row = sumZ (map b_probes (slice rows f (S l))) /\
          (f < l -> s_gene row = g)%nat /\ (f = l -> s_gene row = b_gene bf)).
Proof. exact squash_genes_spec. Qed.

(* ---- genemetrics with segments ------------------------------------------------------------------ *)

(* Given a non-empty segment table and bins that are sorted and not nested within each
   chromosome: the rows reported are exactly, for each (X-adjusted) segment whose log2
   reaches the threshold in absolute value (and whose probes reach min_probes unless
   that is 0), and for each named gene having bins among the segment's bins (the bins
   of the segment's chromosome that overlap it): the row of the part of the gene inside
   the segment -- from the first to the last of those bins that carry the gene -- with
   its start, end, bin count, summed weight and weight-averaged depth, carrying the
   segment's log2, weight and probes. *)
Theorem C16_genemetrics_segments :
  forall rows segs threshold min_probes skip_low haploid_x_ref is_female r,
  segs <> [] ->
  (forall c, bins_sorted (chrom_rows c (shift_xx haploid_x_ref is_female rows))) ->
  (In r (do_genemetrics rows (Some segs) threshold min_probes skip_low haploid_x_ref is_female) <->
   exists s, In s (shift_xx haploid_x_ref is_female segs) /\
             Qle_bool threshold (Qabs (b_log2 s)) = true /\
             (min_probes = 0 \/ min_probes <= b_probes s) /\
             segment_gene_row s (bins_of_segment (shift_xx haploid_x_ref is_female rows) s) skip_low r).
Proof. exact do_genemetrics_by_segment. Qed.

(* ---- breaks -------------------------------------------------------------------------------------- *)

(* For min_probes >= 1 and bins of positive length: the rows listed are exactly, for
   every two consecutive segments of one chromosome and every gene name on that
   chromosome (whole bin names, not "-", ".", "CGH", "Antitarget", "Background") with
   at least min_probes bins starting before the boundary (the first segment's end)
   and at least min_probes bins starting at or after it: that gene with the
   chromosome, the boundary, the change in log2 and the two counts. *)
Theorem C16_breaks : forall rows segs min_probes k,
  1 <= min_probes -> (forall b, In b rows -> b_start b < b_end b) ->
  (In k (do_breaks rows segs min_probes) <-> break_row rows segs min_probes k).
Proof. exact do_breaks_spec. Qed.

(* Maximality of the Antitarget stretches: a gene's group begins and ends with a bin
   carrying the gene; together with C16_partition (stretches are non-empty, carry no
   gene, and no two are adjacent) a stretch can be extended on neither side. *)
Theorem C16_gene_group_ends : forall (rows : list bin) g f l,
  gene_span rows g f l ->
  exists bf bl t, slice rows f (S l) = bf :: t /\ last (bf :: t) bf = bl /\
                  In g (genes_of bf) /\ In g (genes_of bl).
Proof. exact gene_group_ends. Qed.

(* ---- more examples (hypotheses satisfiable, results as expected) -------------------------------- *)

Example C16_example_genemetrics :
  map (fun r => (r_gene r, r_start r, r_end r, r_probes r))
      (do_genemetrics (ex_chr1 ++ ex_chr2) None (1 # 5) 2 false false true) =
  [("A", 0, 280, 3); ("B", 500, 780, 3); ("C", 100, 280, 2)]%string%Z.
Proof. vm_compute. reflexivity. Qed.

Definition ex_seg (c : string) (s e : Z) (l : Q) : bin := mkBin c s e "-" l 1 1 5.

Example C16_example_sorted : bins_sorted ex_chr2.
Proof.
  split; repeat (constructor; [|repeat (constructor; [cbn; lia|]); constructor]); constructor.
Qed.

Example C16_example_segments :
  map (fun r => (r_gene r, r_start r, r_end r, r_probes r, r_log2 r))
      (do_genemetrics (ex_chr1 ++ ex_chr2)
         (Some [ex_seg "chr1" 0 180 (1 # 2); ex_seg "chr1" 200 900 (1 # 10); ex_seg "chr2" 0 380 (-1 # 1)])
         (1 # 5) 1 false false true) =
  [("A", 0, 180, 2, Some (1 # 2)); ("C", 100, 280, 2, Some (-1 # 1))]%string%Z%Q.
Proof. vm_compute. reflexivity. Qed.

Example C16_example_breaks :
  map (fun k => (k_gene k, k_loc k, k_left k, k_right k))
      (do_breaks (ex_chr1 ++ ex_chr2) [ex_seg "chr1" 0 150 0; ex_seg "chr1" 150 900 1; ex_seg "chr2" 0 400 0] 1) =
  [("A", 150, 2, 1)]%string%Z.
Proof. vm_compute. reflexivity. Qed.

(* ================================================================================================== *)
(* Deepening: by_gene outside the precondition, the complete report tables, source ties.              *)
(* ================================================================================================== *)
From CNV Require Import Base.QNum Model.Reports Model.Chromsort
  Proofs.GenesGeneral Proofs.GenesFull Proofs.GenesBreaksRows Proofs.GenesSquashRows Proofs.FnReports
  Gen.FnGenesSegmean Gen.FnGenemetrics.
From CNV Require Model.Center Model.Sex Model.Descriptives Proofs.DescriptivesBiweight.
From Coq Require Import Sorting.Permutation Sorting.Sorted.

(* ---- by_gene on ANY table ---------------------------------------------------------------------------- *)

(* The gene map and by_chromosome list their keys in order of first occurrence: the map is exactly
   every gene name with the positions of its first and last bin. *)
Theorem C16_gene_map_order : forall rows, gene_map rows = spans_in_order rows.
Proof. exact gene_map_order. Qed.

Theorem C16_by_chromosome_order : forall rows,
  by_chromosome rows = map (fun c => (c, chrom_rows c rows)) (chroms_in_order rows).
Proof. exact by_chromosome_order. Qed.

(* What by_gene does on EVERY table, precondition or not (a gene recurring in two separated stretches
   of a chromosome or on two chromosomes, comma-joined multi-gene bins, ...).  The table is processed
   chromosome by chromosome (order of first appearance; a gene on two chromosomes is simply a gene of
   each).  Within a chromosome, with S = the genes not ignored, each with the positions of its first
   and last bin, in order of first occurrence:
   - the yielded groups are the position ranges yielded_ranges: before each gene the non-empty
     stretch from the end of the PREVIOUS gene of S to the gene's first bin, labelled Antitarget, then
     the gene's positions first..last; after the last gene the rest of the chromosome;
   - the gene-labelled groups are exactly the spans of S, in that order; the Antitarget groups are
     exactly the non-empty (end of a prefix of S, start of the remaining suffix) stretches;
   - no bin is ever dropped (every position lies in at least one group);
   - every bin is yielded exactly once IF AND ONLY IF the spans of distinct genes are disjoint:
     the precondition of C16_partition is exactly what is needed. *)
Theorem C16_by_gene_general : forall ignore rows,
  let ign := full_ignore ignore in
  by_gene ignore rows =
    flat_map (fun c => by_gene_chrom ign (chrom_rows c rows)) (chroms_in_order rows) /\
  forall crows,
    by_gene_chrom ign crows = groups_of_ranges crows (yielded_ranges ign crows) /\
    (forall g f l, In (g, f, l) (real_spans ign crows) <-> mem_string g ign = false /\ gene_span crows g f l) /\
    map ge_name (real_spans ign crows) =
      filter (fun g => negb (mem_string g ign)) (genes_in_order crows) /\
    filter is_gene_range (yielded_ranges ign crows) = map range_of (real_spans ign crows) /\
    (forall a b, In ("Antitarget"%string, a, b) (yielded_ranges ign crows) <->
       (a < b /\ exists pre post, real_spans ign crows = pre ++ post /\
                                  a = end_of pre /\ b = start_of (length crows) post))%nat /\
    (forall i, i < length crows -> 1 <= times_yielded (yielded_ranges ign crows) i)%nat /\
    ((forall i, i < length crows -> times_yielded (yielded_ranges ign crows) i = 1)%nat <->
     spans_disjoint ign crows).
Proof. exact by_gene_general. Qed.

(* A bin naming two different genes (comma-joined names) is always yielded at least twice: once in
   each gene's group -- multi-gene bins are outside the precondition by construction. *)
Theorem C16_by_gene_general_comma : forall ignore rows i b g g',
  nth_error rows i = Some b -> In g (genes_of b) -> In g' (genes_of b) -> g <> g' ->
  mem_string g (full_ignore ignore) = false -> mem_string g' (full_ignore ignore) = false ->
  (2 <= times_yielded (yielded_ranges (full_ignore ignore) rows) i)%nat.
Proof. intros ignore. exact (comma_bin_twice (full_ignore ignore)). Qed.

(* Boundary of the precondition, by witness (documentation, not a finding: the property states the
   precondition).  Gene A recurring after gene B (names A, B, A, C): B's bin is yielded twice (in A's
   group and its own) and A's last bin is yielded again, labelled Antitarget.  A comma-joined bin
   "A,B" followed by A and B: the first two bins are yielded twice. *)
Theorem C16_partition_precondition_needed :
  let ign := full_ignore IGNORE_GENE_NAMES in
  (~ spans_disjoint ign wit_split /\
   map (fun gr => (fst gr, map b_start (snd gr))) (by_gene_chrom ign wit_split) =
     [("A", [0; 100; 200]); ("B", [100]); ("Antitarget", [200]); ("C", [300])]%string /\
   map (times_yielded (yielded_ranges ign wit_split)) [0; 1; 2; 3]%nat = [1; 2; 2; 1]%nat) /\
  (~ spans_disjoint ign wit_comma /\
   map (fun gr => (fst gr, map b_start (snd gr))) (by_gene_chrom ign wit_comma) =
     [("A", [0; 100]); ("B", [0; 100; 200])]%string /\
   map (times_yielded (yielded_ranges ign wit_comma)) [0; 1; 2]%nat = [2; 2; 1]%nat).
Proof. exact (conj by_gene_split_gene_witness by_gene_comma_witness). Qed.

(* a gene on two chromosomes: one group per chromosome, every bin once *)
Example C16_example_two_chromosomes :
  map (fun gr => (fst gr, map (fun b => (b_chr b, b_start b)) (snd gr)))
      (by_gene IGNORE_GENE_NAMES [ex_bin "chr1" "A" 0; ex_bin "chr1" "A" 1; ex_bin "chr2" "A" 0; ex_bin "chr2" "-" 1]) =
  [("A", [("chr1", 0); ("chr1", 100)]); ("A", [("chr2", 0)]); ("Antitarget", [("chr2", 100)])]%string.
Proof. vm_compute. reflexivity. Qed.

(* ---- do_genemetrics end to end ---------------------------------------------------------------------------- *)

(* The X adjustment of the model IS C15's shift_xx (Model/Sex.v, PAR-X bins not shifted when a genome
   build is given) applied to the converted table ... *)
Theorem C16_shift_reuses_C15 : forall hd hw hap is_xx build rows,
  map (to_cbin hd hw) (shift_xx_full hd hw hap is_xx build rows) =
  Sex.shift_xx hap is_xx build (map (to_cbin hd hw) rows).
Proof. exact shift_xx_full_reuses. Qed.

(* ... and is: -1 on the X bins for a female sample on a haploid-X reference, +1 for a male (or
   undeterminable) sample on a diploid-X reference, nothing otherwise; X = "chrX" / "X" after the
   table's first row; with a genome build the bins inside PAR1 / PAR2 of X are left alone. *)
Theorem C16_x_adjustment : forall hd hw hap is_xx build rows,
  shift_xx_full hd hw hap is_xx build rows = x_adjusted hap is_xx build rows.
Proof. exact shift_xx_full_spec. Qed.

(* The complete output table without segments, for every bin table with the required columns and
   every option: the sex is is_sample_female or, when None, C15's guess_xx (haploid-X flag and genome
   build passed on); the bins are X-adjusted; the rows are, chromosome by chromosome (order of first
   appearance) and gene by gene (order of first occurrence), the named genes whose weighted mean log2
   over their own bins first..last (low-coverage bins dropped under skip_low) reaches the threshold in
   absolute value (>=), then those with at least min_probes bins (no filter for min_probes = 0); each
   row carries the gene, chromosome, start of its first and end of its last bin, that mean, the
   weight-averaged depth, the summed weight, the bin count.  Columns: gene first, then the bin table's
   other columns in their order, then probes if the table had none.  No row reaching the threshold:
   the empty table with columns gene, chromosome, start, end, log2.  A named gene whose weights sum to
   zero: ZeroDivisionError (None). *)
Theorem C16_genemetrics_full : forall gstat ccols rows o,
  has_required ccols ->
  do_genemetrics_full gstat ccols rows None o =
  genemetrics_table ccols
    (x_adjusted (o_hap o) (female_for_bins gstat o rows) (o_build o) rows)
    (o_threshold o) (o_min_probes o) (o_skip_low o).
Proof. exact do_genemetrics_full_by_gene. Qed.

(* The complete output table given a non-empty segment table (bins sorted and not nested within each
   chromosome): the segments are X-adjusted with the same sex (guessed again on the segment table when
   the bins gave no guess); segment by segment -- chromosomes in order of first appearance, table
   order within -- for each segment whose |log2| >= threshold, every named gene with bins among the
   segment's bins (those of its chromosome overlapping it), on the part of the gene inside the segment
   (first..last of those bins carrying it), with the segment's log2, the segment's weight / probes as
   segment_weight / segment_probes (when the segment table has them) and the segment's further columns
   copied; the min_probes filter looks at segment_probes when present, else at the gene's bin count. *)
Theorem C16_genemetrics_full_segments : forall gstat ccols rows scols segs o,
  has_required ccols -> segs <> [] ->
  ~ In "segment_weight"%string (ccols ++ scols) -> ~ In "segment_probes"%string (ccols ++ scols) ->
  let rows' := x_adjusted (o_hap o) (female_for_bins gstat o rows) (o_build o) rows in
  let segs' := x_adjusted_segs (o_hap o) (female_for_segs gstat o rows scols (map sg_bin segs)) (o_build o) segs in
  (forall c, bins_sorted (chrom_rows c rows')) ->
  do_genemetrics_full gstat ccols rows (Some (scols, segs)) o =
  genemetrics_table_segments ccols scols rows' segs' (o_threshold o) (o_min_probes o) (o_skip_low o).
Proof. exact do_genemetrics_full_by_segment. Qed.

(* the rows of the spec are those of C16_genemetrics: the own bins of a gene are its span *)
Theorem C16_own_bins_are_span : forall rows g f l,
  gene_span rows g f l -> own_bins g rows = slice rows f (S l).
Proof. exact own_bins_span. Qed.

(* The basic model of C16_genemetrics / C16_genemetrics_segments is the complete one restricted to:
   no genome build, sex given, segment table with weight and probes -- same rows, same order. *)
Theorem C16_full_extends_basic : forall gstat ccols rows th mp sl hap fem,
  map f_row (min_probes_filter mp (gm_body gstat ccols rows None (basic_opts th mp sl hap fem))) =
    do_genemetrics rows None th mp sl hap fem /\
  forall scols segs, segs <> [] -> mem_string "weight" scols = true -> mem_string "probes" scols = true ->
    map f_row (min_probes_filter mp (gm_body gstat ccols rows (Some (scols, segs)) (basic_opts th mp sl hap fem))) =
    do_genemetrics rows (Some (map sg_bin segs)) th mp sl hap fem.
Proof. exact full_extends_basic. Qed.

(* literals of the report code: column names and lists as the property's tables show them *)
Theorem C16_report_literals :
  CNA_REQUIRED_COLUMNS = ["chromosome"; "start"; "end"; "gene"; "log2"]%string /\
  GM_EXTRA_EXCLUDED = ["depth"; "probes"; "weight"]%string /\
  SQUASH_XFIELDS = ["depth"; "gc"; "rmask"; "spread"; "weight"]%string /\
  BREAKS_COLUMNS = ["gene"; "chromosome"; "location"; "change"; "probes_left"; "probes_right"]%string /\
  (COL_GENE, COL_PROBES, COL_WEIGHT, COL_DEPTH, COL_LOG2, COL_END, COL_SEGMENT_WEIGHT, COL_SEGMENT_PROBES) =
  ("gene", "probes", "weight", "depth", "log2", "end", "segment_weight", "segment_probes")%string /\
  GENEMETRICS_MIN_PROBES = 3 /\ GENEMETRICS_SKIP_LOW = false /\ BREAKS_MIN_PROBES = 1 /\ SQUASH_ANTITARGET = false /\
  (GENEMETRICS_THRESHOLD == 3602879701896397 # 18014398509481984)%Q.       (* the float 0.2 *)
Proof. repeat split. Qed.

(* ---- do_breaks end to end ------------------------------------------------------------------------------------ *)

(* get_gene_intervals: per chromosome, one interval per gene name (whole bin names, not ignored) with
   bins there -- the sorted starts and the largest end over the gene's OWN bins (a gene interrupted by
   Antitarget / ignored bins keeps one interval; those bins are not its own) -- whose first entry is
   the smallest start; listed by position. *)
Theorem C16_gene_intervals : forall rows c,
  (forall g starts gend,
     In (g, starts, gend) (gene_intervals IGNORE_GENE_NAMES rows c) <->
     ignored_for_breaks g = false /\ gene_bins c g rows <> [] /\
     starts = gene_starts c g rows /\ gend = gene_max_end c g rows) /\
  (forall g, hd 0 (gene_starts c g rows) = gene_min_start c g rows) /\
  gene_intervals IGNORE_GENE_NAMES rows c = map (interval_of c rows) (genes_by_position c rows).
Proof. exact gene_intervals_full. Qed.

(* The complete ordered result of do_breaks, any table, any min_probes: the raw rows -- boundary by
   boundary in segment-table order (end of a segment followed by a segment of the same chromosome),
   gene by gene in position order: the genes whose interval strictly contains the boundary
   (smallest start < boundary < largest end) and whose own bins number >= min_probes on each side
   (starts < boundary / starts >= boundary), with the gene, chromosome, boundary, change in log2
   (next - current), the two counts -- stably sorted by (min(left, right), |change|) descending. *)
Theorem C16_breaks_rows : forall rows segs min_probes,
  let raw := breaks_unsorted min_probes rows segs in
  let out := do_breaks rows segs min_probes in
  out = stable_sort bkey_ge raw /\
  Permutation raw out /\
  StronglySorted break_key_ge out /\
  (forall z, filter (same_break_key z) out = filter (same_break_key z) raw).
Proof. exact do_breaks_rows. Qed.

Theorem C16_breaks_table : forall rows segs min_probes,
  do_breaks_table rows segs min_probes =
  (["gene"; "chromosome"; "location"; "change"; "probes_left"; "probes_right"]%string,
   map brow_cells (stable_sort bkey_ge (breaks_unsorted min_probes rows segs))).
Proof. exact do_breaks_table_spec. Qed.

Theorem C16_break_key : forall x y, bkey_ge x y = true <-> break_key_ge x y.
Proof. exact bkey_ge_iff. Qed.

(* ---- squash_genes: every field ------------------------------------------------------------------------------------ *)

(* For a table whose columns are in the order the code assumes (chromosome, start, end, gene, log2,
   depth, weight[, probes]) and ANY summary function: the complete output keeps the header and is,
   group by group of by_gene (C16_partition / C16_by_gene_general), the rows squash_rows_of: an
   Antitarget / Background stretch kept bin by bin (one summary row when squash_antitarget); a group of
   one bin kept as it is, with its own name; a group of two or more bins one row -- first bin's
   chromosome and start, last bin's end, the gene, the summary function of the bins' log2, of their
   depth and of their WEIGHT (not the sum), the sum of probes.  Bins with ignored names inside a gene
   belong to the gene's group and are summarised with it. *)
Theorem C16_squash_rows : forall est has_probes ignore squash_antitarget rows,
  squash_genes_full est (squash_columns has_probes) ignore squash_antitarget rows =
  Some (squash_columns has_probes,
        flat_map (squash_rows_of est has_probes squash_antitarget) (by_gene ignore rows)).
Proof. exact squash_genes_full_spec. Qed.

(* For every summary function meeting the contract "within [min, max] of its input" (the default,
   biweight location: C19_biloc_range) the three summarised values of a squashed row lie within the
   range of the group's bins. *)
Theorem C16_squash_values_in_range : forall est, est_within est ->
  forall has_probes label first t,
  let own := first :: t in
  exists lg dp wt,
    squashed_row est has_probes label own =
      [CS (b_chr first); CZ (b_start first); CZ (b_end (last own first)); CS label;
       CQ (Some lg); CQ (Some dp); CQ (Some wt)]
      ++ (if has_probes then [CZ (sumZ (map b_probes own))] else []) /\
    lg = est (map b_log2 own) /\ dp = est (map b_depth own) /\ wt = est (map b_weight own) /\
    (qmin (map b_log2 own) <= lg <= qmax (map b_log2 own))%Q /\
    (qmin (map b_depth own) <= dp <= qmax (map b_depth own))%Q /\
    (qmin (map b_weight own) <= wt <= qmax (map b_weight own))%Q.
Proof. exact squashed_row_fields. Qed.

(* one row per gene of two or more bins, with the gene's coordinates *)
Theorem C16_squash_gene_row : forall est has_probes squash_antitarget ignore rows g f l,
  real (full_ignore ignore) g -> gene_span rows g f l -> (f < l)%nat ->
  exists first,
    nth_error rows f = Some first /\
    squash_rows_of est has_probes squash_antitarget (g, slice rows f (S l)) =
      [squashed_row est has_probes g (slice rows f (S l))] /\
    exists t, slice rows f (S l) = first :: t /\ t <> [].
Proof. exact squash_gene_row_full. Qed.

(* the contract is met by C19's biweight location *)
Example C16_squash_oracle_inhabited : est_within (fun a => Descriptives.biweight_location_core a None).
Proof. exact DescriptivesBiweight.biweight_location_core_range. Qed.

(* The rows are assembled positionally (as_rows under the table's own header): with another column
   order the values land under other names -- .cns order (..., depth, probes, weight): the probes
   column receives the summary of weight and the weight column the sum of probes.  Coordinates and
   gene are not affected (the property speaks of those). *)
Example C16_example_squash_positional :
  squash_genes_full (fun l => hd 0%Q l)
    ["chromosome"; "start"; "end"; "gene"; "log2"; "depth"; "probes"; "weight"]%string
    IGNORE_GENE_NAMES false [ex_bin "chr1" "A" 0; ex_bin "chr1" "A" 1] =
  Some (["chromosome"; "start"; "end"; "gene"; "log2"; "depth"; "probes"; "weight"]%string,
        [[CS "chr1"; CZ 0; CZ 180; CS "A"; CQ (Some (1 # 2)); CQ (Some 10%Q); CQ (Some 1%Q); CZ 2]]).
Proof. vm_compute. reflexivity. Qed.

(* ---- source ties (function bodies translated from /repo on every run) -------------------------------------------- *)

(* cnvlib/segmetrics.py segment_mean = the model's segment_mean *)
Theorem C16_source_segment_mean : forall (skip_low : bool) rows,
  let r := if skip_low then drop_low rows else rows in
  segment_mean skip_low rows =
  fn_segment_mean (Z.of_nat (length r)) true
                  (existsb (fun b => negb (Qeq_bool (b_weight b) 0)) r) None
                  (wavg (map b_log2 r) (map b_weight r)) (meanQ (map b_log2 r)).
Proof. exact fn_segment_mean_eq. Qed.

(* cnvlib/reports.py do_genemetrics: the probe count filtered on = the model's n_probes *)
Theorem C16_source_n_probes : forall r,
  n_probes r =
  fn_n_probes (match r_segp r with Some _ => true | None => false end)
              (match r_segp r with Some p => p | None => 0 end) (r_probes r).
Proof. exact fn_n_probes_eq. Qed.

(* ---- examples ---------------------------------------------------------------------------------------------------------- *)

Example C16_example_full_table :
  do_genemetrics_full (fun _ => 0%Q) ["chromosome"; "start"; "end"; "gene"; "log2"; "depth"; "weight"]%string
    (ex_chr1 ++ ex_chr2) None (mkOpts (1 # 5) 3 false false (Some true) None) =
  Some (["gene"; "chromosome"; "start"; "end"; "log2"; "depth"; "weight"; "probes"]%string,
        [[CS "A"; CS "chr1"; CZ 0; CZ 280; CQ (Some (1 # 2)); CQ (Some 10%Q); CQ (Some 3%Q); CZ 3];
         [CS "B"; CS "chr1"; CZ 500; CZ 780; CQ (Some (1 # 2)); CQ (Some 10%Q); CQ (Some 3%Q); CZ 3]]).
Proof. vm_compute. reflexivity. Qed.

(* ---- loop ties (one iteration of each Python loop, translated from /repo on every run; LOOP_TIES_GUIDE) ------------- *)
From CNV Require Import Gen.FnGenesByGene Gen.FnGenesGroup Gen.FnGenesBySegment Gen.FnGenesBreaks Gen.FnGenesWalk
  Gen.FnGenesSquash Model.Reports Proofs.FnGenesByGene Proofs.FnGenesGroup Proofs.FnGenesBySegment Proofs.FnGenesBreaks
  Proofs.FnGenesWalk Proofs.FnGenesSquash.

(* reports.gene_metrics_by_gene, one iteration of `for row in group_by_genes(...)`: the row is yielded (once) exactly
   when |log2| reaches the threshold -- NaN never does -- and the gene name is not empty *)
Theorem C16_source_by_gene_step : forall threshold r (id : Z),
  fn_by_gene_step id (r_log2 r) threshold (r_gene r)
  = if reaches threshold (r_log2 r) && negb (String.eqb (r_gene r) "") then [id] else [].
Proof. exact source_by_gene_step. Qed.

(* ... and the generator run over group_by_genes' rows is the model's gene_metrics_by_gene *)
Theorem C16_source_by_gene : forall threshold skip_low rows,
  gene_metrics_by_gene threshold skip_low rows
  = run_rows (fun r => fn_by_gene_step 0 (r_log2 r) threshold (r_gene r)) (group_by_genes skip_low rows).
Proof. exact source_by_gene. Qed.

(* reports.group_by_genes, one iteration of `for gene, rows in cnarr.by_gene()`: the skip rules and the stores into the
   copy of the first row give the model's row of the group, field for field *)
Theorem C16_source_group_step : forall skip_low gr,
  group_rows_of skip_low gr = py_group_iter skip_low gr.
Proof. exact source_group_step. Qed.

Theorem C16_source_group_by_genes : forall skip_low rows,
  group_by_genes skip_low rows = flat_map (py_group_iter skip_low) (by_gene IGNORE_GENE_NAMES rows).
Proof. exact source_group_by_genes. Qed.

(* the stores for every combination of present weight / depth columns (the model's tables carry both) *)
Theorem C16_source_group_columns : forall g sm id fe fg fl fp fw fd le n hw ws hd_ wd md,
  let '(e, gn, l2, p, w, d, _) :=
    fn_group_step true g false sm false id fe fg fl fp fw fd le n hw ws hd_ wd md in
  e = le /\ gn = g /\ l2 = sm /\ p = n /\
  w = (if hw then ws else fw) /\
  d = (if hd_ then (if hw then wd else md) else fd).
Proof. exact source_group_columns. Qed.

(* reports.gene_metrics_by_segment: the threshold is tested on the SEGMENT's log2 (one iteration of the outer loop) ... *)
Theorem C16_source_by_segment_step : forall threshold s (inner : list Z),
  fn_by_segment_step (Some (b_log2 s)) threshold inner
  = if Qle_bool threshold (Qabs (b_log2 s)) then inner else [].
Proof. exact source_by_segment_step. Qed.

(* ... the inner loop's stores are with_segment_x (log2 := the segment's; segment_weight / segment_probes when the
   segment has them) on every row fresh from group_by_genes ... *)
Theorem C16_source_by_segment_row : forall hw hp s r,
  r_segw r = None -> r_segp r = None -> py_override hw hp s r = with_segment_x hw hp s r.
Proof. exact source_by_segment_row_x. Qed.

(* ... and the two loops run over by_ranges' pairs are the model's gene_metrics_by_segment *)
Theorem C16_source_by_segment : forall threshold skip_low rows segs,
  gene_metrics_by_segment threshold skip_low rows segs
  = flat_map (py_by_segment_iter threshold skip_low) (by_ranges rows segs).
Proof. exact source_by_segment. Qed.

(* reports.get_breakpoints, one iteration of the inner loop = the model's break_at (gstarts[0] < curr_end < gend, both
   probe counts >= min_probes, the appended tuple) ... *)
Theorem C16_source_break_at : forall min_probes cur next iv,
  break_at min_probes cur next iv = map brow_of (py_break_inner min_probes cur next iv).
Proof. exact source_break_at. Qed.

(* ... and the two loops over consecutive segment pairs = breakpoints_raw *)
Theorem C16_source_breakpoints : forall ivs min_probes segs,
  breakpoints_raw ivs min_probes segs = py_breakpoints ivs min_probes segs.
Proof. exact source_breakpoints. Qed.

(* cnary.by_gene, one iteration of `for gene, gene_idx in gene_map.items()` (prev_idx carried; the yielded tables are
   positional end-exclusive slices) folded over the gene map, the telomere tail after it = the model's by_gene_chrom *)
Theorem C16_source_walk_step : forall cnt, (forall e, 0 < cnt e) -> forall ignore (prev : nat) g f l,
  step_on cnt ignore (Z.of_nat prev) (g, f, l)
  = if mem_string g ignore then (Z.of_nat prev, [])
    else (Z.of_nat (S l),
          (if Nat.ltb prev f then [(ANTITARGET_NAME, Z.of_nat prev, Z.of_nat f)] else [])
          ++ [(g, Z.of_nat f, Z.of_nat (S l))]).
Proof. exact source_walk_step. Qed.

Theorem C16_source_walk : forall cnt ign rows, (forall e, 0 < cnt e) ->
  by_gene_chrom ign rows = py_walk cnt ign rows 0 (gene_map rows).
Proof. exact source_by_gene_chrom. Qed.

(* cnary.squash_genes, one iteration of `for name, subarr in self.by_gene(ignore)`: nothing for an empty group, the
   group's own rows for an Antitarget group unless squash_antitarget, else squash_rows' one row *)
Theorem C16_source_squash_step : forall squash_antitarget gr,
  squash_group squash_antitarget gr = py_squash_iter squash_antitarget gr.
Proof. exact source_squash_step. Qed.

Theorem C16_source_squash_genes : forall ignore squash_antitarget rows,
  squash_genes ignore squash_antitarget rows
  = flat_map (py_squash_iter squash_antitarget) (by_gene ignore rows).
Proof. exact source_squash_genes. Qed.

(* ==== SOURCE TIES, wave e4 (tools/fnspecs/c16_e4.py) ====
   do_genemetrics' control flow and closing filter (cnvlib/reports.py), squash_rows nested in squash_genes
   (cnvlib/cnary.py), translated from the source text on every run (Gen/FnGenemetricsFlow.v, FnGenemetricsKeep.v,
   FnGenesSquashRows.v). *)
From CNV Require Import Proofs.FnGenemetricsFlow Proofs.FnGenemetricsKeep Proofs.FnGenesSquashRows.
From CNV Require Gen.FnGenemetricsFlow Gen.FnGenemetricsKeep Gen.FnGenesSquashRows.

(* the dispatch: both tables are shifted with (reference flag, sex, build) BEFORE the rows are made; the rows are
   gene_metrics_by_segment's exactly when there are segments.  Tables are opaque ids read back by
   FnGenemetricsFlow.rows_of; do_genemetrics filters exactly the rows of the generated dispatch *)
Theorem C16_source_gm_dispatch : forall rows segs th mp sl hap fem (build : Z) (guess : option bool),
  do_genemetrics rows segs th mp sl hap fem =
  let table := rows_of rows segs th sl hap fem (fst (py_dispatch segs th sl hap fem build (Some fem) guess)) in
  if mp =? 0 then table else filter (fun r => mp <=? n_probes r) table.
Proof. exact source_gm_dispatch. Qed.

(* without a given sex the guess takes its place, in the same dispatch *)
Theorem C16_source_gm_dispatch_guess : forall rows segs th sl hap fem (build : Z),
  rows_of rows segs th sl hap fem (fst (py_dispatch segs th sl hap fem build None (Some fem)))
  = model_rows rows segs th sl hap fem.
Proof. exact source_gm_dispatch_guess. Qed.

(* the sex of the full model (female_for_bins: given, else guessed) is the generated one *)
Theorem C16_source_gm_female : forall gstat (o : gm_opts) rows (segs : Z) th sl (build : Z),
  female_for_bins gstat o rows =
  snd (Gen.FnGenemetricsFlow.fn_gm_dispatch 1 segs th sl (o_hap o) (o_female o) build
         (guess_of gstat true true (o_hap o) (o_build o) rows)
         (fun id _ _ _ => id) (fun _ _ _ _ => 0) (fun _ _ _ => 0)).
Proof. exact source_gm_female. Qed.

(* the closing filter, per row: kept unless min_probes is set, the table has rows and the row's probe count is below it *)
Theorem C16_source_gm_keep : forall (mp : Z) (table : list grow),
  (if mp =? 0 then table else filter (fun r => mp <=? n_probes r) table) = filter (py_keep mp table) table.
Proof. exact source_gm_keep. Qed.

(* do_genemetrics = the generated dispatch followed by the generated filter *)
Theorem C16_source_do_genemetrics : forall rows segs th mp sl hap fem (build : Z) (guess : option bool),
  do_genemetrics rows segs th mp sl hap fem =
  let table := rows_of rows segs th sl hap fem (fst (py_dispatch segs th sl hap fem build (Some fem) guess)) in
  filter (py_keep mp table) table.
Proof. exact source_do_genemetrics. Qed.

(* squash_rows: start of the first row, end of the last, one summary cell per extra field the table has *)
Theorem C16_source_squash_values : forall (est : list Q -> Q) (ccols : list string) (name : string) (b0 : bin) (rows : list bin),
  let l := last rows b0 in
  let '(s, e) := Gen.FnGenesSquashRows.fn_squash_rows_span (b_start b0) (b_start l) (b_end b0) (b_end l) in
  squash_values est ccols name b0 rows =
  [CS (b_chr b0); CZ s; CZ e; CS name; CQ (Some (est (map b_log2 rows)))]
  ++ flat_map (py_xfield_cells est ccols rows) SQUASH_XFIELDS
  ++ (if mem_string COL_PROBES ccols then [CZ (sumZ (map b_probes rows))] else []).
Proof. exact source_squash_values. Qed.

(* the id reading is not vacuous: a run of the generated dispatch with and without segments *)
Example ex_source_gm_dispatch :
  fst (py_dispatch (Some [ex_seg "chr1" 0 10 1]) (1 # 5) false false true 7 (Some true) None) = 6 /\
  fst (py_dispatch None (1 # 5) false false true 7 (Some true) None) = 5 /\
  fst (py_dispatch (Some []) (1 # 5) false false true 7 None (Some true)) = 5.
Proof. vm_compute. repeat split; reflexivity. Qed.
