(* C16 -- gene-level grouping yields each gene's own bins, each bin exactly once.
   Property theorems only; proofs live in Proofs/GenesMap.v, Proofs/Genes.v. *)
From Coq Require Import Qabs.
From CNV Require Import Base.Prelude Base.Str Gen.Params Gen.GenesDefaults
  Model.Genes Spec.Genes Proofs.GenesMap Proofs.Genes Proofs.GenesReports Proofs.GenesBreaks.

(* The names that never count as genes are those of the property text; bin names are
   split on commas. *)
Theorem C16_ignored_names :
  full_ignore IGNORE_GENE_NAMES = ["-"; "."; "CGH"; "Antitarget"; "Background"]%string
  /\ GENE_SPLIT_SEP = ","%string.
Proof. exact (conj eq_refl eq_refl). Qed.

(* For every table that lists its chromosomes one after the other (blocks) and in
   which, on every chromosome, the spans [first bin, last bin] of distinct genes are
   disjoint: on every chromosome by_gene yields a correct grouping (each gene exactly
   its bins first..last, once; every other group a non-empty Antitarget stretch of
   bins carrying no gene, no two of them adjacent), by_gene of the table is these
   groupings one chromosome after the other, and the groups concatenated in the order
   yielded are the table itself: genomic order, every bin exactly once.  Any ignore
   list, any number of chromosomes, genes and bins. *)
Theorem C16_partition : forall (ignore : list string) (blocks : list (string * list bin)),
  chrom_blocks blocks ->
  Forall (fun cb => spans_disjoint (full_ignore ignore) (snd cb)) blocks ->
  Forall (fun cb => partition_spec (full_ignore ignore) (snd cb)
                                   (by_gene_chrom (full_ignore ignore) (snd cb))) blocks /\
  by_gene ignore (concat (map snd blocks)) =
    flat_map (fun cb => by_gene_chrom (full_ignore ignore) (snd cb)) blocks /\
  concat (map snd (by_gene ignore (concat (map snd blocks)))) = concat (map snd blocks).
Proof. exact by_gene_partition_blocks. Qed.

(* The same for an arbitrary row order: the code groups the rows by chromosome name
   (order of first appearance); each group is that chromosome's rows in table order,
   is grouped correctly, and nothing else is yielded. *)
Theorem C16_partition_any_order : forall (ignore : list string) (rows : list bin),
  (forall c, spans_disjoint (full_ignore ignore) (chrom_rows c rows)) ->
  Forall (fun cr => snd cr = chrom_rows (fst cr) rows /\ snd cr <> [] /\
                    partition_spec (full_ignore ignore) (snd cr)
                                   (by_gene_chrom (full_ignore ignore) (snd cr)))
         (by_chromosome rows) /\
  concat (map snd (by_gene ignore rows)) = concat (map snd (by_chromosome rows)).
Proof. exact by_gene_partition. Qed.

(* Whatever the table (no precondition): a group labelled with a gene name is exactly
   that gene's bins first..last, and every gene has such a group. *)
Theorem C16_gene_groups : forall ign rows g grp,
  mem_string g ign = false ->
  (In (g, grp) (by_gene_chrom ign rows) /\ g <> "Antitarget"%string <->
   g <> "Antitarget"%string /\ exists f l, gene_span rows g f l /\ grp = slice rows f (S l)).
Proof. exact by_gene_chrom_gene_groups. Qed.

(* The gene map of the code is exactly the set of gene spans. *)
Theorem C16_gene_map : forall rows g f l,
  In (g, f, l) (gene_map rows) <-> gene_span rows g f l.
Proof. exact gene_map_iff. Qed.

(* ---- the hypotheses are satisfiable: the inputs of the repaired defect ------------------ *)

Definition ex_bin (c g : string) (i : Z) : bin :=
  mkBin c (100 * i) (100 * i + 80) g (1 # 2) 1 10 1.

Definition ex_chr1 : list bin :=
  [ex_bin "chr1" "A" 0; ex_bin "chr1" "A" 1; ex_bin "chr1" "A" 2; ex_bin "chr1" "Antitarget" 3;
   ex_bin "chr1" "-" 4; ex_bin "chr1" "B" 5; ex_bin "chr1" "CGH" 6; ex_bin "chr1" "B,-" 7;
   ex_bin "chr1" "Antitarget" 8].
Definition ex_chr2 : list bin :=
  [ex_bin "chr2" "." 0; ex_bin "chr2" "C" 1; ex_bin "chr2" "C" 2; ex_bin "chr2" "Antitarget" 3].

Example C16_example_pre :
  chrom_blocks [("chr1"%string, ex_chr1); ("chr2"%string, ex_chr2)] /\
  Forall (fun cb => spans_disjoint (full_ignore IGNORE_GENE_NAMES) (snd cb))
         [("chr1"%string, ex_chr1); ("chr2"%string, ex_chr2)].
Proof.
  split.
  - split.
    + repeat constructor; cbn; intuition discriminate.
    + repeat constructor; discriminate.
  - apply Forall_cons; [|apply Forall_cons; [|apply Forall_nil]];
      apply spans_okb_sound; vm_compute; reflexivity.
Qed.

Example C16_example_groups :
  map (fun gr => (fst gr, map b_start (snd gr))) (by_gene IGNORE_GENE_NAMES (ex_chr1 ++ ex_chr2)) =
  [("A", [0; 100; 200]); ("Antitarget", [300; 400]); ("B", [500; 600; 700]); ("Antitarget", [800]);
   ("Antitarget", [0]); ("C", [100; 200]); ("Antitarget", [300])]%string%Z.
Proof. vm_compute. reflexivity. Qed.

(* ---- genemetrics without segments ----------------------------------------------------------- *)

(* After the X-chromosome adjustment (shift_xx), the rows reported are exactly: for every
   named gene of every chromosome (not "-", ".", "CGH", "Antitarget", "Background", "")
   whose weighted mean log2 over its usable bins reaches the threshold in absolute value
   and that has at least min_probes bins, the row computed on exactly its bins
   first..last: that mean, the start of its first bin, the end of its last bin, the
   number of bins, the summed weight and the weight-averaged depth.  Any table. *)
Theorem C16_genemetrics : forall rows threshold min_probes skip_low haploid_x_ref is_female r,
  In r (do_genemetrics rows None threshold min_probes skip_low haploid_x_ref is_female) <->
  genemetrics_row (shift_xx haploid_x_ref is_female rows) threshold min_probes skip_low r.
Proof. exact do_genemetrics_by_gene. Qed.

(* the adjustment is -1 on X for a female sample on a haploid-X reference, +1 for a male
   sample on a diploid-X reference, nothing otherwise; low coverage is log2 < -15 *)
Theorem C16_adjustment_literals :
  xx_shift true true = (-1 # 1)%Q /\ xx_shift false false = (1 # 1)%Q /\
  xx_shift true false = 0%Q /\ xx_shift false true = 0%Q /\ min_cvg = (-15 # 1)%Q.
Proof. exact (conj eq_refl (conj eq_refl (conj eq_refl (conj eq_refl eq_refl)))). Qed.

(* the reduced-fraction weighted mean of the model is the textbook one *)
Theorem C16_weighted_mean : forall xs ws, (wavg xs ws == weighted_mean xs ws)%Q.
Proof. exact wavg_textbook. Qed.

(* ---- squash_genes ------------------------------------------------------------------------------ *)

(* squash_genes is, chromosome by chromosome, the groups of by_gene (C16_partition) each
   turned into rows: an Antitarget stretch is kept bin by bin, a gene's group becomes
   one row on the gene's chromosome from the start of its first bin to the end of its
   last bin, carrying the summed probes and (if it has several bins) the gene's name. *)
Theorem C16_squash : forall ignore squash_antitarget blocks,
  chrom_blocks blocks ->
  squash_genes ignore squash_antitarget (concat (map snd blocks)) =
    flat_map (fun cb => flat_map (squash_group squash_antitarget)
                                 (by_gene_chrom (full_ignore ignore) (snd cb))) blocks
  /\ (forall gr, fst gr = "Antitarget"%string -> squash_antitarget = false ->
        squash_group squash_antitarget gr = map srow_of_bin (snd gr))
  /\ (forall rows g f l, real (full_ignore ignore) g -> gene_span rows g f l ->
        exists bf bl row,
          nth_error rows f = Some bf /\ nth_error rows l = Some bl /\
          squash_group squash_antitarget (g, slice rows f (S l)) = [row] /\
          s_chr row = b_chr bf /\ s_start row = b_start bf /\ s_end row = b_end bl /\
          s_probes row = sumZ (map b_probes (slice rows f (S l))) /\
          (f < l -> s_gene row = g)%nat /\ (f = l -> s_gene row = b_gene bf)).
Proof. exact squash_genes_spec. Qed.

(* ---- genemetrics with segments ------------------------------------------------------------------ *)

(* Given a non-empty segment table and bins that are sorted and not nested within each
   chromosome: the rows reported are exactly, for each (X-adjusted) segment whose log2
   reaches the threshold in absolute value (and whose probes reach min_probes unless
   that is 0), and for each named gene having bins among the segment's bins (the bins
   of the segment's chromosome that overlap it): the row of the part of the gene inside
   the segment -- from the first to the last of those bins that carry the gene -- with
   its start, end, bin count, summed weight and weight-averaged depth, carrying the
   segment's log2, weight and probes. *)
Theorem C16_genemetrics_segments :
  forall rows segs threshold min_probes skip_low haploid_x_ref is_female r,
  segs <> [] ->
  (forall c, bins_sorted (chrom_rows c (shift_xx haploid_x_ref is_female rows))) ->
  (In r (do_genemetrics rows (Some segs) threshold min_probes skip_low haploid_x_ref is_female) <->
   exists s, In s (shift_xx haploid_x_ref is_female segs) /\
             Qle_bool threshold (Qabs (b_log2 s)) = true /\
             (min_probes = 0 \/ min_probes <= b_probes s) /\
             segment_gene_row s (bins_of_segment (shift_xx haploid_x_ref is_female rows) s) skip_low r).
Proof. exact do_genemetrics_by_segment. Qed.

(* ---- breaks -------------------------------------------------------------------------------------- *)

(* For min_probes >= 1 and bins of positive length: the rows listed are exactly, for
   every two consecutive segments of one chromosome and every gene name on that
   chromosome (whole bin names, not "-", ".", "CGH", "Antitarget", "Background") with
   at least min_probes bins starting before the boundary (the first segment's end)
   and at least min_probes bins starting at or after it: that gene with the
   chromosome, the boundary, the change in log2 and the two counts. *)
Theorem C16_breaks : forall rows segs min_probes k,
  1 <= min_probes -> (forall b, In b rows -> b_start b < b_end b) ->
  (In k (do_breaks rows segs min_probes) <-> break_row rows segs min_probes k).
Proof. exact do_breaks_spec. Qed.

(* Maximality of the Antitarget stretches: a gene's group begins and ends with a bin
   carrying the gene; together with C16_partition (stretches are non-empty, carry no
   gene, and no two are adjacent) a stretch can be extended on neither side. *)
Theorem C16_gene_group_ends : forall (rows : list bin) g f l,
  gene_span rows g f l ->
  exists bf bl t, slice rows f (S l) = bf :: t /\ last (bf :: t) bf = bl /\
                  In g (genes_of bf) /\ In g (genes_of bl).
Proof. exact gene_group_ends. Qed.

(* ---- more examples (hypotheses satisfiable, results as expected) -------------------------------- *)

Example C16_example_genemetrics :
  map (fun r => (r_gene r, r_start r, r_end r, r_probes r))
      (do_genemetrics (ex_chr1 ++ ex_chr2) None (1 # 5) 2 false false true) =
  [("A", 0, 280, 3); ("B", 500, 780, 3); ("C", 100, 280, 2)]%string%Z.
Proof. vm_compute. reflexivity. Qed.

Definition ex_seg (c : string) (s e : Z) (l : Q) : bin := mkBin c s e "-" l 1 1 5.

Example C16_example_sorted : bins_sorted ex_chr2.
Proof.
  split; repeat (constructor; [|repeat (constructor; [cbn; lia|]); constructor]); constructor.
Qed.

Example C16_example_segments :
  map (fun r => (r_gene r, r_start r, r_end r, r_probes r, r_log2 r))
      (do_genemetrics (ex_chr1 ++ ex_chr2)
         (Some [ex_seg "chr1" 0 180 (1 # 2); ex_seg "chr1" 200 900 (1 # 10); ex_seg "chr2" 0 380 (-1 # 1)])
         (1 # 5) 1 false false true) =
  [("A", 0, 180, 2, Some (1 # 2)); ("C", 100, 280, 2, Some (-1 # 1))]%string%Z%Q.
Proof. vm_compute. reflexivity. Qed.

Example C16_example_breaks :
  map (fun k => (k_gene k, k_loc k, k_left k, k_right k))
      (do_breaks (ex_chr1 ++ ex_chr2) [ex_seg "chr1" 0 150 0; ex_seg "chr1" 150 900 1; ex_seg "chr2" 0 400 0] 1) =
  [("A", 150, 2, 1)]%string%Z.
Proof. vm_compute. reflexivity. Qed.
