(* Specification objects for C18, stated with the literal numbers of the property
   text (0, 1/2, 1; start = POS - 1; alt_freq = count / depth; mirror about 1/2;
   TumorBoost and purity formulas), not with the generated constants. *)
From CNV Require Import Base.Prelude Model.Vcf Model.VBaf.
Local Open Scope Q_scope.

(* ---- genotype -> zygosity ---------------------------------------------- *)

(* zygosity 0 / 0.5 / 1 from the (called) genotype of a biallelic site *)
Definition zygosity_spec (gt : list (option Z)) (z : Q) : Prop :=
  ((forall a, In a gt -> a = Some 0%Z) -> z = 0) /\
  ((forall a, In a gt -> a = Some 1%Z) -> z = 1) /\
  (In (Some 0%Z) gt -> In (Some 1%Z) gt -> z = 1 # 2).

Definition zyg_valid (z : Q) : Prop := z = 0 \/ z = 1 # 2 \/ z = 1.

Definition g_valid (g : gcols) : Prop := zyg_valid (g_zyg g).

Definition row_valid (r : vrow) : Prop :=
  g_valid (v_t r) /\ match v_n r with Some n => g_valid n | None => True end.

(* ---- one sample's columns of one record -------------------------------- *)

(* depth, alt count and alt_freq = count / depth, where the file states them *)
Definition geno_spec (r : vrec) (c : scall) (g : gcols) : Prop :=
  zygosity_spec (s_gt c) (g_zyg g) /\
  (forall d, r_has_dp r = true -> s_dp c = Some d -> g_depth g = d) /\
  (forall a0 a1 rest, r_has_ad r = true -> s_ad c = a0 :: Some a1 :: rest -> g_count g = a1) /\
  (forall d a0 a1 rest, r_has_dp r = true -> s_dp c = Some d -> (0 < d)%Z ->
      r_has_ad r = true -> s_ad c = a0 :: Some a1 :: rest ->
      exists q, g_freq g = Fin q /\ q == inject_Z a1 / inject_Z d).

(* the coordinates and flags of a row of record r *)
Definition row_spec (r : vrec) (row : vrow) : Prop :=
  v_chrom row = r_chrom r /\ v_start row = (r_pos r - 1)%Z /\ v_ref row = r_ref r /\
  In (v_alt row) (r_alts r) /\ v_alt row <> "<NON_REF>"%string /\
  v_somatic row = r_somatic r.

(* ---- filters ------------------------------------------------------------- *)

Definition has_depth_info (all : list vrow) : bool :=
  existsb (fun r => negb (g_depth (v_t r) =? 0)%Z) all.

(* the depth that is filtered on: the paired normal's when there is one *)
Definition filter_depth (r : vrow) : Z :=
  match v_n r with Some n => g_depth n | None => g_depth (v_t r) end.

Definition keep_spec (min_depth : option Z) (skip_somatic : bool) (all : list vrow) (r : vrow) : bool :=
  (match min_depth with
   | Some m => (m =? 0)%Z || negb (has_depth_info all) || (m <=? filter_depth r)%Z
   | None => true
   end) && (negb skip_somatic || negb (v_somatic r)).

(* ---- germline heterozygosity ---------------------------------------------- *)

Definition germline_het (r : vrow) : bool := Qeq_bool (germ_zyg r) (1 # 2).

(* zygosity from the allele frequency: below het -> 0, at or above hom -> 1, else 1/2 *)
Definition zyg_from_freq_spec (het hom : Q) (f : xq) : Q :=
  match f with
  | Fin q => if Qlt_bool q het then 0 else if Qle_bool hom q then 1 else 1 # 2
  | PInf => 1
  | XNaN => 1 # 2
  end.

(* ---- mirrored median ------------------------------------------------------ *)

Definition mirror_spec (above : bool) (v : Q) : Q :=
  if above then (1 # 2) + Qabs.Qabs (v - (1 # 2)) else (1 # 2) - Qabs.Qabs (v - (1 # 2)).

(* m is the median of l: the middle element of the sorted values, or the mean of the two middle ones *)
Definition is_median (m : Q) (l : list Q) : Prop :=
  exists s, Permutation s l /\ Sorted Qle s /\
    let n := length s in
    (Nat.even n = false -> m == nth (n / 2) s 0) /\
    (Nat.even n = true -> m == (nth (n / 2 - 1) s 0 + nth (n / 2) s 0) / 2).

(* ---- TumorBoost, purity ---------------------------------------------------- *)

Definition boost_spec (t n : Q) : Q :=
  if Qlt_bool t n then (1 # 2) * t / n else 1 - (1 # 2) * (1 - t) / (1 - n).

Definition rescale_spec (purity obs : Q) : Q := (obs - (1 # 2) * (1 - purity)) / purity.
