(* Specification objects for C18, stated with the literal numbers of the property
   text (0, 1/2, 1; start = POS - 1; alt_freq = count / depth; mirror about 1/2;
   TumorBoost and purity formulas), not with the generated constants. *)
From CNV Require Import Base.Prelude Model.Vcf Model.VBaf.
Local Open Scope Q_scope.

(* ---- genotype -> zygosity ---------------------------------------------- *)

(* zygosity 0 / 0.5 / 1 from the (called) genotype of a biallelic site *)
Definition zygosity_spec (gt : list (option Z)) (z : Q) : Prop :=
  ((forall a, In a gt -> a = Some 0%Z) -> z = 0) /\
  ((forall a, In a gt -> a = Some 1%Z) -> z = 1) /\
  (In (Some 0%Z) gt -> In (Some 1%Z) gt -> z = 1 # 2).

Definition zyg_valid (z : Q) : Prop := z = 0 \/ z = 1 # 2 \/ z = 1.

Definition g_valid (g : gcols) : Prop := zyg_valid (g_zyg g).

Definition row_valid (r : vrow) : Prop :=
  g_valid (v_t r) /\ match v_n r with Some n => g_valid n | None => True end.

(* ---- one sample's columns of one record -------------------------------- *)

(* depth, alt count and alt_freq = count / depth, where the file states them *)
Definition geno_spec (r : vrec) (c : scall) (g : gcols) : Prop :=
  zygosity_spec (s_gt c) (g_zyg g) /\
  (forall d, r_has_dp r = true -> s_dp c = Some d -> g_depth g = d) /\
  (forall a0 a1 rest, r_has_ad r = true -> s_ad c = a0 :: Some a1 :: rest -> g_count g = a1) /\
  (forall d a0 a1 rest, r_has_dp r = true -> s_dp c = Some d -> (0 < d)%Z ->
      r_has_ad r = true -> s_ad c = a0 :: Some a1 :: rest ->
      exists q, g_freq g = Fin q /\ q == inject_Z a1 / inject_Z d).

(* the coordinates and flags of a row of record r *)
Definition row_spec (r : vrec) (row : vrow) : Prop :=
  v_chrom row = r_chrom r /\ v_start row = (r_pos r - 1)%Z /\ v_ref row = r_ref r /\
  In (v_alt row) (r_alts r) /\ v_alt row <> "<NON_REF>"%string /\
  v_somatic row = r_somatic r.

(* ---- filters ------------------------------------------------------------- *)

Definition has_depth_info (all : list vrow) : bool :=
  existsb (fun r => negb (g_depth (v_t r) =? 0)%Z) all.

(* the depth that is filtered on: the paired normal's when there is one *)
Definition filter_depth (r : vrow) : Z :=
  match v_n r with Some n => g_depth n | None => g_depth (v_t r) end.

Definition keep_spec (min_depth : option Z) (skip_somatic : bool) (all : list vrow) (r : vrow) : bool :=
  (match min_depth with
   | Some m => (m =? 0)%Z || negb (has_depth_info all) || (m <=? filter_depth r)%Z
   | None => true
   end) && (negb skip_somatic || negb (v_somatic r)).

(* ---- germline heterozygosity ---------------------------------------------- *)

Definition germline_het (r : vrow) : bool := Qeq_bool (germ_zyg r) (1 # 2).

(* zygosity from the allele frequency: below het -> 0, at or above hom -> 1, else 1/2 *)
Definition zyg_from_freq_spec (het hom : Q) (f : xq) : Q :=
  match f with
  | Fin q => if Qlt_bool q het then 0 else if Qle_bool hom q then 1 else 1 # 2
  | PInf => 1
  | XNaN => 1 # 2
  end.

(* ---- mirrored median ------------------------------------------------------ *)

Definition mirror_spec (above : bool) (v : Q) : Q :=
  if above then (1 # 2) + Qabs.Qabs (v - (1 # 2)) else (1 # 2) - Qabs.Qabs (v - (1 # 2)).

(* m is the median of l: the middle element of the sorted values, or the mean of the two middle ones *)
Definition is_median (m : Q) (l : list Q) : Prop :=
  exists s, Permutation s l /\ Sorted Qle s /\
    let n := length s in
    (Nat.even n = false -> m == nth (n / 2) s 0) /\
    (Nat.even n = true -> m == (nth (n / 2 - 1) s 0 + nth (n / 2) s 0) / 2).

(* ---- TumorBoost, purity ---------------------------------------------------- *)

Definition boost_spec (t n : Q) : Q :=
  if Qlt_bool t n then (1 # 2) * t / n else 1 - (1 # 2) * (1 - t) / (1 - n).

Definition rescale_spec (purity obs : Q) : Q := (obs - (1 # 2) * (1 - purity)) / purity.

(* ==== additions of the C18 extension ============================================================== *)

(* ---- IEEE values up to the equality of the finite ones ------------------------------------------- *)

Definition xr_eq (a b : xr) : Prop :=
  match a, b with
  | RFin x, RFin y => x == y
  | RPInf, RPInf => True
  | RNInf, RNInf => True
  | RNaN, RNaN => True
  | _, _ => False
  end.

(* ---- load_het_snps after the read, as a decision table in the property's own numbers -------------- *)

(* every normal genotype is 0/0 (or the column was filled with 0): `not varr["n_zygosity"].any()` *)
Definition normal_all_ref (rows : list vrow) : bool :=
  forallb (fun r => match v_n r with Some n => Qeq_bool (g_zyg n) 0 | None => true end) rows.

(* the zygosity_freq in force: the one asked for; else 1/4 when a normal is there and all its
   genotypes are reference (the Mutect2 work-around); else none (the genotypes of the file decide) *)
Definition zfreq_in_force (paired : bool) (zf : option Q) (rows : list vrow) : option Q :=
  match zf with
  | Some z => Some z
  | None => if paired && normal_all_ref rows then Some (1 # 4) else None
  end.

Definition regeno_g (f : Q) (g : gcols) : gcols :=
  {| g_zyg := zyg_from_freq_spec f (1 - f) (g_freq g); g_depth := g_depth g; g_count := g_count g;
     g_freq := g_freq g |}.

(* zygosity_from_freq(f, 1 - f): BOTH the sample's and the normal's zygosity from their own frequency *)
Definition regenotype (f : Q) (r : vrow) : vrow :=
  {| v_chrom := v_chrom r; v_ckey := v_ckey r; v_start := v_start r; v_end := v_end r;
     v_ref := v_ref r; v_alt := v_alt r; v_somatic := v_somatic r;
     v_t := regeno_g f (v_t r); v_n := option_map (regeno_g f) (v_n r) |}.

(* somatic by T/N genotypes: the tumour is not reference, the normal is *)
Definition tn_somatic (r : vrow) : bool :=
  match v_n r with
  | Some n => negb (Qeq_bool (g_zyg (v_t r)) 0) && Qeq_bool (g_zyg n) 0
  | None => false
  end.

(* not 0 and not 1, on the normal's zygosity when paired *)
Definition het_by_zygosity (r : vrow) : bool :=
  let z := germ_zyg r in negb (Qeq_bool z 0) && negb (Qeq_bool z 1).

Definition load_het_finish (paired boost : bool) (rows1 : list vrow) : res (list lrow) :=
  let lab := label_from 0 rows1 in
  let kept := if paired then filter (fun lr => negb (tn_somatic (snd lr))) lab else lab in
  let het := filter (fun lr => het_by_zygosity (snd lr)) kept in
  let out := match het with [] => kept | _ => het end in
  if boost then (if paired then Ok (boost_assign out) else Fail "ValueError") else Ok out.

(* the whole table: (1) which zygosity_freq; (2) refused unless 0 <= f <= 1/2; (3) genotypes recomputed
   from the frequencies FIRST; (4) then the T/N somatic drop on the recomputed genotypes (paired only);
   (5) then the heterozygous subset with its keep-everything fallback; (6) then TumorBoost (ValueError
   without a normal) *)
Definition load_het_table (paired : bool) (zf : option Q) (boost : bool) (rows : list vrow)
  : res (list lrow) :=
  match zfreq_in_force paired zf rows with
  | Some f =>
      if Qle_bool 0 f && Qle_bool f (1 # 2)
      then load_het_finish paired boost (map (regenotype f) rows)
      else Fail "AssertionError"
  | None => load_het_finish paired boost rows
  end.

(* per range with above_half = None: one value from the range's OWN hits *)
Definition majority_value (hits : list xq) : xq :=
  match hits with
  | [] => XNaN
  | [x] => x
  | _ => nanmedian_x (map (mirror_x (majority_above (finite_of hits))) hits)
  end.
