(* Specification objects for C02 (threshold calls are a monotone step function of log2;
   cn1 + cn2 = cn), with the literal numbers of the property text / the documented
   default thresholds.  Nothing here refers to generated constants or to the model. *)
From Coq Require Import Qround Qabs.
From CNV Require Import Base.Prelude.

Local Open Scope Z_scope.

(* number of thresholds strictly below v *)
Definition count_below (v : Q) (ts : list Q) : Z :=
  Z.of_nat (length (filter (fun t => negb (Qle_bool v t)) ts)).

Fixpoint strictly_increasing (ts : list Q) : Prop :=
  match ts with
  | [] => True
  | t :: rest => match rest with [] => True | u :: _ => (t < u)%Q end /\ strictly_increasing rest
  end.

(* v lies above every threshold *)
Definition above_all (v : Q) (ts : list Q) : Prop := forall t, In t ts -> (t < v)%Q.

(* the step value i, "multiplied by (reference copies / ploidy) and truncated on
   chromosomes the reference carries in fewer copies" *)
Definition spec_scale (i r k : Z) : Z :=
  if r =? k then i else Qfloor (inject_Z i * (inject_Z r / inject_Z k)).

(* the step function of the property *)
Definition spec_thr (v : Q) (e : Q) (ts : list Q) (k r : Z) : Z :=
  if forallb (fun t => negb (Qle_bool v t)) ts
  then Qceiling (inject_Z r * e)                 (* above the last threshold: ceil(r * 2^log2) *)
  else spec_scale (count_below v ts) r k.

(* the documented default thresholds *)
Definition lit_thresholds : list Q := [-(11 # 10); -(1 # 4); 1 # 5; 7 # 10]%Q.

(* contract of the exp2 oracle used by the monotonicity clause *)
Definition exp2_monotone (exp2 : Q -> Q) : Prop := forall a b, (a <= b)%Q -> (exp2 a <= exp2 b)%Q.
