(* C17 -- which bins belong to a segment, as the property text says it: the bins
   OVERLAPPING the segment (segmetrics), the bins lying INSIDE it (bintest residuals);
   and the preconditions on the two tables (those of C07). *)
From CNV Require Import Base.Prelude Model.Ranges Model.Segmetrics Spec.RangeQuery.

(* same chromosome and at least one base in common *)
Definition seg_overlaps (s : seg) (b : bin) : bool :=
  String.eqb (b_chr b) (s_chr s) && ((b_start b <? s_end s) && (s_start s <? b_end b)).
(* same chromosome and wholly contained *)
Definition seg_contains (s : seg) (b : bin) : bool :=
  String.eqb (b_chr b) (s_chr s) && ((s_start s <=? b_start b) && (b_end b <=? s_end s)).

Definition seg_selects (m : qmode) (s : seg) (b : bin) : bool :=
  match m with QInner => seg_contains s b | _ => seg_overlaps s b end.

(* the bins of a table a segment's statistics are to be computed on *)
Definition overlapping_bins (tb : list tbin) (s : seg) : list tbin :=
  filter (fun ib => seg_overlaps s (snd ib)) tb.
Definition contained_bins (tb : list tbin) (s : seg) : list tbin :=
  filter (fun ib => seg_contains s (snd ib)) tb.

(* preconditions: every chromosome's bins sorted by start, each 0 <= start < end (nested,
   repeated, abutting bins allowed); the segment table lists each chromosome's segments
   contiguously (true of any table sorted by chromosome).  Segments themselves may be
   empty, repeated, overlapping, on chromosomes the bin table lacks. *)
Definition bins_ok (bins : list bin) : Prop := table_ok (map bin_trow (tagged bins)).
Definition segs_ok (segs : list seg) : Prop := grouped (map seg_trow segs).
