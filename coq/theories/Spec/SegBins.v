(* C17 -- which bins belong to a segment, as the property text says it: the bins
   OVERLAPPING the segment (segmetrics), the bins lying INSIDE it (bintest residuals);
   and the preconditions on the two tables (those of C07). *)
From CNV Require Import Base.Prelude Model.Ranges Model.Segmetrics Spec.RangeQuery Spec.Stats17.

(* same chromosome and at least one base in common *)
Definition seg_overlaps (s : seg) (b : bin) : bool :=
  String.eqb (b_chr b) (s_chr s) && ((b_start b <? s_end s) && (s_start s <? b_end b)).
(* same chromosome and wholly contained *)
Definition seg_contains (s : seg) (b : bin) : bool :=
  String.eqb (b_chr b) (s_chr s) && ((s_start s <=? b_start b) && (b_end b <=? s_end s)).

Definition seg_selects (m : qmode) (s : seg) (b : bin) : bool :=
  match m with QInner => seg_contains s b | _ => seg_overlaps s b end.

(* the bins of a table a segment's statistics are to be computed on *)
Definition overlapping_bins (tb : list tbin) (s : seg) : list tbin :=
  filter (fun ib => seg_overlaps s (snd ib)) tb.
Definition contained_bins (tb : list tbin) (s : seg) : list tbin :=
  filter (fun ib => seg_contains s (snd ib)) tb.

(* preconditions: every chromosome's bins sorted by start, each 0 <= start < end (nested,
   repeated, abutting bins allowed); the segment table lists each chromosome's segments
   contiguously (true of any table sorted by chromosome).  Segments themselves may be
   empty, repeated, overlapping, on chromosomes the bin table lacks. *)
Definition bins_ok (bins : list bin) : Prop := table_ok (map bin_trow (tagged bins)).
Definition segs_ok (segs : list seg) : Prop := grouped (map seg_trow segs).

(* ==== the bootstrap confidence interval, stated against plain arithmetic ================= *)
Local Open Scope Q_scope.

(* the oracle contract of np.random.randint(0, k, size=(rows, cols)) *)
Definition randint_contract (f : Z -> nat -> nat -> nat -> list (list nat)) : Prop :=
  forall s k rows cols,
    length (f s k rows cols) = rows /\
    Forall (fun r => length r = cols /\ Forall (fun i => (i < k)%nat) r) (f s k rows cols).
(* ... and of the [rows] vectors np.random.randn(cols) *)
Definition randn_contract (f : Z -> nat -> nat -> nat -> list (list Q)) : Prop :=
  forall s k rows cols,
    length (f s k rows cols) = rows /\ Forall (fun r => length r = cols) (f s k rows cols).

(* textbook weighted mean *)
Definition wmean_def (a w : list Q) : Q := sumQ (map2 Qmult a w) / sumQ w.

(* the smoothing formula: element c of resample r is  v_i + bw * sqrt(1 - w_i) * z_rc ,
   i the bin drawn at (r, c), bw = the bandwidth oracle at k, z the normal draws; the weights
   of the weighted mean are the un-smoothed w_i *)
Definition smoothed_sample (sqrtf : Q -> Q) (bw : Q) (vals wts : list Q) (idx : list nat) (z : list Q) : list Q :=
  map2 (fun i zz => nth i vals 0 + bw * sqrtf (1 - nth i wts 0) * zz) idx z.

(* ==== the statistic columns of the output table ========================================== *)
(* the column names a configuration asks for, in the order the code assigns them *)
Definition is_loc_name (nm : string) : bool :=
  String.eqb nm "mean" || String.eqb nm "median" || String.eqb nm "mode" || String.eqb nm "p_ttest".
Definition is_spread_name (nm : string) : bool :=
  String.eqb nm "stdev" || String.eqb nm "mad" || String.eqb nm "mse" || String.eqb nm "iqr" ||
  String.eqb nm "bivar" || String.eqb nm "sem".
Definition requested_columns (cfg : config) : list string :=
  filter is_loc_name (c_loc cfg) ++ filter is_spread_name (c_spread cfg) ++
  (if has "ci" (c_ivl cfg) then ["ci_lo"; "ci_hi"]%string else []) ++
  (if has "pi" (c_ivl cfg) then ["pi_lo"; "pi_hi"]%string else []).

(* a name is entered once, at its first assignment *)
Fixpoint add_name (nm : string) (l : list string) : list string :=
  match l with
  | [] => [nm]
  | c :: t => if String.eqb c nm then c :: t else c :: add_name nm t
  end.
Definition first_occurrences (names : list string) : list string :=
  fold_left (fun acc n => add_name n acc) names [].

(* the usual call: known, distinct names in each family *)
Definition names_ok (cfg : config) : Prop :=
  NoDup (c_loc cfg) /\ NoDup (c_spread cfg) /\
  (forall n, In n (c_loc cfg) -> is_loc_name n = true) /\
  (forall n, In n (c_spread cfg) -> is_spread_name n = true).

(* ==== the t-test column ================================================================== *)
(* contract of the Student-t tail oracle: a function of (t^2, df) as numbers, 1 at t = 0 *)
Definition tt_contract (tt : Q -> nat -> Q) : Prop :=
  (forall t t' n, t == t' -> tt t n == tt t' n) /\ (forall n, tt 0 n == 1).
