(* C11 -- specification side for the HaarSeg core: the mathematical objects the
   theorems of Props/C11.v are stated against. *)
From Coq Require Import QArith.Qabs.
From CNV Require Import Base.Prelude.

(* circular ("mirror") padding of an array of length n: index j of the padded signal *)
Definition mirror (n j : Z) : Z :=
  if j <? 0 then - j - 1 else if n <=? j then 2 * n - 1 - j else j.

(* sum_{j = a}^{a + len - 1} f j *)
Fixpoint wsum (f : Z -> Q) (a : Z) (len : nat) : Q :=
  match len with
  | O => 0%Q
  | S m => (f a + wsum f (a + 1) m)%Q
  end.

(* the padded signal as a function of the (possibly out-of-range) index *)
Definition padded (l : list Q) (j : Z) : Q :=
  nth (Z.to_nat (mirror (Z.of_nat (length l)) j)) l 0%Q.

(* Haar wavelet of half-width h at position k: (sum of the h values from k on)
   minus (sum of the h values before k), on the padded signal *)
Definition haar_window (l : list Q) (h k : Z) : Q :=
  (wsum (padded l) k (Z.to_nat h) - wsum (padded l) (k - h) (Z.to_nat h))%Q.

(* weighted: difference of the weighted means of the two windows *)
Definition padded_prod (l w : list Q) (j : Z) : Q := (padded l j * padded w j)%Q.
Definition haar_window_w (l w : list Q) (h k : Z) : Q :=
  (wsum (padded_prod l w) k (Z.to_nat h) / wsum (padded w) k (Z.to_nat h)
   - wsum (padded_prod l w) (k - h) (Z.to_nat h) / wsum (padded w) (k - h) (Z.to_nat h))%Q.

(* strictly increasing list of integers *)
Definition ssorted (l : list Z) : Prop := StronglySorted Z.lt l.

(* start/end/size columns tile s..n-1: contiguous, inclusive ends, positive sizes *)
Fixpoint tiles_from (s n : Z) (st ed sz : list Z) : Prop :=
  match st, ed, sz with
  | s' :: st', e :: ed', z :: sz' =>
      s' = s /\ z = e - s + 1 /\ 0 < z /\
      match st' with
      | [] => e = n - 1 /\ ed' = [] /\ sz' = []
      | _ => tiles_from (e + 1) n st' ed' sz'
      end
  | _, _, _ => False
  end.

(* a noiseless step: a before position t, b from t on *)
Definition step_signal (a b : Q) (t n : nat) : list Q := repeat a t ++ repeat b (n - t).
