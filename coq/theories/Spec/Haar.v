(* C11 -- specification side for the HaarSeg core: the mathematical objects the
   theorems of Props/C11.v are stated against. *)
From Coq Require Import QArith.Qabs.
From CNV Require Import Base.Prelude.

(* circular ("mirror") padding of an array of length n: index j of the padded signal *)
Definition mirror (n j : Z) : Z :=
  if j <? 0 then - j - 1 else if n <=? j then 2 * n - 1 - j else j.

(* sum_{j = a}^{a + len - 1} f j *)
Fixpoint wsum (f : Z -> Q) (a : Z) (len : nat) : Q :=
  match len with
  | O => 0%Q
  | S m => (f a + wsum f (a + 1) m)%Q
  end.

(* the padded signal as a function of the (possibly out-of-range) index *)
Definition padded (l : list Q) (j : Z) : Q :=
  nth (Z.to_nat (mirror (Z.of_nat (length l)) j)) l 0%Q.

(* Haar wavelet of half-width h at position k: (sum of the h values from k on)
   minus (sum of the h values before k), on the padded signal *)
Definition haar_window (l : list Q) (h k : Z) : Q :=
  (wsum (padded l) k (Z.to_nat h) - wsum (padded l) (k - h) (Z.to_nat h))%Q.

(* weighted: difference of the weighted means of the two windows *)
Definition padded_prod (l w : list Q) (j : Z) : Q := (padded l j * padded w j)%Q.
Definition haar_window_w (l w : list Q) (h k : Z) : Q :=
  (wsum (padded_prod l w) k (Z.to_nat h) / wsum (padded w) k (Z.to_nat h)
   - wsum (padded_prod l w) (k - h) (Z.to_nat h) / wsum (padded w) (k - h) (Z.to_nat h))%Q.

(* strictly increasing list of integers *)
Definition ssorted (l : list Z) : Prop := StronglySorted Z.lt l.

(* start/end/size columns tile s..n-1: contiguous, inclusive ends, positive sizes *)
Fixpoint tiles_from (s n : Z) (st ed sz : list Z) : Prop :=
  match st, ed, sz with
  | s' :: st', e :: ed', z :: sz' =>
      s' = s /\ z = e - s + 1 /\ 0 < z /\
      match st' with
      | [] => e = n - 1 /\ ed' = [] /\ sz' = []
      | _ => tiles_from (e + 1) n st' ed' sz'
      end
  | _, _, _ => False
  end.

(* a noiseless step: a before position t, b from t on *)
Definition step_signal (a b : Q) (t n : nat) : list Q := repeat a t ++ repeat b (n - t).

(* two clean steps: a before t1, b on t1..t2-1, c from t2 on *)
Definition two_step_signal (a b c : Q) (t1 t2 n : nat) : list Q :=
  repeat a t1 ++ repeat b (t2 - t1) ++ repeat c (n - t2).

(* the tent of half-width h centred at t: h at t, falling by one per bin to 0 at distance h *)
Definition tent (h t k : Z) : Z := Z.max 0 (h - Z.abs (k - t)).
Definition tentQ (h t k : Z) : Q := inject_Z (tent h t k).

(* unit step at t *)
Definition ustep (t j : Z) : Q := if t <=? j then 1%Q else 0%Q.

(* share of the weight of the h bins s .. s+h-1 (mirror-padded) that lies at or after position t *)
Definition weight_share_after (w : list Q) (t h s : Z) : Q :=
  (wsum (fun j => ustep t j * padded w j)%Q s (Z.to_nat h) / wsum (padded w) s (Z.to_nat h))%Q.

(* shape of the weighted Haar convolution of a step at t, per unit of (b - a) * scale: the share of
   the upper window's weight past the step minus that of the lower window -- 0 up to t-h, strictly
   increasing to 1 at t, strictly decreasing to 0 at t+h, 0 after *)
Definition weighted_tent (w : list Q) (t h k : Z) : Q :=
  (weight_share_after w t h k - weight_share_after w t h (k - h))%Q.

(* weights: none, or the same positive weight for every bin *)
Definition uniform_weights (n : nat) (wt : option (list Q)) : Prop :=
  match wt with
  | None => True
  | Some w => exists c, (0 < c)%Q /\ w = repeat c n
  end.

(* amplitude per unit of tent: (b - a) / sqrt(2h) unweighted; sqrt(h/2) * (b - a) / h weighted *)
Definition step_amp (scale : Q) (wt : option (list Q)) (h : Z) (d : Q) : Q :=
  match wt with
  | None => (d / scale)%Q
  | Some _ => (scale * d / inject_Z h)%Q
  end.

(* ---------- segment means (SegmentByPeaks) ---------- *)

(* element j of a list, 0 outside *)
Definition at_ (l : list Q) (j : Z) : Q := nth (Z.to_nat j) l 0%Q.

(* plain mean of the bins s .. e-1 *)
Definition range_mean (d : list Q) (s e : Z) : Q :=
  (wsum (at_ d) s (Z.to_nat (e - s)) / inject_Z (e - s))%Q.

(* total weight and weighted mean of the bins s .. e-1 *)
Definition range_weight (w : list Q) (s e : Z) : Q := wsum (at_ w) s (Z.to_nat (e - s)).
Definition range_wmean (d w : list Q) (s e : Z) : Q :=
  (wsum (fun j => at_ d j * at_ w j)%Q s (Z.to_nat (e - s)) / range_weight w s e)%Q.

(* what SegmentByPeaks promises for the bins s .. e-1: the weighted mean when weights are given
   and their total over the segment is positive, the plain mean otherwise *)
Definition is_segment_mean (d : list Q) (wt : option (list Q)) (s e : Z) (m : Q) : Prop :=
  match wt with
  | None => (m == range_mean d s e)%Q
  | Some w => ((0 < range_weight w s e)%Q -> (m == range_wmean d w s e)%Q) /\
              (~ (0 < range_weight w s e)%Q -> (m == range_mean d s e)%Q)
  end.

(* breakpoints strictly inside 0..n, strictly increasing *)
Definition breaks_in (n : Z) (bps : list Z) : Prop :=
  ssorted bps /\ forall x, In x bps -> 0 < x < n.

(* the half-open segments cut by the breakpoints: (0,p1), (p1,p2), ..., (pk,n) *)
Fixpoint segments_of (prev : Z) (bps : list Z) (n : Z) : list (Z * Z) :=
  match bps with
  | [] => [(prev, n)]
  | p :: t => (prev, p) :: segments_of p t n
  end.

(* weights, when given, have the data's length *)
Definition wt_len_ok (d : list Q) (wt : option (list Q)) : Prop :=
  match wt with Some w => length w = length d | None => True end.

(* rows (start, end inclusive, size, mean) of haar_result_of, one per segment *)
Fixpoint rows_ok (data : list Q) (wt : option (list Q)) (segs : list (Z * Z)) (st ed sz : list Z) (mn : list Q) : Prop :=
  match segs, st, ed, sz, mn with
  | [], [], [], [], [] => True
  | (s, e) :: segs', s' :: st', e' :: ed', z :: sz', m :: mn' =>
      s' = s /\ e' = (e - 1) /\ z = (e - s) /\ is_segment_mean data wt s e m /\
      rows_ok data wt segs' st' ed' sz' mn'
  | _, _, _, _, _ => False
  end.

(* rows (start coordinate, end coordinate, mean, probes) of the one_chrom table: the segment s..e-1
   starts where its first bin starts, ends where its last bin ends, counts e-s bins and carries the
   (weighted) mean of exactly those bins *)
Fixpoint table_ok (data : list Q) (wt : option (list Q)) (starts ends : list Z) (segs : list (Z * Z))
    (rows : list (Z * Z * Q * Z)) : Prop :=
  match segs, rows with
  | [], [] => True
  | (s, e) :: segs', (cs, ce, m, z) :: rows' =>
      cs = nth (Z.to_nat s) starts 0 /\ ce = nth (Z.to_nat (e - 1)) ends 0 /\ z = e - s /\
      is_segment_mean data wt s e m /\ table_ok data wt starts ends segs' rows'
  | _, _ => False
  end.

