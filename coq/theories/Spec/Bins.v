(* Specification vocabulary for C12 (target / antitarget bins), stated against
   sets of base pairs per chromosome, with the literal numbers of the property
   text: the 500-base margin, 1.5 x the average size, the 1/16 default minimum
   (2 * floor(avg / 32)), the 3/4 guard of the size clause. *)
From CNV Require Import Base.Prelude Base.Str Model.IvRow Model.Access Model.Target Spec.Cover.
From CNV Require Import Model.Chromsort Proofs.ChromsortLemmas.
From CNV Require Spec.RangeQuery.
Notation unique_scan := CNV.Spec.RangeQuery.unique_scan.

(* base x of chromosome c lies in some row of the genome table t *)
Definition gcovers (t : list grow) (c : string) (x : Z) : Prop := covers (filter (on c) t) x.

(* ... in an accessible region shrunk by 500 bases at both ends *)
Definition shrunk_access (acc : list grow) (c : string) (x : Z) : Prop :=
  exists a, In a acc /\ chrom a = c /\ lo a + 500 <= x < hi a - 500.

(* ... within 500 bases of a target row (a zero-width row is a position) *)
Definition near_target (targets : list grow) (c : string) (x : Z) : Prop :=
  exists t, In t targets /\ chrom t = c /\ lo t - 500 <= x < hi t + 500.

(* off-target accessible sequence *)
Definition off_target (acc targets : list grow) (c : string) (x : Z) : Prop :=
  shrunk_access acc c x /\ ~ near_target targets c x.

(* [s, e) is a maximal stretch of P *)
Definition stretch (P : Z -> Prop) (s e : Z) : Prop :=
  s < e /\ (forall x, s <= x < e -> P x) /\ ~ P (s - 1) /\ ~ P e.

(* n = max(1, round(span / avg)), round = to nearest, ties to even, avg = num / den > 0 *)
Definition is_nbins (span : Z) (avg : Q) (n : Z) : Prop :=
  exists k, is_round_half_even (span * Zpos (Qden avg)) (Qnum avg) k /\ n = Z.max 1 k.

(* the rows `out` cut [s, e) into n consecutive abutting bins of equal size +-1 carrying payload p *)
Definition equal_bins {A} (s e n : Z) (p : A) (out : list (@row A)) : Prop :=
  Z.of_nat (length out) = n /\ tiles s e out /\
  Forall (fun b => pay b = p /\ (e - s) - n <= n * (hi b - lo b) <= (e - s) + n) out.

(* preconditions: tables as GenomicArray.sort leaves them (per chromosome sorted by
   start), non-negative access coordinates *)
Definition sorted_table (t : list grow) : Prop := forall c, sorted_lo (filter (on c) t).
Definition nonneg_table (t : list grow) : Prop := Forall (fun r => 0 <= lo r) t.

(* precondition of the antitarget theorems: positive average size, a cut-point
   oracle meeting the C06 contract, sorted targets, non-negative access coordinates *)
Definition anti_pre (targets : list grow) (access : option (list grow)) (avg : Q)
                    (cut : Z -> Z -> Z -> Z) : Prop :=
  (0 < avg)%Q /\ (forall span n, cut_contract span n (cut span n)) /\ sorted_table targets /\
  (forall acc, access = Some acc -> nonneg_table acc).

(* the guard of the lower size bound: min <= 3/4 avg - 1 (or no minimum at all) *)
Definition min_guard (avg : Q) (mn : Z) : Prop := mn <= 0 \/ (inject_Z mn <= (3 # 4) * avg - 1)%Q.

(* the contig rule: a contig of the access table is binned when it is targeted, or
   canonically named -- provided some targeted contig is canonically named;
   otherwise (no targeted contig looks canonical) when its name is not longer
   than the longest targeted name *)
Definition targeted (targets : list grow) (c : string) : Prop := exists t, In t targets /\ chrom t = c.
Definition some_canonical_target (targets : list grow) : Prop :=
  exists t, In t targets /\ is_canonical_contig_name (chrom t) = true.
Definition kept_contig (targets : list grow) (c : string) : Prop :=
  targeted targets c \/
  (some_canonical_target targets /\ is_canonical_contig_name c = true) \/
  (~ some_canonical_target targets /\
   exists t, In t targets /\ Z.of_nat (String.length c) <= Z.of_nat (String.length (chrom t))).

(* the rule of the property text: binned contigs are those targeted or canonically named
   (what the code does when some targeted contig is canonically named; kept_contig above
   is the code's rule in general) *)
Definition binned_contig (targets : list grow) (c : string) : Prop :=
  targeted targets c \/ is_canonical_contig_name c = true.

(* off-target accessible sequence of the property text, for a given access table *)
Definition shrunk_binned_access (acc targets : list grow) (c : string) (x : Z) : Prop :=
  exists a, In a acc /\ binned_contig targets (chrom a) /\ chrom a = c /\ lo a + 500 <= x < hi a - 500.
Definition off_target_text (acc targets : list grow) (c : string) (x : Z) : Prop :=
  shrunk_binned_access acc targets c x /\ ~ near_target targets c x.

(* the default minimum bin size: 1/16 of the average, computed as 2 * floor(avg / 32) *)
Definition default_min_spec (avg : Q) (m : Z) : Prop :=
  exists f, m = 2 * f /\ (inject_Z f <= avg / 32)%Q /\ (avg / 32 < inject_Z (f + 1))%Q.

(* (chromosome, start, end) of a row *)
Definition coords (r : grow) : string * Z * Z := (chrom r, lo r, hi r).

(* ---- order across chromosomes ----------------------------------------------------
   GenomicArray.sort orders rows by (sorter_chrom(chromosome), start, end); the key of a
   row is Model.Chromsort.chrom_key of its chromosome name. *)
Definition ckey (r : grow) : Z * string := chrom_key (chrom r).
Definition key_le (a b : grow) : Prop := ckey_leb (ckey a) (ckey b) = true.

(* chromosome keys never decrease along the table *)
Definition key_sorted (t : list grow) : Prop := StronglySorted key_le t.

(* genomic order of non-overlapping bins: an earlier row has a smaller chromosome key, or
   lies on the same chromosome entirely before the later one *)
Definition genomic_before (a b : grow) : Prop :=
  ckey_ltb (ckey a) (ckey b) = true \/ (chrom a = chrom b /\ hi a <= lo b).
Definition genomic_sorted (t : list grow) : Prop := StronglySorted genomic_before t.

(* distinct chromosome names of the table have distinct sort keys (false e.g. of a table
   that mixes "chr1" and "1") *)
Definition key_injective (t : list grow) : Prop :=
  forall a b, In a t -> In b t -> ckey a = ckey b -> chrom a = chrom b.

(* the table as GenomicArray.sort leaves it: sorted by (key, start, end) *)
Definition genome_sorted (t : list grow) : Prop := regions_sorted coords t.

(* ---- sizes --------------------------------------------------------------------------
   the strengthened cut-point contract: besides lying within one base below the exact cut
   point, a cut is exact when the region divides evenly (i * (span / n) is then computed
   without rounding error in floating point as long as span < 2^53) *)
Definition cut_contract_exact (span n : Z) (cut : Z -> Z) : Prop :=
  cut_contract span n cut /\ (span mod n = 0 -> forall i, 1 <= i < n -> cut i = i * (span / n)).

(* ---- number of bins in floating point ------------------------------------------------
   q' (the float quotient span / avg) is a monotone rounding of the exact q that leaves the
   half-integers fixed: it never crosses a tie *)
Definition half (k : Z) : Q := inject_Z k + (1 # 2).
Definition rounding_of (q q' : Q) : Prop :=
  forall k : Z, (q <= half k -> q' <= half k)%Q /\ (half k <= q -> half k <= q')%Q.
Definition is_tie (q : Q) : Prop := exists k : Z, (q == half k)%Q.

(* ---- label shortening ---------------------------------------------------------------------
   the choice `min(names, key=len)` makes among equally short names of a Python set (first in
   the set's iteration order): all that is known is that it returns one of the names it is given *)
Definition pick_ok (pick : list string -> string) : Prop := forall l, l <> [] -> In (pick l) l.

(* filter_names' exclude list: names starting with "mRNA" are the less meaningful ones *)
Definition not_mrna (n : string) : bool := negb (str_prefix "mRNA" n).

(* ---- annotation -------------------------------------------------------------------------
   the label annotation gives a bin: "-" when no annotation row overlaps it, otherwise the
   distinct names of the overlapping rows, in table order of first appearance, joined by "," *)
Definition overlapping (annot : list grow) (b : grow) : list grow :=
  filter (fun a => on (chrom b) a && ((lo a <? hi b) && (lo b <? hi a))) annot.

Definition annot_label (annot : list grow) (b : grow) : string :=
  match overlapping annot b with
  | [] => "-"%string
  | hits => String.concat "," (unique_scan (map gene hits))
  end.
