(* C15 -- what the property text says, stated against the table itself, with the literal numbers
   of the text (a shift by one constant; 0; -1; +1; "named like autosomes"; null-coverage).
   The model functions of Model/Center.v / Model/Sex.v are proved to meet these in Proofs/Center*.v,
   Proofs/Sex*.v. *)
From CNV Require Import Base.Prelude Base.Str Base.QNum Model.Center.
Local Open Scope Q_scope.

(* ---- "adds one constant to every bin and leaves everything else alone" ------- *)
Definition same_but_log2 (c : Q) (b b' : bin) : Prop :=
  b_chrom b' = b_chrom b /\ b_start b' = b_start b /\ b_end b' = b_end b /\ b_gene b' = b_gene b /\
  b_depth b' = b_depth b /\ b_weight b' = b_weight b /\ b_log2 b' == b_log2 b + c.

(* row i of the result is row i of the input with c added to its log2: same rows, same order *)
Definition uniform_shift (c : Q) (t t' : list bin) : Prop := Forall2 (same_but_log2 c) t t'.

(* ---- "named like autosomes": an optional "chr", then one or more decimal digits, nothing else *)
Definition numeric_name (s : string) : Prop :=
  exists ds : list ascii, ds <> [] /\ Forall (fun a => is_digit a = true) ds /\
    (chars s = ds \/ chars s = chars "chr" ++ ds).

(* ---- null-coverage bins: log2 below -15 (= -20 - (-5)), or a depth column reading 0 --------- *)
Definition null_coverage (b : bin) : Prop :=
  b_log2 b < -15 \/ (exists d, b_depth b = Some d /\ d == 0).
Definition null_coverage_b (b : bin) : bool :=
  qlt_b (b_log2 b) (-15) || match b_depth b with Some d => qeq_b d 0 | None => false end.

(* ---- the bins of the RESULT that the estimate is about.  Low-coverage bins are recognised on the
   input (the shift moves their log2), so the result rows are picked by position: row i of the
   result is kept when row i of the input is not a null-coverage bin ---------------------------- *)
Fixpoint kept_rows (skip_low : bool) (t t' : list bin) : list bin :=
  match t, t' with
  | b :: r, b' :: r' =>
      if skip_low && null_coverage_b b then kept_rows skip_low r r' else b' :: kept_rows skip_low r r'
  | _, _ => []
  end.

(* ---- per-chromosome grouping: chromosomes in order of first appearance, each with the log2 of
   its rows in table order ----------------------------------------------------------------------- *)
Fixpoint first_names (seen : list string) (t : list bin) : list string :=
  match t with
  | [] => []
  | b :: r => if mem_string (b_chrom b) seen then first_names seen r
              else b_chrom b :: first_names (b_chrom b :: seen) r
  end.
Definition chrom_values (c : string) (t : list bin) : list Q :=
  map b_log2 (filter (fun b => String.eqb (b_chrom b) c) t).
Definition per_chromosome (t : list bin) : list (list Q) :=
  map (fun c => chrom_values c t) (first_names [] t).

(* the two-level estimate of the text: the estimator per chromosome first, then across chromosomes *)
Definition two_level (est : list Q -> Q) (sel : list bin) : Q := est (map est (per_chromosome sel)).
Definition flat_level_est (est : list Q -> Q) (sel : list bin) : Q := est (map b_log2 sel).

(* ---- chromosomal sex ------------------------------------------------------------------------- *)
(* the level of chrX relative to the autosomes expected for a sample of the given sex against the
   stated reference: +1 for a female sample on a male reference, -1 for a male sample on a female
   reference, 0 otherwise *)
Definition x_offset (female hap_ref : bool) : Q :=
  if female && hap_ref then 1 else if negb female && negb hap_ref then -1 else 0.

(* expect_flat_log2: 0 on autosomes (PAR-X counts as autosomal with a PAR build), -1 on Y,
   -1 on X only for a male reference *)
Definition flat_level (hap_ref is_x is_y is_parx : bool) : Q :=
  if is_y then -1 else if is_x && hap_ref && negb is_parx then -1 else 0.

(* a noise-free sample at the expected levels: autosomal bins at level a, chrX bins at a + x_offset,
   chrY bins (if any; only a male sample's are constrained) at a; weights (if any) non-negative *)
Record idealised (a : Q) (female hap_ref : bool) (t : list bin) : Prop := {
  id_auto_exists : exists b, In b t /\ is_auto_name (b_chrom b) = true;
  id_x_exists : exists b, In b t /\ b_chrom b = x_label t;
  id_auto : forall b, In b t -> is_auto_name (b_chrom b) = true -> b_log2 b == a;
  id_x : forall b, In b t -> b_chrom b = x_label t -> b_log2 b == a + x_offset female hap_ref;
  id_y : female = false -> forall b, In b t -> b_chrom b = y_label t -> b_log2 b == a;
  id_w : forall b w, In b t -> b_weight b = Some w -> 0 <= w
}.

(* the same relative to a PAR build: "autosomal", "chrX" and "chrY" are what the code's filters select -- the
   numerically named chromosomes plus PAR1X / PAR2X at level a, chrX outside them at a + x_offset, a male sample's
   chrY outside PAR1Y / PAR2Y at a (PAR-Y bins, which carry no reads, are unconstrained) *)
Record idealised_build (a : Q) (female hap_ref : bool) (build : option parb) (t : list bin) : Prop := {
  idb_auto_exists : exists b, In b t /\ is_auto_name (b_chrom b) = true;
  idb_x_exists : exists b, In b t /\ chr_x_filter t build b = true;
  idb_auto : forall b, In b t -> auto_sel t build b = true -> b_log2 b == a;
  idb_x : forall b, In b t -> chr_x_filter t build b = true -> b_log2 b == a + x_offset female hap_ref;
  idb_y : female = false -> forall b, In b t -> chr_y_filter t build b = true -> b_log2 b == a;
  idb_w : forall b w, In b t -> b_weight b = Some w -> 0 <= w
}.

(* ---- bounded noise: the deterministic reading of "bins sit at the levels expected ... with bin noise" ------------- *)
(* v is within eps of the level c *)
Definition near (eps c v : Q) : Prop := Qabs.Qabs (v - c) <= eps.
Definition near_b (eps c v : Q) : bool := qle_b (qsub c eps) v && qle_b v (qadd c eps).

(* chrY: a male sample's bins sit at the autosomal level; a female sample's are "deep negative (below -3)" in the
   words of compare_sex_chromosomes: at or below a - 3, up to eps *)
Definition y_near (eps a : Q) (female : bool) (v : Q) : Prop :=
  if female then v <= a - 3 + eps else near eps a v.
Definition y_near_b (eps a : Q) (female : bool) (v : Q) : bool :=
  if female then qle_b v (qadd (qsub a 3) eps) else near_b eps a v.

(* every bin within eps of its level: the autosomal ones (what the code's filters select: numerically named, PAR-X
   with a build) of a, chrX (outside PAR-X) of a + x_offset, chrY (outside PAR-Y) as above; weights non-negative *)
Record bounded_noise (eps a : Q) (female hap_ref : bool) (build : option parb) (t : list bin) : Prop := {
  bn_auto_exists : exists b, In b t /\ is_auto_name (b_chrom b) = true;
  bn_x_exists : exists b, In b t /\ chr_x_filter t build b = true;
  bn_auto : forall b, In b t -> auto_sel t build b = true -> near eps a (b_log2 b);
  bn_x : forall b, In b t -> chr_x_filter t build b = true -> near eps (a + x_offset female hap_ref) (b_log2 b);
  bn_y : forall b, In b t -> chr_y_filter t build b = true -> y_near eps a female (b_log2 b);
  bn_w : forall b w, In b t -> b_weight b = Some w -> 0 <= w
}.
Definition weight_ok_b (b : bin) : bool := match b_weight b with Some w => qle_b 0 w | None => true end.
Definition bounded_noise_b (eps a : Q) (female hap_ref : bool) (build : option parb) (t : list bin) : bool :=
  existsb (fun b => is_auto_name (b_chrom b)) t && existsb (chr_x_filter t build) t &&
  forallb (fun b =>
             (negb (auto_sel t build b) || near_b eps a (b_log2 b)) &&
             (negb (chr_x_filter t build b) || near_b eps (qadd a (x_offset female hap_ref)) (b_log2 b)) &&
             (negb (chr_y_filter t build b) || y_near_b eps a female (b_log2 b)) &&
             weight_ok_b b) t.

(* the weaker hypothesis the decision really rests on: only the CENTRES of the three sets of bins (ctr: the median,
   or the weighted median when the table has weights) are within eps of their levels; single bins may be anywhere *)
Record centred_noise (ctr : list bin -> Q) (eps a : Q) (female hap_ref : bool) (build : option parb) (t : list bin)
  : Prop := {
  cn_auto_exists : exists b, In b t /\ is_auto_name (b_chrom b) = true;
  cn_x_exists : exists b, In b t /\ chr_x_filter t build b = true;
  cn_auto : near eps a (ctr (autosomes t build));
  cn_x : near eps (a + x_offset female hap_ref) (ctr (filter (chr_x_filter t build) t));
  cn_y : filter (chr_y_filter t build) t <> [] -> y_near eps a female (ctr (filter (chr_y_filter t build) t));
  cn_w : forall b w, In b t -> b_weight b = Some w -> 0 <= w
}.
Definition centred_noise_b (ctr : list bin -> Q) (eps a : Q) (female hap_ref : bool) (build : option parb)
  (t : list bin) : bool :=
  existsb (fun b => is_auto_name (b_chrom b)) t && existsb (chr_x_filter t build) t &&
  near_b eps a (ctr (autosomes t build)) &&
  near_b eps (qadd a (x_offset female hap_ref)) (ctr (filter (chr_x_filter t build) t)) &&
  match filter (chr_y_filter t build) t with
  | [] => true
  | chry => y_near_b eps a female (ctr chry)
  end &&
  forallb weight_ok_b t.
