(* Shared vocabulary for lists of half-open regions (lo, hi) on one sequence. *)
From CNV Require Import Base.Prelude.

Definition cov (l : list (Z * Z)) (x : Z) : Prop :=
  exists p, In p l /\ fst p <= x < snd p.

(* every region is non-empty, the first starts at least m after prev_end, and
   consecutive regions are separated by at least m bases *)
Fixpoint sep_from (m prev_end : Z) (l : list (Z * Z)) : Prop :=
  match l with
  | [] => True
  | (a, b) :: t => prev_end + m <= a /\ a < b /\ sep_from m b t
  end.

Lemma sep_from_weaken m p p' l : p' <= p -> sep_from m p l -> sep_from m p' l.
Proof. destruct l as [|[a b] t]; cbn; [auto|]. intros ? (?&?&?). repeat split; auto; lia. Qed.

Lemma cov_nil x : ~ cov [] x.
Proof. intros (p & [] & _). Qed.

Lemma cov_cons a b l x : cov ((a, b) :: l) x <-> a <= x < b \/ cov l x.
Proof.
  unfold cov; split.
  - intros (p & [<-|Hin] & H); [left; exact H|right; eauto].
  - intros [H|(p & Hin & H)]; [exists (a, b); split; [now left|exact H]|exists p; split; [now right|exact H]].
Qed.

Lemma cov_app l1 l2 x : cov (l1 ++ l2) x <-> cov l1 x \/ cov l2 x.
Proof.
  unfold cov; split.
  - intros (p & Hin & H). apply in_app_or in Hin as [?|?]; [left|right]; eauto.
  - intros [(p & Hin & H)|(p & Hin & H)]; exists p; split; auto using in_or_app.
Qed.
