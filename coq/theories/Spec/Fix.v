(* C04 -- what `fix` promises, stated with the numbers of the property text (+-5, 1, 0, 0.3-0.7,
   0.0001, 1) against plain tables: rows of a sample (target / antitarget) table, rows of a
   reference table, keyed by (chromosome, start, end).  The row types are those of Model/Fix.v;
   nothing here mentions how do_fix computes. *)
From CNV Require Import Base.Prelude Base.Str Base.QNum Model.Chromsort Model.Fix.
From Coq Require Import Qround Qabs.
Local Open Scope Q_scope.

(* ---- the reference filter, literally ------------------------------------------------ *)

(* "log2 within +-5, spread <= 1, depth > 0, GC within 0.3-0.7" (depth / gc only if the column exists) *)
Definition lit_pass_b (c : cfg) (r : rrow) : bool :=
  qle_b (-5) (r_log2 r) && qle_b (r_log2 r) 5
  && qle_b (r_spread r) 1
  && (negb (has_rdepth c) || qlt_b 0 (r_depth r))
  && (negb (has_gc c) || (qle_b (3 # 10) (r_gc r) && qle_b (r_gc r) (7 # 10))).

(* the reference row of a coordinate triple: the first row carrying exactly these coordinates *)
Definition ref_row (ref : list rrow) (k : key) : option rrow :=
  find (fun r => key_eqb k (rkey3 r)) ref.

Definition kept_b (c : cfg) (ref : list rrow) (k : key) : bool :=
  match ref_row ref k with Some r => lit_pass_b c r | None => false end.

(* the bins `fix` must emit: the sample bins whose reference bin passes, in genomic order *)
Definition expected_bins (c : cfg) (ref : list rrow) (target anti : list srow) : list key :=
  sort_regions (fun k => k) (filter (kept_b c ref) (map skey target ++ map skey anti)).

(* Well-formed reference: depths are not negative, and no GC value lies within 1e-9 below a decimal
   bound (the code holds 0.3 and 0.7 as binary doubles, which lie a hair below the decimals). *)
Definition gc_clear (g : Q) : Prop :=
  (g <= (3 # 10) - (1 # 1000000000) \/ (3 # 10) <= g) /\
  (g <= (7 # 10) - (1 # 1000000000) \/ (7 # 10) < g).
Definition ref_wf (c : cfg) (ref : list rrow) : Prop :=
  forall r, In r ref -> 0 <= r_depth r /\ gc_clear (r_gc r).

(* sort keys (sorter_chrom(chromosome), start, end) pairwise distinct *)
Definition distinct_bins (ks : list key) : Prop := NoDup (map rkey_of ks).

(* ---- malformed inputs ----------------------------------------------------------------- *)

Definition malformed (target anti : list srow) (ref : list rrow) : Prop :=
  ~ NoDup (map skey target) \/ ~ NoDup (map skey anti)
  \/ ((target <> [] \/ anti <> []) /\ ~ NoDup (map rkey3 ref))
  \/ (exists s, In s (target ++ anti) /\ ref_row ref (skey s) = None).

(* ---- null coverage ----------------------------------------------------------------------- *)

(* a bin the code regards as having no coverage: log2 below -15 (= NULL_LOG2_COVERAGE -
   MIN_REF_COVERAGE), or a zero depth when the sample table has a depth column *)
Definition null_cov (c : cfg) (s : srow) : Prop :=
  s_log2 s < -15 \/ (has_sdepth c = true /\ s_depth s == 0).

Definition null_cov_b (c : cfg) (s : srow) : bool :=
  qlt_b (s_log2 s) (-15) || (has_sdepth c && qeq_b (s_depth s) 0).

(* a sample bin that survives the reference filter and has coverage *)
Definition usable (c : cfg) (ref : list rrow) (s : srow) : Prop :=
  kept_b c ref (skey s) = true /\ null_cov_b c s = false.

(* the same bin with its log2 moved by d (rescaling the depth of a sample by 2^d) *)
Definition shifted_row (d : Q) (s s' : srow) : Prop :=
  s_chrom s' = s_chrom s /\ s_lo s' = s_lo s /\ s_hi s' = s_hi s /\ s_gene s' = s_gene s /\
  s_depth s' = s_depth s /\ s_log2 s' == s_log2 s + d.

(* ---- centred ---------------------------------------------------------------------------------- *)

(* chromosome names of the form (chr)?<digits> *)
Definition autosomal (name : string) : bool := is_auto_name name.

(* median of the per-chromosome medians of (chromosome, value) pairs; chromosomes in any order *)
Definition median_of_chrom_medians (l : list (string * Q)) : Q := cmed l.

(* the rows the centre is taken over: autosomal ones if there are any, otherwise all *)
Definition centre_rows (l : list (string * Q)) : list (string * Q) :=
  if existsb (fun p => autosomal (fst p)) l then filter (fun p => autosomal (fst p)) l else l.

Definition centred (l : list (string * Q)) : Prop :=
  centre_rows l <> [] -> median_of_chrom_medians (centre_rows l) == 0.

(* the final centring shift s moves a bin across the null-coverage cut-off: it has a depth (when the table has
   the column) and its log2 lies on one side of -15 before and on the other side after the shift *)
Definition crosses (c : cfg) (s : Q) (sr : srow) : Prop :=
  ~ (has_sdepth c = true /\ s_depth sr == 0) /\
  ((s_log2 sr < -15 /\ -15 <= s_log2 sr + s) \/ (-15 <= s_log2 sr /\ s_log2 sr + s < -15)).

(* a class of bins (off-target by gene name, or on-target) whose residual vector the code hands to
   biweight_midvariance is empty although the class has bins: the variance is NaN and so is every weight of the
   class (open finding c04-weight-nan-no-usable-target).  [l]: the bins after the reference was subtracted. *)
Definition class_all_null (c : cfg) (anti : bool) (l : list brow) : Prop :=
  forall b, In b l -> is_anti_gene b = anti -> null_cov_b c (fst b) = true.

(* ---- rolling median over an order ---------------------------------------------------------------- *)

(* the signal continued by reflection at both ends (the end value is repeated): index i may run
   from -n to 2n-1 *)
Definition mirror_nth (x : list Q) (i : Z) : Q :=
  let n := Z.of_nat (length x) in
  if (i <? 0)%Z then nthq (Z.to_nat (- i - 1)) x
  else if (n <=? i)%Z then nthq (Z.to_nat (2 * n - 1 - i)) x
  else nthq (Z.to_nat i) x.

(* median of the 2*wing+1 values centred on position j *)
Definition window_median (wing : nat) (x : list Q) (j : nat) : Q :=
  median (map (fun k => mirror_nth x (Z.of_nat j + Z.of_nat k - Z.of_nat wing)) (seq 0 (2 * wing + 1))).

Definition rolling_spec (wing : nat) (x : list Q) : list Q :=
  map (window_median wing x) (seq 0 (length x)).

(* rows given in the covariate order: each log2 minus the median of the window around its position *)
Definition window_corrected (wing : nat) (order : list brow) : list brow :=
  map (fun jb => bset_log2 (Qred (blog2 (snd jb) - window_median wing (map blog2 order) (fst jb))) (snd jb))
      (combine (seq 0 (length order)) order).

(* non-decreasing covariate along a list of (covariate, row) *)
Definition cov_sorted {A} (l : list (Q * A)) : Prop :=
  StronglySorted (fun a b => fst a <= fst b) l.

(* ---- oracle contracts ------------------------------------------------------------------------------- *)

(* np.sqrt on bin sizes: positive on positive sizes, monotone *)
Definition sqrt_contract (sqrtZ : Z -> Q) : Prop :=
  (forall z, (0 < z)%Z -> 0 < sqrtZ z) /\ (forall a b, (a <= b)%Z -> sqrtZ a <= sqrtZ b).

(* descriptives.biweight_midvariance(..) ** 2: a square *)
Definition variance_contract (bmv2 : list Q -> Q) : Prop := forall l, 0 <= bmv2 l.

(* np.random.permutation(n) after seed(0xA5EED): a permutation of 0..n-1 *)
Definition perm_contract (perm : list nat) (n : nat) : Prop := Permutation perm (seq 0 n).
