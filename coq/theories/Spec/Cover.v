(* Specification object for C06: the set of base pairs covered by a
   chromosome's interval table (rows are 0-based half-open), as a predicate and
   as a boolean decision procedure (covers_b_spec in Proofs/IvCover.v), plus the
   order / disjointness notions and the rounding rule the property text uses. *)
From CNV Require Import Base.Prelude Model.IvRow.

Section Cover.
Context {A : Type}.
Notation row := (@row A).

Definition covers (t : list row) (x : Z) : Prop :=
  exists r, In r t /\ lo r <= x < hi r.

Definition covers_b (t : list row) (x : Z) : bool :=
  existsb (fun r => (lo r <=? x) && (x <? hi r)) t.

(* every row is a proper interval *)
Definition valid (t : list row) : Prop := Forall (fun r => lo r < hi r) t.

(* every pair of consecutive rows satisfies P *)
Fixpoint chain (P : row -> row -> Prop) (t : list row) : Prop :=
  match t with
  | a :: t' => match t' with b :: _ => P a b | [] => True end /\ chain P t'
  | [] => True
  end.

(* sorted by start and pairwise disjoint (abutting allowed) *)
Definition sorted_disjoint (t : list row) : Prop := chain (fun a b => hi a <= lo b) t.
(* sorted, disjoint and non-abutting: at least one uncovered base in between *)
Definition sorted_separated (t : list row) : Prop := chain (fun a b => hi a < lo b) t.
(* sorted by start *)
Definition sorted_lo (t : list row) : Prop := chain (fun a b => lo a <= lo b) t.
(* consecutive rows overlap by fewer than bp bases *)
Definition overlap_below (bp : Z) (t : list row) : Prop := chain (fun a b => hi a - lo b < bp) t.

(* x is a boundary (start or end) of some row *)
Definition boundary (t : list row) (x : Z) : Prop :=
  exists r, In r t /\ (x = lo r \/ x = hi r).

(* the rows abut one another and run exactly from s to e *)
Fixpoint tiles (s e : Z) (t : list row) : Prop :=
  match t with
  | [] => s = e
  | r :: t' => lo r = s /\ tiles (hi r) e t'
  end.

End Cover.

(* the integers of [a, a + n) *)
Fixpoint zrange (a : Z) (n : nat) : list Z :=
  match n with O => [] | S k => a :: zrange (a + 1) k end.

(* number of bases of the window [a, a + n) covered by t *)
Definition count_covered {A} (t : list (@row A)) (a : Z) (n : nat) : Z :=
  Z.of_nat (length (filter (covers_b t) (zrange a n))).

(* n is s / a rounded to the nearest integer, ties to the even one (a > 0) *)
Definition is_round_half_even (s a n : Z) : Prop :=
  2 * Z.abs (s - n * a) <= a /\ (2 * Z.abs (s - n * a) = a -> Z.even n = true).

(* x clipped to [0, chromosome size] (no upper bound when no size is given) *)
Definition clip_to (size : option Z) (x : Z) : Z :=
  match size with
  | Some s => Z.min (Z.max x 0) s
  | None => Z.max x 0
  end.

(* the subdivide oracle contract (DESIGN section 2): cut i is an integer within
   one below the exact i-th cut point i * span / n *)
Definition cut_contract (span n : Z) (cut : Z -> Z) : Prop :=
  forall i, 1 <= i < n -> i * span - n <= n * cut i <= i * span.

(* ---- payload clauses (merge / flatten combine the other fields of the rows an
   output row stands for) ------------------------------------------------------------ *)
(* input row r lies inside output row o: the rows a merged row covers *)
Definition iv_within {A B} (o : @row A) (r : @row B) : bool := (lo o <=? lo r) && (hi r <=? hi o).
(* input row r contains output piece p: the rows a flattened piece is cut from *)
Definition iv_contains {A B} (p : @row A) (r : @row B) : bool := (lo r <=? lo p) && (hi p <=? hi r).

(* d = the distinct elements of l in order of first appearance (what pandas.unique
   returns): a duplicate-free list with the same members as l, ordered by the position
   of the first occurrence in l *)
Fixpoint iv_first_index (x : string) (l : list string) : nat :=
  match l with
  | [] => O
  | y :: t => if String.eqb x y then O else S (iv_first_index x t)
  end.

Definition iv_distinct_in_order (d l : list string) : Prop :=
  NoDup d /\ (forall x, In x d <-> In x l) /\
  StronglySorted (fun a b => (iv_first_index a l < iv_first_index b l)%nat) d.
