(* C11 -- specification side of the bounded-noise (deterministic) theorems about the HaarSeg core:
   what "clean profile plus noise of magnitude at most eps in every bin" means, and the explicit
   constants of the theorems (Props/C11.v, the C11_noise theorems).  Exact rational arithmetic. *)
From Coq Require Import QArith.Qabs.
From CNV Require Import Base.Prelude Spec.Haar.

Local Open Scope Q_scope.

(* sg = clean + e with |e_i| <= eps in every bin (the noise is whatever sg - clean is) *)
Definition noise_within (eps : Q) (clean sg : list Q) : Prop :=
  length sg = length clean /\
  forall i, (0 <= i < Z.of_nat (length clean))%Z -> Qabs (at_ sg i - at_ clean i) <= eps.

(* a flat profile at level c with bounded noise *)
Definition flat_within (eps c : Q) (sg : list Q) : Prop :=
  forall i, (0 <= i < Z.of_nat (length sg))%Z -> Qabs (at_ sg i - c) <= eps.

(* unweighted HaarConv at half-width h (divisor scale = sqrt(2h) in the code):
   - how far bounded noise can move any convolution value:           2 h eps / scale
   - the least the value at the step position t can be:       (h D - 2 h eps) / scale
   - the least drop per bin away from t inside the tent:          (D - 4 eps) / scale
   (D = |b - a| the height of the step) *)
Definition noise_bound_u (h : Z) (eps scale : Q) : Q := 2 * inject_Z h * eps / scale.
Definition peak_floor_u (h : Z) (D eps scale : Q) : Q := (inject_Z h * D - 2 * inject_Z h * eps) / scale.
Definition drop_per_bin_u (D eps scale : Q) : Q := (D - 4 * eps) / scale.

(* weighted HaarConv (factor scale = sqrt(h/2) in the code; positive weights): difference of two
   weighted window means, each moved by at most eps:                 2 eps scale *)
Definition noise_bound_w (eps scale : Q) : Q := 2 * eps * scale.
Definition peak_floor_w (D eps scale : Q) : Q := (D - 2 * eps) * scale.

(* all weights positive (the property's weights lie in [0.5, 1]) *)
Definition positive_weights (n : nat) (w : list Q) : Prop :=
  length w = n /\ Forall (fun x => 0 < x) w.

(* every weight lies in [wmin, wmax] *)
Definition weights_between (wmin wmax : Q) (w : list Q) : Prop :=
  Forall (fun x => wmin <= x /\ x <= wmax) w.

(* the peaks of a level that survive a threshold tau: extract(|conv[peaks]| >= tau, peaks) *)
Definition keep_ge (conv : list Q) (tau : Q) (peaks : list Z) : list Z :=
  filter (fun k => Qle_bool tau (Qabs (at_ conv k))) peaks.
