(* Specification object for C13: the maximal runs of non-N characters of a
   sequence, 0-based half-open, in order. `runs` is the character-level
   definition; `is_max_run` is the mathematical characterisation it is proved
   to satisfy (Proofs/Access.v: runs_sound, runs_complete). *)
From CNV Require Import Base.Prelude.

Section Runs.
Context {A : Type} (isN : A -> bool).

Definition close (o : option Z) (e : Z) : list (Z * Z) :=
  match o with Some s => [(s, e)] | None => [] end.

(* character-level machine: emitted runs and the still-open run *)
Fixpoint runs_line (l : list A) (pos : Z) (o : option Z) : list (Z * Z) * option Z :=
  match l with
  | [] => ([], o)
  | c :: t =>
      if isN c then
        let '(out, o') := runs_line t (pos + 1) None in (close o pos ++ out, o')
      else
        runs_line t (pos + 1) (match o with Some s => Some s | None => Some pos end)
  end.

Definition runs_from (l : list A) (pos : Z) (o : option Z) : list (Z * Z) :=
  let '(out, o') := runs_line l pos o in out ++ close o' (pos + Z.of_nat (length l)).

Definition runs (s : list A) : list (Z * Z) := runs_from s 0 None.

(* the character at 0-based position x, if any *)
Definition char_at (s : list A) (x : Z) : option A :=
  if x <? 0 then None else nth_error s (Z.to_nat x).

Definition nonN_at (s : list A) (x : Z) : Prop :=
  exists c, char_at s x = Some c /\ isN c = false.

(* [a, b) is a maximal run of non-N characters of s *)
Definition is_max_run (s : list A) (a b : Z) : Prop :=
  0 <= a < b /\ b <= Z.of_nat (length s) /\
  (forall x, a <= x < b -> nonN_at s x) /\
  ~ nonN_at s (a - 1) /\ ~ nonN_at s b.

End Runs.

(* ---- the pipeline's mathematical object ------------------------------------------------
   K is the set of kept bases (non-N and in no exclude region).  A small gap is a maximal
   stretch [a, b) of positions outside K, shorter than g, with a kept base on either side:
   exactly what join_regions is asked to bridge. *)
Definition small_gap (K : Z -> Prop) (g x : Z) : Prop :=
  exists a b, a <= x < b /\ b - a < g /\ K (a - 1) /\ K b /\ forall y, a <= y < b -> ~ K y.
