(* Tukey's biweight location and midvariance, written directly from the published formulas
   (Mosteller & Tukey 1977; Beers, Flynn & Gebhardt 1990; the astropy functions the code's
   docstring cites), in plain rational arithmetic.

   For observations x_1..x_n, a centre M and a tuning constant c:

       MAD  = median_i |x_i - M|
       u_i  = (x_i - M) / (c * MAD)

       location     T   = M + sum_{|u_i|<1} (x_i - M)(1 - u_i^2)^2 / sum_{|u_i|<1} (1 - u_i^2)^2

                          n' * sum_{|u_i|<1} (x_i - M)^2 (1 - u_i^2)^4
       midvariance  s^2 = -------------------------------------------------      (c = 9)
                          ( sum_{|u_i|<1} (1 - u_i^2)(1 - 5 u_i^2) )^2

   with n' the number of observations with |u_i| < 1 (astropy's `modify_sample_size`).
   The location is iterated from M = median, at most `iters` times, until a step moves it by at
   most eps.  Two guards make the formulas total: the denominator c*MAD is replaced by eps when it
   is smaller (MAD = 0: more than half of the observations sit on M), and when no observation
   with |u_i| < 1 deviates from M (in particular when there is none) the location stays at M and
   the spread is the MAD rescaled to a standard deviation (MAD * 1.4826).  *)
From CNV Require Import Base.Prelude Base.QNum.
From Coq Require Import Qabs.
Local Open Scope Q_scope.

Definition sq (x : Q) : Q := x * x.
Definition Qmax2 (a b : Q) : Q := if Qle_bool a b then b else a.

Fixpoint sumQ (f : Q -> Q) (l : list Q) : Q :=
  match l with [] => 0 | x :: t => f x + sumQ f t end.

Definition mad_about (m : Q) (a : list Q) : Q := median (map (fun x => Qabs (x - m)) a).
Definition bw_scale (c eps m : Q) (a : list Q) : Q := Qmax2 (c * mad_about m a) eps.
Definition bw_u (s m x : Q) : Q := (x - m) / s.
(* |u| < 1 *)
Definition bw_inside (s m x : Q) : bool := negb (Qle_bool 1 (Qabs (bw_u s m x))).
Definition bw_weight (s m x : Q) : Q := sq (1 - sq (bw_u s m x)).

(* one step of the location from centre m *)
Definition bw_step (c eps : Q) (a : list Q) (m : Q) : Q :=
  let s := bw_scale c eps m a in
  let inside := filter (bw_inside s m) a in
  let W := sumQ (bw_weight s m) inside in
  if Qeq_bool W 0 then m
  else m + sumQ (fun x => (x - m) * bw_weight s m x) inside / W.

Fixpoint bw_iterate (n : nat) (c eps : Q) (a : list Q) (m : Q) : Q :=
  match n with
  | O => m
  | S k => let r := bw_step c eps a m in
           if Qle_bool (Qabs (r - m)) eps then r else bw_iterate k c eps a r
  end.

Definition biweight_location_spec (c eps : Q) (iters : nat) (a : list Q) : Q :=
  bw_iterate iters c eps a (median a).

(* the midvariance (squared scale) about centre m; k rescales the MAD in the degenerate case *)
Definition biweight_midvar_sq_spec (c eps k : Q) (a : list Q) (m : Q) : Q :=
  let s := bw_scale c eps m a in
  let inside := filter (bw_inside s m) a in
  if forallb (fun x => Qeq_bool (x - m) 0) inside then sq (k * mad_about m a)
  else
    inject_Z (Z.of_nat (length inside))
    * sumQ (fun x => sq (x - m) * sq (sq (1 - sq (bw_u s m x)))) inside
    / sq (sumQ (fun x => (1 - sq (bw_u s m x)) * (1 - 5 * sq (bw_u s m x))) inside).

(* the two binary floating-point literals of the code, and how far they are from the decimal
   numbers they stand for *)
Definition eps_1e3 : Q := 1152921504606847 # 1152921504606846976.     (* the double 1e-3 *)
Definition mad_to_sd : Q := 6677036807539497 # 4503599627370496.       (* the double 1.4826 *)
