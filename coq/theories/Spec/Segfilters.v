(* Specification objects for C14: maximal runs of consecutive like rows, the
   levels of the four filters with the literal numbers of the property text
   (1.96, 0, 5), and the conserved quantities (total probes, total weight, each
   chromosome's covered span, weight-averaged log2).  The record `seg` and the
   filter names are shared with the model; nothing else of the model is used. *)
From CNV Require Import Base.Prelude Base.Str Model.Segfilters.

(* ------------------------------------------------------------ maximal runs *)

Inductive AdjForall {A} (P : A -> A -> Prop) : list A -> Prop :=
| AF_nil : AdjForall P []
| AF_one a : AdjForall P [a]
| AF_cons a b t : P a b -> AdjForall P (b :: t) -> AdjForall P (a :: b :: t).

(* equal values are adjacent: the value at the head either continues or never returns *)
Inductive Contig {K} : list K -> Prop :=
| Contig_nil : Contig []
| Contig_cons k t : Contig t -> (hd_opt t = Some k \/ ~ In k t) -> Contig (k :: t).

Section RunsBy.
Context {A : Type} (same : A -> A -> bool).

Definition cons_run (a : A) (rs : list (list A)) : list (list A) :=
  match rs with
  | (b :: r) :: rs' => if same a b then (a :: b :: r) :: rs' else [a] :: rs
  | _ => [a] :: rs
  end.

(* the maximal runs of consecutive elements, each `same` as its successor *)
Fixpoint runs_by (l : list A) : list (list A) :=
  match l with
  | [] => []
  | a :: t => cons_run a (runs_by t)
  end.

(* the mathematical characterisation: rs cuts l into consecutive non-empty
   pieces, all members of a piece are alike, and a piece cannot be extended
   (the last row of a piece and the first row of the next one are not alike) *)
Definition is_max_runs (l : list A) (rs : list (list A)) : Prop :=
  concat rs = l /\
  Forall (fun r => r <> []) rs /\
  Forall (fun r => forall x y, In x r -> In y r -> same x y = true) rs /\
  (forall pre r1 r2 post x y,
      rs = pre ++ r1 :: r2 :: post -> last_opt r1 = Some x -> hd_opt r2 = Some y ->
      same x y = false).

End RunsBy.

(* ------------------------------------------------------------------ levels *)

(* the double nearest to 1.96 (the value the text's "1.96" denotes in the code) *)
Definition z196 : Q := 2206763817411543 # 1125899906842624.

Definition qlt (a b : Q) : bool := negb (Qle_bool b a).
Definition olt (a : option Q) (c : Q) : bool := match a with Some x => qlt x c | None => false end.
Definition ogt (a : option Q) (c : Q) : bool := match a with Some x => qlt c x | None => false end.

(* cn: the copy number itself.  ci: CI below zero -1, above zero +1, straddling 0.
   sem: log2 +- 1.96*sem likewise.  ampdel: deleted (cn = 0) -1, amplified
   (cn >= 5) +1, neither 0. *)
Definition spec_level (f : filt) (s : seg) : Q :=
  match f with
  | Fcn => cn s
  | Fci => if olt (ci_hi s) 0 then (-1)%Q else if ogt (ci_lo s) 0 then 1%Q else 0%Q
  | Fsem =>
      match sem s with
      | None => 0%Q
      | Some e =>
          if qlt (log2 s + e * z196) 0 then (-1)%Q
          else if qlt 0 (log2 s - e * z196) then 1%Q else 0%Q
      end
  | Fampdel => if Qle_bool 5 (cn s) then 1%Q else if Qeq_bool (cn s) 0 then (-1)%Q else 0%Q
  end.

Definition oq_eqb (a b : option Q) : bool :=
  match a, b with
  | Some x, Some y => Qeq_bool x y
  | None, None => true
  | _, _ => false
  end.

(* alike for the filter f, plain reading: same chromosome, same level *)
Definition same_plain (f : filt) (a b : seg) : bool :=
  String.eqb (chrom a) (chrom b) && Qeq_bool (spec_level f a) (spec_level f b).

(* alike, allele-aware reading: additionally the same allele-specific copy
   numbers, a missing one being a value of its own.  For a table without
   allele-specific copy numbers this is the plain reading. *)
Definition same_full (f : filt) (a b : seg) : bool :=
  same_plain f a b && oq_eqb (cn1 a) (cn1 b) && oq_eqb (cn2 a) (cn2 b).

Definition level_runs (f : filt) (t : list seg) : list (list seg) := runs_by (same_full f) t.
Definition plain_runs (f : filt) (t : list seg) : list (list seg) := runs_by (same_plain f) t.

Definition no_alleles (t : list seg) : Prop := Forall (fun s => cn1 s = None /\ cn2 s = None) t.

(* the row that replaces a run starts where the run starts and ends where it ends *)
Definition spans_run (r : list seg) (o : seg) : Prop :=
  match r with
  | [] => True
  | s0 :: _ => chrom o = chrom s0 /\ lo o = lo s0 /\ hi o = hi (last r s0)
  end.

(* a run ampdel keeps: all of its rows deleted (cn = 0) or all amplified (cn >= 5) *)
Definition run_is_ampdel (r : list seg) : bool :=
  forallb (fun s => Qeq_bool (cn s) 0) r || forallb (fun s => Qle_bool 5 (cn s)) r.

(* the filters do_call applies before calling *)
Definition is_pre (f : filt) : bool :=
  match f with Fci | Fsem => true | _ => false end.

(* --------------------------------------------------------------- conservation *)

Fixpoint qsum (l : list Q) : Q :=
  match l with [] => 0%Q | x :: t => (x + qsum t)%Q end.

Definition total_probes (t : list seg) : Z := sumZ (map probes t).
Definition total_weight (t : list seg) : Q := qsum (map weight t).

Definition ozmin (a b : option Z) : option Z :=
  match a, b with
  | Some x, Some y => Some (Z.min x y)
  | Some x, None => Some x
  | None, _ => b
  end.
Definition ozmax (a b : option Z) : option Z :=
  match a, b with
  | Some x, Some y => Some (Z.max x y)
  | Some x, None => Some x
  | None, _ => b
  end.

(* smallest start / largest end among the rows of chromosome c (None: no such row) *)
Fixpoint min_lo (c : string) (t : list seg) : option Z :=
  match t with
  | [] => None
  | s :: t' => if String.eqb (chrom s) c then ozmin (Some (lo s)) (min_lo c t') else min_lo c t'
  end.
Fixpoint max_hi (c : string) (t : list seg) : option Z :=
  match t with
  | [] => None
  | s :: t' => if String.eqb (chrom s) c then ozmax (Some (hi s)) (max_hi c t') else max_hi c t'
  end.

(* consecutive rows of one chromosome do not go backwards *)
Definition coords_sorted (t : list seg) : Prop :=
  AdjForall (fun a b => chrom a = chrom b -> lo a <= lo b /\ hi a <= hi b) t.

(* the weight-averaged log2 of a run, and the plain average used when the run
   carries no weight *)
Definition wavg_log2 (r : list seg) : Q :=
  (qsum (map (fun s => weight s * log2 s) r) / qsum (map weight r))%Q.
Definition avg_log2 (r : list seg) : Q :=
  (qsum (map log2 r) / inject_Z (Z.of_nat (length r)))%Q.
