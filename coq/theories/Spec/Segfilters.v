(* Specification objects for C14: maximal runs of consecutive like rows, the
   levels of the four filters with the literal numbers of the property text
   (1.96, 0, 5), and the conserved quantities (total probes, total weight, each
   chromosome's covered span, weight-averaged log2).  The record `seg` and the
   filter names are shared with the model; nothing else of the model is used. *)
From CNV Require Import Base.Prelude Base.Str Model.Segfilters.
From CNV Require Base.QNum Spec.Stats Model.Chromsort.     (* qualified use only *)

(* ------------------------------------------------------------ maximal runs *)

Inductive AdjForall {A} (P : A -> A -> Prop) : list A -> Prop :=
| AF_nil : AdjForall P []
| AF_one a : AdjForall P [a]
| AF_cons a b t : P a b -> AdjForall P (b :: t) -> AdjForall P (a :: b :: t).

(* equal values are adjacent: the value at the head either continues or never returns *)
Inductive Contig {K} : list K -> Prop :=
| Contig_nil : Contig []
| Contig_cons k t : Contig t -> (hd_opt t = Some k \/ ~ In k t) -> Contig (k :: t).

Section RunsBy.
Context {A : Type} (same : A -> A -> bool).

Definition cons_run (a : A) (rs : list (list A)) : list (list A) :=
  match rs with
  | (b :: r) :: rs' => if same a b then (a :: b :: r) :: rs' else [a] :: rs
  | _ => [a] :: rs
  end.

(* the maximal runs of consecutive elements, each `same` as its successor *)
Fixpoint runs_by (l : list A) : list (list A) :=
  match l with
  | [] => []
  | a :: t => cons_run a (runs_by t)
  end.

(* the mathematical characterisation: rs cuts l into consecutive non-empty
   pieces, all members of a piece are alike, and a piece cannot be extended
   (the last row of a piece and the first row of the next one are not alike) *)
Definition is_max_runs (l : list A) (rs : list (list A)) : Prop :=
  concat rs = l /\
  Forall (fun r => r <> []) rs /\
  Forall (fun r => forall x y, In x r -> In y r -> same x y = true) rs /\
  (forall pre r1 r2 post x y,
      rs = pre ++ r1 :: r2 :: post -> last_opt r1 = Some x -> hd_opt r2 = Some y ->
      same x y = false).

End RunsBy.

(* ------------------------------------------------------------------ levels *)

(* the double nearest to 1.96 (the value the text's "1.96" denotes in the code) *)
Definition z196 : Q := 2206763817411543 # 1125899906842624.

Definition qlt (a b : Q) : bool := negb (Qle_bool b a).
Definition olt (a : option Q) (c : Q) : bool := match a with Some x => qlt x c | None => false end.
Definition ogt (a : option Q) (c : Q) : bool := match a with Some x => qlt c x | None => false end.

(* cn: the copy number itself.  ci: CI below zero -1, above zero +1, straddling 0.
   sem: log2 +- 1.96*sem likewise.  ampdel: deleted (cn = 0) -1, amplified
   (cn >= 5) +1, neither 0. *)
Definition spec_level (f : filt) (s : seg) : Q :=
  match f with
  | Fcn => cn s
  | Fci => if olt (ci_hi s) 0 then (-1)%Q else if ogt (ci_lo s) 0 then 1%Q else 0%Q
  | Fsem =>
      match sem s with
      | None => 0%Q
      | Some e =>
          if qlt (log2 s + e * z196) 0 then (-1)%Q
          else if qlt 0 (log2 s - e * z196) then 1%Q else 0%Q
      end
  | Fampdel => if Qle_bool 5 (cn s) then 1%Q else if Qeq_bool (cn s) 0 then (-1)%Q else 0%Q
  end.

Definition oq_eqb (a b : option Q) : bool :=
  match a, b with
  | Some x, Some y => Qeq_bool x y
  | None, None => true
  | _, _ => false
  end.

(* alike for the filter f, plain reading: same chromosome, same level *)
Definition same_plain (f : filt) (a b : seg) : bool :=
  String.eqb (chrom a) (chrom b) && Qeq_bool (spec_level f a) (spec_level f b).

(* alike, allele-aware reading: additionally the same allele-specific copy
   numbers, a missing one being a value of its own.  For a table without
   allele-specific copy numbers this is the plain reading. *)
Definition same_full (f : filt) (a b : seg) : bool :=
  same_plain f a b && oq_eqb (cn1 a) (cn1 b) && oq_eqb (cn2 a) (cn2 b).

Definition level_runs (f : filt) (t : list seg) : list (list seg) := runs_by (same_full f) t.
Definition plain_runs (f : filt) (t : list seg) : list (list seg) := runs_by (same_plain f) t.

Definition no_alleles (t : list seg) : Prop := Forall (fun s => cn1 s = None /\ cn2 s = None) t.

(* the row that replaces a run starts where the run starts and ends where it ends *)
Definition spans_run (r : list seg) (o : seg) : Prop :=
  match r with
  | [] => True
  | s0 :: _ => chrom o = chrom s0 /\ lo o = lo s0 /\ hi o = hi (last r s0)
  end.

(* a run ampdel keeps: all of its rows deleted (cn = 0) or all amplified (cn >= 5) *)
Definition run_is_ampdel (r : list seg) : bool :=
  forallb (fun s => Qeq_bool (cn s) 0) r || forallb (fun s => Qle_bool 5 (cn s)) r.

(* the filters do_call applies before calling *)
Definition is_pre (f : filt) : bool :=
  match f with Fci | Fsem => true | _ => false end.

(* --------------------------------------------------------------- conservation *)

Fixpoint qsum (l : list Q) : Q :=
  match l with [] => 0%Q | x :: t => (x + qsum t)%Q end.

Definition total_probes (t : list seg) : Z := sumZ (map probes t).
Definition total_weight (t : list seg) : Q := qsum (map weight t).

Definition ozmin (a b : option Z) : option Z :=
  match a, b with
  | Some x, Some y => Some (Z.min x y)
  | Some x, None => Some x
  | None, _ => b
  end.
Definition ozmax (a b : option Z) : option Z :=
  match a, b with
  | Some x, Some y => Some (Z.max x y)
  | Some x, None => Some x
  | None, _ => b
  end.

(* smallest start / largest end among the rows of chromosome c (None: no such row) *)
Fixpoint min_lo (c : string) (t : list seg) : option Z :=
  match t with
  | [] => None
  | s :: t' => if String.eqb (chrom s) c then ozmin (Some (lo s)) (min_lo c t') else min_lo c t'
  end.
Fixpoint max_hi (c : string) (t : list seg) : option Z :=
  match t with
  | [] => None
  | s :: t' => if String.eqb (chrom s) c then ozmax (Some (hi s)) (max_hi c t') else max_hi c t'
  end.

(* consecutive rows of one chromosome do not go backwards *)
Definition coords_sorted (t : list seg) : Prop :=
  AdjForall (fun a b => chrom a = chrom b -> lo a <= lo b /\ hi a <= hi b) t.

(* the weight-averaged log2 of a run, and the plain average used when the run
   carries no weight *)
Definition wavg_log2 (r : list seg) : Q :=
  (qsum (map (fun s => weight s * log2 s) r) / qsum (map weight r))%Q.
Definition avg_log2 (r : list seg) : Q :=
  (qsum (map log2 r) / inject_Z (Z.of_nat (length r)))%Q.

(* ============================================================ the merged row *)
(* Every field of the row that replaces a run, written against plain rational
   arithmetic (no Qred, no model code): Base/QNum.v's shared `median` and the
   textbook weighted-median predicate of Spec/Stats.v are the only imports. *)

Definition oq_equiv (a b : option Q) : Prop :=
  match a, b with
  | Some x, Some y => (x == y)%Q
  | None, None => True
  | _, _ => False
  end.

Definition run_weight (r : list seg) : Q := qsum (map weight r).

(* `region_weight > 0` *)
Definition weighted (r : list seg) : bool := qlt 0 (run_weight r).

Definition avg (l : list Q) : Q := (qsum l / inject_Z (Z.of_nat (length l)))%Q.

(* sum of w*x over sum of w *)
Definition wavg (f : seg -> Q) (r : list seg) : Q :=
  (qsum (map (fun s => weight s * f s) r) / run_weight r)%Q.

(* weight-averaged; the plain average when the run carries no weight *)
Definition run_mean (f : seg -> Q) (r : list seg) : Q :=
  if weighted r then wavg f r else avg (map f r).

Fixpoint present (l : list (option Q)) : list Q :=
  match l with
  | [] => []
  | Some x :: t => x :: present t
  | None :: t => present t
  end.

Definition complete (l : list (option Q)) : bool :=
  forallb (fun o => match o with Some _ => true | None => false end) l.

Definition odflt (o : option Q) : Q := match o with Some x => x | None => 0%Q end.

(* an optional column (depth, baf): with weight, the weighted mean -- missing as
   soon as one cell is missing; without, the plain mean of the present cells *)
Definition run_mean_opt (f : seg -> option Q) (r : list seg) : option Q :=
  if weighted r then
    if complete (map f r) then Some (wavg (fun s => odflt (f s)) r) else None
  else
    match present (map f r) with
    | [] => None
    | l => Some (avg l)
    end.

(* distinct names in the order of their first occurrence *)
Definition first_occurrences (l : list string) : list string :=
  fold_left (fun acc x => if existsb (String.eqb x) acc then acc else acc ++ [x]) l [].

Definition joined_genes (r : list seg) : string :=
  String.concat "," (first_occurrences (map gene r)).

(* largest present value; missing when none is present *)
Definition qmax2 (a b : Q) : Q := if Qle_bool a b then b else a.
Definition run_max (l : list (option Q)) : option Q :=
  fold_right (fun x acc => Some (match acc with Some y => qmax2 x y | None => x end)) None (present l).

(* (value, weight) pairs of a column / of the present cells of an optional column *)
Definition col_pairs (f : seg -> Q) (r : list seg) : list (Q * Q) :=
  map (fun s => (f s, weight s)) r.
Fixpoint ocol_pairs (f : seg -> option Q) (r : list seg) : list (Q * Q) :=
  match r with
  | [] => []
  | s :: t => match f s with Some x => (x, weight s) :: ocol_pairs f t | None => ocol_pairs f t end
  end.

(* the rounding allowance the weighted median makes: n * 2^-52 * total weight *)
Definition wm_slack (ps : list (Q * Q)) : Q :=
  (inject_Z (Z.of_nat (length ps)) * (1 # 4503599627370496) * Stats.wtotal ps)%Q.

Definition nonneg_run (r : list seg) : Prop := Forall (fun s => (0 <= weight s)%Q) r.

(* cn of the merged row: inside the range of the run's values (hence the common
   value when they are all equal); np.median for a run without weight; for a
   weighted run a weighted median up to the rounding allowance -- at most half
   of the weight (+ allowance) lies strictly on either side *)
Definition merged_cn (r : list seg) (o : seg) : Prop :=
  (forall a b, (forall s, In s r -> a <= cn s <= b)%Q -> (a <= cn o <= b)%Q) /\
  (weighted r = false -> cn o = QNum.median (map cn r)) /\
  (weighted r = true -> nonneg_run r ->
     Stats.is_weighted_median_upto (wm_slack (col_pairs cn r)) (cn o) (col_pairs cn r)).

(* cn1: the same over the present cells; cn2 = cn - cn1 *)
Definition merged_cn1 (r : list seg) (o : seg) : Prop :=
  (forall a b m, (forall s x, In s r -> cn1 s = Some x -> a <= x <= b)%Q -> cn1 o = Some m -> (a <= m <= b)%Q) /\
  (weighted r = true -> (cn1 o = None <-> present (map cn1 r) = [])) /\
  (weighted r = false -> (cn1 o = None <-> complete (map cn1 r) = false)) /\
  (weighted r = false -> complete (map cn1 r) = true -> cn1 o = Some (QNum.median (present (map cn1 r)))) /\
  (weighted r = true -> nonneg_run r -> forall m, cn1 o = Some m ->
     Stats.is_weighted_median_upto (wm_slack (ocol_pairs cn1 r)) m (ocol_pairs cn1 r)) /\
  match cn1 o with
  | Some m => oq_equiv (cn2 o) (Some (cn o - m)%Q)
  | None => cn2 o = None
  end.

(* all fields of the row o that replaces the non-empty run r *)
Definition merged_row (r : list seg) (o : seg) : Prop :=
  spans_run r o /\
  probes o = sumZ (map probes r) /\
  (weight o == run_weight r)%Q /\
  (log2 o == run_mean log2 r)%Q /\
  gene o = joined_genes r /\
  oq_equiv (depth o) (run_mean_opt depth r) /\
  oq_equiv (baf o) (run_mean_opt baf r) /\
  merged_cn r o /\ merged_cn1 r o /\
  oq_equiv (pbt o) (run_max (map pbt r)) /\
  (* the segmetrics columns are dropped *)
  ci_lo o = None /\ ci_hi o = None /\ sem o = None.

(* ================================================= equality of tables up to == *)

Definition seg_eqv (a b : seg) : Prop :=
  chrom a = chrom b /\ lo a = lo b /\ hi a = hi b /\ gene a = gene b /\
  (log2 a == log2 b)%Q /\ probes a = probes b /\ (weight a == weight b)%Q /\
  oq_equiv (depth a) (depth b) /\ oq_equiv (baf a) (baf b) /\
  (cn a == cn b)%Q /\ oq_equiv (cn1 a) (cn1 b) /\ oq_equiv (cn2 a) (cn2 b) /\
  oq_equiv (pbt a) (pbt b) /\
  oq_equiv (ci_lo a) (ci_lo b) /\ oq_equiv (ci_hi a) (ci_hi b) /\ oq_equiv (sem a) (sem b).

Definition table_eqv (t u : list seg) : Prop := Forall2 seg_eqv t u.

(* allele-specific copy numbers as do_call writes them: both present or both
   missing, and cn2 = cn - cn1 *)
Definition alleles_consistent (t : list seg) : Prop :=
  Forall (fun s => match cn1 s, cn2 s with
                   | Some a, Some b => (b == cn s - a)%Q
                   | None, None => True
                   | _, _ => False
                   end) t.

(* ============================================= tables as GenomicArray.sort leaves them *)

Definition seg_region (s : seg) : string * Z * Z := (chrom s, lo s, hi s).

(* sorted by (sorter_chrom(chromosome), start, end) *)
Definition genome_sorted (t : list seg) : Prop :=
  StronglySorted (fun a b => Chromsort.region_leb seg_region a b = true) t.

(* different chromosome names have different sort keys (chr1 and 1 do not occur together) *)
Definition names_separable (t : list seg) : Prop :=
  forall a b, In a t -> In b t ->
    Chromsort.chrom_key (chrom a) = Chromsort.chrom_key (chrom b) -> chrom a = chrom b.
