(* Specification object for C07: what a range query has to return, stated as a
   filter over the table (in table order), for a half-open query [qs, qe).
   A missing lower bound means "from 0", a missing upper bound "to the end". *)
From CNV Require Import Base.Prelude Model.Ranges.

(* at least one base in common *)
Definition overlaps (qs qe : Z) (r : row) : bool := (r_lo r <? qe) && (qs <? r_hi r).
(* wholly contained *)
Definition contained (qs qe : Z) (r : row) : bool := (qs <=? r_lo r) && (r_hi r <=? qe).
(* clipped to the query *)
Definition clip (qs qe : Z) (r : row) : row :=
  mkRow (r_id r) (Z.max (r_lo r) qs) (Z.min (r_hi r) qe).

Definition outer_spec (qs qe : Z) (t : list row) : list row := filter (overlaps qs qe) t.
Definition inner_spec (qs qe : Z) (t : list row) : list row := filter (contained qs qe) t.
Definition trim_spec (qs qe : Z) (t : list row) : list row := map (clip qs qe) (outer_spec qs qe t).

Definition select_spec (m : qmode) (qs qe : Z) (t : list row) : list row :=
  match m with
  | QOuter => outer_spec qs qe t
  | QInner => inner_spec qs qe t
  | QTrim => trim_spec qs qe t
  end.

(* optional bounds: None = unbounded on that side (rows live in [0, oo)) *)
Definition above (qs : option Z) (x : Z) : bool := match qs with Some s => s <? x | None => true end.
Definition below (qe : option Z) (x : Z) : bool := match qe with Some e => x <? e | None => true end.
Definition above_eq (qs : option Z) (x : Z) : bool := match qs with Some s => s <=? x | None => true end.
Definition below_eq (qe : option Z) (x : Z) : bool := match qe with Some e => x <=? e | None => true end.

Definition clip_opt (qs qe : option Z) (r : row) : row :=
  mkRow (r_id r)
        (match qs with Some s => Z.max (r_lo r) s | None => r_lo r end)
        (match qe with Some e => Z.min (r_hi r) e | None => r_hi r end).

Definition select_spec_opt (m : qmode) (qs qe : option Z) (t : list row) : list row :=
  match m with
  | QOuter => filter (fun r => below qe (r_lo r) && above qs (r_hi r)) t
  | QInner => filter (fun r => above_eq qs (r_lo r) && below_eq qe (r_hi r)) t
  | QTrim => map (clip_opt qs qe) (filter (fun r => below qe (r_lo r) && above qs (r_hi r)) t)
  end.

(* preconditions *)
Definition valid_row (r : row) : Prop := 0 <= r_lo r < r_hi r.
Definition valid_query (qs qe : Z) : Prop := 0 <= qs < qe.
Definition sorted_lo (t : list row) : Prop := Sorted (fun a b => r_lo a <= r_lo b) t.
Definition sorted_hi (t : list row) : Prop := Sorted (fun a b => r_hi a <= r_hi b) t.
(* the property's "sorted table": by (lo, hi) lexicographically *)
Definition sorted_lex (t : list row) : Prop :=
  Sorted (fun a b => r_lo a < r_lo b \/ (r_lo a = r_lo b /\ r_hi a <= r_hi b)) t.

(* rows of one chromosome, in table order *)
Definition rows_of (c : string) (t : list trow) : list row := map snd (of_chrom c t).

(* every chromosome's rows are contiguous (true of any table sorted by chromosome) *)
Definition grouped (t : list trow) : Prop :=
  concat (map (fun c => of_chrom c t) (chroms t)) = t.

(* the order in which pandas' groupby(sort=False) visits the rows: chromosomes in order
   of first appearance, each with all its rows; the identity on a grouped table *)
Definition regroup (t : list trow) : list trow :=
  concat (map (fun c => of_chrom c t) (chroms t)).

(* per-chromosome preconditions on a whole table *)
Definition table_ok (t : list trow) : Prop :=
  forall c, sorted_lo (rows_of c t) /\ Forall valid_row (rows_of c t).
Definition queries_ok (q : list trow) : Prop :=
  Forall (fun x => valid_query (r_lo (snd x)) (r_hi (snd x))) q.

(* the expected answer of a whole-table query: one entry per query row, in query order *)
Definition answers (m : qmode) (table other : list trow) : list (trow * list row) :=
  map (fun b => (b, select_spec m (r_lo (snd b)) (r_hi (snd b)) (rows_of (fst b) table))) other.

Definition nonempty_sel (x : trow * list row) : bool :=
  match snd x with [] => false | _ => true end.

(* ---- into_ranges ---------------------------------------------------------- *)
(* one value per query: the default for no hit, the value itself for one hit,
   the summary otherwise *)
Definition summary_spec {V} (default : V) (f : list V -> V) (vals : list V) : V :=
  match vals with
  | [] => default
  | [v] => v
  | _ => f vals
  end.

(* m is a median of l: the middle element (mean of the two middle elements) of
   an ascending rearrangement of l *)
Definition is_median (m : Q) (l : list Q) : Prop :=
  exists s, Permutation s l /\ StronglySorted Qle s /\
    let n := length s in
    (Nat.odd n = true /\ exists a, nth_error s (n / 2) = Some a /\ m == a) \/
    (Nat.odd n = false /\ exists a b, nth_error s (n / 2 - 1) = Some a /\
                                      nth_error s (n / 2) = Some b /\ m == (a + b) / 2).

(* d lists the distinct elements of l *)
Definition is_distinct_of (d l : list string) : Prop :=
  NoDup d /\ forall x, In x d <-> In x l.

(* the distinct elements in order of first appearance: scan left to right, append
   what has not been seen yet (the definition of pandas.unique) *)
Definition unique_scan (l : list string) : list string :=
  fold_left (fun acc x => if existsb (String.eqb x) acc then acc else acc ++ [x]) l [].
