(* C03, the property statement against the bins of one chromosome and the segment
   rows reported on it.  Literal names / numbers of the property text only; the
   record types come from Model/Segment.v, nothing else does. *)
From CNV Require Import Base.Prelude Base.Str Model.Segment.

(* precondition: the bins of a chromosome are sorted, lo < hi, non-overlapping
   (abutting allowed), all within [e, E] *)
Fixpoint bins_in (e : Z) (l : list bin) (E : Z) : Prop :=
  match l with
  | [] => e <= E
  | b :: t => e <= b_lo b /\ b_lo b < b_hi b /\ bins_in (b_hi b) t E
  end.

Definition span_lo (bins : list bin) : Z := match bins with [] => 0 | b :: _ => b_lo b end.
Definition span_hi (bins : list bin) : Z := match bins with [] => 0 | b :: t => b_hi (last t b) end.

Definition bins_wf (bins : list bin) : Prop := bins_in (span_lo bins) bins (span_hi bins).

(* ---- tiling --------------------------------------------------------------- *)

Definition disjoint (s t : seg) : Prop := s_hi s <= s_lo t \/ s_hi t <= s_lo s.

Record tiling (bins : list bin) (segs : list seg) : Prop := {
  t_sorted : StronglySorted (fun s t => s_lo s < s_lo t) segs;
  t_positive : Forall (fun s => s_lo s < s_hi s) segs;
  t_disjoint : ForallOrdPairs disjoint segs;
  t_inside : Forall (fun s => span_lo bins <= s_lo s /\ s_hi s <= span_hi bins) segs }.

(* ---- accounting ----------------------------------------------------------- *)

Definition contains (s : seg) (b : bin) : bool := (s_lo s <=? b_lo b) && (b_hi b <=? s_hi s).

Record accounting (surv : list bin) (segs : list seg) : Prop := {
  a_exactly_one : Forall (fun b => length (filter (fun s => contains s b) segs) = 1%nat) surv;
  a_probes : Forall (fun s => s_probes s = Z.of_nat (length (filter (contains s) surv))) segs;
  a_sum : sumZ (map s_probes segs) = Z.of_nat (length surv);
  a_nonempty : surv <> [] -> segs <> [] }.

(* ---- arm edges ------------------------------------------------------------ *)

(* segs: the segments reported for one arm *)
Record arm_edges (arm_bins arm_surv : list bin) (segs : list seg) : Prop := {
  e_inside : Forall (fun s => span_lo arm_bins <= s_lo s /\ s_hi s <= span_hi arm_bins) segs;
  e_none : arm_surv = [] -> segs = [];
  e_edges : arm_surv <> [] ->
            exists s0 sl, hd_opt segs = Some s0 /\ last_opt segs = Some sl /\
                          s_lo s0 = span_lo arm_bins /\ s_hi sl = span_hi arm_bins }.

(* ---- fields --------------------------------------------------------------- *)

Definition Qsum (l : list Q) : Q := fold_right Qplus 0%Q l.

Definition spans (s : seg) (b : bin) : bool := (b_lo b <? s_hi s) && (s_lo s <? b_hi b).

Definition meaningful (g : string) : bool :=
  negb (mem_string g ["-"; "."; "CGH"; "Antitarget"; "Background"]%string).

Fixpoint distinct_in_order (l : list string) : list string :=
  match l with
  | [] => []
  | x :: t => x :: filter (fun y => negb (String.eqb y x)) (distinct_in_order t)
  end.

Definition gene_list (names : list string) : string :=
  match distinct_in_order (filter meaningful names) with
  | [] => "-"%string
  | l => String.concat "," l
  end.

Definition weight_of (b : bin) : Q := match b_weight b with Some w => w | None => 0%Q end.

(* weight = sum, depth = weight-averaged depth of ALL input bins the segment spans
   (0 when the summed weight is not positive); a NaN weight in the span gives NaN *)
Definition fields_ok (bins : list bin) (s : seg) : Prop :=
  let sp := filter (spans s) bins in
  s_gene s = gene_list (map b_gene sp) /\
  match s_weight s with
  | Some W =>
      Forall (fun b => b_weight b <> None) sp /\
      (W == Qsum (map weight_of sp))%Q /\
      ((0 < W)%Q -> (s_depth s == Qsum (map (fun b => b_depth b * weight_of b) sp) / W)%Q) /\
      (~ (0 < W)%Q -> (s_depth s == 0)%Q)
  | None => Exists (fun b => b_weight b = None) sp /\ (s_depth s == 0)%Q
  end.

(* log2 = weight-averaged log2 of the segment's surviving bins (plain mean when they
   all weigh 0) *)
Definition log2_mean_ok (surv : list bin) (s : seg) : Prop :=
  let g := filter (contains s) surv in
  let W := Qsum (map weight_of g) in
  exists v, s_log2 s = Some v /\
    ((0 < W)%Q -> (v == Qsum (map (fun b => b_log2 b * weight_of b) g) / W)%Q) /\
    ((W == 0)%Q -> (v == Qsum (map b_log2 g) / inject_Z (Z.of_nat (length g)))%Q).

(* ---- chromosome arms (GenomicArray.by_arm) ----------------------------------- *)

Section ArmSpec.
Context {A : Type} (lo hi : A -> Z).

(* the gap in front of row j (rows counted from 0): start[j] - end[j-1] *)
Definition gap_before (l : list A) (j : Z) : Z :=
  match nth_error l (Z.to_nat j), nth_error l (Z.to_nat (j - 1)) with
  | Some b, Some a => lo b - hi a
  | _, _ => 0
  end.

(* rows that keep the margin of m rows to both chromosome ends *)
Definition interior (n m j : Z) : Prop := m + 1 <= j < n - m.

(* r is the rounded 10 % share of the row count; the margin is max(50, r) *)
Record arms_spec (r : Z) (l : list A) (arms : list (list A)) : Prop := {
  as_partition : concat arms = l;                      (* the arms are the rows, in order *)
  as_nonempty : Forall (fun a => a <> []) arms;
  as_at_most_two : (length arms <= 2)%nat;
  as_split_iff :
    length arms = 2%nat <->
    exists j, interior (Z.of_nat (length l)) (Z.max 50 r) j /\ 100000 <= gap_before l j;
  as_where : forall p q, arms = [p; q] ->
    let j := Z.of_nat (length p) in
    let n := Z.of_nat (length l) in
    let m := Z.max 50 r in
    interior n m j /\ 100000 <= gap_before l j /\
    (forall i, interior n m i -> gap_before l i <= gap_before l j) /\      (* the largest interior gap *)
    (forall i, interior n m i -> i < j -> gap_before l i < gap_before l j)   (* the first one, if tied *) }.

End ArmSpec.

(* what a correctly rounded 10 % share is: within one half of n/10 *)
Definition share_ok (n r : Z) : Prop := 2 * Z.abs (10 * r - n) <= 10.

(* ---- rows re-split on allele frequencies (`variants=`) ------------------------- *)

(* rows that tile [lo, hi) exactly: the first starts at lo, each starts where its
   predecessor ends, all have positive length, the last ends at hi *)
Fixpoint chain (lo : Z) (rows : list raw) (hi : Z) : Prop :=
  match rows with
  | [] => lo = hi
  | r :: t => w_lo r = lo /\ w_lo r < w_hi r /\ chain (w_hi r) t hi
  end.

(* what becomes of one row w of the segmentation method: rows tiling w's own range, all
   with w's log2; either w itself, or one row per allele-frequency run (>= 2 runs), whose
   `probes` is the number of variants of that run *)
Definition resplit_of (w : raw) (run_counts : list Z) (part : list raw) : Prop :=
  chain (w_lo w) part (w_hi w) /\
  Forall (fun r => w_log2 r = w_log2 w) part /\
  (part = [w] \/ ((2 <= length part)%nat /\ map w_probes part = run_counts)).

(* gene / weight / depth of a reported row s against ALL input bins it overlaps -- fields_ok
   -- and the reported row's other columns taken over from the raw row w *)
Definition carries (w : raw) (s : seg) : Prop :=
  s_lo s = w_lo w /\ s_hi s = w_hi w /\ s_probes s = w_probes w /\ s_log2 s = w_log2 w.
