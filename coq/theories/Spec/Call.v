(* Specification objects for C01 (clonal calls invert the purity/ploidy mixing model).
   Stated with the literal numbers of the property text; nothing here refers to the
   generated constants or to the model. *)
From Coq Require Import Qround Qabs.
From CNV Require Import Base.Prelude Base.Str.

Local Open Scope Z_scope.

(* the mixing model in ratio space: a segment with n tumour copies at purity p, on a
   chromosome with r reference copies and x germline copies, shows the ratio
   (p*n + (1-p)*x) / r, i.e. log2 ratio log2 of that *)
Definition mix (n : Z) (p : Q) (r x : Z) : Q :=
  ((p * inject_Z n + (1 - p) * inject_Z x) / inject_Z r)%Q.

(* chromosome naming styles and classes of the property's quantifier *)
Inductive style := ChrStyle | PlainStyle.
Definition xname (s : style) : string := match s with ChrStyle => "chrX" | PlainStyle => "X" end.
Definition yname (s : style) : string := match s with ChrStyle => "chrY" | PlainStyle => "Y" end.

(* a table is consistently named in style s when its first row carries the "chr"
   prefix exactly for ChrStyle *)
Definition consistent (s : style) (first : string) : Prop :=
  str_prefix "chr" first = match s with ChrStyle => true | PlainStyle => false end.

Inductive klass := KAuto | KX | KY | KParX | KParY.

(* (r, x): copies in the reference and in the patient's germline, for ploidy k, a male
   (haploid-X) or female reference and a female or male sample.  k/2 is floor division. *)
Definition spec_copies (k : Z) (male_ref female_sample : bool) (c : klass) : Z * Z :=
  match c with
  | KAuto => (k, k)
  | KX => (if male_ref then k / 2 else k, if female_sample then k else k / 2)
  | KY => (k / 2, if female_sample then 0 else k / 2)
  | KParX => (k, k)        (* diploid PAR: autosome-like *)
  | KParY => (0, 0)        (* PAR on Y is not covered at all *)
  end.

(* pseudo-autosomal regions of the two supported builds (params.PSEUDO_AUTSOMAL_REGIONS) *)
Definition spec_par (build : string) (onY : bool) : list (Z * Z) :=
  if String.eqb build "grch37" then
    if onY then [(10000, 2649520); (59034049, 59363566)] else [(60000, 2699520); (154931043, 155260560)]
  else if String.eqb build "grch38" then
    if onY then [(10000, 2781479); (56887902, 57217415)] else [(10000, 2781479); (155701382, 156030895)]
  else [].

(* a bin lies inside one of the regions *)
Definition within (regs : list (Z * Z)) (lo hi : Z) : bool :=
  existsb (fun '(a, b) => (a <=? lo) && (hi <=? b)) regs.

(* class of a bin named `chrom` in a table of style s, with an optional (lower-case) PAR build *)
Definition spec_class (s : style) (build : option string) (chrom : string) (lo hi : Z) : klass :=
  if String.eqb chrom (xname s) then
    match build with
    | Some b => if within (spec_par b false) lo hi then KParX else KX
    | None => KX
    end
  else if String.eqb chrom (yname s) then
    match build with
    | Some b => if within (spec_par b true) lo hi then KParY else KY
    | None => KY
    end
  else KAuto.

(* q is a nearest integer to x *)
Definition nearest (z : Z) (x : Q) : Prop := (Qabs (inject_Z z - x) <= 1 # 2)%Q.

Definition qmaxs (a b : Q) : Q := if Qle_bool a b then b else a.

(* the rewritten ratio the property states for even ploidy: the ratio of a pure n-copy
   sample against r reference copies, with n floored at `fl` (0.001) of ploidy *)
Definition spec_rescaled (n k r : Z) (fl : Q) : Q :=
  (qmaxs (inject_Z n) (fl * inject_Z k) / inject_Z r)%Q.
