(* Specification objects for C09, stated per reference position.

   "aligned bases of counted reads that fall inside the bin" is the number of
   pairs (read, x) such that the read is counted, lies on the bin's contig, x is
   a position of the bin and the read has a base aligned at x; i.e. the sum over
   the positions x of the bin of the per-base depth at x.  Nothing here uses
   interval arithmetic: positions are enumerated one by one. *)
From Coq Require Import Sorting.Sorted.
From CNV Require Import Base.Prelude Base.Str Model.Chromsort Model.Coverage.

Definition in_block (x : Z) (b : block) : bool := (fst b <=? x) && (x <? snd b).

(* the read has a base aligned (M, = or X) at reference position x *)
Definition aligned_at (r : read) (x : Z) : bool := existsb (in_block x) (read_blocks r).

(* x lies between the first and the last reference position of the alignment
   (deleted / skipped positions included): what samtools' pileup reports *)
Definition spanned_at (r : read) (x : Z) : bool := in_block x (read_span r).

(* the property's filter, with its literal flag bits *)
Definition is_counted (cut : Z) (r : read) : Prop :=
  Z.land (r_flag r) 4 = 0 /\ Z.land (r_flag r) 256 = 0 /\
  Z.land (r_flag r) 512 = 0 /\ Z.land (r_flag r) 1024 = 0 /\ cut <= r_mapq r.

(* per-base depth: number of counted reads of the contig covering x *)
Definition depth_at (cov : read -> Z -> bool) (cut : Z) (c : string) (reads : list read) (x : Z) : Z :=
  Z.of_nat (length (filter (fun r => on_contig c r && counted cut r && cov r x) reads)).

Fixpoint sum_from (f : Z -> Z) (lo : Z) (n : nat) : Z :=
  match n with
  | O => 0
  | S m => f lo + sum_from f (lo + 1) m
  end.

(* sum of f x over lo <= x < hi *)
Definition sum_range (f : Z -> Z) (lo hi : Z) : Z := sum_from f lo (Z.to_nat (hi - lo)).

Definition spec_bases (cov : read -> Z -> bool) (cut : Z) (c : string) (lo hi : Z) (reads : list read) : Z :=
  sum_range (depth_at cov cut c reads) lo hi.

(* well-formed read: cigar lengths and mapping quality are not negative *)
Definition wf_read (r : read) : Prop :=
  Forall (fun p => 0 <= snd p) (r_cigar r) /\ 0 <= r_mapq r.

(* no D and no N in the cigar *)
Definition no_refskip (r : read) : Prop :=
  Forall (fun p => op_refonly (fst p) = false) (r_cigar r).

(* a bin's identity: chromosome, start, end, name (4th column, "-" if absent) *)
Definition bin_key (b : bedline) : string * Z * Z * string :=
  let '(c, lo, hi, rest) := b in
  (c, lo, hi, match rest with [] => "-"%string | g :: _ => g end).

Definition row_key (r : row) : string * Z * Z * string :=
  let '(c, lo, hi, g, _, _) := r in (c, lo, hi, g).

Definition row_depth (r : row) : Q := let '(_, _, _, _, d, _) := r in d.
Definition row_log2 (r : row) : Q := let '(_, _, _, _, _, l) := r in l.

(* which positions of a read an algorithm counts: --count the aligned bases, the
   pileup every position of the read's span (they coincide without D/N) *)
Definition cov_of (alg : algo) : read -> Z -> bool :=
  match alg with Count => aligned_at | Pileup => spanned_at end.

(* the read is flagged unmapped, secondary, QC-fail or duplicate, or its mapping
   quality is below the cut-off *)
Definition filtered_out (cut : Z) (r : read) : Prop :=
  Z.land (r_flag r) 4 <> 0 \/ Z.land (r_flag r) 256 <> 0 \/
  Z.land (r_flag r) 512 <> 0 \/ Z.land (r_flag r) 1024 <> 0 \/ r_mapq r < cut.

(* no counted read of the bin's contig has a (covered) base inside the bin *)
Definition no_base_in_bin (cov : read -> Z -> bool) (cut : Z) (c : string) (lo hi : Z) (reads : list read) : Prop :=
  forall rd x, In rd reads -> r_contig rd = c -> is_counted cut rd -> lo <= x < hi -> cov rd x = false.

(* ---- text layer: well-formed bedcov lines of a k-column BED ------------------ *)

(* a field holds no tab (9), line feed (10) or carriage return (13) *)
Definition plain_field (s : string) : Prop :=
  forallb (fun c => negb (Ascii.eqb c "009"%char || Ascii.eqb c "010"%char || Ascii.eqb c "013"%char))
          (chars s) = true.

(* a field does not begin with a double quote (34) *)
Definition unquoted_field (s : string) : Prop :=
  match chars s with c :: _ => Ascii.eqb c """"%char = false | [] => True end.

(* quoting = 3 is csv.QUOTE_NONE: then quotes are ordinary characters *)
Definition wf_field (quoting : Z) (s : string) : Prop :=
  plain_field s /\ (quoting = 3 \/ unquoted_field s).

(* a line of a k-column BED: chromosome, start, end and k - 3 further fields *)
Definition wf_bedline (quoting : Z) (ncols : nat) (b : bedline) : Prop :=
  let '(c, _, _, rest) := b in (3 + length rest)%nat = ncols /\ Forall (wf_field quoting) (c :: rest).

(* the same without any condition on quote characters *)
Definition plain_bedline (ncols : nat) (b : bedline) : Prop :=
  let '(c, _, _, rest) := b in (3 + length rest)%nat = ncols /\ Forall plain_field (c :: rest).

(* what the parsed record of a bin and its base count has to be: the bin's chromosome,
   start, end, its name (4th column) if there is one, and the count *)
Definition parsed_of (bn : bedline * Z) : parsed :=
  let '((c, lo, hi, rest), n) := bn in (c, lo, hi, hd_opt rest, n).

(* ---- row order ---------------------------------------------------------------- *)

(* rows ordered by (chromosome sort key, start, end) *)
Definition region_sorted (l : list bedline) : Prop :=
  StronglySorted (fun a b => region_leb bed_region a b = true) l.

(* distinct chromosome names of the file have distinct sort keys (no "chr1" next to "1") *)
Definition keys_separate_names (l : list bedline) : Prop :=
  forall a b, In a l -> In b l -> chrom_key (bed_chrom a) = chrom_key (bed_chrom b) -> bed_chrom a = bed_chrom b.

(* the rows of one chromosome, in table order *)
Definition rows_of_chrom (c : string) (l : list bedline) : list bedline :=
  filter (fun b => String.eqb c (bed_chrom b)) l.
