(* C19 -- textbook definitions of the robust estimators, written against plain
   rational arithmetic (no [Qred], no model code).  Order statistics ([median],
   [percentile] with linear interpolation, [qsort]) are the shared definitions of
   Base/QNum.v.  Numbers are the literals of the property text / the published
   formulas; where the package holds a double (1.4826, 1.392, 0.001) the literal
   is that double written as an exact fraction, with an [Example] in Props/C19.v
   stating how close it is to the decimal. *)
From CNV Require Import Base.Prelude Base.QNum.
From Coq Require Import Qabs Qround.
Local Open Scope Q_scope.

(* ---- plain sums ------------------------------------------------------------ *)
Fixpoint sumQ (l : list Q) : Q :=
  match l with [] => 0 | x :: t => x + sumQ t end.

Definition nQ {A} (l : list A) : Q := inject_Z (Z.of_nat (length l)).
Definition meanQ (l : list Q) : Q := sumQ l / nQ l.

(* ---- weighted data: list of (value, weight) -------------------------------- *)
Definition wtotal (ps : list (Q * Q)) : Q := sumQ (map snd ps).
(* weight of the values strictly below / strictly above m *)
Definition wbelow (m : Q) (ps : list (Q * Q)) : Q :=
  sumQ (map snd (filter (fun p => qlt_b (fst p) m) ps)).
Definition wabove (m : Q) (ps : list (Q * Q)) : Q :=
  sumQ (map snd (filter (fun p => qlt_b m (fst p)) ps)).

(* m is a weighted median: at most half of the total weight lies strictly on either side *)
Definition is_weighted_median (m : Q) (ps : list (Q * Q)) : Prop :=
  wbelow m ps <= wtotal ps / 2 /\ wabove m ps <= wtotal ps / 2.
(* ... up to a slack s (the rounding allowance the package makes) *)
Definition is_weighted_median_upto (s m : Q) (ps : list (Q * Q)) : Prop :=
  wbelow m ps <= wtotal ps / 2 + s /\ wabove m ps <= wtotal ps / 2 + s.

Definition nonneg_weights (ps : list (Q * Q)) : Prop := forall p, In p ps -> 0 <= snd p.
Definition pos_weights (ps : list (Q * Q)) : Prop := forall p, In p ps -> 0 < snd p.

(* arranged by value (any arrangement of equal values) *)
Definition sorted_by_value (ps : list (Q * Q)) : Prop :=
  StronglySorted (fun p q : Q * Q => fst p <= fst q) ps.

(* weighted mean and variance: mu = sum w x / sum w, var = sum w (x - mu)^2 / sum w *)
Definition wmeanQ (ps : list (Q * Q)) : Q :=
  sumQ (map (fun p => fst p * snd p) ps) / wtotal ps.
Definition wvarQ (ps : list (Q * Q)) : Q :=
  let mu := wmeanQ ps in
  sumQ (map (fun p => snd p * ((fst p - mu) * (fst p - mu))) ps) / wtotal ps.

(* ---- unweighted scale estimators ------------------------------------------- *)
(* median absolute deviation (unscaled) *)
Definition madQ (a : list Q) : Q := median (map (fun x => Qabs (x - median a)) a).
(* interquartile range, percentiles by linear interpolation *)
Definition iqrQ (a : list Q) : Q := percentile 75 a - percentile 25 a.
(* mean squared deviation from a reference point *)
Definition mseQ (ref : Q) (a : list Q) : Q := meanQ (map (fun x => (x - ref) * (x - ref)) a).

(* gapper (Wainer & Thissen 1976) without its sqrt(pi) factor:
   sum_{i=1}^{n-1} i (n-i) (x_(i+1) - x_(i)) / (n (n-1)) over the order statistics *)
Definition gapper_termsQ (s : list Q) : list Q :=
  let n := length s in
  map (fun i => inject_Z (Z.of_nat (i * (n - i))) * (nthq i s - nthq (i - 1) s)) (seq 1 (n - 1)).
Definition gapperQ (a : list Q) : Q :=
  let n := length a in
  sumQ (gapper_termsQ (qsort a)) / inject_Z (Z.of_nat (n * (n - 1))).

(* Rousseeuw & Croux's Q_n before calibration: first quartile of |x_i - x_j|, i < j *)
Fixpoint pairs_absdiff (a : list Q) : list Q :=
  match a with
  | [] => []
  | x :: t => map (fun y => Qabs (x - y)) t ++ pairs_absdiff t
  end.
Definition qn_quartileQ (a : list Q) : Q := percentile 25 (pairs_absdiff a).

(* ---- Tukey's biweight ------------------------------------------------------- *)
Definition Qmax2 (a b : Q) : Q := if Qle_bool a b then b else a.

(* one step of the biweight location (Beers, Flynn & Gebhardt 1990) from the
   estimate M: scale s = max(c MAD, eps), u = (x - M)/s, points with |u| >= 1 are
   rejected, the rest weighted by (1 - u^2)^2 *)
Definition bw_scale (c eps M : Q) (a : list Q) : Q :=
  Qmax2 (c * median (map (fun x => Qabs (x - M)) a)) eps.
Definition bw_u (s M x : Q) : Q := (x - M) / s.
Definition bw_kept (s M : Q) (a : list Q) : list Q :=
  filter (fun x => qlt_b (Qabs (bw_u s M x)) 1) a.
Definition bw_weight (s M x : Q) : Q :=
  (1 - bw_u s M x * bw_u s M x) * (1 - bw_u s M x * bw_u s M x).

Definition biweight_stepQ (c eps : Q) (a : list Q) (M : Q) : Q :=
  let s := bw_scale c eps M a in
  let kept := bw_kept s M a in
  let W := sumQ (map (bw_weight s M) kept) in
  if Qeq_bool W 0 then M
  else M + sumQ (map (fun x => (x - M) * bw_weight s M x) kept) / W.

(* iterate from M: stop as soon as a step moves the estimate by at most eps, after
   at most [n] steps; [last] is returned when no step is allowed at all *)
Fixpoint biweight_iterQ (n : nat) (c eps : Q) (a : list Q) (M last : Q) : Q :=
  match n with
  | O => last
  | S k =>
      let r := biweight_stepQ c eps a M in
      if Qle_bool (Qabs (r - M)) eps then r else biweight_iterQ k c eps a r r
  end.

(* the published estimator: start at the median *)
Definition biweight_locationQ (n : nat) (c eps : Q) (a : list Q) : Q :=
  biweight_iterQ n c eps a (median a) (median a).

(* biweight midvariance (squared) about M:
   n sum (x-M)^2 (1-u^2)^4 / (sum (1-u^2)(1-5u^2))^2 over the points with |u| < 1 *)
Definition pow4 (x : Q) : Q := (x * x) * (x * x).
Definition midvarianceQ (c eps : Q) (a : list Q) (M : Q) : Q :=
  let s := bw_scale c eps M a in
  let kept := bw_kept s M a in
  let num := nQ kept * sumQ (map (fun x => (x - M) * (x - M) * pow4 (1 - bw_u s M x * bw_u s M x)) kept) in
  let den := sumQ (map (fun x => (1 - bw_u s M x * bw_u s M x) * (1 - 5 * (bw_u s M x * bw_u s M x))) kept) in
  num / (den * den).


(* the biweight midvariance as the package defines it (squared): Tukey's formula about M,
   and the scaled MAD about M (squared) when no kept point deviates from M at all *)
Definition bw_any_dev (s M : Q) (a : list Q) : bool :=
  existsb (fun x => negb (Qeq_bool (bw_u s M x) 0)) (bw_kept s M a).
Definition biweight_midvariance_sqQ (c eps k : Q) (a : list Q) (M : Q) : Q :=
  if bw_any_dev (bw_scale c eps M a) M a then midvarianceQ c eps a M
  else (median (map (fun x => Qabs (x - M)) a) * k) * (median (map (fun x => Qabs (x - M)) a) * k).
(* ---- smoothers -------------------------------------------------------------- *)
(* a window is a list of coefficients; it averages when they sum to 1, convexly
   when they are also non-negative *)
Definition sums_to_one (win : list Q) : Prop := sumQ win == 1.
Definition nonneg_window (win : list Q) : Prop := forall c, In c win -> 0 <= c.
Definition within (lo hi : Q) (l : list Q) : Prop := forall y, In y l -> lo <= y <= hi.
Definition all_eq (c : Q) (l : list Q) : Prop := forall y, In y l -> y == c.

(* ---- mirrored windows ------------------------------------------------------- *)
(* the signal x (n values) extended by [wing] mirrored values on either side
   (x[-1-k] = x[k], x[n+k] = x[n-1-k]): index into x of position j of the extended signal *)
Definition mirror_idx (n wing j : nat) : nat :=
  if (j <? wing)%nat then (wing - 1 - j)%nat
  else if (j <? wing + n)%nat then (j - wing)%nat
  else (2 * n - 1 - (j - wing))%nat.
(* the 2 wing + 1 values x[i-wing .. i+wing] around position i, reflected at both ends *)
Definition mirrored_window (x : list Q) (wing i : nat) : list Q :=
  map (fun k => nthq (mirror_idx (length x) wing (i + k)) x) (seq 0 (2 * wing + 1)).

(* ---- the weighted median of strictly positive weights, as a function of the multiset --- *)
(* either one of the values, with less than half of the weight strictly on either side ... *)
Definition wm_strict (m : Q) (ps : list (Q * Q)) : Prop :=
  exists p, In p ps /\ m == fst p /\ wbelow m ps < wtotal ps / 2 /\ wabove m ps < wtotal ps / 2.
(* ... or the midpoint of two values that split the weight exactly in half (nothing lies between them) *)
Definition wm_split (m : Q) (ps : list (Q * Q)) : Prop :=
  exists p q, In p ps /\ In q ps /\ fst p < fst q /\ m == (fst p + fst q) / 2 /\
              wbelow (fst q) ps == wtotal ps / 2 /\ wabove (fst p) ps == wtotal ps / 2.
Definition wm_determined (m : Q) (ps : list (Q * Q)) : Prop := wm_strict m ps \/ wm_split m ps.
