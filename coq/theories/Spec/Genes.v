(* Specification objects for C16: which bins belong to a gene, and what a correct
   gene-level grouping of one chromosome's bins is.  Stated over positions of the
   chromosome's table, without reference to how the code finds them.
   Literal names ("Antitarget", "-", ".", "CGH", "Background") are those of the
   property text, not the generated constants. *)
From Coq Require Import Qabs.
From CNV Require Import Base.Prelude Base.Str Model.Genes.

Local Open Scope nat_scope.

(* the bin at position i carries gene name g (bin names are split on commas) *)
Definition gene_at (rows : list bin) (g : string) (i : nat) : Prop :=
  exists b, nth_error rows i = Some b /\ In g (genes_of b).

(* f and l are the positions of the first and the last bin of gene g *)
Definition gene_span (rows : list bin) (g : string) (f l : nat) : Prop :=
  gene_at rows g f /\ gene_at rows g l /\ forall i, gene_at rows g i -> f <= i <= l.

(* a name that counts as a gene: not in the ignore list *)
Definition real (ign : list string) (g : string) : Prop := mem_string g ign = false.

(* Precondition of the property: every named gene's bins are consecutive, possibly
   interrupted only by bins without a gene name -- i.e. no bin of another gene lies
   between a gene's first and last bin: the spans of distinct genes are disjoint. *)
Definition spans_disjoint (ign : list string) (rows : list bin) : Prop :=
  forall g g' f l f' l', real ign g -> real ign g' -> g <> g' ->
    gene_span rows g f l -> gene_span rows g' f' l' -> l < f' \/ l' < f.

(* a group that is a gene with exactly its bins first..last *)
Definition gene_group (ign : list string) (rows : list bin) (gr : group) : Prop :=
  real ign (fst gr) /\
  exists f l, gene_span rows (fst gr) f l /\ snd gr = slice rows f (S l).

Definition no_real_gene (ign : list string) (b : bin) : Prop :=
  forall g, In g (genes_of b) -> mem_string g ign = true.

(* a group that is a non-empty stretch of bins carrying no gene, labelled Antitarget *)
Definition gap_group (ign : list string) (gr : group) : Prop :=
  fst gr = "Antitarget"%string /\ snd gr <> [] /\ Forall (no_real_gene ign) (snd gr).

Fixpoint no_adjacent_gaps (gs : list group) : Prop :=
  match gs with
  | a :: ((b :: _) as t) =>
      ~ (fst a = "Antitarget"%string /\ fst b = "Antitarget"%string) /\ no_adjacent_gaps t
  | _ => True
  end.

Definition is_gene_label (gr : group) : bool := negb (String.eqb (fst gr) "Antitarget").

(* The grouping gs of the chromosome table rows is correct:
   1. the groups, concatenated in the order yielded, are the table: genomic order,
      every bin exactly once;
   2. every group is a gene with exactly its bins first..last, or an Antitarget stretch;
   3. every gene is there (with exactly its bins), 4. once;
   5. Antitarget stretches are maximal: no two of them are adjacent (their
      neighbours are gene groups, which begin and end with a bin of the gene). *)
Definition partition_spec (ign : list string) (rows : list bin) (gs : list group) : Prop :=
  concat (map snd gs) = rows /\
  Forall (fun gr => gene_group ign rows gr \/ gap_group ign gr) gs /\
  (forall g f l, real ign g -> gene_span rows g f l -> In (g, slice rows f (S l)) gs) /\
  NoDup (map fst (filter is_gene_label gs)) /\
  no_adjacent_gaps gs.

(* the rows of chromosome c, in table order *)
Definition chrom_rows (c : string) (rows : list bin) : list bin :=
  filter (fun b => String.eqb (b_chr b) c) rows.

(* the table lists its chromosomes one after the other *)
Definition chrom_blocks (blocks : list (string * list bin)) : Prop :=
  NoDup (map fst blocks) /\
  Forall (fun cb => snd cb <> [] /\ Forall (fun b => b_chr b = fst cb) (snd cb)) blocks.

(* ---- textbook statistics (unreduced rationals) ---------------------------------- *)

Fixpoint sum_q (l : list Q) : Q := match l with [] => 0%Q | x :: t => (x + sum_q t)%Q end.
Fixpoint dot_q (xs ws : list Q) : Q :=
  match xs, ws with x :: xt, w :: wt => (x * w + dot_q xt wt)%Q | _, _ => 0%Q end.
Definition weighted_mean (xs ws : list Q) : Q := (dot_q xs ws / sum_q ws)%Q.

(* ---- genemetrics ------------------------------------------------------------------- *)

Local Open Scope Z_scope.

(* a bin of very low coverage: log2 below -20 - (-5), or zero depth *)
Definition low_coverage (b : bin) : bool :=
  Qltb (b_log2 b) (-15 # 1) || Qeq_bool (b_depth b) 0.

Definition usable (skip_low : bool) (own : list bin) : list bin :=
  if skip_low then filter (fun b => negb (low_coverage b)) own else own.

(* weighted mean log2 of a gene's usable bins (plain mean if all their weights are 0);
   None if it has no usable bin *)
Definition gene_mean (skip_low : bool) (own : list bin) : option Q :=
  match usable skip_low own with
  | [] => None
  | _ :: _ =>
      if forallb (fun b => Qeq_bool (b_weight b) 0) (usable skip_low own)
      then Some (meanQ (map b_log2 (usable skip_low own)))
      else Some (wavg (map b_log2 (usable skip_low own)) (map b_weight (usable skip_low own)))
  end.

(* the report row of gene g owning the bins `own`: true start and end, bin count,
   summed weight, weight-averaged depth *)
Definition gene_stats (skip_low : bool) (g : string) (own : list bin) : option grow :=
  match own with
  | [] => None
  | first :: _ =>
      Some (mkGrow g (b_chr first) (b_start first) (b_end (last own first))
                   (gene_mean skip_low own)
                   (wavg (map b_depth own) (map b_weight own))
                   (sumQ (map b_weight own)) (Z.of_nat (length own)) None None)
  end.

Definition named_gene (g : string) : Prop :=
  mem_string g ["-"; "."; "CGH"; "Antitarget"; "Background"; ""]%string = false.

(* r is the row of a named gene of some chromosome, computed on exactly its bins
   first..last, whose mean reaches the threshold and which has enough bins *)
Definition genemetrics_row (rows : list bin) (threshold : Q) (min_probes : Z)
  (skip_low : bool) (r : grow) : Prop :=
  exists c g f l,
    named_gene g /\ gene_span (chrom_rows c rows) g f l /\
    gene_stats skip_low g (slice (chrom_rows c rows) f (S l)) = Some r /\
    reaches threshold (r_log2 r) = true /\ min_probes <= Z.of_nat (S l - f).

(* with segments: r is the row of the part of a named gene inside segment s (`sub` are
   the bins of the segment), carrying the segment's log2, weight and probes *)
Definition segment_gene_row (s : bin) (sub : list bin) (skip_low : bool) (r : grow) : Prop :=
  exists c g f l r0,
    named_gene g /\ gene_span (chrom_rows c sub) g f l /\
    gene_stats skip_low g (slice (chrom_rows c sub) f (S l)) = Some r0 /\
    r = with_segment s r0.

(* the bins of segment s: those of its chromosome that overlap it *)
Definition overlaps (s b : bin) : bool := (b_start s <? b_end b) && (b_start b <? b_end s).
Definition bins_of_segment (rows : list bin) (s : bin) : list bin :=
  filter (overlaps s) (chrom_rows (b_chr s) rows).

(* bins of one chromosome sorted and not nested: ends and starts non-decreasing *)
Definition bins_sorted (crows : list bin) : Prop :=
  StronglySorted (fun a b => b_end a <= b_end b) crows /\
  StronglySorted (fun a b => b_start a <= b_start b) crows.

(* ---- breaks --------------------------------------------------------------------------------- *)

(* a and b are consecutive rows of l *)
Definition adjacent {A} (a b : A) (l : list A) : Prop := exists l1 l2, l = l1 ++ a :: b :: l2.

(* the bins whose (whole) name is g; breaks does not split names on commas *)
Definition gene_rows (g : string) (rows : list bin) : list bin :=
  filter (fun b => String.eqb (b_gene b) g) rows.
Definition gene_bins (c g : string) (rows : list bin) : list bin :=
  gene_rows g (chrom_rows c rows).

(* k reports gene g at the boundary between the consecutive segments cur and next of
   one chromosome: g has at least min_probes bins starting before the boundary and at
   least min_probes bins starting at or after it *)
Definition break_row (rows segs : list bin) (min_probes : Z) (k : brow) : Prop :=
  exists cur next g,
    adjacent cur next segs /\ b_chr next = b_chr cur /\
    mem_string g ["-"; "."; "CGH"; "Antitarget"; "Background"]%string = false /\
    gene_bins (b_chr cur) g rows <> [] /\
    min_probes <= Z.of_nat (countb (fun b => b_start b <? b_end cur) (gene_bins (b_chr cur) g rows)) /\
    min_probes <= Z.of_nat (countb (fun b => b_end cur <=? b_start b) (gene_bins (b_chr cur) g rows)) /\
    k = mkBrow g (b_chr cur) (b_end cur) (Qred (b_log2 next - b_log2 cur))
          (Z.of_nat (countb (fun b => b_start b <? b_end cur) (gene_bins (b_chr cur) g rows)))
          (Z.of_nat (countb (fun b => b_end cur <=? b_start b) (gene_bins (b_chr cur) g rows))).
