(* Specification objects for C16: which bins belong to a gene, and what a correct
   gene-level grouping of one chromosome's bins is.  Stated over positions of the
   chromosome's table, without reference to how the code finds them.
   Literal names ("Antitarget", "-", ".", "CGH", "Background") are those of the
   property text, not the generated constants. *)
From Coq Require Import Qabs.
From CNV Require Import Base.Prelude Base.Str Model.Genes.

Local Open Scope nat_scope.

(* the bin at position i carries gene name g (bin names are split on commas) *)
Definition gene_at (rows : list bin) (g : string) (i : nat) : Prop :=
  exists b, nth_error rows i = Some b /\ In g (genes_of b).

(* f and l are the positions of the first and the last bin of gene g *)
Definition gene_span (rows : list bin) (g : string) (f l : nat) : Prop :=
  gene_at rows g f /\ gene_at rows g l /\ forall i, gene_at rows g i -> f <= i <= l.

(* a name that counts as a gene: not in the ignore list *)
Definition real (ign : list string) (g : string) : Prop := mem_string g ign = false.

(* Precondition of the property: every named gene's bins are consecutive, possibly
   interrupted only by bins without a gene name -- i.e. no bin of another gene lies
   between a gene's first and last bin: the spans of distinct genes are disjoint. *)
Definition spans_disjoint (ign : list string) (rows : list bin) : Prop :=
  forall g g' f l f' l', real ign g -> real ign g' -> g <> g' ->
    gene_span rows g f l -> gene_span rows g' f' l' -> l < f' \/ l' < f.

(* a group that is a gene with exactly its bins first..last *)
Definition gene_group (ign : list string) (rows : list bin) (gr : group) : Prop :=
  real ign (fst gr) /\
  exists f l, gene_span rows (fst gr) f l /\ snd gr = slice rows f (S l).

Definition no_real_gene (ign : list string) (b : bin) : Prop :=
  forall g, In g (genes_of b) -> mem_string g ign = true.

(* a group that is a non-empty stretch of bins carrying no gene, labelled Antitarget *)
Definition gap_group (ign : list string) (gr : group) : Prop :=
  fst gr = "Antitarget"%string /\ snd gr <> [] /\ Forall (no_real_gene ign) (snd gr).

Fixpoint no_adjacent_gaps (gs : list group) : Prop :=
  match gs with
  | a :: ((b :: _) as t) =>
      ~ (fst a = "Antitarget"%string /\ fst b = "Antitarget"%string) /\ no_adjacent_gaps t
  | _ => True
  end.

Definition is_gene_label (gr : group) : bool := negb (String.eqb (fst gr) "Antitarget").

(* The grouping gs of the chromosome table rows is correct:
   1. the groups, concatenated in the order yielded, are the table: genomic order,
      every bin exactly once;
   2. every group is a gene with exactly its bins first..last, or an Antitarget stretch;
   3. every gene is there (with exactly its bins), 4. once;
   5. Antitarget stretches are maximal: no two of them are adjacent (their
      neighbours are gene groups, which begin and end with a bin of the gene). *)
Definition partition_spec (ign : list string) (rows : list bin) (gs : list group) : Prop :=
  concat (map snd gs) = rows /\
  Forall (fun gr => gene_group ign rows gr \/ gap_group ign gr) gs /\
  (forall g f l, real ign g -> gene_span rows g f l -> In (g, slice rows f (S l)) gs) /\
  NoDup (map fst (filter is_gene_label gs)) /\
  no_adjacent_gaps gs.

(* the rows of chromosome c, in table order *)
Definition chrom_rows (c : string) (rows : list bin) : list bin :=
  filter (fun b => String.eqb (b_chr b) c) rows.

(* the table lists its chromosomes one after the other *)
Definition chrom_blocks (blocks : list (string * list bin)) : Prop :=
  NoDup (map fst blocks) /\
  Forall (fun cb => snd cb <> [] /\ Forall (fun b => b_chr b = fst cb) (snd cb)) blocks.

(* ---- textbook statistics (unreduced rationals) ---------------------------------- *)

Fixpoint sum_q (l : list Q) : Q := match l with [] => 0%Q | x :: t => (x + sum_q t)%Q end.
Fixpoint dot_q (xs ws : list Q) : Q :=
  match xs, ws with x :: xt, w :: wt => (x * w + dot_q xt wt)%Q | _, _ => 0%Q end.
Definition weighted_mean (xs ws : list Q) : Q := (dot_q xs ws / sum_q ws)%Q.

(* ---- genemetrics ------------------------------------------------------------------- *)

Local Open Scope Z_scope.

(* a bin of very low coverage: log2 below -20 - (-5), or zero depth *)
Definition low_coverage (b : bin) : bool :=
  Qltb (b_log2 b) (-15 # 1) || Qeq_bool (b_depth b) 0.

Definition usable (skip_low : bool) (own : list bin) : list bin :=
  if skip_low then filter (fun b => negb (low_coverage b)) own else own.

(* weighted mean log2 of a gene's usable bins (plain mean if all their weights are 0);
   None if it has no usable bin *)
Definition gene_mean (skip_low : bool) (own : list bin) : option Q :=
  match usable skip_low own with
  | [] => None
  | _ :: _ =>
      if forallb (fun b => Qeq_bool (b_weight b) 0) (usable skip_low own)
      then Some (meanQ (map b_log2 (usable skip_low own)))
      else Some (wavg (map b_log2 (usable skip_low own)) (map b_weight (usable skip_low own)))
  end.

(* the report row of gene g owning the bins `own`: true start and end, bin count,
   summed weight, weight-averaged depth *)
Definition gene_stats (skip_low : bool) (g : string) (own : list bin) : option grow :=
  match own with
  | [] => None
  | first :: _ =>
      Some (mkGrow g (b_chr first) (b_start first) (b_end (last own first))
                   (gene_mean skip_low own)
                   (wavg (map b_depth own) (map b_weight own))
                   (sumQ (map b_weight own)) (Z.of_nat (length own)) None None)
  end.

Definition named_gene (g : string) : Prop :=
  mem_string g ["-"; "."; "CGH"; "Antitarget"; "Background"; ""]%string = false.

(* r is the row of a named gene of some chromosome, computed on exactly its bins
   first..last, whose mean reaches the threshold and which has enough bins *)
Definition genemetrics_row (rows : list bin) (threshold : Q) (min_probes : Z)
  (skip_low : bool) (r : grow) : Prop :=
  exists c g f l,
    named_gene g /\ gene_span (chrom_rows c rows) g f l /\
    gene_stats skip_low g (slice (chrom_rows c rows) f (S l)) = Some r /\
    reaches threshold (r_log2 r) = true /\ min_probes <= Z.of_nat (S l - f).

(* with segments: r is the row of the part of a named gene inside segment s (`sub` are
   the bins of the segment), carrying the segment's log2, weight and probes *)
Definition segment_gene_row (s : bin) (sub : list bin) (skip_low : bool) (r : grow) : Prop :=
  exists c g f l r0,
    named_gene g /\ gene_span (chrom_rows c sub) g f l /\
    gene_stats skip_low g (slice (chrom_rows c sub) f (S l)) = Some r0 /\
    r = with_segment s r0.

(* the bins of segment s: those of its chromosome that overlap it *)
Definition overlaps (s b : bin) : bool := (b_start s <? b_end b) && (b_start b <? b_end s).
Definition bins_of_segment (rows : list bin) (s : bin) : list bin :=
  filter (overlaps s) (chrom_rows (b_chr s) rows).

(* bins of one chromosome sorted and not nested: ends and starts non-decreasing *)
Definition bins_sorted (crows : list bin) : Prop :=
  StronglySorted (fun a b => b_end a <= b_end b) crows /\
  StronglySorted (fun a b => b_start a <= b_start b) crows.

(* ---- breaks --------------------------------------------------------------------------------- *)

(* a and b are consecutive rows of l *)
Definition adjacent {A} (a b : A) (l : list A) : Prop := exists l1 l2, l = l1 ++ a :: b :: l2.

(* the bins whose (whole) name is g; breaks does not split names on commas *)
Definition gene_rows (g : string) (rows : list bin) : list bin :=
  filter (fun b => String.eqb (b_gene b) g) rows.
Definition gene_bins (c g : string) (rows : list bin) : list bin :=
  gene_rows g (chrom_rows c rows).

(* k reports gene g at the boundary between the consecutive segments cur and next of
   one chromosome: g has at least min_probes bins starting before the boundary and at
   least min_probes bins starting at or after it *)
Definition break_row (rows segs : list bin) (min_probes : Z) (k : brow) : Prop :=
  exists cur next g,
    adjacent cur next segs /\ b_chr next = b_chr cur /\
    mem_string g ["-"; "."; "CGH"; "Antitarget"; "Background"]%string = false /\
    gene_bins (b_chr cur) g rows <> [] /\
    min_probes <= Z.of_nat (countb (fun b => b_start b <? b_end cur) (gene_bins (b_chr cur) g rows)) /\
    min_probes <= Z.of_nat (countb (fun b => b_end cur <=? b_start b) (gene_bins (b_chr cur) g rows)) /\
    k = mkBrow g (b_chr cur) (b_end cur) (Qred (b_log2 next - b_log2 cur))
          (Z.of_nat (countb (fun b => b_start b <? b_end cur) (gene_bins (b_chr cur) g rows)))
          (Z.of_nat (countb (fun b => b_end cur <=? b_start b) (gene_bins (b_chr cur) g rows))).

(* ==== by_gene on ANY table (no precondition): position ranges ================================ *)

Local Open Scope nat_scope.

(* the chromosomes of a table and the gene names of a chromosome's bins (split on commas), each in
   order of first occurrence *)
Definition chroms_in_order (rows : list bin) : list string := dedup (map b_chr rows).
Definition genes_in_order (rows : list bin) : list string := dedup (flat_map genes_of rows).

Definition carries (g : string) (b : bin) : bool := mem_string g (genes_of b).

(* position of the first / last element satisfying p (0 if there is none) *)
Fixpoint first_idx {A} (p : A -> bool) (l : list A) : nat :=
  match l with [] => 0 | b :: t => if p b then 0 else S (first_idx p t) end.
Fixpoint last_idx {A} (p : A -> bool) (l : list A) : nat :=
  match l with [] => 0 | b :: t => if existsb p t then S (last_idx p t) else 0 end.

Definition first_pos (g : string) (rows : list bin) : nat := first_idx (carries g) rows.
Definition last_pos (g : string) (rows : list bin) : nat := last_idx (carries g) rows.

(* every gene name of the chromosome with the positions of its first and last bin, in order of first
   occurrence *)
Definition spans_in_order (rows : list bin) : list gentry :=
  map (fun g => (g, first_pos g rows, last_pos g rows)) (genes_in_order rows).
Definition real_spans (ign : list string) (rows : list bin) : list gentry :=
  filter (fun e => negb (mem_string (ge_name e) ign)) (spans_in_order rows).

(* a yielded group as a range of positions a..b-1 *)
Definition prange := (string * nat * nat)%type.
Definition pr_label (r : prange) : string := fst (fst r).
Definition pr_a (r : prange) : nat := snd (fst r).
Definition pr_b (r : prange) : nat := snd r.
Definition in_prange (i : nat) (r : prange) : bool := (pr_a r <=? i) && (i <? pr_b r).
(* how many of the yielded groups contain the bin at position i *)
Definition times_yielded (rs : list prange) (i : nat) : nat := countb (in_prange i) rs.
Definition groups_of_ranges (rows : list bin) (rs : list prange) : list group :=
  map (fun r => (pr_label r, slice rows (pr_a r) (pr_b r))) rs.

(* What by_gene does with the genes S = (g1,f1,l1), (g2,f2,l2), ... taken in order of first
   occurrence, on a chromosome of n bins: before each gene, the stretch from the end of the PREVIOUS
   gene of that order to the gene's first bin (if not empty) as "Antitarget", then the gene's
   positions first..last; at the end the stretch from the end of the last gene to the end. *)
Definition gap (a b : nat) : list prange := if a <? b then [("Antitarget"%string, a, b)] else [].
Fixpoint ranges_from (n prev : nat) (spans : list gentry) : list prange :=
  match spans with
  | [] => gap prev n
  | (g, f, l) :: t => gap prev f ++ (g, f, S l) :: ranges_from n (S l) t
  end.
Definition yielded_ranges (ign : list string) (rows : list bin) : list prange :=
  ranges_from (length rows) 0 (real_spans ign rows).

(* end of the last gene of a prefix of S (0 for the empty prefix), first bin of the first gene of a
   suffix (n for the empty suffix) *)
Definition end_of (pre : list gentry) : nat :=
  match rev pre with [] => 0 | e :: _ => S (ge_last e) end.
Definition start_of (n : nat) (post : list gentry) : nat :=
  match post with [] => n | e :: _ => ge_first e end.

Local Open Scope Z_scope.

(* ==== the complete report tables ================================================================ *)
From CNV Require Import Model.Reports.
From CNV Require Model.Center.

(* ---- the X adjustment (shift_xx): which bins, by how much ---------------------------------------- *)

(* the name of X follows the table's first row: "chrX" if it starts with "chr", else "X" *)
Definition x_name (rows : list bin) : string := x_label rows.

Definition in_par_x (p : Center.parb) (b : bin) : bool :=
  let '(s1, e1, s2, e2) := Center.par_x p in
  ((s1 <=? b_start b) && (b_end b <=? e1)) || ((s2 <=? b_start b) && (b_end b <=? e2)).

(* on X and, when a genome build is given, not inside PAR1 / PAR2 of X *)
Definition on_x_nonpar (build : option Center.parb) (rows : list bin) (b : bin) : bool :=
  String.eqb (b_chr b) (x_name rows) &&
  match build with Some p => negb (in_par_x p b) | None => true end.

Definition shift_by (d : Q) (build : option Center.parb) (rows : list bin) : list bin :=
  map (fun b => if on_x_nonpar build rows b then set_log2 b (Qred (b_log2 b + d)) else b) rows.

(* sex = Some true: female; Some false or None (no X bins to guess from): treated as male.
   -1 on X for a female sample on a haploid-X reference, +1 for a male one on a diploid-X reference *)
Definition x_adjusted (hap : bool) (sex : option bool) (build : option Center.parb) (rows : list bin) : list bin :=
  let female := match sex with Some true => true | _ => false end in
  if female && hap then shift_by (-1 # 1) build rows
  else if negb female && negb hap then shift_by (1 # 1) build rows
  else rows.

Definition x_adjusted_segs (hap : bool) (sex : option bool) (build : option Center.parb) (segs : list seg) : list seg :=
  map (fun sb => mkSeg (snd sb) (sg_extra (fst sb)))
      (combine segs (x_adjusted hap sex build (map sg_bin segs))).

(* ---- the rows ---------------------------------------------------------------------------------------- *)

Definition named_geneb (g : string) : bool :=
  negb (mem_string g ["-"; "."; "CGH"; "Antitarget"; "Background"; ""]%string).

(* the bins of gene g on a chromosome: from its first to its last bin *)
Definition own_bins (g : string) (crows : list bin) : list bin :=
  slice crows (first_pos g crows) (S (last_pos g crows)).

(* every named gene with its own bins: chromosomes in order of first appearance, genes of a
   chromosome in order of first occurrence *)
Definition named_groups (rows : list bin) : list group :=
  flat_map (fun c => flat_map (fun g => if named_geneb g then [(g, own_bins g (chrom_rows c rows))] else [])
                              (genes_in_order (chrom_rows c rows)))
           (chroms_in_order rows).

Definition gene_rows_spec (skip_low : bool) (rows : list bin) : list grow :=
  flat_map (fun gr => match gene_stats skip_low (fst gr) (snd gr) with Some r => [r] | None => [] end)
           (named_groups rows).

(* a named gene whose weights sum to 0: its weight-averaged depth is undefined (the code raises) *)
Definition zero_weight_gene (rows : list bin) : bool :=
  existsb (fun gr => Qeq_bool (sumQ (map b_weight (snd gr))) 0) (named_groups rows).

Definition enough_probes (min_probes : Z) (n : Z) : bool := (min_probes =? 0) || (min_probes <=? n).

(* ---- headers and cells --------------------------------------------------------------------------------- *)

Definition empty_header : list string := ["gene"; "chromosome"; "start"; "end"; "log2"]%string.

Definition without_gene (cols : list string) : list string :=
  filter (fun c => negb (String.eqb c "gene")) cols.

(* gene first, then the bin table's other columns in their order, then probes if it was not there *)
Definition gene_table_columns (ccols : list string) : list string :=
  "gene"%string :: without_gene (ccols ++ (if mem_string "probes" ccols then [] else ["probes"%string])).

(* the segment table's columns copied into the rows: those the bin table lacks, except depth / probes / weight *)
Definition copied_columns (ccols scols : list string) : list string :=
  filter (fun c => negb (mem_string c ccols) && negb (mem_string c ["depth"; "probes"; "weight"]%string)) scols.

(* ... then the copied segment columns, probes (if new), segment_weight / segment_probes when the
   segment table has weight / probes *)
Definition seg_table_columns (ccols scols : list string) : list string :=
  let base := ccols ++ copied_columns ccols scols in
  "gene"%string ::
  without_gene (base ++ (if mem_string "probes" base then [] else ["probes"%string])
                     ++ (if mem_string "weight" scols then ["segment_weight"%string] else [])
                     ++ (if mem_string "probes" scols then ["segment_probes"%string] else [])).

Definition report_cell (r : grow) (extra : list (string * option Q)) (c : string) : cell :=
  if String.eqb c "gene" then CS (r_gene r)
  else if String.eqb c "chromosome" then CS (r_chr r)
  else if String.eqb c "start" then CZ (r_start r)
  else if String.eqb c "end" then CZ (r_end r)
  else if String.eqb c "log2" then CQ (r_log2 r)
  else if String.eqb c "depth" then CQ (Some (r_depth r))
  else if String.eqb c "weight" then CQ (Some (r_weight r))
  else if String.eqb c "probes" then CZ (r_probes r)
  else if String.eqb c "segment_weight" then CQ (r_segw r)
  else if String.eqb c "segment_probes" then match r_segp r with Some p => CZ p | None => CQ None end
  else CQ (lookup_extra c extra).

Definition has_required (ccols : list string) : Prop :=
  Forall (fun c => In c ccols) ["chromosome"; "start"; "end"; "gene"; "log2"]%string.

(* ---- the complete genemetrics table, without segments -------------------------------------------------- *)

Definition genemetrics_table (ccols : list string) (rows' : list bin) (threshold : Q) (min_probes : Z)
  (skip_low : bool) : option table :=
  if zero_weight_gene rows' then None
  else
    let reaching := filter (fun r => reaches threshold (r_log2 r)) (gene_rows_spec skip_low rows') in
    match reaching with
    | [] => Some (empty_header, [])
    | _ :: _ =>
        let cols := gene_table_columns ccols in
        Some (cols, map (fun r => map (report_cell r []) cols)
                        (filter (fun r => enough_probes min_probes (r_probes r)) reaching))
    end.

(* ---- ... and given segments ----------------------------------------------------------------------------- *)

(* the segments chromosome by chromosome (order of first appearance), table order within one *)
Definition segments_in_order (segs : list seg) : list seg :=
  flat_map (fun c => filter (fun s => String.eqb (seg_chr s) c) segs) (dedup (map seg_chr segs)).

Definition seg_row (hw hp : bool) (s : seg) (xcols : list string) (r : grow) : frow :=
  mkFrow (mkGrow (r_gene r) (r_chr r) (r_start r) (r_end r) (Some (b_log2 (sg_bin s)))
                 (r_depth r) (r_weight r) (r_probes r)
                 (if hw then Some (b_weight (sg_bin s)) else None)
                 (if hp then Some (b_probes (sg_bin s)) else None))
         (map (fun c => (c, lookup_extra c (sg_extra s))) xcols).

Definition genemetrics_table_segments (ccols scols : list string) (rows' : list bin) (segs' : list seg)
  (threshold : Q) (min_probes : Z) (skip_low : bool) : option table :=
  let hw := mem_string "weight" scols in
  let hp := mem_string "probes" scols in
  let reaching := filter (fun s => Qle_bool threshold (Qabs (b_log2 (sg_bin s)))) (segments_in_order segs') in
  if existsb (fun s => zero_weight_gene (bins_of_segment rows' (sg_bin s))) reaching then None
  else
    let body := flat_map (fun s => map (seg_row hw hp s (copied_columns ccols scols))
                                       (gene_rows_spec skip_low (bins_of_segment rows' (sg_bin s))))
                         reaching in
    match body with
    | [] => Some (empty_header, [])
    | _ :: _ =>
        let cols := seg_table_columns ccols scols in
        Some (cols, map (fun r => map (report_cell (f_row r) (f_extra r)) cols)
                        (filter (fun r => enough_probes min_probes
                                            (if hp then match r_segp (f_row r) with Some p => p | None => 0 end
                                             else r_probes (f_row r))) body))
    end.

(* ==== breaks: the complete, ordered list of rows ================================================== *)
From CNV Require Import Model.Chromsort.

Definition minZ (l : list Z) : Z := match l with [] => 0 | x :: t => fold_left Z.min t x end.

Definition ignored_for_breaks (g : string) : bool :=
  mem_string g ["-"; "."; "CGH"; "Antitarget"; "Background"]%string.

(* the interval of gene g (whole bin names) on chromosome c: its bins' smallest start, largest end *)
Definition gene_min_start (c g : string) (rows : list bin) : Z := minZ (map b_start (gene_bins c g rows)).
Definition gene_max_end (c g : string) (rows : list bin) : Z := maxZ (map b_end (gene_bins c g rows)).
Definition gene_starts (c g : string) (rows : list bin) : list Z := sortZ (map b_start (gene_bins c g rows)).

(* the genes of chromosome c in the order get_gene_intervals lists them: first occurrence, then
   stably sorted by their sorted lists of bin starts (Python list comparison) *)
Definition genes_by_position (c : string) (rows : list bin) : list string :=
  stable_sort (fun g g' => lex_le (gene_starts c g rows) (gene_starts c g' rows))
              (dedup (map b_gene (filter (fun b => negb (ignored_for_breaks (b_gene b))) (chrom_rows c rows)))).

(* the row of gene g at the boundary between the consecutive segments cur and next: the boundary lies
   strictly inside the gene's interval and the gene's OWN bins number at least min_probes on each side *)
Definition break_rows_at (min_probes : Z) (rows : list bin) (cur next : bin) (g : string) : list brow :=
  let c := b_chr cur in
  let e := b_end cur in
  let own := gene_bins c g rows in
  let left := Z.of_nat (countb (fun b => b_start b <? e) own) in
  let right := Z.of_nat (countb (fun b => e <=? b_start b) own) in
  if (gene_min_start c g rows <? e) && (e <? gene_max_end c g rows) && (min_probes <=? left) && (min_probes <=? right)
  then [mkBrow g c e (Qred (b_log2 next - b_log2 cur)) left right]
  else [].

(* boundaries in segment-table order (consecutive rows of the same chromosome), genes by position *)
Fixpoint breaks_unsorted (min_probes : Z) (rows segs : list bin) : list brow :=
  match segs with
  | cur :: ((next :: _) as t) =>
      (if String.eqb (b_chr next) (b_chr cur)
       then flat_map (break_rows_at min_probes rows cur next) (genes_by_position (b_chr cur) rows)
       else [])
      ++ breaks_unsorted min_probes rows t
  | _ => []
  end.

(* the order of the result: by min(probes left, probes right), then by |change|, both descending *)
Definition break_key_ge (x y : brow) : Prop :=
  Z.min (k_left y) (k_right y) < Z.min (k_left x) (k_right x) \/
  (Z.min (k_left y) (k_right y) = Z.min (k_left x) (k_right x) /\ (Qabs (k_change y) <= Qabs (k_change x))%Q).
Definition same_break_key (z y : brow) : bool := bkey_ge z y && bkey_ge y z.

(* ==== squash_genes: every field of every output row ================================================ *)
From CNV Require Import Base.QNum.

(* contract of the summary function (default: biweight location, C19_biloc_range): it stays within
   the range of the values it summarises *)
Definition est_within (est : list Q -> Q) : Prop :=
  forall a, a <> [] -> (qmin a <= est a <= qmax a)%Q.

(* the columns in the order squash_genes assumes: required columns, depth, weight, probes (optional) *)
Definition squash_columns (has_probes : bool) : list string :=
  ["chromosome"; "start"; "end"; "gene"; "log2"; "depth"; "weight"]%string
  ++ (if has_probes then ["probes"%string] else []).

(* a bin kept as it is *)
Definition kept_row (has_probes : bool) (b : bin) : list cell :=
  [CS (b_chr b); CZ (b_start b); CZ (b_end b); CS (b_gene b); CQ (Some (b_log2 b));
   CQ (Some (b_depth b)); CQ (Some (b_weight b))] ++ (if has_probes then [CZ (b_probes b)] else []).

(* two or more bins reduced to one: first bin's chromosome and start, last bin's end, the group's
   label, the summary function of log2, of depth and of weight (each over the group's bins), the sum
   of probes *)
Definition squashed_row (est : list Q -> Q) (has_probes : bool) (label : string) (own : list bin) : list cell :=
  match own with
  | [] => []
  | first :: _ =>
      [CS (b_chr first); CZ (b_start first); CZ (b_end (last own first)); CS label;
       CQ (Some (est (map b_log2 own))); CQ (Some (est (map b_depth own))); CQ (Some (est (map b_weight own)))]
      ++ (if has_probes then [CZ (sumZ (map b_probes own))] else [])
  end.

(* an Antitarget / Background group is kept bin by bin unless squash_antitarget; a group of one bin is
   kept as it is (with its own name); any other group becomes one row *)
Definition squash_rows_of (est : list Q -> Q) (has_probes squash_antitarget : bool) (gr : group) : list (list cell) :=
  match snd gr with
  | [] => []
  | [b] => [kept_row has_probes b]
  | _ :: _ :: _ =>
      if mem_string (fst gr) ["Antitarget"; "Background"]%string && negb squash_antitarget
      then map (kept_row has_probes) (snd gr)
      else [squashed_row est has_probes (fst gr) (snd gr)]
  end.
