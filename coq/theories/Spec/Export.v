(* Specification objects for C20 (exports state exactly the calls they were given).
   Row-wise statements with the literal strings and numbers of the property text; the
   class table (reference / expected copies per chromosome class, sexes, PAR) is the one
   of Spec/Call.v.  Only the record types of the tables are shared with the model. *)
From Coq Require Import Qabs.
From CNV Require Import Base.Prelude Base.Str Model.Decimal Spec.Call.
From CNV Require Import Model.Call Model.Export.

Local Open Scope Z_scope.

Section Copies.
  (* naming style of the table, lower-cased PAR build (None: no PAR handling), ploidy,
     reference sex (true = male / haploid X), sample sex, presence of a cn column *)
  Variables (st : style) (lb : option string) (k : Z) (male_ref female has_cn : bool).

  Definition sp_copies (s : seg) : Z * Z :=
    spec_copies k male_ref female (spec_class st lb (s_chrom s) (s_lo s) (s_hi s)).

  Definition sp_reference (s : seg) : Z := fst (sp_copies s).
  Definition sp_expect (s : seg) : Z := snd (sp_copies s).

  (* the integer copy number of a segment: its cn, or round(r * 2^log2) *)
  Definition sp_ncopies (s : seg) : Z :=
    if has_cn then s_cn s else round_he (inject_Z (sp_reference s) * s_e s).

  (* a segment differs from the copy number expected for its chromosome and the sample's sex *)
  Definition sp_variant (s : seg) : bool := negb (sp_ncopies s =? sp_expect s).
  Definition sp_off_ploidy (s : seg) : bool := negb (sp_ncopies s =? k).

  (* ------------------------------------------------------------ BED *)
  (* chromosome, 0-based start, end, label (the given one, else the gene), integer copy number *)
  Definition sp_bed_row (label : option string) (s : seg) : bed_row :=
    (s_chrom s, s_lo s, s_hi s,
     match label with
     | Some l => if String.eqb l "" then s_gene s else l
     | None => s_gene s
     end,
     sp_ncopies s).

  Definition sp_bed (label : option string) (keep : seg -> bool) (rows : list seg) : list bed_row :=
    map (sp_bed_row label) (filter keep rows).

  (* ------------------------------------------------------------ VCF *)
  (* a probe count that prints as digits *)
  Definition sp_numeric (s : seg) : bool :=
    match s_probes s with Some p => 0 <=? p | None => false end.

  Definition sp_vcf_rows (rows : list seg) : list seg :=
    filter (fun s => sp_variant s && sp_numeric s) rows.

  Record vcf_fields (s : seg) (r : vcf_rec) : Prop := mkFields {
    f_chrom : v_chrom r = s_chrom s;
    f_pos : v_pos r = (if s_lo s =? 0 then 1 else s_lo s);
    f_end : v_end r = s_hi s;
    f_del : v_svtype r = "DEL"%string <-> sp_ncopies s < sp_expect s;
    f_dup : v_svtype r = "DUP"%string <-> sp_expect s < sp_ncopies s;
    f_alt : v_alt r = ("<" ++ v_svtype r ++ ">")%string;
    f_svlen : v_svlen r = (if sp_ncopies s <? sp_expect s then - (s_hi s - s_lo s) else s_hi s - s_lo s);
    f_probes : s_probes s = Some (v_probes r);
    f_format : v_format r = if Z.ltb (sp_ncopies s) (sp_expect s) then "GT:GQ"%string else "GT:GQ:CN:CNQ"%string;
    f_sample : v_sample r =
               (if Z.ltb (sp_ncopies s) (sp_expect s)
                then (if Z.eqb (sp_ncopies s) 0 then "1/1" else "0/1") ++ ":" ++ print_Z (v_probes r)
                else "0/1:0:" ++ print_Z (sp_ncopies s) ++ ":" ++ print_Z (v_probes r))%string;
    f_fold : v_fold r = s_e s /\ v_log2 r = s_v s;
    f_fixed : v_id r = "."%string /\ v_ref r = "N"%string /\ v_qual r = "."%string /\ v_filter r = "."%string
  }.
End Copies.

(* ---------------------------------------------------------------- SEG *)

(* names in order of first appearance *)
Fixpoint uniq (l : list string) : list string :=
  match l with
  | [] => []
  | x :: t => x :: filter (fun y => negb (String.eqb y x)) (uniq t)
  end.

Fixpoint first_index (c : string) (names : list string) (i : Z) : option Z :=
  match names with
  | [] => None
  | x :: t => if String.eqb x c then Some i else first_index c t (i + 1)
  end.

(* the text of the chrom column: the name, or -- when ids are asked for -- the 1-based
   position of the name among the distinct names of the first sample (names the first
   sample does not have stay as they are) *)
Definition sp_chrom_text (enumerate : bool) (first_names : list string) (c : string) : string :=
  if enumerate then
    match first_index c (uniq first_names) 1 with Some i => print_Z i | None => c end
  else c.

Definition sp_seg_rows (enumerate : bool) (samples : list (string * list seg)) : list seg_out :=
  let first_names := match samples with (_, f) :: _ => map s_chrom f | [] => [] end in
  concat (map (fun sr : string * list seg =>
                 map (fun s => (fst sr, sp_chrom_text enumerate first_names (s_chrom s),
                                s_lo s + 1, s_hi s, s_probes s, s_v s)) (snd sr))
              samples).

(* ---------------------------------------------------------------- CDT / JTV / nexus *)

Definition sp_label (b : bin) : string :=
  (b_chrom b ++ ":" ++ print_Z (b_lo b) ++ "-" ++ print_Z (b_hi b) ++ ":" ++ b_gene b)%string.

Definition dflt_bin : bin := mkBin "" 0 0 "" 0.

(* one row per bin of the first sample: its label and, per sample in order, that sample's log2 *)
Definition sp_matrix (samples : list (string * list bin)) : list (string * list Q) :=
  match samples with
  | [] => []
  | (_, bins0) :: _ =>
      map (fun i => (sp_label (nth i bins0 dflt_bin),
                     map (fun s : string * list bin => b_v (nth i (snd s) dflt_bin)) samples))
          (seq 0 (length bins0))
  end.

(* the samples' bins are the same bins (same labels, hence -- for names without ':' and
   non-negative coordinates -- the same chromosome, start, end and gene) *)
Definition sp_same_bins (samples : list (string * list bin)) : Prop :=
  match samples with
  | [] => True
  | (_, bins0) :: rest => Forall (fun s : string * list bin => map sp_label (snd s) = map sp_label bins0) rest
  end.

Definition sp_reserved : list string := ["chromosome"; "start"; "end"; "gene"; "label"]%string.

Definition sp_ids_ok (samples : list (string * list bin)) : Prop :=
  NoDup (map fst samples) /\ Forall (fun s : string * list bin => ~ In (fst s) sp_reserved) samples.

Definition sp_cdt_row (i : nat) (r : string * list Q) : cdt_row :=
  (("GENE" ++ print_Z (Z.of_nat i) ++ "X")%string, ("IMAGE:" ++ print_Z (Z.of_nat i))%string, fst r, 1, snd r).

Definition sp_nexus_row (b : bin) : nexus_row :=
  (b_chrom b, b_lo b, b_hi b, b_gene b, b_v b,
   (b_chrom b ++ ":" ++ print_Z (b_lo b + 1) ++ "-" ++ print_Z (b_hi b))%string).

(* ---------------------------------------------------------------- round half to even *)

(* n is the integer nearest to x, the even one of the two when x lies exactly half-way
   (numpy's / IEEE's round-half-to-even): this determines n *)
Definition half_even (n : Z) (x : Q) : Prop :=
  nearest n x /\ (Qabs (inject_Z n - x) == 1 # 2 -> Z.even n = true)%Q.

(* ---------------------------------------------------------------- CIPOS / CIEND *)

(* the bins of the .cnr sharing at least one base with the segment, in table order: (start, end) *)
Definition sp_bins_in (bins : list (string * Z * Z)) (s : seg) : list (Z * Z) :=
  map (fun b : string * Z * Z => (snd (fst b), snd b))
      (filter (fun b : string * Z * Z =>
                 String.eqb (fst (fst b)) (s_chrom s) && (snd (fst b) <? s_hi s) && (s_lo s <? snd b)) bins).

(* from the segment's start to the end of its first bin; from the start of its last bin to
   the segment's end; None: the segment has no bin *)
Definition sp_left_margin (bins : list (string * Z * Z)) (s : seg) : option Z :=
  match sp_bins_in bins s with [] => None | b :: _ => Some (snd b - s_lo s) end.
Definition sp_right_margin (bins : list (string * Z * Z)) (s : seg) : option Z :=
  match sp_bins_in bins s with [] => None | b :: t => Some (s_hi s - fst (last t b)) end.

Definition dflt_seg : seg := mkSeg "" 0 0 "" 0 0 0 None.

(* (CIPOS, CIEND) of the i-th segment of the table, as the code computes them: the position
   may lie as far left as the previous row's last bin start (minus that row's right margin;
   0 for the first row) and as far right as the end of the segment's own first bin; the end
   as far left as the start of the segment's own last bin and as far right as the next row's
   first bin end (0 for the last row).  "Previous" / "next" are the table's rows, whatever
   their chromosome. *)
Definition sp_ci (bins : list (string * Z * Z)) (rows : list seg) (i : nat) : ciquad :=
  ((match i with
    | O => Some 0
    | S j => option_map Z.opp (sp_right_margin bins (nth j rows dflt_seg))
    end,
    sp_left_margin bins (nth i rows dflt_seg)),
   (sp_right_margin bins (nth i rows dflt_seg),
    if (S i =? length rows)%nat then Some 0 else sp_left_margin bins (nth (S i) rows dflt_seg))).

(* ---------------------------------------------------------------- VCF text *)

Definition sp_tab : string := String (ascii_of_nat 9) EmptyString.

Definition sp_info (r : vcf_rec) (tok : string * string) (ci : option (string * string)) : string :=
  ("IMPRECISE;SVTYPE=" ++ v_svtype r ++ ";END=" ++ print_Z (v_end r) ++ ";SVLEN=" ++ print_Z (v_svlen r)
   ++ ";FOLD_CHANGE=" ++ fst tok ++ ";FOLD_CHANGE_LOG=" ++ snd tok ++ ";PROBES=" ++ print_Z (v_probes r)
   ++ match ci with Some (a, b) => ";" ++ a ++ ";" ++ b | None => "" end)%string.

(* #CHROM POS ID REF ALT QUAL FILTER INFO FORMAT sample, tab-separated; ID, QUAL, FILTER are "." *)
Definition sp_vcf_line (r : vcf_rec) (tok : string * string) (ci : option (string * string)) : string :=
  (v_chrom r ++ sp_tab ++ print_Z (v_pos r) ++ sp_tab ++ "." ++ sp_tab ++ "N" ++ sp_tab
   ++ "<" ++ v_svtype r ++ ">" ++ sp_tab ++ "." ++ sp_tab ++ "." ++ sp_tab ++ sp_info r tok ci ++ sp_tab
   ++ v_format r ++ sp_tab ++ v_sample r)%string.

Definition sp_vcf_column_line (sid : string) : string :=
  ("#CHROM" ++ sp_tab ++ "POS" ++ sp_tab ++ "ID" ++ sp_tab ++ "REF" ++ sp_tab ++ "ALT" ++ sp_tab ++ "QUAL"
   ++ sp_tab ++ "FILTER" ++ sp_tab ++ "INFO" ++ sp_tab ++ "FORMAT" ++ sp_tab ++ sid)%string.

(* CIPOS=(a,b) / CIEND=(c,d) with the margins printed as integers -- the text when every
   segment of the table has a bin (integer columns; a missing margin would print as nan) *)
Definition sp_margin_text (o : option Z) : string :=
  match o with Some z => print_Z z | None => "nan"%string end.

Definition sp_ci_text (q : ciquad) : string * string :=
  let '((a, b), (c, d)) := q in
  (("CIPOS=(" ++ sp_margin_text a ++ "," ++ sp_margin_text b ++ ")")%string,
   ("CIEND=(" ++ sp_margin_text c ++ "," ++ sp_margin_text d ++ ")")%string).

(* ---------------------------------------------------------------- nexus-ogt *)

(* a bin is dropped iff a threshold is given, the table has weights and the bin's weight is
   a number below the threshold *)
Definition sp_ogt_keeps (min_weight : Q) (has_weight : bool) (b : obin) : bool :=
  negb (negb (Qeq_bool min_weight 0) && has_weight
        && match o_w b with Some w => negb (Qle_bool min_weight w) | None => false end).

(* ---------------------------------------------------------------- THetA *)

(* an integer name, optionally prefixed with "chr" *)
Definition sp_is_auto (s : string) : bool :=
  let l := chars s in
  let d := if prefixb (chars "chr") l then skipn 3 l else l in
  match d with [] => false | _ => forallb is_digit d end.

(* the segments THetA gets: the autosomal ones; the whole table when no chromosome is named
   by an integer *)
Definition sp_theta_kept (rows : list tseg) : list tseg :=
  if existsb (fun s => sp_is_auto (t_chrom s)) rows then filter (fun s => sp_is_auto (t_chrom s)) rows else rows.

(* chrm: 1-based rank of the chromosome among the kept rows' distinct names, first appearance *)
Definition sp_theta_chrm (kept : list tseg) (s : tseg) : Z :=
  match first_index (t_chrom s) (uniq (map t_chrom kept)) 1 with Some i => i | None => 0 end.

Definition sp_theta_id (chrm lo hi : Z) : string :=
  ("start_" ++ print_Z chrm ++ "_" ++ print_Z lo ++ ":end_" ++ print_Z chrm ++ "_" ++ print_Z hi)%string.

(* #ID, chrm, start (0-based, as in the table), end *)
Definition sp_theta_key (kept : list tseg) (s : tseg) : string * Z * Z * Z :=
  (sp_theta_id (sp_theta_chrm kept s) (t_lo s) (t_hi s), sp_theta_chrm kept s, t_lo s, t_hi s).

(* read count before rounding: nbins * 200 * (2^log2 * 500) / 100 *)
Definition sp_theta_value (e nb : Q) : Q := (nb * 200 * (e * 500) / 100)%Q.

Definition sp_sum (l : list Q) : Q := fold_right Qplus 0%Q l.
Definition sp_mean (l : list Q) : Q := (sp_sum l / inject_Z (Z.of_nat (length l)))%Q.

(* the per-segment bin counts when no normal / reference is given (m = the largest weight,
   characterised by C20_theta_max):
     weights with some value above 1 ("already multiplied by the probe counts"): weight * mean / max;
     otherwise the probe count -- or, without a probes column, the segment's size over the
     mean size -- times, when there are (old-style) weights, weight / mean weight *)
Definition sp_theta_nbins (hp hw : bool) (m : Q) (kept : list tseg) : list Q :=
  let ws := map t_weight kept in
  let sizes := map (fun s => inject_Z (t_hi s - t_lo s)) kept in
  if hw && existsb (fun w => negb (Qle_bool w 1)) ws
  then map (fun w => w / (m / sp_mean ws))%Q ws
  else map (fun s => ((if hp then inject_Z (t_probes s) else inject_Z (t_hi s - t_lo s) / sp_mean sizes)
                      * (if hw then t_weight s / sp_mean ws else 1))%Q) kept.

(* the log2 of the normal's bins sharing a base with the segment, in table order *)
Definition sp_normal_log2 (normal : list nbin) (s : tseg) : list Q :=
  map nb_log2
      (filter (fun b => String.eqb (nb_chrom b) (t_chrom s)
                        && (snd (fst (nb_region b)) <? t_hi s) && (t_lo s <? snd (nb_region b))) normal).

(* the normal table THetA's reference means are taken from: its autosomal bins *)
Definition sp_theta_normal (normal : list nbin) : list nbin :=
  if existsb (fun b => sp_is_auto (nb_chrom b)) normal then filter (fun b => sp_is_auto (nb_chrom b)) normal else normal.
