(* Specification objects for C20 (exports state exactly the calls they were given).
   Row-wise statements with the literal strings and numbers of the property text; the
   class table (reference / expected copies per chromosome class, sexes, PAR) is the one
   of Spec/Call.v.  Only the record types of the tables are shared with the model. *)
From Coq Require Import Qabs.
From CNV Require Import Base.Prelude Base.Str Model.Decimal Spec.Call.
From CNV Require Import Model.Call Model.Export.

Local Open Scope Z_scope.

Section Copies.
  (* naming style of the table, lower-cased PAR build (None: no PAR handling), ploidy,
     reference sex (true = male / haploid X), sample sex, presence of a cn column *)
  Variables (st : style) (lb : option string) (k : Z) (male_ref female has_cn : bool).

  Definition sp_copies (s : seg) : Z * Z :=
    spec_copies k male_ref female (spec_class st lb (s_chrom s) (s_lo s) (s_hi s)).

  Definition sp_reference (s : seg) : Z := fst (sp_copies s).
  Definition sp_expect (s : seg) : Z := snd (sp_copies s).

  (* the integer copy number of a segment: its cn, or round(r * 2^log2) *)
  Definition sp_ncopies (s : seg) : Z :=
    if has_cn then s_cn s else round_he (inject_Z (sp_reference s) * s_e s).

  (* a segment differs from the copy number expected for its chromosome and the sample's sex *)
  Definition sp_variant (s : seg) : bool := negb (sp_ncopies s =? sp_expect s).
  Definition sp_off_ploidy (s : seg) : bool := negb (sp_ncopies s =? k).

  (* ------------------------------------------------------------ BED *)
  (* chromosome, 0-based start, end, label (the given one, else the gene), integer copy number *)
  Definition sp_bed_row (label : option string) (s : seg) : bed_row :=
    (s_chrom s, s_lo s, s_hi s,
     match label with
     | Some l => if String.eqb l "" then s_gene s else l
     | None => s_gene s
     end,
     sp_ncopies s).

  Definition sp_bed (label : option string) (keep : seg -> bool) (rows : list seg) : list bed_row :=
    map (sp_bed_row label) (filter keep rows).

  (* ------------------------------------------------------------ VCF *)
  (* a probe count that prints as digits *)
  Definition sp_numeric (s : seg) : bool :=
    match s_probes s with Some p => 0 <=? p | None => false end.

  Definition sp_vcf_rows (rows : list seg) : list seg :=
    filter (fun s => sp_variant s && sp_numeric s) rows.

  Record vcf_fields (s : seg) (r : vcf_rec) : Prop := mkFields {
    f_chrom : v_chrom r = s_chrom s;
    f_pos : v_pos r = (if s_lo s =? 0 then 1 else s_lo s);
    f_end : v_end r = s_hi s;
    f_del : v_svtype r = "DEL"%string <-> sp_ncopies s < sp_expect s;
    f_dup : v_svtype r = "DUP"%string <-> sp_expect s < sp_ncopies s;
    f_alt : v_alt r = ("<" ++ v_svtype r ++ ">")%string;
    f_svlen : v_svlen r = (if sp_ncopies s <? sp_expect s then - (s_hi s - s_lo s) else s_hi s - s_lo s);
    f_probes : s_probes s = Some (v_probes r);
    f_format : v_format r = if Z.ltb (sp_ncopies s) (sp_expect s) then "GT:GQ"%string else "GT:GQ:CN:CNQ"%string;
    f_sample : v_sample r =
               (if Z.ltb (sp_ncopies s) (sp_expect s)
                then (if Z.eqb (sp_ncopies s) 0 then "1/1" else "0/1") ++ ":" ++ print_Z (v_probes r)
                else "0/1:0:" ++ print_Z (sp_ncopies s) ++ ":" ++ print_Z (v_probes r))%string;
    f_fold : v_fold r = s_e s /\ v_log2 r = s_v s;
    f_fixed : v_id r = "."%string /\ v_ref r = "N"%string /\ v_qual r = "."%string /\ v_filter r = "."%string
  }.
End Copies.

(* ---------------------------------------------------------------- SEG *)

(* names in order of first appearance *)
Fixpoint uniq (l : list string) : list string :=
  match l with
  | [] => []
  | x :: t => x :: filter (fun y => negb (String.eqb y x)) (uniq t)
  end.

Fixpoint first_index (c : string) (names : list string) (i : Z) : option Z :=
  match names with
  | [] => None
  | x :: t => if String.eqb x c then Some i else first_index c t (i + 1)
  end.

(* the text of the chrom column: the name, or -- when ids are asked for -- the 1-based
   position of the name among the distinct names of the first sample (names the first
   sample does not have stay as they are) *)
Definition sp_chrom_text (enumerate : bool) (first_names : list string) (c : string) : string :=
  if enumerate then
    match first_index c (uniq first_names) 1 with Some i => print_Z i | None => c end
  else c.

Definition sp_seg_rows (enumerate : bool) (samples : list (string * list seg)) : list seg_out :=
  let first_names := match samples with (_, f) :: _ => map s_chrom f | [] => [] end in
  concat (map (fun sr : string * list seg =>
                 map (fun s => (fst sr, sp_chrom_text enumerate first_names (s_chrom s),
                                s_lo s + 1, s_hi s, s_probes s, s_v s)) (snd sr))
              samples).

(* ---------------------------------------------------------------- CDT / JTV / nexus *)

Definition sp_label (b : bin) : string :=
  (b_chrom b ++ ":" ++ print_Z (b_lo b) ++ "-" ++ print_Z (b_hi b) ++ ":" ++ b_gene b)%string.

Definition dflt_bin : bin := mkBin "" 0 0 "" 0.

(* one row per bin of the first sample: its label and, per sample in order, that sample's log2 *)
Definition sp_matrix (samples : list (string * list bin)) : list (string * list Q) :=
  match samples with
  | [] => []
  | (_, bins0) :: _ =>
      map (fun i => (sp_label (nth i bins0 dflt_bin),
                     map (fun s : string * list bin => b_v (nth i (snd s) dflt_bin)) samples))
          (seq 0 (length bins0))
  end.

(* the samples' bins are the same bins (same labels, hence -- for names without ':' and
   non-negative coordinates -- the same chromosome, start, end and gene) *)
Definition sp_same_bins (samples : list (string * list bin)) : Prop :=
  match samples with
  | [] => True
  | (_, bins0) :: rest => Forall (fun s : string * list bin => map sp_label (snd s) = map sp_label bins0) rest
  end.

Definition sp_reserved : list string := ["chromosome"; "start"; "end"; "gene"; "label"]%string.

Definition sp_ids_ok (samples : list (string * list bin)) : Prop :=
  NoDup (map fst samples) /\ Forall (fun s : string * list bin => ~ In (fst s) sp_reserved) samples.

Definition sp_cdt_row (i : nat) (r : string * list Q) : cdt_row :=
  (("GENE" ++ print_Z (Z.of_nat i) ++ "X")%string, ("IMAGE:" ++ print_Z (Z.of_nat i))%string, fst r, 1, snd r).

Definition sp_nexus_row (b : bin) : nexus_row :=
  (b_chrom b, b_lo b, b_hi b, b_gene b, b_v b,
   (b_chrom b ++ ":" ++ print_Z (b_lo b + 1) ++ "-" ++ print_Z (b_hi b))%string).
