(* C05: the statements, against the mathematical objects, with the literal numbers of the
   property text (0, -1, +1, c = 6 / 9, 5 iterations, 1e-3, 1.4826).  Tukey's estimators are in
   Spec/Biweight.v. *)
From CNV Require Import Base.Prelude Base.QNum Spec.Biweight.
From Coq Require Import Qabs.
Local Open Scope Q_scope.

(* ---- gc / rmask: fractions of the unambiguous bases of a sequence ---------------------------- *)
Definition one_of (l : list ascii) (c : ascii) : bool := existsb (Ascii.eqb c) l.
Definition is_gc_base : ascii -> bool := one_of ["G"; "C"; "g"; "c"]%char.
Definition is_unambiguous : ascii -> bool := one_of ["A"; "C"; "G"; "T"; "a"; "c"; "g"; "t"]%char.
Definition is_masked_base : ascii -> bool := one_of ["a"; "c"; "g"; "t"]%char.

Definition count_if (p : ascii -> bool) (s : list ascii) : Z := Z.of_nat (length (filter p s)).

Definition fraction (num den : Z) : Q := if (den =? 0)%Z then 0 else inject_Z num / inject_Z den.
Definition gc_fraction (s : list ascii) : Q := fraction (count_if is_gc_base s) (count_if is_unambiguous s).
Definition rmask_fraction (s : list ascii) : Q := fraction (count_if is_masked_base s) (count_if is_unambiguous s).

(* bases start .. stop-1 of a sequence (0-based, half-open), as far as the sequence goes *)
Definition bases_of {A} (s : list A) (start stop : Z) : list A :=
  firstn (Z.to_nat (stop - start)) (skipn (Z.to_nat start) s).

(* ---- the flat reference ------------------------------------------------------------------------ *)
(* PAR1 / PAR2 of one chromosome: (start1, end1, start2, end2); a bin is pseudo-autosomal when
   it lies inside one of them *)
Definition inside_par (p : Z * Z * Z * Z) (lo hi : Z) : bool :=
  let '(s1, e1, s2, e2) := p in
  (((s1 <=? lo)%Z && (hi <=? e1)%Z) || ((s2 <=? lo)%Z && (hi <=? e2)%Z)).

(* 0 on autosomes (and anything that is not X / Y), -1 on Y, -1 on X only for a male reference;
   with a PAR build the pseudo-autosomal part of X stays at 0.  xl / yl: the names of X and Y in
   the table's naming style; parx: the PAR of X for the chosen build, if one was chosen. *)
Definition flat_level (male_reference : bool) (parx : option (Z * Z * Z * Z)) (xl yl chrom : string)
  (lo hi : Z) : Q :=
  if String.eqb chrom yl then -1
  else if String.eqb chrom xl then
         if male_reference then
           match parx with
           | Some p => if inside_par p lo hi then 0 else -1
           | None => -1
           end
         else 0
  else 0.

(* ---- the sex shift ------------------------------------------------------------------------------- *)
(* what a centred value v of a sample becomes: plus the flat level of the bin; a male (or unknown)
   sample's X and Y gain one copy (+1); a female sample's Y is set to the single-copy level -1 *)
Definition shifted_value (female : bool) (flat : Q) (on_x on_y : bool) (v : Q) : Q :=
  if female then (if on_y then -1 else v + flat)
  else (if on_x || on_y then v + flat + 1 else v + flat).

(* ---- per-bin consensus -------------------------------------------------------------------------- *)
(* the reference value and squared spread of one bin, from its column = flat :: shifted samples *)
Definition consensus_log2 (col : list Q) : Q := biweight_location_spec 6 eps_1e3 5 col.
Definition consensus_spread_sq (col : list Q) : Q :=
  biweight_midvar_sq_spec 9 eps_1e3 mad_to_sd col (consensus_log2 col).

(* ---- sortedness of a table (GenomicArray.sort order is given by a boolean "not after") ---------- *)
Definition sorted_by {A} (leb : A -> A -> bool) (l : list A) : Prop :=
  StronglySorted (fun a b => leb a b = true) l.

(* ---- bounded noise: the "~" clauses of the property, made deterministic ---------------------------- *)
(* A cohort of normals "differing only in depth plus noise": every file is a common profile plus a
   per-file constant, up to eps in every bin.  Then (Props/C05.v, the C05_bounded_noise theorems), with r the
   largest distance of a value of the bin's column -- the flat pseudo-sample included -- from the
   ideal value v,
        r = max (2 eps) |flat - v|            (2 eps: eps of noise + eps the centring can move),
   the reference's log2 is within r of v and  spread^2 <= spread_K_radius * r^2;  when the flat level is
   the ideal value itself (a profile centred at the flat level), r = 2 eps and
        spread^2 <= spread_K * eps^2. *)
Definition noise_radius (eps flat v : Q) : Q := Qmax2 (2 * eps) (Qabs (flat - v)).
Definition spread_K_radius : Q := 62.       (* two regimes: 59.5 and 61.2, see Proofs/ReferenceNoise.v *)
Definition spread_K : Q := 248.             (* 62 * 2^2 *)
(* the property's tolerance for "~": 0.15; reached by 2 eps at eps = 3/40 *)
Definition tolerance : Q := 15 # 100.
Definition tolerance_eps : Q := 3 # 40.

(* the depth column: the same location estimator over the samples' depths alone (no pseudo-sample); one sample's
   depth is that sample's depth *)
Definition consensus_depth (dcol : list Q) : Q :=
  match dcol with
  | [x] => x
  | _ => biweight_location_spec 6 eps_1e3 5 dcol
  end.
