(* C17 -- the Benjamini-Hochberg adjustment as the property text defines it.

   For p-values p_1..p_n with order statistics p_(1) <= .. <= p_(n) the adjusted value
   of the hypothesis of rank i is   q_(i) = min 1 (min_{j >= i} n * p_(j) / j).

   Two equivalent statements are given.
   * [bh_val ps p] -- rank-free (well defined under ties): the minimum, capped at 1, of
     n*t / #{k | p_k <= t} over the values t of the vector with p <= t.  It is the
     smallest level at which the step-up procedure rejects a hypothesis with p-value p.
   * [bh_rank s i] -- the formula above, literally, on an ascending vector s (0-based i).
   Proofs/Bintest.v proves that they agree and that the model's [bh] computes them. *)
From CNV Require Import Base.Prelude Base.QNum.
Local Open Scope Q_scope.

Definition count_le (t : Q) (ps : list Q) : nat :=
  length (filter (fun x => qle_b x t) ps).

(* n * t / #{k | p_k <= t} *)
Definition bh_term (ps : list Q) (t : Q) : Q :=
  qdiv (qmul (qofnat (length ps)) t) (qofnat (count_le t ps)).

Definition minl (d : Q) (l : list Q) : Q := fold_left qmin2 l d.

Definition bh_val (ps : list Q) (p : Q) : Q :=
  minl 1 (map (bh_term ps) (filter (fun t => qle_b p t) ps)).

Definition bh_def (ps : list Q) : list Q := map (bh_val ps) ps.

(* min 1 (min_{j >= i} n * s_j / (j+1)), 0-based *)
Definition bh_rank (s : list Q) (i : nat) : Q :=
  minl 1 (map (fun j => qdiv (qmul (qofnat (length s)) (nthq j s)) (qofnat (S j)))
              (seq i (length s - i))).
