(* C17 -- textbook definitions of the statistics `segmetrics` reports, stated against the
   mathematical objects (plain sums over Q, ascending rearrangements), with the literal
   numbers of the definitions (25 / 75 / 50 / 100, ddof 0 and 1).  No model function is
   used here; Proofs/Segmetrics*.v show that the model computes exactly these.

   Order statistics are relational: "s is an ascending rearrangement of l" -- the same
   multiset of rational numbers (two fractions denoting the same number are the same
   element: [Qred] is the canonical representative) in non-decreasing order. *)
From CNV Require Import Base.Prelude.
From Coq Require Import Qround Qabs.
Local Open Scope Q_scope.

(* ---- moments --------------------------------------------------------------- *)
Fixpoint sumQ (l : list Q) : Q := match l with [] => 0 | x :: t => x + sumQ t end.
Definition lenQ (l : list Q) : Q := inject_Z (Z.of_nat (length l)).

Definition mean_def (l : list Q) : Q := sumQ l / lenQ l.

(* sum of squared deviations from the mean over (n - ddof) *)
Definition var_def (ddof : nat) (l : list Q) : Q :=
  sumQ (map (fun x => (x - mean_def l) * (x - mean_def l)) l) / (lenQ l - inject_Z (Z.of_nat ddof)).

(* standard deviation squared (population), standard error of the mean squared (ddof 1) *)
Definition stdev_sq_def (l : list Q) : Q := var_def 0 l.
Definition sem_sq_def (l : list Q) : Q := var_def 1 l / lenQ l.

(* mean squared error of deviations: the mean of their squares *)
Definition mse_def (d : list Q) : Q := sumQ (map (fun x => x * x) d) / lenQ d.

(* one-sample t statistic against 0, squared: mean^2 / (var_1 / n) *)
Definition t_sq_def (l : list Q) : Q := mean_def l * mean_def l * lenQ l / var_def 1 l.

(* ---- order statistics ------------------------------------------------------ *)
Definition same_numbers (s l : list Q) : Prop := Permutation (map Qred s) (map Qred l).
Definition ascending (s : list Q) : Prop := StronglySorted Qle s.
Definition rearranged (s l : list Q) : Prop := same_numbers s l /\ ascending s.

(* the middle value; the mean of the two middle values for an even count *)
Definition is_median (m : Q) (l : list Q) : Prop :=
  exists s, rearranged s l /\
    let n := length s in
    if Nat.odd n then m == nth (n / 2) s 0
    else m == (nth (n / 2 - 1) s 0 + nth (n / 2) s 0) / 2.

(* numpy's default percentile ("linear"): position h = (n-1) p / 100 in the ascending
   values, linearly interpolated between the neighbours floor h and floor h + 1 *)
Definition is_percentile (p v : Q) (l : list Q) : Prop :=
  exists s, rearranged s l /\
    let h := inject_Z (Z.of_nat (length s - 1)) * p / 100 in
    let i := Z.to_nat (Qfloor h) in
    let a := nth i s 0 in
    let b := nth (S i) s a in
    v == a + (h - inject_Z (Qfloor h)) * (b - a).

(* median absolute deviation from the median, times a consistency constant *)
Definition is_mad (scale v : Q) (l : list Q) : Prop :=
  exists m md, is_median m l /\ is_median md (map (fun x => Qabs (x - m)) l) /\ v == scale * md.

(* third minus first quartile *)
Definition is_iqr (v : Q) (l : list Q) : Prop :=
  exists q1 q3, is_percentile 25 q1 l /\ is_percentile 75 q3 l /\ v == q3 - q1.

(* ---- biweight midvariance about a location M, tuning constant c -------------
   u_i = (x_i - M) / (c MAD),  MAD = median |x_i - M|;  over the points with |u_i| < 1:
   n' * sum (x_i - M)^2 (1 - u_i^2)^4  /  ( sum (1 - u_i^2)(1 - 5 u_i^2) )^2 ,
   n' the number of such points (the sample-size convention of the implementation the
   code cites) *)
Definition bw_u (c M mad x : Q) : Q := (x - M) / (c * mad).
Definition bw_kept (c M mad : Q) (l : list Q) : list Q :=
  filter (fun x => negb (Qle_bool 1 (Qabs (bw_u c M mad x)))) l.
Definition pow4 (x : Q) : Q := x * x * x * x.
Definition bivar_sq_formula (c M mad : Q) (l : list Q) : Q :=
  let k := bw_kept c M mad l in
  lenQ k * sumQ (map (fun x => (x - M) * (x - M) * pow4 (1 - bw_u c M mad x * bw_u c M mad x)) k)
  / ((sumQ (map (fun x => (1 - bw_u c M mad x * bw_u c M mad x)
                          * (1 - 5 * (bw_u c M mad x * bw_u c M mad x))) k))
     * (sumQ (map (fun x => (1 - bw_u c M mad x * bw_u c M mad x)
                          * (1 - 5 * (bw_u c M mad x * bw_u c M mad x))) k))).
Definition is_bivar_sq (c M v : Q) (l : list Q) : Prop :=
  exists mad, is_median mad (map (fun x => Qabs (x - M)) l) /\ v == bivar_sq_formula c M mad l.

(* ---- minimum and maximum ---------------------------------------------------- *)
Definition is_min (m : Q) (l : list Q) : Prop := In m l /\ forall x, In x l -> m <= x.
Definition is_max (m : Q) (l : list Q) : Prop := In m l /\ forall x, In x l -> x <= m.
