(* Entry points for C10: the ensure_path / write rounds on the name family p, p.1, p.2, ... *)
From CNV Require Import Base.Prelude Base.Val Model.World.

Definition getFile (v : val) : option (nat * string) :=
  match getPair getZ getS v with
  | Some (n, c) => if n <? 0 then None else Some (Z.to_nat n, c)
  | None => None
  end.

Definition vFile (p : nat * string) : val := VL [VZ (Z.of_nat (fst p)); VS (snd p)].

(* (initial files, contents written in order) -> final files (association list, unordered) *)
Definition e_c10_rounds (v : val) : val :=
  match getPair (getList getFile) (getList getS) v with
  | Some (f0, cs) =>
      match write_rounds f0 cs with
      | Some f => VL (map vFile f)
      | None => VErr "fuel"
      end
  | None => bad_input
  end.
