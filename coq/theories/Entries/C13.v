(* Entry points for C13 (access): model functions behind val -> val wrappers. *)
From CNV Require Import Base.Prelude Base.Val Base.Str Model.Access Spec.Runs.

Definition vRegions (l : list (Z * Z)) : val := VL (map vPairZ l).
Definition getRegions (v : val) : option (list (Z * Z)) := getList (getPair getZ getZ) v.

(* lines of one FASTA record -> regions (model of get_regions) *)
Definition e_c13_regions (v : val) : val :=
  match getList getS v with
  | Some lines => vRegions (get_regions_record lines)
  | None => bad_input
  end.

(* whole sequence -> maximal non-N runs (the specification function) *)
Definition e_c13_runs (v : val) : val :=
  match getS v with
  | Some s => vRegions (runs isN_ascii (chars s))
  | None => bad_input
  end.

Definition e_c13_join (v : val) : val :=
  match getPair getZ getRegions v with
  | Some (g, rows) =>
      match join_regions g rows with
      | Some r => vRegions r
      | None => VErr "assert gap > 0"
      end
  | None => bad_input
  end.

Definition e_c13_canonical (v : val) : val :=
  match getS v with
  | Some s => VB (is_canonical_contig_name s)
  | None => bad_input
  end.
