(* Entry points for C13 (access): model functions behind val -> val wrappers. *)
From CNV Require Import Base.Prelude Base.Val Base.Str Model.Access Spec.Runs.

Definition vRegions (l : list (Z * Z)) : val := VL (map vPairZ l).
Definition getRegions (v : val) : option (list (Z * Z)) := getList (getPair getZ getZ) v.

(* lines of one FASTA record -> regions (model of get_regions) *)
Definition e_c13_regions (v : val) : val :=
  match getList getS v with
  | Some lines => vRegions (get_regions_record lines)
  | None => bad_input
  end.

(* whole sequence -> maximal non-N runs (the specification function) *)
Definition e_c13_runs (v : val) : val :=
  match getS v with
  | Some s => vRegions (runs isN_ascii (chars s))
  | None => bad_input
  end.

Definition e_c13_join (v : val) : val :=
  match getPair getZ getRegions v with
  | Some (g, rows) =>
      match join_regions g rows with
      | Some r => vRegions r
      | None => VErr "assert gap > 0"
      end
  | None => bad_input
  end.

Definition e_c13_canonical (v : val) : val :=
  match getS v with
  | Some s => VB (is_canonical_contig_name s)
  | None => bad_input
  end.

(* ---- pipeline / genome / text layer ----------------------------------------------------- *)
From CNV Require Import Model.AccessText Model.AccessPipe.

Definition vTagged (l : list tagged) : val :=
  VL (map (fun r => VL [VS (t_name r); VZ (snd (fst r)); VZ (snd r)]) l).
Definition getTagged (v : val) : option (list tagged) :=
  getList (fun x => match getTriple getS getZ getZ x with
                    | Some (c, s, e) => Some (c, s, e)
                    | None => None
                    end) v.

Definition vAccess (o : option (list tagged)) (msg : string) : val :=
  match o with Some r => vTagged r | None => VErr msg end.

(* text -> its lines under universal newlines, terminators removed *)
Definition e_c13_lines (v : val) : val :=
  match getS v with
  | Some s => VL (map (fun l => VS (unchars l)) (lines_of (chars s)))
  | None => bad_input
  end.

(* header line -> sequence name ; any line -> rstrip *)
Definition e_c13_header_name (v : val) : val :=
  match getS v with
  | Some s => VS (header_name (chars s))
  | None => bad_input
  end.

Definition e_c13_rstrip (v : val) : val :=
  match getS v with
  | Some s => VS (unchars (rstrip (chars s)))
  | None => bad_input
  end.

(* FASTA text -> (chrom, start, end) rows (model of get_regions on the file) *)
Definition e_c13_regions_text (v : val) : val :=
  match getS v with
  | Some s => vAccess (get_regions_text s) "sequence line before the first header"
  | None => bad_input
  end.

(* one sequence: (gap, runs, exclude tables) -> joined regions *)
Definition e_c13_sequence (v : val) : val :=
  match getTriple getZ getRegions (getList getRegions) v with
  | Some (g, runs, excls) =>
      match access_sequence g runs excls with
      | Some r => vRegions r
      | None => VErr "assert gap > 0"
      end
  | None => bad_input
  end.

Definition getAccessArgs (v : val) :=
  match v with
  | VL [vg; vskip; vx; vex] =>
      match getOpt getZ vg, getB vskip, getList getTagged vex with
      | Some g, Some skip, Some excls => Some (g, skip, vx, excls)
      | _, _, _ => None
      end
  | _ => None
  end.

(* (min_gap_size or None, skip_noncanonical, regions table, exclude tables) -> do_access *)
Definition e_c13_access (v : val) : val :=
  match getAccessArgs v with
  | Some (g, skip, vx, excls) =>
      match getTagged vx with
      | Some regions => vAccess (do_access g skip regions excls) "assert gap > 0"
      | None => bad_input
      end
  | None => bad_input
  end.

(* (min_gap_size or None, skip_noncanonical, FASTA text, exclude tables) -> do_access *)
Definition e_c13_access_text (v : val) : val :=
  match getAccessArgs v with
  | Some (g, skip, vx, excls) =>
      match getS vx with
      | Some txt =>
          match get_regions_text txt with
          | Some regions => vAccess (do_access g skip regions excls) "assert gap > 0"
          | None => VErr "sequence line before the first header"
          end
      | None => bad_input
      end
  | None => bad_input
  end.
