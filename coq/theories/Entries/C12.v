(* Entry points for C12 (target / antitarget bins): model functions behind
   val -> val wrappers.  A genome-table row crosses the boundary as
   (start end chromosome gene). *)
From CNV Require Import Base.Prelude Base.Val Base.Str Model.IvRow Model.Intervals
  Model.Target Model.Antitarget.
From CNV Require Gen.BinsDefaults Model.Chromsort.

Definition c12_getRow (v : val) : option grow :=
  match v with
  | VL [VZ a; VZ b; VS c; VS g] => Some (a, b, (c, g))
  | _ => None
  end.
Definition c12_getRows (v : val) : option (list grow) := getList c12_getRow v.

Definition c12_vRow (r : grow) : val := VL [VZ (lo r); VZ (hi r); VS (chrom r); VS (gene r)].
Definition c12_vRows (l : list grow) : val := VL (map c12_vRow l).

(* the cut oracle is supplied as a table (span, nbins, [cut 1; ...; cut (nbins-1)]);
   a missing point falls back to the exact floor *)
Definition c12_lookup_cut (cuts : list (Z * Z * list Z)) (span n i : Z) : Z :=
  match find (fun c => (fst (fst c) =? span) && (snd (fst c) =? n)) cuts with
  | Some c => nth (Z.to_nat (i - 1)) (snd c) (i * span / n)
  | None => i * span / n
  end.

Definition c12_getCuts (v : val) : option (list (Z * Z * list Z)) :=
  getList (getTriple getZ getZ (getList getZ)) v.

(* [split; avg; baits; cuts] -> rows of do_target *)
Definition e_c12_target (v : val) : val :=
  match v with
  | VL [VB split; avg; baits; cuts] =>
      match getQ avg, c12_getRows baits, c12_getCuts cuts with
      | Some a, Some b, Some cs =>
          if Qle_bool a 0 then VErr "avg_size <= 0"
          else c12_vRows (do_target split a (c12_lookup_cut cs) b)
      | _, _, _ => bad_input
      end
  | _ => bad_input
  end.

(* labels -> for every output position the candidate names *)
Definition e_c12_shorten (v : val) : val :=
  match getList getS v with
  | Some labels => VL (map (fun c => VL (map VS c)) (shorten_labels labels))
  | None => bad_input
  end.

(* [targets; access or None; avg; min or None; cuts] -> rows of do_antitarget *)
Definition e_c12_antitarget (v : val) : val :=
  match v with
  | VL [targets; access; avg; mn; cuts] =>
      match c12_getRows targets, getOpt c12_getRows access, getQ avg, getOpt getZ mn, c12_getCuts cuts with
      | Some t, Some acc, Some a, Some m, Some cs =>
          if Qle_bool a 0 then VErr "avg_size <= 0"
          else match do_antitarget t acc a m (c12_lookup_cut cs) with
               | AntiRows rows => c12_vRows rows
               | AntiValueError => VErr "ValueError"
               | AntiNeedOracle => VErr "oracle needed: non-integral MIN_REF_COVERAGE"
               end
      | _, _, _, _, _ => bad_input
      end
  | _ => bad_input
  end.

(* [split; avg; baits; cuts; annotation rows as read] -> rows of do_target(..., annotate=...) *)
Definition e_c12_target_annot (v : val) : val :=
  match v with
  | VL [VB split; avg; baits; cuts; annot] =>
      match getQ avg, c12_getRows baits, c12_getCuts cuts, c12_getRows annot with
      | Some a, Some b, Some cs, Some an =>
          if Qle_bool a 0 then VErr "avg_size <= 0"
          else match do_target_full (fun l => hd EmptyString l) split a (c12_lookup_cut cs) (Some an) false b with
               | AnnotRows rows => c12_vRows rows
               | AnnotValueError => VErr "ValueError"
               end
      | _, _, _, _ => bad_input
      end
  | _ => bad_input
  end.

(* labels -> per position the single name the code emits whatever the set order, or None *)
Definition e_c12_shorten_det (v : val) : val :=
  match getList getS v with
  | Some labels => VL (map (fun o => match o with Some x => VS x | None => VNone end) (shorten_labels_det labels))
  | None => bad_input
  end.

(* chromosome name -> (key number, key string) of sorter_chrom *)
Definition e_c12_chrom_key (v : val) : val :=
  match getS v with
  | Some c => let k := Model.Chromsort.chrom_key c in VL [VZ (fst k); VS (snd k)]
  | None => bad_input
  end.

(* [avg; span] -> int(round(span / avg)) or 1, exactly *)
Definition e_c12_nbins (v : val) : val :=
  match v with
  | VL [avg; VZ span] =>
      match getQ avg with
      | Some a => if Qle_bool a 0 then VErr "avg_size <= 0" else VZ (nbins_q a span)
      | None => bad_input
      end
  | _ => bad_input
  end.

(* avg -> the default minimum bin size 2 * int(avg * 2 ** MIN_REF_COVERAGE) *)
Definition e_c12_default_min (v : val) : val :=
  match getQ v with
  | Some a => vOptZ (default_min_size a)
  | None => bad_input
  end.

(* [targets; access or None] -> the accessible regions actually binned *)
Definition e_c12_access (v : val) : val :=
  match v with
  | VL [targets; access] =>
      match c12_getRows targets, getOpt c12_getRows access with
      | Some t, Some acc =>
          match effective_access t acc with
          | Some rows => c12_vRows rows
          | None => VErr "ValueError"
          end
      | _, _ => bad_input
      end
  | _ => bad_input
  end.
