(* Entry points for C14 (segment filters): model functions behind val -> val wrappers.
   A row crosses the boundary as a list of 16 values in the order of the record
   fields of Model.Segfilters.seg (missing cell = VNone). *)
From CNV Require Import Base.Prelude Base.Val Base.Str Model.Segfilters Spec.Segfilters.

Definition getOQ (v : val) : option (option Q) := getOpt getQ v.

Definition getSeg (v : val) : option seg :=
  match v with
  | VL [c; a; b; g; l; p; w; d; bf; n; n1; n2; pb; cl; ch; se] =>
      match getS c, getZ a, getZ b, getS g, getQ l, getZ p, getQ w, getOQ d with
      | Some c', Some a', Some b', Some g', Some l', Some p', Some w', Some d' =>
          match getOQ bf, getQ n, getOQ n1, getOQ n2, getOQ pb, getOQ cl, getOQ ch, getOQ se with
          | Some bf', Some n', Some n1', Some n2', Some pb', Some cl', Some ch', Some se' =>
              Some (mkSeg c' a' b' g' l' p' w' d' bf' n' n1' n2' pb' cl' ch' se')
          | _, _, _, _, _, _, _, _ => None
          end
      | _, _, _, _, _, _, _, _ => None
      end
  | _ => None
  end.

Definition vSeg (s : seg) : val :=
  VL [VS (chrom s); VZ (lo s); VZ (hi s); VS (gene s); VQ (Qred (log2 s)); VZ (probes s);
      VQ (Qred (weight s)); vOptQ (depth s); vOptQ (baf s); VQ (Qred (cn s)); vOptQ (cn1 s);
      vOptQ (cn2 s); vOptQ (pbt s)].

Definition getTable (v : val) : option (list seg) := getList getSeg v.
Definition vTable (t : list seg) : val := VL (map vSeg t).

Definition getFilt (v : val) : option filt :=
  match getS v with Some s => filt_of_name s | None => None end.

(* (filter name, table) -> filtered table *)
Definition e_c14_filter (v : val) : val :=
  match getPair getFilt getTable v with
  | Some (f, t) => vTable (apply_filter f t)
  | None => bad_input
  end.

(* (filter names, input table, the code's called table) -> do_call's result;
   the calling step is supplied as the constant function returning the called table *)
Definition e_c14_call_with_filters (v : val) : val :=
  match getTriple (getList getFilt) getTable getTable v with
  | Some (fs, t, called) => vTable (call_with_filters (fun _ => called) fs t)
  | None => bad_input
  end.

(* (filter names, table) -> the table the code must hand to the calling step *)
Definition e_c14_pre_call (v : val) : val :=
  match getPair (getList getFilt) getTable v with
  | Some (fs, t) =>
      let '(t1, rest) := pre_steps pre_filters t fs in vTable t1
  | None => bad_input
  end.

Definition e_c14_enum (v : val) : val :=
  match getList getOQ v with
  | Some l => vListZ (enumerate_changes l)
  | None => bad_input
  end.

Definition e_c14_wmedian (v : val) : val :=
  match getPair (getList getOQ) (getList getQ) v with
  | Some (a, w) => vOptQ (wmedian_opt a w)
  | None => bad_input
  end.

(* the specification function: lengths of the maximal runs of equal
   (chromosome, level, cn1, cn2) *)
Definition e_c14_spec_runs (v : val) : val :=
  match getPair getFilt getTable v with
  | Some (f, t) => vListZ (map (fun r => Z.of_nat (length r)) (level_runs f t))
  | None => bad_input
  end.
