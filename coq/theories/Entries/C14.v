(* Entry points for C14 (segment filters): model functions behind val -> val wrappers.
   A row crosses the boundary as a list of 16 values in the order of the record
   fields of Model.Segfilters.seg (missing cell = VNone). *)
From CNV Require Import Base.Prelude Base.Val Base.Str Model.Segfilters Spec.Segfilters.
From CNV Require Model.Chromsort.

Definition getOQ (v : val) : option (option Q) := getOpt getQ v.

Definition getSeg (v : val) : option seg :=
  match v with
  | VL [c; a; b; g; l; p; w; d; bf; n; n1; n2; pb; cl; ch; se] =>
      match getS c, getZ a, getZ b, getS g, getQ l, getZ p, getQ w, getOQ d with
      | Some c', Some a', Some b', Some g', Some l', Some p', Some w', Some d' =>
          match getOQ bf, getQ n, getOQ n1, getOQ n2, getOQ pb, getOQ cl, getOQ ch, getOQ se with
          | Some bf', Some n', Some n1', Some n2', Some pb', Some cl', Some ch', Some se' =>
              Some (mkSeg c' a' b' g' l' p' w' d' bf' n' n1' n2' pb' cl' ch' se')
          | _, _, _, _, _, _, _, _ => None
          end
      | _, _, _, _, _, _, _, _ => None
      end
  | _ => None
  end.

Definition vSeg (s : seg) : val :=
  VL [VS (chrom s); VZ (lo s); VZ (hi s); VS (gene s); VQ (Qred (log2 s)); VZ (probes s);
      VQ (Qred (weight s)); vOptQ (depth s); vOptQ (baf s); VQ (Qred (cn s)); vOptQ (cn1 s);
      vOptQ (cn2 s); vOptQ (pbt s)].

Definition getTable (v : val) : option (list seg) := getList getSeg v.
Definition vTable (t : list seg) : val := VL (map vSeg t).

Definition getFilt (v : val) : option filt :=
  match getS v with Some s => filt_of_name s | None => None end.

(* (filter name, table) -> filtered table *)
Definition e_c14_filter (v : val) : val :=
  match getPair getFilt getTable v with
  | Some (f, t) => vTable (apply_filter f t)
  | None => bad_input
  end.

(* (filter names, input table, the code's called table) -> do_call's result;
   the calling step is supplied as the constant function returning the called table *)
Definition e_c14_call_with_filters (v : val) : val :=
  match getTriple (getList getFilt) getTable getTable v with
  | Some (fs, t, called) => vTable (call_with_filters (fun _ => called) fs t)
  | None => bad_input
  end.

(* (filter names, table) -> the table the code must hand to the calling step *)
Definition e_c14_pre_call (v : val) : val :=
  match getPair (getList getFilt) getTable v with
  | Some (fs, t) =>
      let '(t1, rest) := pre_steps pre_filters t fs in vTable t1
  | None => bad_input
  end.

Definition e_c14_enum (v : val) : val :=
  match getList getOQ v with
  | Some l => vListZ (enumerate_changes l)
  | None => bad_input
  end.

Definition e_c14_wmedian (v : val) : val :=
  match getPair (getList getOQ) (getList getQ) v with
  | Some (a, w) => vOptQ (wmedian_opt a w)
  | None => bad_input
  end.

(* ---- do_call with the real calling step; exp2 / log2 oracles as finite tables ---- *)

Definition getMeth (v : val) : option meth :=
  match getS v with
  | Some s => if String.eqb s "threshold" then Some Mthreshold
              else if String.eqb s "clonal" then Some Mclonal
              else if String.eqb s "none" then Some Mnone else None
  | None => None
  end.

(* [method; ploidy; purity|None; hapx; female; build|None; thresholds; has_baf] *)
Definition getCfg (v : val) : option callcfg :=
  match v with
  | VL [m; k; p; hx; fe; b; ts; hb] =>
      match getMeth m, getZ k, getOpt getQ p, getB hx with
      | Some m', Some k', Some p', Some hx' =>
          match getB fe, getOpt getS b, getList getQ ts, getB hb with
          | Some fe', Some b', Some ts', Some hb' => Some (mkCfg m' k' p' hx' fe' b' ts' hb')
          | _, _, _, _ => None
          end
      | _, _, _, _ => None
      end
  | _ => None
  end.

Definition getQQ (v : val) : option (Q * Q) := getPair getQ getQ v.

Fixpoint lookupQ (tbl : list (Q * Q)) (q : Q) : option Q :=
  match tbl with
  | [] => None
  | (k, v) :: t => if Qeq_bool k q then Some v else lookupQ t q
  end.
Definition oracle_of (tbl : list (Q * Q)) (q : Q) : Q :=
  match lookupQ tbl q with Some v => v | None => 0%Q end.
Definition missing_keys (tbl : list (Q * Q)) (keys : list Q) : list Q :=
  filter (fun q => match lookupQ tbl q with Some _ => false | None => true end) keys.

(* (cfg, filter names, table, exp2 table, log2 table) ->
     ["need"; exp2 arguments still missing; log2 arguments still missing]   or
     ["ok"; do_call's result | None (AssertionError); per row of the called table: [absolute|None; log2 seen by the thresholds]]
   the harness answers a "need" with the libm values and asks again *)
Definition e_c14_do_call (v : val) : val :=
  match v with
  | VL [c; fs; t; e2; l2] =>
      match getCfg c, getList getFilt fs, getTable t, getList getQQ e2, getList getQQ l2 with
      | Some cfg, Some fs', Some t', Some e2', Some l2' =>
          let ex := oracle_of e2' in
          let lg := oracle_of l2' in
          let t1 := fst (pre_steps pre_filters t' fs') in
          let first := first_of t1 in
          let need1 := missing_keys e2' (map log2 t1) in
          match need1 with
          | _ :: _ => VL [VS "need"; vListQ need1; VL []]
          | [] =>
              let ratios := filter_some (map (purity_ratio ex cfg first) t1) in
              let need2 := missing_keys l2' ratios in
              match need2 with
              | _ :: _ => VL [VS "need"; VL []; vListQ need2]
              | [] =>
                  let need3 := missing_keys e2' (map (fun s => log2 (rescale_row ex lg cfg first s)) t1) in
                  match need3 with
                  | _ :: _ => VL [VS "need"; vListQ need3; VL []]
                  | [] =>
                      VL [VS "ok";
                          match do_call_model ex lg cfg fs' t' with Some r => vTable r | None => VNone end;
                          VL (map (fun d => VL [vOptQ (fst d); VQ (Qred (snd d))]) (call_diag ex lg cfg t1))]
                  end
              end
          end
      | _, _, _, _, _ => bad_input
      end
  | _ => bad_input
  end.

(* the specification functions of Spec/Segfilters.v on one run:
   [weighted; run_mean log2; run_mean_opt depth; run_mean_opt baf; joined_genes; run_max p_bintest] *)
Definition e_c14_spec_fields (v : val) : val :=
  match getTable v with
  | Some r =>
      VL [VB (weighted r); VQ (Qred (run_mean log2 r)); vOptQ (run_mean_opt depth r);
          vOptQ (run_mean_opt baf r); VS (joined_genes r); vOptQ (run_max (map pbt r))]
  | None => bad_input
  end.

(* GenomicArray.sort on the (chromosome, start, end) of the rows, and whether
   the chromosome names of the table have pairwise distinct sort keys *)
Definition e_c14_sort (v : val) : val :=
  match getTable v with
  | Some t =>
      let names := uniq_str (map chrom t) in
      let keys := map Chromsort.chrom_key names in
      let fix distinct (l : list (Z * string)) : bool :=
        match l with
        | [] => true
        | k :: r => negb (existsb (fun k' => (fst k =? fst k') && String.eqb (snd k) (snd k')) r) && distinct r
        end in
      VL [VL (map (fun s => VL [VS (chrom s); VZ (lo s); VZ (hi s)]) (Chromsort.sort_regions_fast seg_region t));
          VB (distinct keys)]
  | None => bad_input
  end.

(* the specification function: lengths of the maximal runs of equal
   (chromosome, level, cn1, cn2) *)
Definition e_c14_spec_runs (v : val) : val :=
  match getPair getFilt getTable v with
  | Some (f, t) => vListZ (map (fun r => Z.of_nat (length r)) (level_runs f t))
  | None => bad_input
  end.
