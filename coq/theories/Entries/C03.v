(* Entry points for C03 (segmentation bookkeeping): val -> val wrappers. *)
From CNV Require Import Base.Prelude Base.Val Model.Arms Model.Segment.

(* bin = (lo hi gene log2 weight|None depth) *)
Definition getBin (v : val) : option bin :=
  match v with
  | VL [a; b; g; l; w; d] =>
      match getZ a, getZ b, getS g, getQ l, getOpt getQ w, getQ d with
      | Some a', Some b', Some g', Some l', Some w', Some d' => Some (mkBin a' b' g' l' w' d')
      | _, _, _, _, _, _ => None
      end
  | _ => None
  end.

Definition vSeg (s : seg) : val :=
  VL [VZ (s_lo s); VZ (s_hi s); VZ (s_probes s); vOptQ (s_log2 s); VS (s_gene s);
      vOptQ (s_weight s); VQ (Qred (s_depth s))].

Definition getMethod (v : val) : option method :=
  match getS v with
  | Some s =>
      if String.eqb s "none" then Some MNone
      else if String.eqb s "haar" then Some MHaar
      else if String.eqb s "hmm" then Some MHmm
      else None
  | None => None
  end.

(* (method skip_low min_weight bins outlier_mask breakpoints) -> segment rows of one chromosome,
   per-arm methods *)
Definition e_c03_chrom (v : val) : val :=
  match v with
  | VL [m; sl; mw; bs; mask; bps] =>
      match getMethod m, getB sl, getQ mw, getList getBin bs, getList getB mask, getList getZ bps with
      | Some m', Some sl', Some mw', Some bs', Some mask', Some bps' =>
          VL (map vSeg (chrom_segs m' (flag_bins sl' mw' bs' mask') bps'))
      | _, _, _, _, _, _ => bad_input
      end
  | _ => bad_input
  end.

Definition getChromIn (sl : bool) (mw : Q) (v : val) : option chrom_in :=
  match v with
  | VL [nm; bs; mask; bps] =>
      match getS nm, getList getBin bs, getList getB mask, getList getZ bps with
      | Some nm', Some bs', Some mask', Some bps' => Some (mkChrom nm' (flag_bins sl mw bs' mask') bps')
      | _, _, _, _ => None
      end
  | _ => None
  end.

(* (skip_low min_weight [(name bins outlier_mask breakpoints) ...]) -> [(name rows) ...], whole-table methods *)
Definition e_c03_hmm (v : val) : val :=
  match v with
  | VL [sl; mw; chroms] =>
      match getB sl, getQ mw with
      | Some sl', Some mw' =>
          match getList (getChromIn sl' mw') chroms with
          | Some tbl =>
              VL (map (fun p => VL [VS (fst p); VL (map vSeg (snd p))]) (hmm_table tbl))
          | None => bad_input
          end
      | _, _ => bad_input
      end
  | _ => bad_input
  end.

(* [(lo hi) ...] of one chromosome -> arm sizes (model of by_arm) *)
Definition e_c03_arms (v : val) : val :=
  match getList (getPair getZ getZ) v with
  | Some rows => vListZ (map (fun a => Z.of_nat (length a)) (arm_split fst snd rows))
  | None => bad_input
  end.

(* survivor flags of the three filters *)
Definition e_c03_survives (v : val) : val :=
  match v with
  | VL [sl; mw; bs; mask] =>
      match getB sl, getQ mw, getList getBin bs, getList getB mask with
      | Some sl', Some mw', Some bs', Some mask' => VL (map (fun f => VB (snd f)) (flag_bins sl' mw' bs' mask'))
      | _, _, _, _ => bad_input
      end
  | _ => bad_input
  end.
