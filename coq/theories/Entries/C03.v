(* Entry points for C03 (segmentation bookkeeping): val -> val wrappers. *)
From CNV Require Import Base.Prelude Base.Val Model.Arms Model.Segment.
From CNV Require Model.Haar.

(* bin = (lo hi gene log2 weight|None depth) *)
Definition getBin (v : val) : option bin :=
  match v with
  | VL [a; b; g; l; w; d] =>
      match getZ a, getZ b, getS g, getQ l, getOpt getQ w, getQ d with
      | Some a', Some b', Some g', Some l', Some w', Some d' => Some (mkBin a' b' g' l' w' d')
      | _, _, _, _, _, _ => None
      end
  | _ => None
  end.

Definition vSeg (s : seg) : val :=
  VL [VZ (s_lo s); VZ (s_hi s); VZ (s_probes s); vOptQ (s_log2 s); VS (s_gene s);
      vOptQ (s_weight s); VQ (Qred (s_depth s))].

Definition getMethod (v : val) : option method :=
  match getS v with
  | Some s =>
      if String.eqb s "none" then Some MNone
      else if String.eqb s "haar" then Some MHaar
      else if String.eqb s "hmm" then Some MHmm
      else None
  | None => None
  end.

(* (method skip_low min_weight bins outlier_mask breakpoints) -> segment rows of one chromosome,
   per-arm methods *)
Definition e_c03_chrom (v : val) : val :=
  match v with
  | VL [m; sl; mw; bs; mask; bps] =>
      match getMethod m, getB sl, getQ mw, getList getBin bs, getList getB mask, getList getZ bps with
      | Some m', Some sl', Some mw', Some bs', Some mask', Some bps' =>
          VL (map vSeg (chrom_segs_code m' (flag_bins sl' mw' bs' mask') bps'))
      | _, _, _, _, _, _ => bad_input
      end
  | _ => bad_input
  end.

Definition getChromIn (sl : bool) (mw : Q) (v : val) : option chrom_in :=
  match v with
  | VL [nm; bs; mask; bps] =>
      match getS nm, getList getBin bs, getList getB mask, getList getZ bps with
      | Some nm', Some bs', Some mask', Some bps' => Some (mkChrom nm' (flag_bins sl mw bs' mask') bps')
      | _, _, _, _ => None
      end
  | _ => None
  end.

(* (skip_low min_weight [(name bins outlier_mask breakpoints) ...]) -> [(name rows) ...], whole-table methods *)
Definition e_c03_hmm (v : val) : val :=
  match v with
  | VL [sl; mw; chroms] =>
      match getB sl, getQ mw with
      | Some sl', Some mw' =>
          match getList (getChromIn sl' mw') chroms with
          | Some tbl =>
              VL (map (fun p => VL [VS (fst p); VL (map vSeg (snd p))]) (hmm_table_code tbl))
          | None => bad_input
          end
      | _, _ => bad_input
      end
  | _ => bad_input
  end.

(* ([(lo hi) ...] r) of one chromosome, r = the code's int(round(0.1 * n)) or None for the exact
   round-half-even -> (contract holds, arm sizes)   (model of by_arm) *)
Definition e_c03_arms (v : val) : val :=
  match v with
  | VL [rows; r] =>
      match getList (getPair getZ getZ) rows, getOpt getZ r with
      | Some rows', Some r' =>
          let n := Z.of_nat (length rows') in
          let r'' := match r' with Some z => z | None => round_share n end in
          VL [VB (round_contract_b n r'');
              vListZ (map (fun a => Z.of_nat (length a)) (arm_split_with fst snd r'' rows'))]
      | _, _ => bad_input
      end
  | _ => bad_input
  end.

(* survivor flags of the three filters *)
Definition e_c03_survives (v : val) : val :=
  match v with
  | VL [sl; mw; bs; mask] =>
      match getB sl, getQ mw, getList getBin bs, getList getB mask with
      | Some sl', Some mw', Some bs', Some mask' => VL (map (fun f => VB (snd f)) (flag_bins sl' mw' bs' mask'))
      | _, _, _, _ => bad_input
      end
  | _ => bad_input
  end.

(* ---- the whole table, per-arm methods, along the code's path -------------------------------- *)

Definition getHO (v : val) : option haar_oracle :=
  match v with
  | VL [sg; pv; ab] =>
      match getList getQ sg, getList (getList getQ) pv, getList getB ab with
      | Some sg', Some pv', Some ab' => Some (mkHO sg' pv' ab')
      | _, _, _ => None
      end
  | _ => None
  end.

(* (name bins outlier_mask breakpoints haar_oracles variants|None state_paths) *)
Definition getChromJob (sl : bool) (mw : Q) (v : val) : option chrom_job :=
  match v with
  | VL [nm; bs; mask; bps; hos; vars; sts] =>
      match getS nm, getList getBin bs, getList getB mask, getList getZ bps, getList getHO hos,
            getOpt (getList (getPair getZ getZ)) vars, getList (getList getZ) sts with
      | Some nm', Some bs', Some mask', Some bps', Some hos', Some vars', Some sts' =>
          Some (mkCJ nm' (flag_bins sl mw bs' mask') bps' hos' vars' sts')
      | _, _, _, _, _, _, _ => None
      end
  | _ => None
  end.

Definition scale_fun (l : list Q) (h : Z) : Q :=
  nth (Z.to_nat (Z.log2 h - hd 0 Model.Haar.haar_levels)) l 1%Q.

(* (method skip_low min_weight q scales_u scales_w processes assignment chromosomes)
   method: "none" | "haar-given" (breakpoints as oracle) | "haar" (computed);
   -> rows (chromosome segment baf_range_lo baf_range_hi) in table order, or an error when a
   worker raised *)
Definition e_c03_table (v : val) : val :=
  match v with
  | VL [m; sl; mw; q; su; sw; p; asg; chroms] =>
      match getS m, getB sl, getQ mw, getQ q, getList getQ su, getList getQ sw, getZ p, getList getZ asg with
      | Some m', Some sl', Some mw', Some q', Some su', Some sw', Some p', Some asg' =>
          match getList (getChromJob sl' mw') chroms with
          | Some tbl =>
              let tm := if String.eqb m' "none" then Some (TGiven MNone)
                        else if String.eqb m' "haar-given" then Some (TGiven MHaar)
                        else if String.eqb m' "haar" then Some (THaar (scale_fun su') (scale_fun sw') q')
                        else None in
              let pn := Z.to_nat p' in
              let assign (i : nat) := Nat.modulo (Z.to_nat (nth i asg' 0)) pn in
              match tm with
              | Some tm' =>
                  match table_segs (fun _ lo hi => (lo, hi)) pn assign tm' tbl with
                  | Some rows =>
                      VL (map (fun r => VL [VS (fst r); vSeg (fst (snd r));
                                            VZ (fst (snd (snd r))); VZ (snd (snd (snd r)))]) rows)
                  | None => VErr "RuntimeError"%string
                  end
              | None => bad_input
              end
          | None => bad_input
          end
      | _, _, _, _, _, _, _, _ => bad_input
      end
  | _ => bad_input
  end.
