(* Entry points for C07 (range queries): model and spec functions behind
   val -> val wrappers.  Encodings: row = [id, lo, hi]; table row =
   [chromosome, id, lo, hi]; mode = "inner" | "outer" | "trim". *)
From CNV Require Import Base.Prelude Base.Val Model.Ranges Model.Into Spec.RangeQuery.
From CNV Require Gen.RangeDefaults.

Definition getRow (v : val) : option row :=
  match v with
  | VL [VZ i; VZ a; VZ b] => Some (mkRow i a b)
  | _ => None
  end.

Definition getTrow (v : val) : option trow :=
  match v with
  | VL [VS c; VZ i; VZ a; VZ b] => Some (c, mkRow i a b)
  | _ => None
  end.

Definition getMode (v : val) : option qmode :=
  match v with
  | VS s => if String.eqb s "inner" then Some QInner
            else if String.eqb s "outer" then Some QOuter
            else if String.eqb s "trim" then Some QTrim else None
  | _ => None
  end.

Definition vRow (r : row) : val := VL [VZ (r_id r); VZ (r_lo r); VZ (r_hi r)].
Definition vRows (l : list row) : val := VL (map vRow l).
Definition vIds (l : list row) : val := VL (map (fun r => VZ (r_id r)) l).

Definition vOptRows (o : option (list row)) (err : string) : val :=
  match o with Some l => vRows l | None => VErr err end.

Definition get4 {A B C D} (fa : val -> option A) (fb : val -> option B) (fc : val -> option C)
  (fd : val -> option D) (v : val) : option (A * B * C * D) :=
  match v with
  | VL [a; b; c; d] =>
      match fa a, fb b, fc c, fd d with
      | Some x, Some y, Some z, Some w => Some (x, y, z, w)
      | _, _, _, _ => None
      end
  | _ => None
  end.

Definition get5 {A B C D E} (fa : val -> option A) (fb : val -> option B) (fc : val -> option C)
  (fd : val -> option D) (fe : val -> option E) (v : val) : option (A * B * C * D * E) :=
  match v with
  | VL [a; b; c; d; e] =>
      match fa a, fb b, fc c, fd d, fe e with
      | Some x, Some y, Some z, Some w, Some u => Some (x, y, z, w, u)
      | _, _, _, _, _ => None
      end
  | _ => None
  end.

(* [table, other, mode, keep_empty] -> [[query id, rows] ...] *)
Definition e_c07_by_ranges (v : val) : val :=
  match get4 (getList getTrow) (getList getTrow) getMode getB v with
  | Some (t, o, m, ke) =>
      VL (map (fun '(b, sub) => VL [VZ (r_id (snd b)); vRows sub]) (ga_by_ranges t o m ke))
  | None => bad_input
  end.

(* [table, chrom?, start?, end?, mode] -> rows *)
Definition e_c07_in_range (v : val) : val :=
  match get5 (getList getTrow) (getOpt getS) (getOpt getZ) (getOpt getZ) getMode v with
  | Some (t, c, qs, qe, m) => vRows (in_range t c qs qe m)
  | None => bad_input
  end.

(* [table, chrom?, starts?, ends?, mode] -> rows | ValueError *)
Definition e_c07_in_ranges (v : val) : val :=
  match get5 (getList getTrow) (getOpt getS) (getOpt (getList getZ)) (getOpt (getList getZ)) getMode v with
  | Some (t, c, ss, es, m) => vOptRows (in_ranges t c ss es m) "ValueError"
  | None => bad_input
  end.

(* [table, other, mode] -> rows *)
Definition e_c07_intersection (v : val) : val :=
  match getTriple (getList getTrow) (getList getTrow) getMode v with
  | Some (t, o, m) => vRows (intersection t o m)
  | None => bad_input
  end.

(* [table, other, mode, keep_empty] -> [rows ...] *)
Definition e_c07_iter_ranges_of (v : val) : val :=
  match get4 (getList getTrow) (getList getTrow) getMode getB v with
  | Some (t, o, m, ke) =>
      VL (map vRows (iter_ranges_of t o m ke))
  | None => bad_input
  end.

(* ---- into_ranges: [table, other, column = [[label, value] ...], default, func]
   func: None (type default) | "user" (a named function per type) | ["const", v] *)
Fixpoint assoc {V} (d : V) (l : list (Z * V)) (k : Z) : V :=
  match l with
  | [] => d
  | (k', v) :: t => if k =? k' then v else assoc d t k
  end.

Definition vInto {V} (enc : V -> val) (o : option (list (option V))) : val :=
  match o with
  | None => VErr "returns dest"
  | Some l => VL (map (fun x => match x with Some v => enc v | None => VErr "KeyError" end) l)
  end.

Definition pick_func {V} (getV : val -> option V) (dflt user : list (Z * V) -> option V) (v : val)
  : option (list (Z * V) -> option V) :=
  match v with
  | VNone => Some dflt
  | VS _ => Some user
  | VL [VS _; c] => match getV c with Some x => Some (const_of x) | None => None end
  | _ => None
  end.

Definition e_c07_into_str (v : val) : val :=
  match v with
  | VL [t; o; col; d; f] =>
      match getList getTrow t, getList getTrow o, getList (getPair getZ getS) col, getS d,
            pick_func getS join_strings (fun h => Some (String.concat "|" (map snd h))) f with
      | Some t, Some o, Some col, Some d, Some f =>
          vInto VS (into_ranges t o (assoc ""%string col) d f)
      | _, _, _, _, _ => bad_input
      end
  | _ => bad_input
  end.

Definition getFloat (v : val) : option (option Q) :=     (* None on the wire = NaN *)
  match v with VNone => Some None | _ => match getQ v with Some q => Some (Some q) | None => None end end.

Definition qmax (l : list Q) : option Q :=
  match l with
  | [] => None
  | x :: t => Some (fold_left (fun a b => if Qle_bool a b then b else a) t x)
  end.

Definition e_c07_into_float (v : val) : val :=
  match v with
  | VL [t; o; col; d; f] =>
      match getList getTrow t, getList getTrow o, getList (getPair getZ getFloat) col, getFloat d,
            pick_func getFloat nanmedian (fun h => Some (qmax (somes (map snd h)))) f with
      | Some t, Some o, Some col, Some d, Some f =>
          vInto vOptQ (into_ranges t o (assoc None col) d f)
      | _, _, _, _, _ => bad_input
      end
  | _ => bad_input
  end.

Definition e_c07_into_int (v : val) : val :=
  match v with
  | VL [t; o; col; d; f] =>
      match getList getTrow t, getList getTrow o, getList (getPair getZ getZ) col, getZ d,
            pick_func getZ first_of (fun h => Some (sumZ (map snd h))) f with
      | Some t, Some o, Some col, Some d, Some f =>
          vInto VZ (into_ranges t o (assoc 0 col) d f)
      | _, _, _, _, _ => bad_input
      end
  | _ => bad_input
  end.

(* ---- specification functions (the direct oracle, extracted) ---------------- *)
(* [rows of one chromosome, start?, end?, mode] -> rows *)
Definition e_c07_spec (v : val) : val :=
  match get4 (getList getRow) (getOpt getZ) (getOpt getZ) getMode v with
  | Some (t, qs, qe, m) => vRows (select_spec_opt m qs qe t)
  | None => bad_input
  end.

(* [table, other, mode] -> [[query id, rows] ...]  (answers, keep_empty = true) *)
Definition e_c07_answers (v : val) : val :=
  match getTriple (getList getTrow) (getList getTrow) getMode v with
  | Some (t, o, m) =>
      VL (map (fun '(b, sub) => VL [VZ (r_id (snd b)); vRows sub]) (answers m t o))
  | None => bad_input
  end.

(* [side ("left"|"right"), array, keys] -> indices : the binary search itself *)
Definition e_c07_searchsorted (v : val) : val :=
  match getTriple getS (getList getZ) (getList getZ) v with
  | Some (s, arr, keys) =>
      vListZ (searchsorted (if String.eqb s "right" then SRight else SLeft) arr keys)
  | None => bad_input
  end.

(* [strings] -> the comma-joined distinct strings ; [floats] -> nanmedian *)
Definition e_c07_join (v : val) : val :=
  match getList getS v with
  | Some l => VS (String.concat RangeDefaults.join_sep (distinct l))
  | None => bad_input
  end.

Definition e_c07_nanmedian (v : val) : val :=
  match getList getFloat v with
  | Some l => vOptQ (medianQ (somes l))
  | None => bad_input
  end.

(* ---- error outcomes: [table, chrom?, starts?, ends?, mode] -> rows | the exception's name *)
Definition e_c07_in_ranges_e (v : val) : val :=
  match get5 (getList getTrow) (getOpt getS) (getOpt (getList getZ)) (getOpt (getList getZ)) getMode v with
  | Some (t, c, ss, es, m) =>
      match in_ranges_e t c ss es m with
      | RqOk l => vRows l
      | RqRaises e => VErr e
      end
  | None => bad_input
  end.

(* ---- into_ranges with dynamically typed cells.  A cell is ["s", string] | ["f", float or None] |
   ["i", int] | ["b", bool]; [has_column, table, other, column = [[label, cell] ...], default cell,
   summary]; summary: None | "len" (a callable: the number of hits) | ["const", cell] *)
Definition getCell (v : val) : option icell :=
  match v with
  | VL [VS k; x] =>
      if String.eqb k "s" then match x with VS s => Some (ICStr s) | _ => None end
      else if String.eqb k "f" then match getFloat x with Some q => Some (ICFloat q) | None => None end
      else if String.eqb k "i" then match x with VZ z => Some (ICInt z) | _ => None end
      else if String.eqb k "b" then match x with VB b => Some (ICBool b) | _ => None end
      else None
  | _ => None
  end.

Definition vCell (c : icell) : val :=
  match c with
  | ICStr s => VL [VS "s"; VS s]
  | ICFloat x => VL [VS "f"; vOptQ x]
  | ICInt z => VL [VS "i"; VZ z]
  | ICBool b => VL [VS "b"; VB b]
  end.

Definition getSummary (v : val) : option isummary :=
  match v with
  | VNone => Some ISNone
  | VS _ => Some (ISFunc (fun h => Some (ICInt (Z.of_nat (length h)))))
  | VL [VS _; c] => match getCell c with Some x => Some (ISConst x) | None => None end
  | _ => None
  end.

Definition e_c07_into_full (v : val) : val :=
  match v with
  | VL [VB has; t; o; col; d; f] =>
      match getList getTrow t, getList getTrow o, getList (getPair getZ getCell) col, getCell d, getSummary f with
      | Some t, Some o, Some col, Some d, Some f =>
          match ga_into_ranges has t o (assoc (ICInt 0) col) d f with
          | None => VErr "returns dest"
          | Some l => VL (map (fun x => match x with Some c => vCell c | None => VErr "TypeError" end) l)
          end
      | _, _, _, _, _ => bad_input
      end
  | _ => bad_input
  end.

(* label lookups: [rows, labels] -> rows_loc ; [rows, positions] -> rows_iloc *)
Definition e_c07_loc (v : val) : val :=
  match getPair (getList getRow) (getList getZ) v with
  | Some (t, ls) => vRows (rows_loc t ls)
  | None => bad_input
  end.

Definition e_c07_iloc (v : val) : val :=
  match getPair (getList getRow) (getList getZ) v with
  | Some (t, ps) => vRows (rows_iloc t ps)
  | None => bad_input
  end.
