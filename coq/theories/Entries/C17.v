(* Entry points for C17 (segmetrics, bintest): model functions behind val -> val wrappers. *)
From CNV Require Import Base.Prelude Base.Val Base.QNum Model.Segmetrics Model.Bintest Spec.Bintest.
Local Open Scope Z_scope.

Definition getNat (v : val) : option nat :=
  match getZ v with Some z => if z <? 0 then None else Some (Z.to_nat z) | None => None end.

Definition getBin (v : val) : option bin :=
  match v with
  | VL [c; s; e; g; l; w; d] =>
      match getS c, getZ s, getZ e, getS g, getQ l, getQ w, getOpt getQ d with
      | Some c, Some s, Some e, Some g, Some l, Some w, Some d => Some (mkBin c s e g l w d)
      | _, _, _, _, _, _, _ => None
      end
  | _ => None
  end.

Definition getSeg (v : val) : option seg :=
  match v with
  | VL [c; s; e; g; l; p; w] =>
      match getS c, getZ s, getZ e, getS g, getQ l, getZ p, getQ w with
      | Some c, Some s, Some e, Some g, Some l, Some p, Some w => Some (mkSeg c s e g l p w)
      | _, _, _, _, _, _, _ => None
      end
  | _ => None
  end.

Definition getConfig (v : val) : option config :=
  match v with
  | VL [lo; sp; iv; a; b; sm; sk] =>
      match getList getS lo, getList getS sp, getList getS iv, getQ a, getZ b, getB sm, getB sk with
      | Some lo, Some sp, Some iv, Some a, Some b, Some sm, Some sk => Some (mkConfig lo sp iv a b sm sk)
      | _, _, _, _, _, _, _ => None
      end
  | _ => None
  end.

(* oracle data of one do_segmetrics call:
   [q2a; kde index per segment (or None); [(k, index matrix)]; noise matrix per segment (or None)] *)
Record odata := mkOdata {
  od_q2a : Q; od_kde : list (option nat);
  od_idx : list (nat * list (list nat)); od_noise : list (option (list (list Q))) }.

Definition getOdata (v : val) : option odata :=
  match v with
  | VL [q; kd; ix; nz] =>
      match getQ q, getList (getOpt getNat) kd,
            getList (getPair getNat (getList (getList getNat))) ix,
            getList (getOpt (getList (getList getQ))) nz with
      | Some q, Some kd, Some ix, Some nz => Some (mkOdata q kd ix nz)
      | _, _, _, _ => None
      end
  | _ => None
  end.

Fixpoint lookup_k (k : nat) (tab : list (nat * list (list nat))) : list (list nat) :=
  match tab with
  | [] => []
  | (j, m) :: t => if Nat.eqb j k then m else lookup_k k t
  end.

(* the oracles seen by segment number i: the Student-t tail is left symbolic (the entry
   returns t^2; the harness applies scipy's tail to it) *)
Definition oracles_at (od : odata) (i : nat) : oracles :=
  mkOracles
    (fun _ => match nth i (od_kde od) None with Some k => k | None => O end)
    (fun t2 _ => t2)
    (fun _ => od_q2a od)
    (fun k _ => lookup_k k (od_idx od))
    (fun _ _ => match nth i (od_noise od) None with Some m => m | None => [] end).

Definition vRow (r : list (string * option Q)) : val :=
  VL (map (fun p => VL [VS (fst p); vOptQ (snd p)]) r).

(* shape of the supplied bootstrap matrix against the model's own k and bootstrap count *)
Definition ci_shape_ok (O : oracles) (cfg : config) (k : nat) : bool :=
  if negb (has "ci" (c_ivl cfg)) || (Z.of_nat k <? Gen.SegmetricsDefaults.ci_min_k) then true
  else
    let nb := n_boot (c_boot cfg) (o_q2a O (c_alpha cfg)) in
    let m := o_idx O k nb in
    (Z.of_nat (length m) =? nb) && forallb (fun r => Nat.eqb (length r) k) m &&
    (if c_smoothed cfg
     then let nz := o_noise O [] nb in
          (Z.of_nat (length nz) =? nb) && forallb (fun r => Nat.eqb (length r) k) nz
     else true).

Definition e_c17_segmetrics (v : val) : val :=
  match v with
  | VL [b; s; c; o] =>
      match getList getBin b, getList getSeg s, getConfig c, getOdata o with
      | Some bins, Some segs, Some cfg, Some od =>
          let ub := used_bins cfg bins in
          VL (map (fun is =>
                let O := oracles_at od (fst is) in
                let k := length (seg_bins ub (snd is)) in
                if ci_shape_ok O cfg k
                then VL [VZ (Z.of_nat k); vRow (seg_row O cfg ub (snd is))]
                else VErr "bootstrap oracle shape")
              (combine (seq 0 (length segs)) segs))
      | _, _, _, _ => bad_input
      end
  | _ => bad_input
  end.

(* p_adjust_bh as coded, and the two definitional forms *)
Definition e_c17_bh (v : val) : val :=
  match getList getQ v with Some ps => vListQ (bh ps) | None => bad_input end.
Definition e_c17_bh_def (v : val) : val :=
  match getList getQ v with Some ps => vListQ (bh_def ps) | None => bad_input end.
Definition e_c17_bh_rank (v : val) : val :=
  match getList getQ v with
  | Some ps => let s := qsort ps in vListQ (map (bh_rank s) (seq 0 (length s)))
  | None => bad_input
  end.

Definition getSegs (v : val) : option (option (list seg)) := getOpt (getList getSeg) v.

Definition vZval (z : zval) : val :=
  match z with Zfin z2 => VQ (Qred z2) | Zinf => VS "inf" | Znan => VNone end.

(* phase 1: the rows z_prob sees, with residual and z^2 *)
Definition e_c17_bintest_z (v : val) : val :=
  match v with
  | VL [b; s; t] =>
      match getList getBin b, getSegs s, getB t with
      | Some bins, Some segs, Some t =>
          VL (map (fun c => VL [VZ (Z.of_nat (c_idx c)); VQ (Qred (c_res c)); vZval (cand_z c)])
                  (candidates bins segs t))
      | _, _, _ => bad_input
      end
  | _ => bad_input
  end.

(* phase 2: raw p-values (oracle applied by the harness, positional) -> hits *)
Definition e_c17_bintest (v : val) : val :=
  match v with
  | VL [b; s; a; t; p] =>
      match getList getBin b, getSegs s, getQ a, getB t, getList (getOpt getQ) p with
      | Some bins, Some segs, Some a, Some t, Some ps =>
          let cs := candidates bins segs t in
          if Nat.eqb (length ps) (length cs)
          then VL (map (fun h => VL [VZ (Z.of_nat (fst (fst h))); VQ (Qred (snd (fst h))); VQ (Qred (snd h))])
                       (bintest_with ps cs a))
          else VErr "p-value oracle shape"
      | _, _, _, _, _ => bad_input
      end
  | _ => bad_input
  end.
