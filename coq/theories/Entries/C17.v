(* Entry points for C17 (segmetrics, bintest): model functions behind val -> val wrappers. *)
From CNV Require Import Base.Prelude Base.Val Base.QNum Model.Segmetrics Model.Bintest Spec.Bintest.
Local Open Scope Z_scope.

Definition getNat (v : val) : option nat :=
  match getZ v with Some z => if z <? 0 then None else Some (Z.to_nat z) | None => None end.

Definition getBin (v : val) : option bin :=
  match v with
  | VL [c; s; e; g; l; w; d] =>
      match getS c, getZ s, getZ e, getS g, getQ l, getQ w, getOpt getQ d with
      | Some c, Some s, Some e, Some g, Some l, Some w, Some d => Some (mkBin c s e g l w d)
      | _, _, _, _, _, _, _ => None
      end
  | _ => None
  end.

Definition getSeg (v : val) : option seg :=
  match v with
  | VL [c; s; e; g; l; p; w] =>
      match getS c, getZ s, getZ e, getS g, getQ l, getZ p, getQ w with
      | Some c, Some s, Some e, Some g, Some l, Some p, Some w => Some (mkSeg c s e g l p w)
      | _, _, _, _, _, _, _ => None
      end
  | _ => None
  end.

Definition getConfig (v : val) : option config :=
  match v with
  | VL [lo; sp; iv; a; b; sm; sk] =>
      match getList getS lo, getList getS sp, getList getS iv, getQ a, getZ b, getB sm, getB sk with
      | Some lo, Some sp, Some iv, Some a, Some b, Some sm, Some sk => Some (mkConfig lo sp iv a b sm sk)
      | _, _, _, _, _, _, _ => None
      end
  | _ => None
  end.

(* oracle data of one do_segmetrics call: [q2a; per segment [kde index or None; biweight
   location of the deviations or None; index matrix; noise matrix]] (empty matrices where the code did not draw any) *)
Definition getSegOracle (q2a : Q) (v : val) : option oracles :=
  match v with
  | VL [kd; bl; ix; nz] =>
      match getOpt getNat kd, getOpt getQ bl, getList (getList getNat) ix, getList (getList getQ) nz with
      | Some kd, Some bl, Some ix, Some nz =>
          (* the Student-t tail is left symbolic: the entry returns t^2, the harness applies
             scipy's tail to it *)
          Some (mkOracles (match kd with Some k => k | None => O end)
                          (match bl with Some b => b | None => 0 end) (fun t2 _ => t2) q2a ix nz)
      | _, _, _, _ => None
      end
  | _ => None
  end.

Definition getOdata (v : val) : option (list oracles) :=
  match v with
  | VL [q; per] =>
      match getQ q with
      | Some q => getList (getSegOracle q) per
      | None => None
      end
  | _ => None
  end.

Definition dummy_oracles : oracles := mkOracles O 0 (fun t2 _ => t2) 0 [] [].

Definition vRow (r : list (string * option Q)) : val :=
  VL (map (fun p => VL [VS (fst p); vOptQ (snd p)]) r).

(* shape of the supplied bootstrap matrix against the model's own k and bootstrap count,
   and the oracle contract "indices in [0, k)" *)
Definition ci_shape_ok (O : oracles) (cfg : config) (k : nat) : bool :=
  if negb (has "ci" (c_ivl cfg)) || (Z.of_nat k <? Gen.SegmetricsDefaults.ci_min_k) then true
  else
    let nb := n_boot (c_boot cfg) (o_q2a O) in
    let m := o_idx O in
    (Z.of_nat (length m) =? nb) &&
    forallb (fun r => Nat.eqb (length r) k && forallb (fun i => Nat.ltb i k) r) m &&
    (if c_smoothed cfg
     then let nz := o_noise O in
          (Z.of_nat (length nz) =? nb) && forallb (fun r => Nat.eqb (length r) k) nz
     else true).

(* per segment: [number of bins; their index labels; the statistics row] *)
Definition e_c17_segmetrics (v : val) : val :=
  match v with
  | VL [b; s; c; o] =>
      match getList getBin b, getList getSeg s, getConfig c, getOdata o with
      | Some bins, Some segs, Some cfg, Some ods =>
          let Os := fun i => nth i ods dummy_oracles in
          let sel := segmetrics_bins cfg bins segs in
          VL (map (fun isr =>
                let i := fst (fst isr) in
                let sb := nth i sel [] in
                if ci_shape_ok (Os i) cfg (length sb)
                then VL [VZ (Z.of_nat (length sb)); VL (map (fun ib => VZ (Z.of_nat (fst ib))) sb);
                         vRow (snd (snd isr))]
                else VErr "bootstrap oracle shape")
              (combine (combine (seq 0 (length segs)) segs) (do_segmetrics Os cfg bins segs)))
      | _, _, _, _ => bad_input
      end
  | _ => bad_input
  end.

(* the bins of every segment only (first pass of the harness: it needs k to draw the
   bootstrap indices the way the code does) *)
Definition e_c17_segbins (v : val) : val :=
  match v with
  | VL [b; s; c] =>
      match getList getBin b, getList getSeg s, getConfig c with
      | Some bins, Some segs, Some cfg =>
          VL (map (fun sb => VL (map (fun ib => VZ (Z.of_nat (fst ib))) sb))
                  (segmetrics_bins cfg bins segs))
      | _, _, _ => bad_input
      end
  | _ => bad_input
  end.

(* p_adjust_bh as coded, and the two definitional forms *)
Definition e_c17_bh (v : val) : val :=
  match getList getQ v with Some ps => vListQ (bh ps) | None => bad_input end.
Definition e_c17_bh_def (v : val) : val :=
  match getList getQ v with Some ps => vListQ (bh_def ps) | None => bad_input end.
Definition e_c17_bh_rank (v : val) : val :=
  match getList getQ v with
  | Some ps => let s := qsort ps in vListQ (map (bh_rank s) (seq 0 (length s)))
  | None => bad_input
  end.

Definition getSegs (v : val) : option (option (list seg)) := getOpt (getList getSeg) v.

Definition vZval (z : zval) : val :=
  match z with Zfin z2 => VQ (Qred z2) | Zinf => VS "inf" | Znan => VNone end.

(* phase 1: the rows z_prob sees, with residual and z^2 *)
Definition e_c17_bintest_z (v : val) : val :=
  match v with
  | VL [b; s; t] =>
      match getList getBin b, getSegs s, getB t with
      | Some bins, Some segs, Some t =>
          VL (map (fun c => VL [VZ (Z.of_nat (c_idx c)); VQ (Qred (c_res c)); vZval (cand_z c)])
                  (candidates bins segs t))
      | _, _, _ => bad_input
      end
  | _ => bad_input
  end.

(* phase 2: raw p-values (oracle applied by the harness, positional) -> hits *)
Definition e_c17_bintest (v : val) : val :=
  match v with
  | VL [b; s; a; t; p] =>
      match getList getBin b, getSegs s, getQ a, getB t, getList (getOpt getQ) p with
      | Some bins, Some segs, Some a, Some t, Some ps =>
          let cs := candidates bins segs t in
          if Nat.eqb (length ps) (length cs)
          then VL (map (fun h => VL [VZ (Z.of_nat (fst (fst h))); VQ (Qred (snd (fst h))); VQ (Qred (snd h))])
                       (bintest_with ps cs a))
          else VErr "p-value oracle shape"
      | _, _, _, _, _ => bad_input
      end
  | _ => bad_input
  end.

(* generated constants the harness needs to reproduce the code's own draws:
   [bootstrap seed; smallest k that is resampled; MAD scale; low-coverage cut-off; off-target names] *)
Definition e_c17_consts (_ : val) : val :=
  VL [VZ Gen.SegmetricsDefaults.ci_seed; VZ Gen.SegmetricsDefaults.ci_min_k;
      VQ Gen.DescDefaults.MAD_SCALE; VQ min_cvg; VL (map VS Gen.Params.ANTITARGET_ALIASES)].
