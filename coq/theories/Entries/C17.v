(* Entry points for C17 (segmetrics, bintest): model functions behind val -> val wrappers. *)
From CNV Require Import Base.Prelude Base.Val Base.QNum Model.Segmetrics Model.Bintest Spec.Bintest.
Local Open Scope Z_scope.

Definition getNat (v : val) : option nat :=
  match getZ v with Some z => if z <? 0 then None else Some (Z.to_nat z) | None => None end.

Definition getBin (v : val) : option bin :=
  match v with
  | VL [c; s; e; g; l; w; d] =>
      match getS c, getZ s, getZ e, getS g, getQ l, getQ w, getOpt getQ d with
      | Some c, Some s, Some e, Some g, Some l, Some w, Some d => Some (mkBin c s e g l w d)
      | _, _, _, _, _, _, _ => None
      end
  | _ => None
  end.

Definition getSeg (v : val) : option seg :=
  match v with
  | VL [c; s; e; g; l; p; w] =>
      match getS c, getZ s, getZ e, getS g, getQ l, getZ p, getQ w with
      | Some c, Some s, Some e, Some g, Some l, Some p, Some w => Some (mkSeg c s e g l p w)
      | _, _, _, _, _, _, _ => None
      end
  | _ => None
  end.

Definition getConfig (v : val) : option config :=
  match v with
  | VL [lo; sp; iv; a; b; sm; sk] =>
      match getList getS lo, getList getS sp, getList getS iv, getQ a, getZ b, getB sm, getB sk with
      | Some lo, Some sp, Some iv, Some a, Some b, Some sm, Some sk => Some (mkConfig lo sp iv a b sm sk)
      | _, _, _, _, _, _, _ => None
      end
  | _ => None
  end.

(* np.sqrt on the points the harness supplies: [(x, sqrt x)] *)
Fixpoint lookupQ (tab : list (Q * Q)) (x : Q) : Q :=
  match tab with
  | [] => 0%Q
  | p :: t => if Qeq_bool (fst p) x then snd p else lookupQ t x
  end.
Definition getPairQ (v : val) : option (Q * Q) :=
  match v with
  | VL [a; b] => match getQ a, getQ b with Some a, Some b => Some (a, b) | _, _ => None end
  | _ => None
  end.

(* the supplied matrices answer only the request they were drawn for: seed = the generated
   constant, the shape asked for, indices in [0, k) (the oracle contract) *)
Definition idx_shape_ok (m : list (list nat)) (k rows cols : nat) : bool :=
  Nat.eqb (length m) rows &&
  forallb (fun r => Nat.eqb (length r) cols && forallb (fun i => Nat.ltb i k) r) m.
Definition z_shape_ok (m : list (list Q)) (rows cols : nat) : bool :=
  Nat.eqb (length m) rows && forallb (fun r => Nat.eqb (length r) cols) m.

(* oracle data of one do_segmetrics call: [q2a; sqrt table; per segment [kde index or None; biweight
   location of the deviations or None; index matrix; normal draws; k ** (-1/4)]] (empty matrices where
   the code did not draw any) *)
Definition getSegOracle (q2a : Q) (sq : list (Q * Q)) (v : val) : option oracles :=
  match v with
  | VL [kd; bl; ix; nz; bw] =>
      match getOpt getNat kd, getOpt getQ bl, getList (getList getNat) ix, getList (getList getQ) nz, getQ bw with
      | Some kd, Some bl, Some ix, Some nz, Some bw =>
          (* the Student-t tail is left symbolic: the entry returns t^2, the harness applies
             scipy's tail to it *)
          Some (mkOracles (match kd with Some k => k | None => O end)
                          (match bl with Some b => b | None => 0 end) (fun t2 _ => t2) q2a
                          (fun s k rows cols =>
                             if (s =? Gen.SegmetricsDefaults.ci_seed) && idx_shape_ok ix k rows cols then ix else [])
                          (fun s k rows cols =>
                             if (s =? Gen.SegmetricsDefaults.ci_seed) && z_shape_ok nz rows cols then nz else [])
                          (fun _ => bw) (lookupQ sq))
      | _, _, _, _, _ => None
      end
  | _ => None
  end.

Definition getOdata (v : val) : option (list oracles) :=
  match v with
  | VL [q; sq; per] =>
      match getQ q, getList getPairQ sq with
      | Some q, Some sq => getList (getSegOracle q sq) per
      | _, _ => None
      end
  | _ => None
  end.

Definition dummy_oracles : oracles :=
  mkOracles O 0 (fun t2 _ => t2) 0 (fun _ _ _ _ => []) (fun _ _ _ _ => []) (fun _ => 0%Q) (fun _ => 0%Q).

Definition vRow (r : list (string * option Q)) : val :=
  VL (map (fun p => VL [VS (fst p); vOptQ (snd p)]) r).

Definition is_nil {A} (l : list A) : bool := match l with [] => true | _ => false end.

(* the supplied bootstrap matrices have the shape the MODEL asks for (its own k and its own
   bootstrap count n_boot): otherwise the request above was answered with the empty matrix *)
Definition ci_shape_ok (O : oracles) (cfg : config) (k : nat) : bool :=
  if negb (has "ci" (c_ivl cfg)) || (Z.of_nat k <? Gen.SegmetricsDefaults.ci_min_k) then true
  else
    negb (is_nil (ci_resamples O (c_boot cfg) k)) &&
    (if c_smoothed cfg then negb (is_nil (ci_normals O (c_boot cfg) k)) else true).

(* per segment: [number of bins; their index labels; the statistics row] *)
Definition e_c17_segmetrics (v : val) : val :=
  match v with
  | VL [b; s; c; o] =>
      match getList getBin b, getList getSeg s, getConfig c, getOdata o with
      | Some bins, Some segs, Some cfg, Some ods =>
          let Os := fun i => nth i ods dummy_oracles in
          let sel := segmetrics_bins cfg bins segs in
          VL (map (fun isr =>
                let i := fst (fst isr) in
                let sb := nth i sel [] in
                if ci_shape_ok (Os i) cfg (length sb)
                then VL [VZ (Z.of_nat (length sb)); VL (map (fun ib => VZ (Z.of_nat (fst ib))) sb);
                         vRow (snd (snd isr))]
                else VErr "bootstrap oracle shape")
              (combine (combine (seq 0 (length segs)) segs) (do_segmetrics Os cfg bins segs)))
      | _, _, _, _ => bad_input
      end
  | _ => bad_input
  end.

(* the bins of every segment only (first pass of the harness: it needs k to draw the
   bootstrap indices the way the code does) *)
Definition e_c17_segbins (v : val) : val :=
  match v with
  | VL [b; s; c] =>
      match getList getBin b, getList getSeg s, getConfig c with
      | Some bins, Some segs, Some cfg =>
          VL (map (fun sb => VL (map (fun ib => VZ (Z.of_nat (fst ib))) sb))
                  (segmetrics_bins cfg bins segs))
      | _, _, _ => bad_input
      end
  | _ => bad_input
  end.

(* p_adjust_bh as coded, and the two definitional forms *)
Definition e_c17_bh (v : val) : val :=
  match getList getQ v with Some ps => vListQ (bh ps) | None => bad_input end.
Definition e_c17_bh_def (v : val) : val :=
  match getList getQ v with Some ps => vListQ (bh_def ps) | None => bad_input end.
Definition e_c17_bh_rank (v : val) : val :=
  match getList getQ v with
  | Some ps => let s := qsort ps in vListQ (map (bh_rank s) (seq 0 (length s)))
  | None => bad_input
  end.

Definition getSegs (v : val) : option (option (list seg)) := getOpt (getList getSeg) v.

Definition vZval (z : zval) : val :=
  match z with Zfin z2 => VQ (Qred z2) | Zinf => VS "inf" | Znan => VNone end.

(* phase 1: the rows z_prob sees, with residual and z^2 *)
Definition e_c17_bintest_z (v : val) : val :=
  match v with
  | VL [b; s; t] =>
      match getList getBin b, getSegs s, getB t with
      | Some bins, Some segs, Some t =>
          VL (map (fun c => VL [VZ (Z.of_nat (c_idx c)); VQ (Qred (c_res c)); vZval (cand_z c)])
                  (candidates bins segs t))
      | _, _, _ => bad_input
      end
  | _ => bad_input
  end.

(* phase 2: raw p-values (oracle applied by the harness, positional) -> hits *)
Definition e_c17_bintest (v : val) : val :=
  match v with
  | VL [b; s; a; t; p] =>
      match getList getBin b, getSegs s, getQ a, getB t, getList (getOpt getQ) p with
      | Some bins, Some segs, Some a, Some t, Some ps =>
          let cs := candidates bins segs t in
          if Nat.eqb (length ps) (length cs)
          then VL (map (fun h => VL [VZ (Z.of_nat (fst (fst h))); VQ (Qred (snd (fst h))); VQ (Qred (snd h))])
                       (bintest_with ps cs a))
          else VErr "p-value oracle shape"
      | _, _, _, _, _ => bad_input
      end
  | _ => bad_input
  end.

(* the table do_bintest returns: [column names; rows [index label; chromosome; start; end; gene;
   log2 (= residual); weight; depth or None; probes; p_bintest]] *)
Definition vHitRow (h : hit_row) : val :=
  let b := h_bin h in
  VL [VZ (Z.of_nat (h_idx h)); VS (b_chr b); VZ (b_start b); VZ (b_end b); VS (b_gene b); VQ (Qred (b_log2 b));
      VQ (Qred (b_weight b)); vOptQ (b_depth b); VZ (h_probes h); VQ (Qred (h_p h))].
Definition e_c17_bintest_table (v : val) : val :=
  match v with
  | VL [b; s; a; t; p; hd] =>
      match getList getBin b, getSegs s, getQ a, getB t, getList (getOpt getQ) p, getB hd with
      | Some bins, Some segs, Some a, Some t, Some ps, Some hd =>
          let cs := candidates bins segs t in
          if Nat.eqb (length ps) (length cs)
          then VL [VL (map VS (bintest_columns hd)); VL (map vHitRow (bintest_table_with ps cs a))]
          else VErr "p-value oracle shape"
      | _, _, _, _, _, _ => bad_input
      end
  | _ => bad_input
  end.

(* one call of confidence_interval_bootstrap: [values; weights; alpha; bootstraps; smoothed;
   [q2a; sqrt table; [[None; None; index matrix; normal draws; bandwidth]]]] ->
   [number of resamples; [lo; hi] or None] *)
Definition e_c17_ci (v : val) : val :=
  match v with
  | VL [vs; ws; a; b; sm; o] =>
      match getList getQ vs, getList getQ ws, getQ a, getZ b, getB sm, getOdata o with
      | Some vals, Some wts, Some a, Some b, Some sm, Some [orc] =>
          let cfg := mkConfig [] [] ["ci"%string] a b sm false in
          if ci_shape_ok orc cfg (length vals)
          then VL [VZ (n_boot b (o_q2a orc));
                   match ci_func orc a b sm vals wts with
                   | Some (lo, hi) => VL [VQ (Qred lo); VQ (Qred hi)]
                   | None => VNone
                   end]
          else VErr "bootstrap oracle shape"
      | _, _, _, _, _, _ => bad_input
      end
  | _ => bad_input
  end.

(* the number of resamples for (bootstraps, the float 2/alpha) *)
Definition e_c17_nboot (v : val) : val :=
  match v with
  | VL [b; q] => match getZ b, getQ q with Some b, Some q => VZ (n_boot b q) | _, _ => bad_input end
  | _ => bad_input
  end.

(* generated constants the harness needs to reproduce the code's own draws:
   [bootstrap seed; smallest k that is resampled; MAD scale; low-coverage cut-off; off-target names] *)
Definition e_c17_consts (_ : val) : val :=
  VL [VZ Gen.SegmetricsDefaults.ci_seed; VZ Gen.SegmetricsDefaults.ci_min_k;
      VQ Gen.DescDefaults.MAD_SCALE; VQ min_cvg; VL (map VS Gen.Params.ANTITARGET_ALIASES)].
