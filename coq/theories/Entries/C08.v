(* Entry points for C08 (table formats): model functions behind val -> val wrappers.
   Encoding: line = VL [VS ...]; row = VL [VS chrom; VZ start; VZ end; VL [VS extras...]]. *)
From CNV Require Import Base.Prelude Base.Val Base.Str.
From CNV Require Import Model.Decimal Model.Chromsort Model.Sniff Model.Formats.
From CNV Require Gen.Formats.

Definition getLine (v : val) : option line := getList getS v.
Definition getLines (v : val) : option (list line) := getList getLine v.

Definition getRow (v : val) : option row :=
  match v with
  | VL [VS c; VZ s; VZ e; x] =>
      match getList getS x with Some ex => Some ((c, s, e), ex) | None => None end
  | _ => None
  end.
Definition getTable (v : val) : option (list row) := getList getRow v.

Definition vLine (f : line) : val := VL (map VS f).
Definition vLines (ls : list line) : val := VL (map vLine ls).
Definition vRow (r : row) : val :=
  let '(c, s, e) := fst r in VL [VS c; VZ s; VZ e; VL (map VS (snd r))].
Definition vTable (t : list row) : val := VL (map vRow t).
Definition vRegion (g : region) : val := let '(c, s, e) := g in VL [VS c; VZ s; VZ e].
Definition vOptTable (o : option (list row)) : val :=
  match o with Some t => vTable t | None => VErr "parse" end.

(* sorter_chrom *)
Definition e_c08_key (v : val) : val :=
  match getS v with
  | Some s => let k := chrom_key s in VL [VZ (fst k); VS (snd k)]
  | None => bad_input
  end.

(* GenomicArray.sort on rows *)
Definition e_c08_sort (v : val) : val :=
  match getTable v with Some t => vTable (sort_rows t) | None => bad_input end.

Definition e_c08_print_parse (v : val) : val :=
  match v with
  | VZ z => VS (print_Z z)
  | VS s => vOptZ (parse_Z s)
  | _ => bad_input
  end.

(* [fmt; header (extra column names, tab only); table] -> lines *)
Definition e_c08_write (v : val) : val :=
  match v with
  | VL [VS fmt; h; t] =>
      match getList getS h, getTable t with
      | Some h, Some t =>
          if String.eqb fmt "bed3" then vLines (write_bed3 t)
          else if String.eqb fmt "bed4" then vLines (write_bed4 t)
          else if String.eqb fmt "tab" then vLines (write_tab h t)
          else if String.eqb fmt "interval" then vLines (write_interval t)
          else if String.eqb fmt "text" then vLines (write_text t)
          else if String.eqb fmt "picardhs" then vLines (write_picardhs_coords t)
          else VErr "format"
      | _, _ => bad_input
      end
  | _ => bad_input
  end.

(* [fmt; lines] -> table (tab: [header; table]) *)
Definition e_c08_read (v : val) : val :=
  match v with
  | VL [VS fmt; ls] =>
      match getLines ls with
      | Some ls =>
          if String.eqb fmt "bed" then vOptTable (read_bed ls)
          else if String.eqb fmt "bed3" then vOptTable (read_bed3 ls)
          else if String.eqb fmt "bed4" then vOptTable (read_bed4 ls)
          else if String.eqb fmt "interval" then vOptTable (read_interval ls)
          else if String.eqb fmt "text" then vOptTable (read_text ls)
          else if String.eqb fmt "picardhs" then vOptTable (read_picardhs ls)
          else if String.eqb fmt "seg" then vOptTable (read_seg_first ls)
          else if String.eqb fmt "tab" then
            match read_tab ls with
            | Some (h, t) => VL [VL (map VS h); vTable t]
            | None => VErr "parse"
            end
          else if String.eqb fmt "gff" then
            match read_gff ls with Some t => VL (map vRegion t) | None => VErr "parse" end
          else if String.eqb fmt "vcf-simple" then
            match read_vcf_starts Gen.Formats.off_read_vcf_simple ls with
            | Some t => VL (map (fun p => VL [VS (fst p); VZ (snd p)]) t) | None => VErr "parse" end
          else if String.eqb fmt "vcf-sites" then
            match read_vcf_starts Gen.Formats.off_read_vcf_sites ls with
            | Some t => VL (map (fun p => VL [VS (fst p); VZ (snd p)]) t) | None => VErr "parse" end
          else if String.eqb fmt "vcf" then
            match read_vcf_starts (-1 + Gen.Formats.off_read_vcfio_after_pysam) ls with
            | Some t => VL (map (fun p => VL [VS (fst p); VZ (snd p)]) t) | None => VErr "parse" end
          else VErr "format"
      | None => bad_input
      end
  | _ => bad_input
  end.

Definition getSamples (v : val) : option (list (string * list row)) :=
  getList (getPair getS getTable) v.
Definition vSamples (l : list (string * list row)) : val :=
  VL (map (fun sr => VL [VS (fst sr); vTable (snd sr)]) l).

(* [probes?; enumerate chromosomes?; samples] -> lines *)
Definition e_c08_write_seg (v : val) : val :=
  match v with
  | VL [VB probes; VB ids; s] =>
      match getSamples s with
      | Some s => vLines (if ids then write_seg_ids probes s else write_seg probes s)
      | None => bad_input
      end
  | _ => bad_input
  end.

(* lines -> samples, rows in file order *)
Definition e_c08_parse_seg (v : val) : val :=
  match getLines v with
  | Some ls => match parse_seg ls with Some s => vSamples s | None => VErr "parse" end
  | None => bad_input
  end.

(* lines -> samples, each sorted (import-seg + reading the .cns back) *)
Definition e_c08_import_seg (v : val) : val :=
  match getLines v with
  | Some ls => match import_seg ls with Some s => vSamples s | None => VErr "parse" end
  | None => bad_input
  end.

Definition getHint (v : val) : option (option string) := getOpt getS v.

(* [hint; lines] -> detected format name / None (blank) / error *)
Definition e_c08_sniff (v : val) : val :=
  match v with
  | VL [h; ls] =>
      match getHint h, getLines ls with
      | Some h, Some ls =>
          match sniff_lines h ls with
          | None => VNone
          | Some (Fmt n) => VS n
          | Some _ => VErr "unrecognized"
          end
      | _, _ => bad_input
      end
  | _ => bad_input
  end.

(* [hint; lines] -> [format; table] as read_auto *)
Definition e_c08_auto (v : val) : val :=
  match v with
  | VL [h; ls] =>
      match getHint h, getLines ls with
      | Some h, Some ls =>
          match read_auto h ls with
          | AutoRows f t => VL [VS f; vTable t]
          | AutoTab hd t => VL [VS "tab"; VL [VL (map VS hd); vTable t]]
          | AutoRegions f t => VL [VS f; VL (map vRegion t)]
          | AutoUnsupported f => VL [VS f; VErr "unsupported"]
          | AutoUnrecognized => VErr "unrecognized"
          | AutoParseError f => VL [VS f; VErr "parse"]
          end
      | _, _ => bad_input
      end
  | _ => bad_input
  end.

(* re_label / from_label: text -> [chrom|None; start|None; end|None; gene] *)
Definition e_c08_label (v : val) : val :=
  match getS v with
  | Some s =>
      match parse_label s with
      | Some (c, st, en, g) =>
          VL [match c with Some c => VS c | None => VNone end; vOptZ st; vOptZ en; VS g]
      | None => VErr "Invalid range spec"
      end
  | None => bad_input
  end.

(* generated offsets, for the harness' own table of conventions *)
Definition e_c08_offsets (v : val) : val :=
  VL [VL [VS "bed"; VZ Gen.Formats.off_read_bed]; VL [VS "tab"; VZ Gen.Formats.off_read_tab];
      VL [VS "interval"; VZ Gen.Formats.off_read_interval];
      VL [VS "text"; VZ (Gen.Formats.off_read_text + Gen.Formats.off_from_label)];
      VL [VS "gff"; VZ Gen.Formats.off_read_gff]; VL [VS "seg"; VZ Gen.Formats.off_read_seg];
      VL [VS "vcf-simple"; VZ Gen.Formats.off_read_vcf_simple];
      VL [VS "vcf-sites"; VZ Gen.Formats.off_read_vcf_sites];
      VL [VS "picardhs"; VZ Gen.Formats.off_read_picardhs]].

(* ---- extension entries ------------------------------------------------------------ *)

(* [tags; keep_type|None; lines] -> rows with extras [gene; strand; type] *)
Definition e_c08_read_gff (v : val) : val :=
  match v with
  | VL [tg; kt; ls] =>
      match getList getS tg, getOpt getS kt, getLines ls with
      | Some tg, Some kt, Some ls => vOptTable (read_gff_full tg kt ls)
      | _, _, _ => bad_input
      end
  | _ => bad_input
  end.

(* [tags; attribute] -> gene label *)
Definition e_c08_gff_gene (v : val) : val :=
  match v with
  | VL [tg; VS attr] =>
      match getList getS tg with Some tg => VS (gff_gene tg attr) | None => bad_input end
  | _ => bad_input
  end.

Definition e_c08_gff_default_tags (v : val) : val := VL (map VS Gen.Formats.gff_default_tags).

(* [fmt; lines] for the readers added by the extension *)
Definition e_c08_read2 (v : val) : val :=
  match v with
  | VL [VS fmt; ls] =>
      match getLines ls with
      | Some ls =>
          if String.eqb fmt "picardhs" then vOptTable (read_picardhs_full ls)
          else if String.eqb fmt "vcf-simple" then vOptTable (read_vcf_simple_rows Gen.Formats.off_read_vcf_simple ls)
          else if String.eqb fmt "vcf-sites" then vOptTable (read_vcf_simple_rows Gen.Formats.off_read_vcf_sites ls)
          else VErr "format"
      | None => bad_input
      end
  | _ => bad_input
  end.

(* [[END|None; line] ...] -> rows, as vcfio through pysam *)
Definition e_c08_read_vcfio (v : val) : val :=
  match getList (getPair (getOpt getZ) getLine) v with
  | Some ls => vOptTable (read_vcfio ls)
  | None => bad_input
  end.

(* table -> lines of the generic BED writer *)
Definition e_c08_write_bed (v : val) : val :=
  match getTable v with Some t => vLines (write_bed t) | None => bad_input end.

Definition getNames (v : val) : option (list (string * string)) := getList (getPair getS getS) v.

(* [name map; prefix; lines] -> samples, rows in file order / sorted *)
Definition e_c08_parse_seg_names (v : val) : val :=
  match v with
  | VL [nm; VS prefix; ls] =>
      match getNames nm, getLines ls with
      | Some nm, Some ls =>
          match parse_seg_names nm prefix ls with Some s => vSamples s | None => VErr "parse" end
      | _, _ => bad_input
      end
  | _ => bad_input
  end.

Definition e_c08_import_seg_names (v : val) : val :=
  match v with
  | VL [nm; VS prefix; ls] =>
      match getNames nm, getLines ls with
      | Some nm, Some ls =>
          match import_seg_names nm prefix ls with Some s => vSamples s | None => VErr "parse" end
      | _, _ => bad_input
      end
  | _ => bad_input
  end.

(* first sample's rows -> [forward id map; inverse map] *)
Definition e_c08_seg_ids (v : val) : val :=
  match getTable v with
  | Some t =>
      let pairs (m : list (string * string)) := VL (map (fun p => VL [VS (fst p); VS (snd p)]) m) in
      VL [pairs (create_chrom_ids t); pairs (seg_ids_inverse t)]
  | None => bad_input
  end.

(* [start; ref; alt; info] -> end of vcf-simple / vcf-sites, None = int() error *)
Definition e_c08_vcf_simple_end (v : val) : val :=
  match v with
  | VL [VZ start; VS ref; VS alt; VS info] =>
      match vcf_simple_end start ref alt info with Some e => VZ e | None => VErr "int" end
  | _ => bad_input
  end.

(* str.rstrip() *)
Definition e_c08_rstrip (v : val) : val :=
  match getS v with Some s => VS (rstrip_ws s) | None => bad_input end.
