(* Entry points for C05 (pooled / flat reference, gc / rmask): model functions behind
   val -> val wrappers. *)
From CNV Require Import Base.Prelude Base.Val Base.Str Base.QNum Model.Center Model.Reference
  Spec.Biweight Spec.Reference.

(* a bin crosses as [chrom; start; end; gene; log2; depth|None] *)
Definition c05_getBin (v : val) : option bin :=
  match v with
  | VL [c; s; e; g; l; d] =>
      match getS c, getZ s, getZ e, getS g, getQ l, getOpt getQ d with
      | Some c', Some s', Some e', Some g', Some l', Some d' => Some (mkBin c' s' e' g' l' d' None)
      | _, _, _, _, _, _ => None
      end
  | _ => None
  end.

(* a region of a BED file: [chrom; start; end; gene] *)
Definition c05_getRegion (v : val) : option bin :=
  match v with
  | VL [c; s; e; g] =>
      match getS c, getZ s, getZ e, getS g with
      | Some c', Some s', Some e', Some g' => Some (mkBin c' s' e' g' 0 None None)
      | _, _, _, _ => None
      end
  | _ => None
  end.

(* a coverage file: [sample id; bins; values entering all_depths] *)
Definition c05_getSample (v : val) : option sample :=
  match v with
  | VL [i; bs; ds] =>
      match getS i, getList c05_getBin bs, getList getQ ds with
      | Some i', Some bs', Some ds' => Some (mkSample i' bs' ds')
      | _, _, _ => None
      end
  | _ => None
  end.

(* build: None | name; Some None = the `assert genome_build in SUPPORTED...` fails *)
Definition c05_getBuild (v : val) : option (option (option parb)) :=
  match v with
  | VNone => Some (Some None)
  | VS s => match resolve_build s with Some p => Some (Some (Some p)) | None => Some None end
  | _ => None
  end.

(* sexes: a bool (female_samples given) or [target guesses; antitarget guesses] (inferred:
   the per-file results of guess_xx are oracles) *)
Definition c05_getSexes (targets antis : list sample) (v : val) : option (list (string * bool)) :=
  match v with
  | VB f => Some (sexes_given f targets)
  | VL [tg; ag] =>
      match getList (getOpt getB) tg, getList (getOpt getB) ag with
      | Some tg', Some ag' => Some (sexes_inferred (map s_id targets) tg' (map s_id antis) ag')
      | _, _ => None
      end
  | _ => None
  end.

Definition c05_vQ (q : Q) : val := VQ (Qred q).
Definition c05_vRow (r : refrow) : val :=
  VL [VS (r_chrom r); VZ (r_start r); VZ (r_end r); VS (r_gene r);
      c05_vQ (r_log2 r); c05_vQ (r_depth r); c05_vQ (r_spread_sq r)].

(* [hap; build; sexes; targets; antitargets] -> rows [chrom; start; end; gene; log2; depth; spread^2] *)
Definition e_c05_pool (v : val) : val :=
  match v with
  | VL [h; bd; sx; ts; az] =>
      match getB h, c05_getBuild bd, getList c05_getSample ts, getList c05_getSample az with
      | Some h', Some bd', Some ts', Some az' =>
          match c05_getSexes ts' az' sx, bd' with
          | None, _ => bad_input
          | _, None => VErr "Assertion"
          | Some sexes, Some build =>
              match pool h' build sexes ts' az' with
              | RErr m => VErr m
              | ROk rows => VL (map c05_vRow rows)
              end
          end
      | _, _, _, _ => bad_input
      end
  | _ => bad_input
  end.

(* the all_logr columns the consensus is taken over, in the order of the (unsorted) pooled table:
   same input as e_c05_pool -> [[chrom; start; end; gene; column]] *)
Definition c05_cols (hap : bool) (build : option parb) (sexes : list (string * bool))
  (targets antis : list sample) : list bincol :=
  let blk skip files :=
    match load_block hap build sexes skip files with
    | BlkOk b l d => block_cols b l d
    | BlkErr _ => []
    end in
  match antis with [] => blk true targets | _ => blk true targets ++ blk false antis end.

Definition e_c05_columns (v : val) : val :=
  match v with
  | VL [h; bd; sx; ts; az] =>
      match getB h, c05_getBuild bd, getList c05_getSample ts, getList c05_getSample az with
      | Some h', Some (Some build), Some ts', Some az' =>
          match c05_getSexes ts' az' sx with
          | None => bad_input
          | Some sexes =>
              VL (map (fun bc : bincol =>
                         let '(b, col, _) := bc in
                         VL [VS (b_chrom b); VZ (b_start b); VZ (b_end b); VS (b_gene b); vListQ col])
                      (c05_cols h' build sexes ts' az'))
          end
      | _, _, _, _ => bad_input
      end
  | _ => bad_input
  end.

(* exp2 arrives as a finite table *)
Fixpoint c05_exp2_of (tbl : list (Q * Q)) (x : Q) : Q :=
  match tbl with
  | [] => 0
  | (k, e) :: t => if qeq_b k x then e else c05_exp2_of t x
  end.

(* [hap; build; exp2 table; targets; antitargets] -> rows *)
Definition e_c05_flat (v : val) : val :=
  match v with
  | VL [h; bd; ex; ts; az] =>
      match getB h, c05_getBuild bd, getList (getPair getQ getQ) ex,
            getList c05_getRegion ts, getList c05_getRegion az with
      | Some h', Some bd', Some ex', Some ts', Some az' =>
          match bd' with
          | None => VErr "Assertion"
          | Some build => VL (map c05_vRow (flat_reference (c05_exp2_of ex') h' build ts' az'))
          end
      | _, _, _, _, _ => bad_input
      end
  | _ => bad_input
  end.

(* [sequence; start; end] -> [gc; rmask] of sequence[start:end] *)
Definition e_c05_gc (v : val) : val :=
  match v with
  | VL [s; a; b] =>
      match getS s, getZ a, getZ b with
      | Some s', Some a', Some b' =>
          let r := bin_gc_lo (chars s') a' b' in VL [c05_vQ (fst r); c05_vQ (snd r)]
      | _, _, _ => bad_input
      end
  | _ => bad_input
  end.

(* column -> [biweight location; biweight midvariance^2 about it] as summarize_info computes them *)
Definition e_c05_consensus (v : val) : val :=
  match getList getQ v with
  | Some col => let loc := ref_biloc col in VL [c05_vQ loc; c05_vQ (ref_bivar_sq col loc)]
  | None => bad_input
  end.

(* the specification functions of Spec/Biweight.v (plain rational arithmetic; small inputs only) *)
Definition e_c05_spec_consensus (v : val) : val :=
  match getList getQ v with
  | Some col =>
      let loc := biweight_location_spec 6 eps_1e3 5 col in
      VL [c05_vQ loc; c05_vQ (biweight_midvar_sq_spec 9 eps_1e3 mad_to_sd col loc)]
  | None => bad_input
  end.

(* the FASTA arrives as [[name; sequence]]; a name that is absent reads as the empty sequence (pyfaidx raises) *)
Fixpoint c05_seq_of (fa : list (string * string)) (name : string) : list ascii :=
  match fa with
  | [] => []
  | (n, s) :: t => if String.eqb n name then chars s else c05_seq_of t name
  end.

Definition c05_vOptQ (o : option Q) : val := match o with Some q => c05_vQ q | None => VNone end.

(* [fasta | None; do_gc; do_rmask; target bins; antitarget bins; gc column of the first target file | None;
    gc column of the first antitarget file | None]
   -> [has gc column; has rmask column; rows [chrom; start; end; gene; gc | None; rmask | None]] *)
Definition e_c05_pool_gc (v : val) : val :=
  match v with
  | VL [fa; g; r; ts; az; tg; ag] =>
      match getOpt (getList (getPair getS getS)) fa, getB g, getB r,
            getList c05_getRegion ts, getList c05_getRegion az,
            getOpt (getList getQ) tg, getOpt (getList getQ) ag with
      | Some fa', Some g', Some r', Some ts', Some az', Some tg', Some ag' =>
          let '(hg, hr, rows) := pool_gc (option_map c05_seq_of fa') g' r' ts' az' tg' ag' in
          VL [VB hg; VB hr;
              VL (map (fun x : gcrow =>
                         let b := g_bin x in
                         VL [VS (b_chrom b); VZ (b_start b); VZ (b_end b); VS (b_gene b);
                             c05_vOptQ (g_gc x); c05_vOptQ (g_rmask x)]) rows)]
      | _, _, _, _, _, _, _ => bad_input
      end
  | _ => bad_input
  end.

(* the bounded-noise theorems (Props/C05.v, C05_bounded_noise_...): the radius of one bin and the proved constants,
   so that the harness checks the code against the numbers the theorems carry:
   [eps; flat; ideal value] -> [max (2 eps) |flat - ideal|; 62; 248; 0.15; 0.075] *)
Definition e_c05_noise_bounds (v : val) : val :=
  match getList getQ v with
  | Some [eps; fl; t] =>
      VL [c05_vQ (noise_radius eps fl t); c05_vQ spread_K_radius; c05_vQ spread_K; c05_vQ tolerance;
          c05_vQ tolerance_eps]
  | _ => bad_input
  end.
