(* Entry points for C09 (coverage): model functions behind val -> val wrappers. *)
From CNV Require Import Base.Prelude Base.Val Base.Str Model.Coverage Spec.Coverage.

Definition getCigar (v : val) : option (list (Z * Z)) := getList (getPair getZ getZ) v.

(* [contig; flag; mapq; pos; cigar] *)
Definition getRead (v : val) : option read :=
  match v with
  | VL [VS c; VZ f; VZ q; VZ p; cg] =>
      match getCigar cg with
      | Some ops => Some (mkRead c f q p ops)
      | None => None
      end
  | _ => None
  end.

(* [chrom; lo; hi; [col4; col5; ...]] *)
Definition getBin (v : val) : option bedline :=
  match v with
  | VL [VS c; VZ lo; VZ hi; rest] =>
      match getList getS rest with
      | Some cols => Some (c, lo, hi, cols)
      | None => None
      end
  | _ => None
  end.

Definition getAlgo (v : val) : option algo :=
  match v with VZ 0 => Some Count | VZ 1 => Some Pileup | _ => None end.

(* the log2 oracle as a finite table of (depth, log2 depth) supplied by the harness *)
Fixpoint lookupQ (tbl : list (Q * Q)) (d : Q) : option Q :=
  match tbl with
  | [] => None
  | (k, v) :: t => if Qeq_bool k d then Some v else lookupQ t d
  end.

(* a value no real log2 takes on the supplied points: a miss is visible *)
Definition table_log2 (tbl : list (Q * Q)) (d : Q) : Q :=
  match lookupQ tbl d with Some v => v | None => 987654321 # 1 end.

Definition vRow (r : row) : val :=
  let '(c, lo, hi, g, d, l) := r in VL [VS c; VZ lo; VZ hi; VS g; VQ (Qred d); VQ (Qred l)].

(* [alg; cut; k; reads; bins; log2 table]: k = 0 whole file, k >= 1 chunks of k lines.
   The rows come in the table's order: BED order for the pileup, the sorted and
   chromosome-grouped order (count_order; computed with the decorated sort, equal by
   ChromsortLemmas.sort_regions_fast_eq) for --count. *)
Definition e_c09_coverage (v : val) : val :=
  match v with
  | VL [va; VZ cut; VZ k; vreads; vbins; vtbl] =>
      match getAlgo va, getList getRead vreads, getList getBin vbins,
            getList (getPair getQ getQ) vtbl with
      | Some alg, Some reads, Some bins0, Some tbl =>
          let bins := match alg with Count => count_order_fast bins0 | Pileup => bins0 end in
          if k <? 0 then bad_input
          else if k =? 0 then VL (map vRow (coverage (table_log2 tbl) alg cut reads bins))
          else VL (map vRow (coverage_chunks (table_log2 tbl) (Z.to_nat k) alg cut reads bins))
      | _, _, _, _ => bad_input
      end
  | _ => bad_input
  end.

(* ---- text layer ---------------------------------------------------------- *)

(* text -> column names, or the error class the code raises *)
Definition e_c09_detect_cols (v : val) : val :=
  match v with
  | VS text =>
      match detect_bedcov_columns (chars text) with
      | DetectCols cols => VL (map VS cols)
      | DetectNoNewline => VErr "ValueError"
      | DetectBadLine => VErr "RuntimeError"
      end
  | _ => bad_input
  end.

Definition vParsed (p : parsed) : val :=
  let '(c, lo, hi, g, n) := p in
  VL [VS c; VZ lo; VZ hi; match g with Some s => VS s | None => VNone end; VZ n].

(* text -> the table bedcov() reads: [chrom; start; end; gene or None; basecount] *)
Definition e_c09_parse_bedcov (v : val) : val :=
  match v with
  | VS text =>
      match parse_bedcov text with
      | Some rows => VL (map vParsed rows)
      | None => VErr "unparsed"
      end
  | _ => bad_input
  end.

(* [text; log2 table] -> the pileup table assembled from the text *)
Definition e_c09_pileup_text (v : val) : val :=
  match v with
  | VL [VS text; vtbl] =>
      match getList (getPair getQ getQ) vtbl with
      | Some tbl =>
          match pileup_table_of_text (table_log2 tbl) text with
          | Some rows => VL (map vRow rows)
          | None => VErr "unparsed"
          end
      | None => bad_input
      end
  | _ => bad_input
  end.

(* [cut; reads; bins] -> the text samtools bedcov prints for these bins *)
Definition e_c09_bedcov_text (v : val) : val :=
  match v with
  | VL [VZ cut; vreads; vbins] =>
      match getList getRead vreads, getList getBin vbins with
      | Some reads, Some bins => VS (bedcov_of cut reads bins)
      | _, _ => bad_input
      end
  | _ => bad_input
  end.

(* [cut; k; reads; bins; log2 table] -> the pileup table through the text layer, the
   regions split into chunks of k lines (k = 0: one part) *)
Definition e_c09_via_text (v : val) : val :=
  match v with
  | VL [VZ cut; VZ k; vreads; vbins; vtbl] =>
      match getList getRead vreads, getList getBin vbins, getList (getPair getQ getQ) vtbl with
      | Some reads, Some bins, Some tbl =>
          if k <? 0 then bad_input
          else match pileup_via_text (table_log2 tbl) cut reads
                       (if k =? 0 then [bins] else chunks (Z.to_nat k) bins) with
               | Some rows => VL (map vRow rows)
               | None => VErr "unparsed"
               end
      | _, _, _ => bad_input
      end
  | _ => bad_input
  end.

(* [k; lines] -> the pieces parallel.to_chunks writes *)
Definition e_c09_to_chunks_lines (v : val) : val :=
  match getPair getZ (getList getS) v with
  | Some (k, ls) => if k <? 1 then bad_input else VL (map (fun p => VL (map VS p)) (to_chunks_lines (Z.to_nat k) ls))
  | None => bad_input
  end.

(* min_mapq -> the MAPQ threshold in force in the pileup algorithm (-Q only when > 0) *)
Definition e_c09_pileup_cut (v : val) : val :=
  match v with VZ cut => VZ (pileup_cut cut) | _ => bad_input end.

(* bins -> keys of the bins in the order of the --count table *)
Definition e_c09_count_order (v : val) : val :=
  match getList getBin v with
  | Some bins => VL (map (fun b : bedline => let '(c, lo, hi, rest) := b in
                                             VL [VS c; VZ lo; VZ hi; VS (bin_name rest)]) (count_order_fast bins))
  | None => bad_input
  end.

(* [alg; cut; reads; bins] -> base counts of the model, per bin *)
Definition e_c09_bases (v : val) : val :=
  match v with
  | VL [va; VZ cut; vreads; vbins] =>
      match getAlgo va, getList getRead vreads, getList getBin vbins with
      | Some alg, Some reads, Some bins =>
          vListZ (map (fun b : bedline =>
                         let '(c, lo, hi, _) := b in
                         match alg with
                         | Count => bases_count cut c lo hi reads
                         | Pileup => bases_pileup cut c lo hi reads
                         end) bins)
      | _, _, _ => bad_input
      end
  | _ => bad_input
  end.

(* [which; cut; reads; bins] -> the per-position specification sums, per bin
   (which = 0: aligned bases, 1: spanned positions); slow, small cases only *)
Definition e_c09_spec_bases (v : val) : val :=
  match v with
  | VL [VZ which; VZ cut; vreads; vbins] =>
      match getList getRead vreads, getList getBin vbins with
      | Some reads, Some bins =>
          let cov := if which =? 0 then aligned_at else spanned_at in
          vListZ (map (fun b : bedline =>
                         let '(c, lo, hi, _) := b in spec_bases cov cut c lo hi reads) bins)
      | _, _ => bad_input
      end
  | _ => bad_input
  end.

(* [pos; cigar] -> aligned blocks *)
Definition e_c09_blocks (v : val) : val :=
  match getPair getZ getCigar v with
  | Some (pos, ops) => VL (map vPairZ (blocks_of_cigar pos ops) ++ [vPairZ (pos, pos + ref_len ops)])
  | None => bad_input
  end.

(* [k; list of ints] -> chunks *)
Definition e_c09_chunks (v : val) : val :=
  match getPair getZ (getList getZ) v with
  | Some (k, l) => if k <? 1 then bad_input else VL (map vListZ (chunks (Z.to_nat k) l))
  | None => bad_input
  end.
