(* Entry points for C09 (coverage): model functions behind val -> val wrappers. *)
From CNV Require Import Base.Prelude Base.Val Base.Str Model.Coverage Spec.Coverage.

Definition getCigar (v : val) : option (list (Z * Z)) := getList (getPair getZ getZ) v.

(* [contig; flag; mapq; pos; cigar] *)
Definition getRead (v : val) : option read :=
  match v with
  | VL [VS c; VZ f; VZ q; VZ p; cg] =>
      match getCigar cg with
      | Some ops => Some (mkRead c f q p ops)
      | None => None
      end
  | _ => None
  end.

(* [chrom; lo; hi; [col4; col5; ...]] *)
Definition getBin (v : val) : option bedline :=
  match v with
  | VL [VS c; VZ lo; VZ hi; rest] =>
      match getList getS rest with
      | Some cols => Some (c, lo, hi, cols)
      | None => None
      end
  | _ => None
  end.

Definition getAlgo (v : val) : option algo :=
  match v with VZ 0 => Some Count | VZ 1 => Some Pileup | _ => None end.

(* the log2 oracle as a finite table of (depth, log2 depth) supplied by the harness *)
Fixpoint lookupQ (tbl : list (Q * Q)) (d : Q) : option Q :=
  match tbl with
  | [] => None
  | (k, v) :: t => if Qeq_bool k d then Some v else lookupQ t d
  end.

(* a value no real log2 takes on the supplied points: a miss is visible *)
Definition table_log2 (tbl : list (Q * Q)) (d : Q) : Q :=
  match lookupQ tbl d with Some v => v | None => 987654321 # 1 end.

Definition vRow (r : row) : val :=
  let '(c, lo, hi, g, d, l) := r in VL [VS c; VZ lo; VZ hi; VS g; VQ (Qred d); VQ (Qred l)].

(* [alg; cut; k; reads; bins; log2 table]: k = 0 whole file, k >= 1 chunks of k lines *)
Definition e_c09_coverage (v : val) : val :=
  match v with
  | VL [va; VZ cut; VZ k; vreads; vbins; vtbl] =>
      match getAlgo va, getList getRead vreads, getList getBin vbins,
            getList (getPair getQ getQ) vtbl with
      | Some alg, Some reads, Some bins, Some tbl =>
          if k <? 0 then bad_input
          else if k =? 0 then VL (map vRow (coverage (table_log2 tbl) alg cut reads bins))
          else VL (map vRow (coverage_chunks (table_log2 tbl) (Z.to_nat k) alg cut reads bins))
      | _, _, _, _ => bad_input
      end
  | _ => bad_input
  end.

(* [alg; cut; reads; bins] -> base counts of the model, per bin *)
Definition e_c09_bases (v : val) : val :=
  match v with
  | VL [va; VZ cut; vreads; vbins] =>
      match getAlgo va, getList getRead vreads, getList getBin vbins with
      | Some alg, Some reads, Some bins =>
          vListZ (map (fun b : bedline =>
                         let '(c, lo, hi, _) := b in
                         match alg with
                         | Count => bases_count cut c lo hi reads
                         | Pileup => bases_pileup cut c lo hi reads
                         end) bins)
      | _, _, _ => bad_input
      end
  | _ => bad_input
  end.

(* [which; cut; reads; bins] -> the per-position specification sums, per bin
   (which = 0: aligned bases, 1: spanned positions); slow, small cases only *)
Definition e_c09_spec_bases (v : val) : val :=
  match v with
  | VL [VZ which; VZ cut; vreads; vbins] =>
      match getList getRead vreads, getList getBin vbins with
      | Some reads, Some bins =>
          let cov := if which =? 0 then aligned_at else spanned_at in
          vListZ (map (fun b : bedline =>
                         let '(c, lo, hi, _) := b in spec_bases cov cut c lo hi reads) bins)
      | _, _ => bad_input
      end
  | _ => bad_input
  end.

(* [pos; cigar] -> aligned blocks *)
Definition e_c09_blocks (v : val) : val :=
  match getPair getZ getCigar v with
  | Some (pos, ops) => VL (map vPairZ (blocks_of_cigar pos ops) ++ [vPairZ (pos, pos + ref_len ops)])
  | None => bad_input
  end.

(* [k; list of ints] -> chunks *)
Definition e_c09_chunks (v : val) : val :=
  match getPair getZ (getList getZ) v with
  | Some (k, l) => if k <? 1 then bad_input else VL (map vListZ (chunks (Z.to_nat k) l))
  | None => bad_input
  end.
