(* Entry points for C19 (descriptives + smoothing): val -> val wrappers. *)
From CNV Require Import Base.Prelude Base.Val Base.QNum Gen.DescDefaults
  Model.Descriptives Model.Smoothing Spec.Stats.
Local Open Scope Q_scope.

Definition getOQ : val -> option (option Q) := getOpt getQ.
Definition getNat (v : val) : option nat :=
  match getZ v with Some z => if (0 <=? z)%Z then Some (Z.to_nat z) else None | None => None end.
Definition getQs : val -> option (list Q) := getList getQ.
Definition getOQs : val -> option (list (option Q)) := getList getOQ.
Definition getNats : val -> option (list nat) := getList getNat.
Definition getRows : val -> option (list (list Q)) := getList getQs.
Definition vQ (q : Q) : val := VQ (Qred q).
Definition vOOQ (o : option (option Q)) : val :=
  match o with Some r => vOptQ r | None => VErr "oracle contract" end.
Definition vOptListQ (o : option (list Q)) : val :=
  match o with Some l => vListQ l | None => VNone end.

Definition get4 {A B C D} (f : val -> option A) (g : val -> option B) (h : val -> option C)
  (k : val -> option D) (v : val) : option (A * B * C * D) :=
  match v with
  | VL [a; b; c; d] =>
      match f a, g b, h c, k d with
      | Some x, Some y, Some z, Some u => Some (x, y, z, u)
      | _, _, _, _ => None
      end
  | _ => None
  end.

(* the generated constants the oracle suppliers of the harness need *)
Definition e_c19_consts (v : val) : val :=
  VL [VZ KAISER_BETA; VZ SAVGOL_WINDOW; VZ SAVGOL_ORDER; VZ SAVGOL_NITER; vQ WMEDIAN_TOL_EPS;
      VZ BILOC_MAX_ITER; vQ BILOC_EPS].

(* ---- estimators on one array ---------------------------------------------- *)
Definition e_c19_biloc (v : val) : val :=
  match getPair getOQs getOQ v with
  | Some (a, i) => vOptQ (biweight_location (strip_nan a) i)
  | None => bad_input
  end.

Definition e_c19_biloc_margin (v : val) : val :=
  match getPair getOQs getOQ v with
  | Some (a, i) =>
      let a := strip_nan a in
      let i0 := match i with Some i => i | None => median a end in
      vQ (biloc_margin (Z.to_nat BILOC_MAX_ITER) BILOC_C BILOC_EPS a i0 1000000)
  | None => bad_input
  end.

(* [a; initial; supplied iterates] -> [exact result of every step; decision margin] *)
Definition e_c19_biloc_chain (v : val) : val :=
  match getTriple getOQs getOQ getQs v with
  | Some (a, i, its) =>
      let a := strip_nan a in
      match a with
      | _ :: _ :: _ =>
          let i0 := match i with Some i => i | None => median a end in
          let (rs, m) := biloc_chain (Z.to_nat BILOC_MAX_ITER) BILOC_C BILOC_EPS a i0 its 1000000 in
          VL [vListQ rs; vQ m]
      | _ => VL [vListQ (match biweight_location a i with Some r => [r] | None => [] end); vQ 1000000]
      end
  | None => bad_input
  end.

(* [result^2; mask margin; fallback^2; formula^2] for arrays of length >= 2 *)
Definition e_c19_bivar (v : val) : val :=
  match getPair getOQs getOQ v with
  | Some (a, i) =>
      let a := strip_nan a in
      match biweight_midvariance_sq a i with
      | None => VNone
      | Some r =>
          match a with
          | _ :: _ :: _ =>
              let p := bivar_parts_of BIVAR_C BIVAR_EPS a (bivar_initial a i) in
              VL [vQ r; vQ (bv_margin p); vQ (bv_fallback p); vQ (bv_formula p)]
          | _ => VL [vQ r]
          end
      end
  | None => bad_input
  end.

Definition e_c19_mode (v : val) : val :=
  match getPair getOQs getNat v with
  | Some (a, idx) =>
      let a := strip_nan a in
      if (idx <? Nat.max 1 (length a))%nat then vOptQ (modal_location_at a idx) else VErr "oracle contract"
  | None => bad_input
  end.

Definition e_c19_mad (v : val) : val :=
  match getPair getOQs getB v with
  | Some (a, s) => vOptQ (median_absolute_deviation (strip_nan a) s)
  | None => bad_input
  end.

Definition e_c19_iqr (v : val) : val :=
  match getOQs v with
  | Some a => vOptQ (interquartile_range (strip_nan a))
  | None => bad_input
  end.

Definition e_c19_gapper (v : val) : val :=
  match getPair getOQs getQ v with
  | Some (a, sp) => if qlt_b 0 sp then vOptQ (gapper_scale sp (strip_nan a)) else VErr "oracle contract"
  | None => bad_input
  end.

Definition e_c19_qn (v : val) : val :=
  match getOQs v with
  | Some a => vOptQ (q_n (strip_nan a))
  | None => bad_input
  end.

Definition e_c19_mse (v : val) : val :=
  match getPair getOQs getOQ v with
  | Some (a, i) => vOptQ (mean_squared_error (strip_nan a) i)
  | None => bad_input
  end.

(* ---- weighted estimators --------------------------------------------------- *)
Definition with_weighted (a w : list (option Q)) (k : list (Q * Q) -> val) : val :=
  if Nat.eqb (length a) (length w) then k (clean_weighted a w) else VErr "ValueError".

Definition e_c19_wmedian (v : val) : val :=
  match getPair getOQs getOQs v with
  | Some (a, w) => with_weighted a w (fun ps => vOptQ (weighted_median_ps ps))
  | None => bad_input
  end.

Definition e_c19_wmedian_ord (v : val) : val :=
  match getTriple getOQs getOQs getNats v with
  | Some (a, w, ord) => with_weighted a w (fun ps => vOOQ (weighted_median_ord ps ord))
  | None => bad_input
  end.

Definition e_c19_wmad (v : val) : val :=
  match getTriple getOQs getOQs getB v with
  | Some (a, w, s) => with_weighted a w (fun ps => vOptQ (weighted_mad_ps ps s))
  | None => bad_input
  end.

Definition e_c19_wmad_ord (v : val) : val :=
  match v with
  | VL [va; vw; vs; vo1; vo2] =>
      match getOQs va, getOQs vw, getB vs, getNats vo1, getNats vo2 with
      | Some a, Some w, Some s, Some o1, Some o2 =>
          with_weighted a w (fun ps => vOOQ (weighted_mad_ord ps s o1 o2))
      | _, _, _, _, _ => bad_input
      end
  | _ => bad_input
  end.

(* weighted_std squared; "ZeroDivisionError" when the weights sum to zero *)
Definition e_c19_wvar (v : val) : val :=
  match getPair getOQs getOQs v with
  | Some (a, w) =>
      with_weighted a w (fun ps =>
        match ps with
        | [] => VNone
        | [p] => vQ (qsq WSTD_DEFAULT)
        | _ => match weighted_var_core ps with Some r => vQ r | None => VErr "ZeroDivisionError" end
        end)
  | None => bad_input
  end.

(* ---- smoothing -------------------------------------------------------------- *)
Definition vWing (r : wing_result) : val :=
  match r with
  | WingOk w => VZ w
  | WingValueError => VErr "ValueError"
  | WingAssert => VErr "AssertionError"
  | WingOracleBad => VErr "oracle contract"
  end.

Definition e_c19_wing (v : val) : val :=
  match getTriple getZ getQ getZ v with
  | Some (n, width, o) => vWing (width2wing n width o)
  | None => bad_input
  end.

Definition e_c19_pad (v : val) : val :=
  match getPair getQs getNat v with
  | Some (x, wing) => vListQ (pad_array x wing)
  | None => bad_input
  end.

(* [x; width; ceil oracle] *)
Definition e_c19_rolling_median (v : val) : val :=
  match getTriple getQs getQ getZ v with
  | Some (x, width, o) =>
      match rolling_median x width o with
      | inl y => vListQ y
      | inr r => vWing r
      end
  | None => bad_input
  end.

Definition get5 {A B C D E} (f : val -> option A) (g : val -> option B) (h : val -> option C)
  (k : val -> option D) (m : val -> option E) (v : val) : option (A * B * C * D * E) :=
  match v with
  | VL [a; b; c; d; e] =>
      match f a, g b, h c, k d, m e with
      | Some x, Some y, Some z, Some u, Some t => Some (x, y, z, u, t)
      | _, _, _, _, _ => None
      end
  | _ => None
  end.

Definition vListOrWing (r : list Q + wing_result) : val :=
  match r with inl y => vListQ y | inr e => vWing e end.
Definition vListOQ (l : list (option Q)) : val := VL (map vOptQ l).
Definition vOptListOrWing (r : list (option Q) + wing_result) : val :=
  match r with inl y => vListOQ y | inr e => vWing e end.

(* [x; [width; ceil oracle]; raw window] *)
Definition e_c19_kaiser (v : val) : val :=
  match getTriple getQs (getPair getQ getZ) getQs v with
  | Some (x, (width, o), window) => vListOrWing (kaiser x width o window)
  | None => bad_input
  end.

(* [x; weights; wing; raw window] : the weighted branch (not un-padded by the code) *)
Definition e_c19_kaiser_w (v : val) : val :=
  match get4 getQs getQs getNat getQs v with
  | Some (x, w, wing, window) =>
      if Nat.eqb (length window) (2 * wing + 1) && Nat.eqb (length x) (length w)
      then vListOQ (kaiser_weighted x w wing window)
      else VErr "oracle contract"
  | None => bad_input
  end.

(* savgol parameters: [total_width or None; ceil oracle; window_width; order; n_iter] *)
Definition getSgArgs : val -> option (option Q * Z * Z * Z * Z) := get5 getOQ getZ getZ getZ getZ.

(* [n; args] -> [wing; window; order; n_iter] *)
Definition e_c19_savgol_plan (v : val) : val :=
  match getPair getZ getSgArgs v with
  | Some (n, (tw, o, ww, ord, it)) =>
      match savgol_plan n tw o ww ord it with
      | inl p => VL [VZ (sg_wing p); VZ (sg_window p); VZ (sg_order p); VZ (sg_iter p)]
      | inr e => vWing e
      end
  | None => bad_input
  end.

(* [x; args; coeffs; [edge rows left; edge rows right]] *)
Definition e_c19_savgol (v : val) : val :=
  match get4 getQs getSgArgs getQs (getPair getRows getRows) v with
  | Some (x, (tw, o, ww, ord, it), coeffs, (el, er)) =>
      vListOrWing (savgol x tw o ww ord it coeffs el er)
  | None => bad_input
  end.

(* [x; weights; args; coeffs] *)
Definition e_c19_savgol_w (v : val) : val :=
  match get4 getQs getQs getSgArgs getQs v with
  | Some (x, w, (tw, o, ww, ord, it), coeffs) =>
      vOptListOrWing (savgol_w x w tw o ww ord it coeffs)
  | None => bad_input
  end.

(* ---- single steps of the iterated smoothers and the public helpers ---------- *)
(* [y; coeffs; [edge rows left; edge rows right]] -> one savgol_filter(mode="interp") pass *)
Definition e_c19_sg_pass (v : val) : val :=
  match getTriple getQs getQs (getPair getRows getRows) v with
  | Some (y, coeffs, (el, er)) =>
      if Nat.leb (length coeffs) (length y) && Nat.eqb (length el) (Nat.div (length coeffs) 2)
         && Nat.eqb (length er) (Nat.div (length coeffs) 2)
      then vListQ (sg_pass coeffs el er y) else VErr "oracle contract"
  | None => bad_input
  end.

(* [window; signal; weights; n_iter] -> [y; w] (an element None: not finite) *)
Definition e_c19_conv_weighted (v : val) : val :=
  match get4 getQs getQs getQs getNat v with
  | Some (window, y, w, it) =>
      if Nat.eqb (length y) (length w) && Nat.leb (length window) (length y) then
        let (y', w') := convolve_weighted window y w it in VL [vListOQ y'; vListQ w']
      else VErr "AssertionError"
  | None => bad_input
  end.

(* [window; padded signal; wing; n_iter] *)
Definition e_c19_conv_unweighted (v : val) : val :=
  match get4 getQs getQs getNat getNat v with
  | Some (window, y, wing, it) =>
      if Nat.leb (length window) (length y) then vListQ (convolve_unweighted window y wing it)
      else VErr "oracle contract"
  | None => bad_input
  end.

(* [n; sd; n ** (4/5)] -> [width; distance of the rounded quantity to the nearest half] *)
Definition e_c19_guess_window (v : val) : val :=
  match getTriple getZ getQ getQ v with
  | Some (n, sd, p) =>
      let raw := guess_width_raw sd p in
      let f := (raw - inject_Z (floorQ raw))%Q in
      VL [VZ (guess_window_size n sd p); vQ (qabs (f - (1 # 2)))]
  | None => bad_input
  end.

(* [x; weights or None; width; ceil oracle] -> [wing; signal; weights or None] *)
Definition e_c19_check_inputs (v : val) : val :=
  match get4 getQs (getOpt getQs) getQ getZ v with
  | Some (x, ws, width, o) =>
      match check_inputs x ws width o with
      | inl (w, sig, pw) => VL [VZ w; vListQ sig; vOptListQ pw]
      | inr e => vWing e
      end
  | None => bad_input
  end.

(* ---- executable Spec functions (Spec/Stats.v), cross-checked against the harness's own oracles ---- *)
Definition e_c19_spec_gapper (v : val) : val :=
  match getQs v with
  | Some a => vQ (gapperQ a)
  | None => bad_input
  end.

(* [x; wing; i] -> the mirrored window around position i *)
Definition e_c19_spec_mirrored (v : val) : val :=
  match getTriple getQs getNat getNat v with
  | Some (x, w, i) => vListQ (mirrored_window x w i)
  | None => bad_input
  end.
