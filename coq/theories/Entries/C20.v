(* Entry points for C20 (exports): model functions behind val -> val wrappers. *)
From CNV Require Import Base.Prelude Base.Val Base.Str Model.Call Model.Export.
From CNV Require Spec.Call Spec.Export.

Definition c20_getSeg (v : val) : option seg :=
  match v with
  | VL [c; lo; hi; g; lv; e; cn; p] =>
      match getS c, getZ lo, getZ hi, getS g, getQ lv, getQ e, getZ cn, getOpt getZ p with
      | Some c, Some lo, Some hi, Some g, Some lv, Some e, Some cn, Some p => Some (mkSeg c lo hi g lv e cn p)
      | _, _, _, _, _, _, _, _ => None
      end
  | _ => None
  end.

Definition c20_getCfg (v : val) : option cfg :=
  match v with
  | VL [k; hx; fem; b; hc] =>
      match getZ k, getB hx, getB fem, getOpt getS b, getB hc with
      | Some k, Some hx, Some fem, Some b, Some hc => Some (mkCfg k hx fem b hc)
      | _, _, _, _, _ => None
      end
  | _ => None
  end.

Definition c20_getBin (v : val) : option bin :=
  match v with
  | VL [c; lo; hi; g; lv] =>
      match getS c, getZ lo, getZ hi, getS g, getQ lv with
      | Some c, Some lo, Some hi, Some g, Some lv => Some (mkBin c lo hi g lv)
      | _, _, _, _, _ => None
      end
  | _ => None
  end.

Definition c20_getRegion (v : val) : option (string * Z * Z) :=
  match v with
  | VL [c; lo; hi] =>
      match getS c, getZ lo, getZ hi with
      | Some c, Some lo, Some hi => Some (c, lo, hi)
      | _, _, _ => None
      end
  | _ => None
  end.

Definition vStrs (l : list string) : val := VL (map VS l).
Definition vQs (l : list Q) : val := VL (map (fun q => VQ (Qred q)) l).

(* [cfg; rows] -> per row [ncopies; expect (absolute_expect); reference; absolute (before rounding)] *)
Definition e_c20_copies (v : val) : val :=
  match v with
  | VL [c; rows] =>
      match c20_getCfg c, getList c20_getSeg rows with
      | Some c, Some rows =>
          let first := seg_first rows in
          let refs := reference_col c (c_hapx c) first rows in
          let exps := expect_col c (c_hapx c) first rows in
          let nc := ncopies_col c first rows in
          let ex := absolute_expect c first rows in
          let ab := absolute_col rows refs exps in
          VL (map (fun p => VL [VZ (fst (fst p)); VZ (snd (fst p)); VZ (fst (snd p)); VQ (Qred (snd (snd p)))])
                  (combine (combine nc ex) (combine refs ab)))
      | _, _ => bad_input
      end
  | _ => bad_input
  end.

(* [cfg; label|None; show; rows] -> rows [chrom; start; end; label; ncopies] | AssertionError *)
Definition e_c20_bed (v : val) : val :=
  match v with
  | VL [c; label; shw; rows] =>
      match c20_getCfg c, getOpt getS label, getS shw, getList c20_getSeg rows with
      | Some c, Some label, Some shw, Some rows =>
          match export_bed c label shw rows with
          | Some out => VL (map (fun r : bed_row =>
                                   let '(ch, lo, hi, l, n) := r in VL [VS ch; VZ lo; VZ hi; VS l; VZ n]) out)
          | None => VErr "AssertionError"
          end
      | _, _, _, _ => bad_input
      end
  | _ => bad_input
  end.

(* ---- the specification's own functions (Spec/Export.v), for the harness self-check -------- *)

Definition vBedRows (out : list bed_row) : val :=
  VL (map (fun r : bed_row => let '(ch, lo, hi, l, n) := r in VL [VS ch; VZ lo; VZ hi; VS l; VZ n]) out).

(* [chr style; cfg; label|None; rows] -> [bed all; bed ploidy; bed variant; VCF segments [chrom; end]] *)
Definition e_c20_spec_bedvcf (v : val) : val :=
  match v with
  | VL [st; c; label; rows] =>
      match getB st, c20_getCfg c, getOpt getS label, getList c20_getSeg rows with
      | Some st, Some c, Some label, Some rows =>
          let st := if st then Spec.Call.ChrStyle else Spec.Call.PlainStyle in
          let lb := match c_build c with Some b => Some (lower_str b) | None => None end in
          let bed := Spec.Export.sp_bed st lb (c_k c) (c_hapx c) (c_female c) (c_has_cn c) label in
          VL [vBedRows (bed (fun _ => true) rows);
              vBedRows (bed (Spec.Export.sp_off_ploidy st lb (c_k c) (c_hapx c) (c_female c) (c_has_cn c)) rows);
              vBedRows (bed (Spec.Export.sp_variant st lb (c_k c) (c_hapx c) (c_female c) (c_has_cn c)) rows);
              VL (map (fun s => VL [VS (s_chrom s); VZ (s_hi s)])
                      (Spec.Export.sp_vcf_rows st lb (c_k c) (c_hapx c) (c_female c) (c_has_cn c) rows))]
      | _, _, _, _ => bad_input
      end
  | _ => bad_input
  end.

(* [enumerate; samples] -> Spec rows of the SEG table *)
Definition e_c20_spec_seg (v : val) : val :=
  match v with
  | VL [en; samples] =>
      match getB en, getList (getPair getS (getList c20_getSeg)) samples with
      | Some en, Some samples =>
          VL (map (fun r : seg_out =>
                     let '(sid, ch, lo, hi, p, m) := r in
                     VL [VS sid; VS ch; VZ lo; VZ hi; vOptZ p; VQ (Qred m)])
                  (Spec.Export.sp_seg_rows en samples))
      | _, _ => bad_input
      end
  | _ => bad_input
  end.

(* [samples] -> Spec matrix rows [[label; values]...] *)
Definition e_c20_spec_matrix (v : val) : val :=
  match getList (getPair getS (getList c20_getBin)) v with
  | Some samples => VL (map (fun r => VL [VS (fst r); vQs (snd r)]) (Spec.Export.sp_matrix samples))
  | None => bad_input
  end.

Definition vCi (q : ciquad) : val :=
  let '((a, b), (c, d)) := q in VL [vOptZ a; vOptZ b; vOptZ c; vOptZ d].

Definition vVcf (r : vcf_rec) : val :=
  VL [VS (v_chrom r); VZ (v_pos r); VS (v_id r); VS (v_ref r); VS (v_alt r); VS (v_qual r); VS (v_filter r);
      VS (v_svtype r); VZ (v_end r); VZ (v_svlen r); VQ (Qred (v_fold r)); VQ (Qred (v_log2 r)); VZ (v_probes r);
      match v_ci r with Some q => vCi q | None => VNone end;
      VS (v_format r); VS (v_sample r)].

(* [cfg; sample_id|None; table sample id; rows; bins|None] -> [header columns; records | error] *)
Definition e_c20_vcf (v : val) : val :=
  match v with
  | VL [c; sid; tid; rows; bins] =>
      match c20_getCfg c, getOpt getS sid, getS tid, getList c20_getSeg rows, getOpt (getList c20_getRegion) bins with
      | Some c, Some sid, Some tid, Some rows, Some bins =>
          let '(hdr, res) := export_vcf c sid tid rows bins in
          VL [vStrs hdr;
              match res with
              | VcfAssert => VErr "AssertionError"
              | VcfShape => VErr "ValueError"
              | VcfOk recs => VL (map vVcf recs)
              end]
      | _, _, _, _, _ => bad_input
      end
  | _ => bad_input
  end.

(* [cfg; rows; ci columns [[left|None; right|None]...] | None] -> records | error  (segments2vcf) *)
Definition e_c20_segments2vcf (v : val) : val :=
  match v with
  | VL [c; rows; ci] =>
      match c20_getCfg c, getList c20_getSeg rows, getOpt (getList (getPair (getOpt getZ) (getOpt getZ))) ci with
      | Some c, Some rows, Some ci =>
          match segments2vcf c rows ci with
          | VcfAssert => VErr "AssertionError"
          | VcfShape => VErr "ValueError"
          | VcfOk recs => VL (map vVcf recs)
          end
      | _, _, _ => bad_input
      end
  | _ => bad_input
  end.

(* [bins; rows] -> [[ci_left|None; ci_right|None] ...] *)
Definition e_c20_assign_ci (v : val) : val :=
  match v with
  | VL [bins; rows] =>
      match getList c20_getRegion bins, getList c20_getSeg rows with
      | Some bins, Some rows => VL (map (fun p => VL [vOptZ (fst p); vOptZ (snd p)]) (assign_ci bins rows))
      | _, _ => bad_input
      end
  | _ => bad_input
  end.

Definition c20_getSample {A} (f : val -> option A) (v : val) : option (string * list A) :=
  getPair getS (getList f) v.

(* [chrom_ids: None (argument omitted) | "None" | true | false; samples [[sid; rows] ...]]
   -> rows [ID; chrom; loc.start; loc.end; num.mark|None; seg.mean] | ValueError *)
Definition e_c20_seg (v : val) : val :=
  match v with
  | VL [arg; samples] =>
      let arg' := match arg with
                  | VNone => Some None
                  | VS _ => Some (Some IdsNone)
                  | VB true => Some (Some IdsTrue)
                  | VB false => Some (Some IdsFalse)
                  | _ => None
                  end in
      match arg', getList (c20_getSample c20_getSeg) samples with
      | Some arg', Some samples =>
          match export_seg arg' samples with
          | Some out => VL (map (fun r : seg_out =>
                                   let '(sid, ch, lo, hi, p, m) := r in
                                   VL [VS sid; VS ch; VZ lo; VZ hi; vOptZ p; VQ (Qred m)]) out)
          | None => VErr "ValueError"
          end
      | _, _ => bad_input
      end
  | _ => bad_input
  end.

Definition vRows (rows : list (string * list Q)) : val :=
  VL (map (fun r => VL [VS (fst r); vQs (snd r)]) rows).

Definition vMerge (r : merge_result) (k : merged -> val) : val :=
  match r with
  | MergeNone => VNone
  | MergeMismatch i => VL [VS "Mismatched"; VZ (Z.of_nat i)]
  | MergeDuplicate sid => VL [VS "Duplicate"; VS sid]
  | MergeReserved sid => VL [VS "Reserved"; VS sid]
  | MergeOk m => k m
  end.

(* [samples [[sid; bins] ...]] -> None | ["Mismatched"; file index] | ["Duplicate"; sid]
   | ["ok"; sample columns [[sid; values]...]; rows [[label; values]...]] *)
Definition e_c20_merge (v : val) : val :=
  match getList (c20_getSample c20_getBin) v with
  | Some samples =>
      vMerge (merge_samples samples)
             (fun m => VL [VS "ok"; VL (map (fun c => VL [VS (fst c); vQs (snd c)]) (m_cols m)); vRows (merged_rows m)])
  | None => bad_input
  end.

(* [sample_ids; samples] -> ["ok"; header; header2; header3; rows [[GID; CLID; NAME; GWEIGHT; values]...]] | error as above *)
Definition e_c20_cdt (v : val) : val :=
  match v with
  | VL [ids; samples] =>
      match getList getS ids, getList (c20_getSample c20_getBin) samples with
      | Some ids, Some samples =>
          vMerge (merge_samples samples)
                 (fun m => let '(h, (h2, h3), rows) := fmt_cdt ids m in
                           VL [VS "ok"; vStrs h; vStrs h2; vStrs h3;
                               VL (map (fun r : cdt_row =>
                                          let '(g, cl, nm, w, vs) := r in VL [VS g; VS cl; VS nm; VZ w; vQs vs]) rows)])
      | _, _ => bad_input
      end
  | _ => bad_input
  end.

(* [sample_ids; samples] -> ["ok"; header; rows [[CloneID; Name; values]...]] | error as above *)
Definition e_c20_jtv (v : val) : val :=
  match v with
  | VL [ids; samples] =>
      match getList getS ids, getList (c20_getSample c20_getBin) samples with
      | Some ids, Some samples =>
          vMerge (merge_samples samples)
                 (fun m => let '(h, rows) := fmt_jtv ids m in
                           VL [VS "ok"; vStrs h;
                               VL (map (fun r : string * string * list Q =>
                                          let '(cl, nm, vs) := r in VL [VS cl; VS nm; vQs vs]) rows)])
      | _, _ => bad_input
      end
  | _ => bad_input
  end.

(* [bins] -> rows [chromosome; start; end; gene; log2; probe] *)
Definition e_c20_nexus (v : val) : val :=
  match getList c20_getBin v with
  | Some bins =>
      VL (map (fun r : nexus_row =>
                 let '(c, lo, hi, g, lv, p) := r in VL [VS c; VZ lo; VZ hi; VS g; VQ (Qred lv); VS p])
              (export_nexus_basic bins))
  | None => bad_input
  end.
