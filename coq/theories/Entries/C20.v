(* Entry points for C20 (exports): model functions behind val -> val wrappers. *)
From CNV Require Import Base.Prelude Base.Val Base.Str Model.Call Model.Export.
From CNV Require Spec.Call Spec.Export Model.Vcf Model.VBaf.

Definition c20_getSeg (v : val) : option seg :=
  match v with
  | VL [c; lo; hi; g; lv; e; cn; p] =>
      match getS c, getZ lo, getZ hi, getS g, getQ lv, getQ e, getZ cn, getOpt getZ p with
      | Some c, Some lo, Some hi, Some g, Some lv, Some e, Some cn, Some p => Some (mkSeg c lo hi g lv e cn p)
      | _, _, _, _, _, _, _, _ => None
      end
  | _ => None
  end.

Definition c20_getCfg (v : val) : option cfg :=
  match v with
  | VL [k; hx; fem; b; hc] =>
      match getZ k, getB hx, getB fem, getOpt getS b, getB hc with
      | Some k, Some hx, Some fem, Some b, Some hc => Some (mkCfg k hx fem b hc)
      | _, _, _, _, _ => None
      end
  | _ => None
  end.

Definition c20_getBin (v : val) : option bin :=
  match v with
  | VL [c; lo; hi; g; lv] =>
      match getS c, getZ lo, getZ hi, getS g, getQ lv with
      | Some c, Some lo, Some hi, Some g, Some lv => Some (mkBin c lo hi g lv)
      | _, _, _, _, _ => None
      end
  | _ => None
  end.

Definition c20_getRegion (v : val) : option (string * Z * Z) :=
  match v with
  | VL [c; lo; hi] =>
      match getS c, getZ lo, getZ hi with
      | Some c, Some lo, Some hi => Some (c, lo, hi)
      | _, _, _ => None
      end
  | _ => None
  end.

Definition vStrs (l : list string) : val := VL (map VS l).
Definition vQs (l : list Q) : val := VL (map (fun q => VQ (Qred q)) l).

(* [cfg; rows] -> per row [ncopies; expect (absolute_expect); reference; absolute (before rounding)] *)
Definition e_c20_copies (v : val) : val :=
  match v with
  | VL [c; rows] =>
      match c20_getCfg c, getList c20_getSeg rows with
      | Some c, Some rows =>
          let first := seg_first rows in
          let refs := reference_col c (c_hapx c) first rows in
          let exps := expect_col c (c_hapx c) first rows in
          let nc := ncopies_col c first rows in
          let ex := absolute_expect c first rows in
          let ab := absolute_col rows refs exps in
          VL (map (fun p => VL [VZ (fst (fst p)); VZ (snd (fst p)); VZ (fst (snd p)); VQ (Qred (snd (snd p)))])
                  (combine (combine nc ex) (combine refs ab)))
      | _, _ => bad_input
      end
  | _ => bad_input
  end.

(* [cfg; label|None; show; rows] -> rows [chrom; start; end; label; ncopies] | AssertionError *)
Definition e_c20_bed (v : val) : val :=
  match v with
  | VL [c; label; shw; rows] =>
      match c20_getCfg c, getOpt getS label, getS shw, getList c20_getSeg rows with
      | Some c, Some label, Some shw, Some rows =>
          match export_bed c label shw rows with
          | Some out => VL (map (fun r : bed_row =>
                                   let '(ch, lo, hi, l, n) := r in VL [VS ch; VZ lo; VZ hi; VS l; VZ n]) out)
          | None => VErr "AssertionError"
          end
      | _, _, _, _ => bad_input
      end
  | _ => bad_input
  end.

(* ---- the specification's own functions (Spec/Export.v), for the harness self-check -------- *)

Definition vBedRows (out : list bed_row) : val :=
  VL (map (fun r : bed_row => let '(ch, lo, hi, l, n) := r in VL [VS ch; VZ lo; VZ hi; VS l; VZ n]) out).

(* [chr style; cfg; label|None; rows] -> [bed all; bed ploidy; bed variant; VCF segments [chrom; end]] *)
Definition e_c20_spec_bedvcf (v : val) : val :=
  match v with
  | VL [st; c; label; rows] =>
      match getB st, c20_getCfg c, getOpt getS label, getList c20_getSeg rows with
      | Some st, Some c, Some label, Some rows =>
          let st := if st then Spec.Call.ChrStyle else Spec.Call.PlainStyle in
          let lb := match c_build c with Some b => Some (lower_str b) | None => None end in
          let bed := Spec.Export.sp_bed st lb (c_k c) (c_hapx c) (c_female c) (c_has_cn c) label in
          VL [vBedRows (bed (fun _ => true) rows);
              vBedRows (bed (Spec.Export.sp_off_ploidy st lb (c_k c) (c_hapx c) (c_female c) (c_has_cn c)) rows);
              vBedRows (bed (Spec.Export.sp_variant st lb (c_k c) (c_hapx c) (c_female c) (c_has_cn c)) rows);
              VL (map (fun s => VL [VS (s_chrom s); VZ (s_hi s)])
                      (Spec.Export.sp_vcf_rows st lb (c_k c) (c_hapx c) (c_female c) (c_has_cn c) rows))]
      | _, _, _, _ => bad_input
      end
  | _ => bad_input
  end.

(* [enumerate; samples] -> Spec rows of the SEG table *)
Definition e_c20_spec_seg (v : val) : val :=
  match v with
  | VL [en; samples] =>
      match getB en, getList (getPair getS (getList c20_getSeg)) samples with
      | Some en, Some samples =>
          VL (map (fun r : seg_out =>
                     let '(sid, ch, lo, hi, p, m) := r in
                     VL [VS sid; VS ch; VZ lo; VZ hi; vOptZ p; VQ (Qred m)])
                  (Spec.Export.sp_seg_rows en samples))
      | _, _ => bad_input
      end
  | _ => bad_input
  end.

(* [samples] -> Spec matrix rows [[label; values]...] *)
Definition e_c20_spec_matrix (v : val) : val :=
  match getList (getPair getS (getList c20_getBin)) v with
  | Some samples => VL (map (fun r => VL [VS (fst r); vQs (snd r)]) (Spec.Export.sp_matrix samples))
  | None => bad_input
  end.

Definition vCi (q : ciquad) : val :=
  let '((a, b), (c, d)) := q in VL [vOptZ a; vOptZ b; vOptZ c; vOptZ d].

Definition vVcf (r : vcf_rec) : val :=
  VL [VS (v_chrom r); VZ (v_pos r); VS (v_id r); VS (v_ref r); VS (v_alt r); VS (v_qual r); VS (v_filter r);
      VS (v_svtype r); VZ (v_end r); VZ (v_svlen r); VQ (Qred (v_fold r)); VQ (Qred (v_log2 r)); VZ (v_probes r);
      match v_ci r with Some q => vCi q | None => VNone end;
      VS (v_format r); VS (v_sample r)].

(* [cfg; sample_id|None; table sample id; rows; bins|None] -> [header columns; records | error] *)
Definition e_c20_vcf (v : val) : val :=
  match v with
  | VL [c; sid; tid; rows; bins] =>
      match c20_getCfg c, getOpt getS sid, getS tid, getList c20_getSeg rows, getOpt (getList c20_getRegion) bins with
      | Some c, Some sid, Some tid, Some rows, Some bins =>
          let '(hdr, res) := export_vcf c sid tid rows bins in
          VL [vStrs hdr;
              match res with
              | VcfAssert => VErr "AssertionError"
              | VcfShape => VErr "ValueError"
              | VcfOk recs => VL (map vVcf recs)
              end]
      | _, _, _, _, _ => bad_input
      end
  | _ => bad_input
  end.

(* [cfg; rows; ci columns [[left|None; right|None]...] | None] -> records | error  (segments2vcf) *)
Definition e_c20_segments2vcf (v : val) : val :=
  match v with
  | VL [c; rows; ci] =>
      match c20_getCfg c, getList c20_getSeg rows, getOpt (getList (getPair (getOpt getZ) (getOpt getZ))) ci with
      | Some c, Some rows, Some ci =>
          match segments2vcf c rows ci with
          | VcfAssert => VErr "AssertionError"
          | VcfShape => VErr "ValueError"
          | VcfOk recs => VL (map vVcf recs)
          end
      | _, _, _ => bad_input
      end
  | _ => bad_input
  end.

(* [bins; rows] -> [[ci_left|None; ci_right|None] ...] *)
Definition e_c20_assign_ci (v : val) : val :=
  match v with
  | VL [bins; rows] =>
      match getList c20_getRegion bins, getList c20_getSeg rows with
      | Some bins, Some rows => VL (map (fun p => VL [vOptZ (fst p); vOptZ (snd p)]) (assign_ci bins rows))
      | _, _ => bad_input
      end
  | _ => bad_input
  end.

Definition c20_getSample {A} (f : val -> option A) (v : val) : option (string * list A) :=
  getPair getS (getList f) v.

(* [chrom_ids: None (argument omitted) | "None" | true | false; samples [[sid; rows] ...]]
   -> rows [ID; chrom; loc.start; loc.end; num.mark|None; seg.mean] | ValueError *)
Definition e_c20_seg (v : val) : val :=
  match v with
  | VL [arg; samples] =>
      let arg' := match arg with
                  | VNone => Some None
                  | VS _ => Some (Some IdsNone)
                  | VB true => Some (Some IdsTrue)
                  | VB false => Some (Some IdsFalse)
                  | _ => None
                  end in
      match arg', getList (c20_getSample c20_getSeg) samples with
      | Some arg', Some samples =>
          match export_seg arg' samples with
          | Some out => VL (map (fun r : seg_out =>
                                   let '(sid, ch, lo, hi, p, m) := r in
                                   VL [VS sid; VS ch; VZ lo; VZ hi; vOptZ p; VQ (Qred m)]) out)
          | None => VErr "ValueError"
          end
      | _, _ => bad_input
      end
  | _ => bad_input
  end.

Definition vRows (rows : list (string * list Q)) : val :=
  VL (map (fun r => VL [VS (fst r); vQs (snd r)]) rows).

Definition vMerge (r : merge_result) (k : merged -> val) : val :=
  match r with
  | MergeNone => VNone
  | MergeMismatch i => VL [VS "Mismatched"; VZ (Z.of_nat i)]
  | MergeDuplicate sid => VL [VS "Duplicate"; VS sid]
  | MergeReserved sid => VL [VS "Reserved"; VS sid]
  | MergeOk m => k m
  end.

(* [samples [[sid; bins] ...]] -> None | ["Mismatched"; file index] | ["Duplicate"; sid]
   | ["ok"; sample columns [[sid; values]...]; rows [[label; values]...]] *)
Definition e_c20_merge (v : val) : val :=
  match getList (c20_getSample c20_getBin) v with
  | Some samples =>
      vMerge (merge_samples samples)
             (fun m => VL [VS "ok"; VL (map (fun c => VL [VS (fst c); vQs (snd c)]) (m_cols m)); vRows (merged_rows m)])
  | None => bad_input
  end.

(* [sample_ids; samples] -> ["ok"; header; header2; header3; rows [[GID; CLID; NAME; GWEIGHT; values]...]] | error as above *)
Definition e_c20_cdt (v : val) : val :=
  match v with
  | VL [ids; samples] =>
      match getList getS ids, getList (c20_getSample c20_getBin) samples with
      | Some ids, Some samples =>
          vMerge (merge_samples samples)
                 (fun m => let '(h, (h2, h3), rows) := fmt_cdt ids m in
                           VL [VS "ok"; vStrs h; vStrs h2; vStrs h3;
                               VL (map (fun r : cdt_row =>
                                          let '(g, cl, nm, w, vs) := r in VL [VS g; VS cl; VS nm; VZ w; vQs vs]) rows)])
      | _, _ => bad_input
      end
  | _ => bad_input
  end.

(* [sample_ids; samples] -> ["ok"; header; rows [[CloneID; Name; values]...]] | error as above *)
Definition e_c20_jtv (v : val) : val :=
  match v with
  | VL [ids; samples] =>
      match getList getS ids, getList (c20_getSample c20_getBin) samples with
      | Some ids, Some samples =>
          vMerge (merge_samples samples)
                 (fun m => let '(h, rows) := fmt_jtv ids m in
                           VL [VS "ok"; vStrs h;
                               VL (map (fun r : string * string * list Q =>
                                          let '(cl, nm, vs) := r in VL [VS cl; VS nm; vQs vs]) rows)])
      | _, _ => bad_input
      end
  | _ => bad_input
  end.

(* [bins] -> rows [chromosome; start; end; gene; log2; probe] *)
Definition e_c20_nexus (v : val) : val :=
  match getList c20_getBin v with
  | Some bins =>
      VL (map (fun r : nexus_row =>
                 let '(c, lo, hi, g, lv, p) := r in VL [VS c; VZ lo; VZ hi; VS g; VQ (Qred lv); VS p])
              (export_nexus_basic bins))
  | None => bad_input
  end.

(* ---- VCF text layer ------------------------------------------------------------------------ *)

(* [cfg; sample_id|None; table sample id; rows; bins|None; tokens [[2**log2 text; log2 text] per record]; date; version]
   -> [header lines; body lines (column line first) | error] *)
Definition e_c20_vcf_text (v : val) : val :=
  match v with
  | VL [c; sid; tid; rows; bins; toks; date; version] =>
      match c20_getCfg c, getOpt getS sid, getS tid, getList c20_getSeg rows, getOpt (getList c20_getRegion) bins with
      | Some c, Some sid, Some tid, Some rows, Some bins =>
          match getList (getPair getS getS) toks, getS date, getS version with
          | Some toks, Some date, Some version =>
              VL [vStrs (vcf_header_lines date version);
                  match export_vcf_text c sid tid rows bins toks with
                  | TextAssert => VErr "AssertionError"
                  | TextShape => VErr "ValueError"
                  | TextOk body => vStrs body
                  end]
          | _, _, _ => bad_input
          end
      | _, _, _, _, _ => bad_input
      end
  | _ => bad_input
  end.

(* [bins; rows] -> the specification's (CIPOS, CIEND) of every row (Spec.Export.sp_ci) *)
Definition e_c20_spec_ci (v : val) : val :=
  match v with
  | VL [bins; rows] =>
      match getList c20_getRegion bins, getList c20_getSeg rows with
      | Some bins, Some rows =>
          VL (map (fun i => vCi (Spec.Export.sp_ci bins rows i)) (seq 0 (length rows)))
      | _, _ => bad_input
      end
  | _ => bad_input
  end.

(* ---- nexus-ogt ------------------------------------------------------------------------------- *)

Definition c20_getObin (v : val) : option obin :=
  match v with
  | VL [c; lo; hi; lv; w] =>
      match getS c, getZ lo, getZ hi, getQ lv, getOpt getQ w with
      | Some c, Some lo, Some hi, Some lv, Some w => Some (mkObin c lo hi lv w)
      | _, _, _, _, _ => None
      end
  | _ => None
  end.

(* a variant as baf_by_ranges sees it: [label; chrom; start; end; zygosity; alt_freq|None; n_zygosity|None] *)
Definition c20_getVariant (v : val) : option VBaf.lrow :=
  match v with
  | VL [lab; c; lo; hi; z; f; nz] =>
      match getZ lab, getS c, getZ lo, getZ hi, getQ z, getOpt getQ f, getOpt getQ nz with
      | Some lab, Some c, Some lo, Some hi, Some z, Some f, Some nz =>
          let g (zy : Q) (fr : Vcf.xq) := {| Vcf.g_zyg := zy; Vcf.g_depth := 0; Vcf.g_count := 0; Vcf.g_freq := fr |} in
          Some (lab, {| Vcf.v_chrom := c; Vcf.v_ckey := 0; Vcf.v_start := lo; Vcf.v_end := hi;
                        Vcf.v_ref := EmptyString; Vcf.v_alt := EmptyString; Vcf.v_somatic := false;
                        Vcf.v_t := g z (match f with Some q => Vcf.Fin q | None => Vcf.XNaN end);
                        Vcf.v_n := option_map (fun zy => g zy Vcf.XNaN) nz |})
      | _, _, _, _, _, _, _ => None
      end
  | _ => None
  end.

Definition vXq20 (x : Vcf.xq) : val :=
  match x with Vcf.Fin q => VQ (Qred q) | Vcf.PInf => VS "inf" | Vcf.XNaN => VNone end.

(* [paired; variants; min_weight; has_weight; bins] -> rows [chrom; start; end; log2; baf|None] | TypeError (no bin left);
   second component: the specification's keep mask *)
Definition e_c20_nexus_ogt (v : val) : val :=
  match v with
  | VL [paired; vars; mw; hw; bins] =>
      match getB paired, getList c20_getVariant vars, getQ mw, getB hw, getList c20_getObin bins with
      | Some paired, Some vars, Some mw, Some hw, Some bins =>
          VL [match export_nexus_ogt paired vars mw hw bins with
              | Some out => VL (map (fun r : ogt_row =>
                                      let '(c, lo, hi, lv, f) := r in VL [VS c; VZ lo; VZ hi; VQ (Qred lv); vXq20 f]) out)
              | None => VErr "TypeError"
              end;
              VL (map (fun b => VB (Spec.Export.sp_ogt_keeps mw hw b)) bins)]
      | _, _, _, _, _ => bad_input
      end
  | _ => bad_input
  end.

(* ---- THetA ----------------------------------------------------------------------------------- *)

Definition c20_getTseg (v : val) : option tseg :=
  match v with
  | VL [c; lo; hi; e; p; w] =>
      match getS c, getZ lo, getZ hi, getQ e, getZ p, getQ w with
      | Some c, Some lo, Some hi, Some e, Some p, Some w => Some (mkTseg c lo hi e p w)
      | _, _, _, _, _, _ => None
      end
  | _ => None
  end.

Definition c20_getNbin (v : val) : option nbin :=
  match v with
  | VL [c; lo; hi; lv] =>
      match getS c, getZ lo, getZ hi, getQ lv with
      | Some c, Some lo, Some hi, Some lv => Some (c, lo, hi, lv)
      | _, _, _, _ => None
      end
  | _ => None
  end.

(* the exact values behind the counts: [tumor values; normal values (None = NaN); reference means; nbins] *)
Definition c20_theta_values (hp hw : bool) (rows : list tseg) (normal : option (list nbin)) (en : list Q) : val :=
  let segs := theta_autosomes t_chrom rows in
  match normal with
  | Some ((_ :: _) as nb) =>
      let nbins := map (fun s => inject_Z (t_probes s)) segs in
      let means := theta_ref_means (theta_autosomes nb_chrom nb) segs in
      VL [VL (map2 (fun s n => VQ (theta_value (t_e s) n)) segs nbins);
          VL (map3 (fun (m : option Q) e n => match m with Some _ => VQ (theta_value e n) | None => VNone end) means en nbins);
          VL (map vOptQ means); vListQ nbins]
  | _ =>
      let nbins := theta_nbins hp hw segs in
      VL [VL (map2 (fun s n => VQ (theta_value (t_e s) n)) segs nbins);
          VL (map (fun n => VQ (theta_value theta_neutral_ratio n)) nbins);
          VL (map (fun _ => VQ 0) segs); vListQ nbins]
  end.

(* [has probes; has weight; rows [chrom; start; end; 2^log2; probes; weight]; normal bins [chrom; start; end; log2] | None;
    2^ref_mean per kept row]
   -> "empty" | AttributeError | [rows [#ID; chrm; start; end; tumorCount; normalCount]; exact values; spec keys of the kept rows] *)
Definition e_c20_theta (v : val) : val :=
  match v with
  | VL [hp; hw; rows; normal; en] =>
      match getB hp, getB hw, getList c20_getTseg rows, getOpt (getList c20_getNbin) normal, getList getQ en with
      | Some hp, Some hw, Some rows, Some normal, Some en =>
          match export_theta hp hw rows normal en with
          | ThetaEmpty => VS "empty"
          | ThetaAttr => VErr "AttributeError"
          | ThetaOk out =>
              VL [VL (map (fun r : theta_row =>
                             let '(id, ch, lo, hi, t, n) := r in VL [VS id; VZ ch; VZ lo; VZ hi; VZ t; VZ n]) out);
                  c20_theta_values hp hw rows normal en;
                  let kept := Spec.Export.sp_theta_kept rows in
                  VL (map (fun s => let '(id, ch, lo, hi) := Spec.Export.sp_theta_key kept s in
                                    VL [VS id; VZ ch; VZ lo; VZ hi]) kept)]
          end
      | _, _, _, _, _ => bad_input
      end
  | _ => bad_input
  end.
