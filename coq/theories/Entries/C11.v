(* Entry points for C11 (HaarSeg core): model functions behind val -> val wrappers. *)
From Coq Require Import QArith.Qabs.
From CNV Require Import Base.Prelude Base.Val Model.Haar.

Definition getQs (v : val) : option (list Q) := getList getQ v.
Definition getZs (v : val) : option (list Z) := getList getZ v.
Definition getOptQs (v : val) : option (option (list Q)) := getOpt getQs v.

(* [signal; weight|None; stepHalfSize; scale] -> HaarConv *)
Definition e_c11_conv (v : val) : val :=
  match v with
  | VL [s; w; h; sc] =>
      match getQs s, getOptQs w, getZ h, getQ sc with
      | Some sg, Some wt, Some h, Some sc => vListQ (haar_conv sg wt h sc)
      | _, _, _, _ => bad_input
      end
  | _ => bad_input
  end.

Definition e_c11_peaks (v : val) : val :=
  match getQs v with
  | Some l => vListZ (find_local_peaks l)
  | None => bad_input
  end.

(* [base; addon; window] -> UnifyLevels *)
Definition e_c11_unify (v : val) : val :=
  match getTriple getZs getZs getZ v with
  | Some (b, a, w) => vListZ (unify_levels b a w)
  | None => bad_input
  end.

(* [data; peaks; weights|None] -> SegmentByPeaks (the full segs array) *)
Definition e_c11_segment (v : val) : val :=
  match getTriple getQs getZs getOptQs v with
  | Some (d, p, w) => vListQ (segment_by_peaks d p w)
  | None => bad_input
  end.

(* [x; q; pvals; absorb] -> FDRThres *)
Definition e_c11_fdr (v : val) : val :=
  match v with
  | VL [x; q; p; a] =>
      match getQs x, getQ q, getQs p, getB a with
      | Some x, Some q, Some p, Some a => VQ (Qred (fdr_thres x q p a))
      | _, _, _, _ => bad_input
      end
  | _ => bad_input
  end.

Definition fun_of_list {A} (d : A) (l : list A) (base : Z) (i : Z) : A := nth (Z.to_nat (i - base)) l d.

(* [signal; weights|None; q; scales_u; scales_w; pvals; absorb] (per-level oracle lists) -> haar_result *)
Definition c11_run (s w q su sw pv ab : val) : option haar_result :=
  match getQs s, getOptQs w, getQ q, getQs su, getQs sw, getList getQs pv, getList getB ab with
  | Some sg, Some wt, Some q, Some su, Some sw, Some pv, Some ab =>
      let lv0 := hd 0 haar_levels in
      let scale_u h := fun_of_list 1%Q su lv0 (Z.log2 h) in
      let scale_w h := fun_of_list 1%Q sw lv0 (Z.log2 h) in
      Some (haar_seg scale_u scale_w (fun_of_list [] pv lv0) (fun_of_list false ab lv0) sg wt q)
  | _, _, _, _, _, _, _ => None
  end.

Definition vRow (r : Z * Z * Q * Z) : list val :=
  match r with (s, e, m, z) => [VZ s; VZ e; VQ (Qred m); VZ z] end.

(* [starts; ends; smoothed signal; weights|None; q; scales_u; scales_w; pvals; absorb] -> one_chrom rows *)
Definition c11_one_chrom (v : val) : option (list (Z * Z * Q * Z)) :=
  match v with
  | VL [st; ed; s; w; q; su; sw; pv; ab] =>
      match getZs st, getZs ed, c11_run s w q su sw pv ab with
      | Some st, Some ed, Some r => Some (one_chrom_table st ed r)
      | _, _, _ => None
      end
  | _ => None
  end.

Definition e_c11_one_chrom (v : val) : val :=
  match c11_one_chrom v with
  | Some rows => VL (map (fun r => VL (vRow r)) rows)
  | None => bad_input
  end.

(* list of arms, each [chromosome; [starts; ends; signal; weights|None; q; su; sw; pv; ab]] -> segment_haar rows *)
Definition e_c11_segment_haar (v : val) : val :=
  match getList (getPair getS c11_one_chrom) v with
  | Some arms => VL (map (fun cr => VL (VS (fst cr) :: vRow (snd cr))) (segment_haar_table arms))
  | None => bad_input
  end.

(* [signal; pulseSize] -> PulseConv, VNone where the code raises *)
Definition e_c11_pulse (v : val) : val :=
  match getPair getQs getZ v with
  | Some (sg, p) => match pulse_conv sg p with Some r => vListQ r | None => VNone end
  | None => bad_input
  end.

(* [signal; weights|None; q; sqrt2; scales_u (per level); scales_w (per level); pvals (per level); absorb (per level)]
   -> [breaks; start; end; size; mean; sigma; peaks per level; addon per level]
   The per-level oracle lists are indexed by level - haar_start_level. *)
Definition e_c11_haarseg (v : val) : val :=
  match v with
  | VL [s; w; q; s2; su; sw; pv; ab] =>
      match getQs s, getOptQs w, getQ q, getQ s2, getQs su, getQs sw, getList getQs pv, getList getB ab with
      | Some sg, Some wt, Some q, Some s2, Some su, Some sw, Some pv, Some ab =>
          let lv0 := hd 0 haar_levels in
          (* scale oracles are functions of h = 2^level: look the level up again *)
          let lev_of_h (h : Z) := Z.log2 h in
          let scale_u h := fun_of_list 1%Q su lv0 (lev_of_h h) in
          let scale_w h := fun_of_list 1%Q sw lv0 (lev_of_h h) in
          let pvals := fun_of_list [] pv lv0 in
          let absorb := fun_of_list false ab lv0 in
          let r := haar_seg scale_u scale_w pvals absorb sg wt q in
          VL [vListZ (hr_breaks r); vListZ (hr_start r); vListZ (hr_end r); vListZ (hr_size r);
              vListQ (hr_mean r); VQ (peak_sigma_est sg s2);
              VL (map (fun l => vListZ (level_peaks scale_u scale_w sg wt l)) haar_levels);
              VL (map (fun l => vListZ (level_addon scale_u scale_w pvals absorb sg wt q l)) haar_levels)]
      | _, _, _, _, _, _, _, _ => bad_input
      end
  | _ => bad_input
  end.
