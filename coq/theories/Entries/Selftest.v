(* Driver self-test entries: echo and simple arithmetic, used by the harness
   to validate the encoding path on every run. *)
From CNV Require Import Base.Prelude Base.Val.

Definition e_echo (v : val) : val := v.

Definition e_sumz (v : val) : val :=
  match getList getZ v with Some l => VZ (sumZ l) | None => bad_input end.

Definition e_qadd (v : val) : val :=
  match getPair getQ getQ v with Some (a, b) => VQ (Qred (a + b)) | None => bad_input end.

Definition e_strlen (v : val) : val :=
  match getS v with Some s => VZ (Z.of_nat (String.length s)) | None => bad_input end.
