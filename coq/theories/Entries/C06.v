(* Entry points for C06 (interval arithmetic): model functions behind
   val -> val wrappers.  A row crosses the boundary as (start end gene tag). *)
From CNV Require Import Base.Prelude Base.Val Model.IvRow Model.IvCombine Model.Intervals Spec.Cover.
From CNV Require Gen.IvDefaults.

Definition grow : Type := @row gene_tag.

Definition getRow (v : val) : option grow :=
  match v with
  | VL [VZ a; VZ b; VS g; VZ t] => Some (a, b, (g, t))
  | _ => None
  end.
Definition getRows (v : val) : option (list grow) := getList getRow v.

Definition vRow (r : grow) : val := VL [VZ (lo r); VZ (hi r); VS (fst (pay r)); VZ (snd (pay r))].
Definition vRows (l : list grow) : val := VL (map vRow l).

(* Whole-table operations get the table twice: `whole` = all rows in table order
   (decides the global fast path) and `groups` = the rows of each chromosome (the
   harness does the grouping by chromosome name); one result per group. *)
Definition e_c06_merge (v : val) : val :=
  match getTriple getZ getRows (getList getRows) v with
  | Some (bp, whole, groups) =>
      VL (map (fun t => vRows (merge_sel comb_gene_tag bp (all_gaps bp whole) t)) groups)
  | None => bad_input
  end.

Definition e_c06_flatten (v : val) : val :=
  match getPair getRows (getList getRows) v with
  | Some (whole, groups) =>
      VL (map (fun t => vRows (flatten_sel comb_gene_tag (no_overlap whole) t)) groups)
  | None => bad_input
  end.

Definition e_c06_subtract (v : val) : val :=
  match getPair getRows getRows v with
  | Some (a, b) => vRows (subtract a b)
  | None => bad_input
  end.

(* list of per-chromosome pairs (a_c, b_c) for the chromosomes of both tables *)
Definition e_c06_intersect (v : val) : val :=
  match getList (getPair getRows getRows) v with
  | Some chroms => VL (map vRows (intersect_trim_table chroms))
  | None => bad_input
  end.

(* the cut oracle is supplied as a table (span, nbins, [cut 1; ...; cut (nbins-1)]);
   a missing point falls back to the exact floor *)
Definition lookup_cut (cuts : list (Z * Z * list Z)) (span n i : Z) : Z :=
  match find (fun c => (fst (fst c) =? span) && (snd (fst c) =? n)) cuts with
  | Some c => nth (Z.to_nat (i - 1)) (snd c) (i * span / n)
  | None => i * span / n
  end.

Definition e_c06_subdivide (v : val) : val :=
  match v with
  | VL [VZ avg; VZ mn; whole; groups; cuts] =>
      match getRows whole, getList getRows groups, getList (getTriple getZ getZ (getList getZ)) cuts with
      | Some w, Some gs, Some cs =>
          if avg <=? 0 then VErr "avg_size <= 0"
          else VL (map (fun t => vRows (subdivide_sel comb_gene_tag avg mn (lookup_cut cs)
                                          (all_gaps Gen.IvDefaults.merge_bp_default w) t)) gs)
      | _, _, _ => bad_input
      end
  | _ => bad_input
  end.

Definition e_c06_resize (v : val) : val :=
  match getTriple getZ (getOpt getZ) getRows v with
  | Some (bp, size, t) => vRows (resize bp size t)
  | None => bad_input
  end.

Definition e_c06_total (v : val) : val :=
  match getPair getRows (getList getRows) v with
  | Some (whole, groups) =>
      VZ (sumZ (map (total_sel comb_gene_tag (all_gaps Gen.IvDefaults.total_size_bp whole)) groups))
  | None => bad_input
  end.

(* specification side: covers_b of a table at the given points *)
Definition e_c06_covers (v : val) : val :=
  match getPair getRows (getList getZ) v with
  | Some (t, xs) => VL (map (fun x => VB (covers_b t x)) xs)
  | None => bad_input
  end.

(* specification side: number of covered bases of the window [a, a + n) *)
Definition e_c06_count (v : val) : val :=
  match getTriple getRows getZ getZ v with
  | Some (t, a, n) => VZ (count_covered t a (Z.to_nat n))
  | None => bad_input
  end.

(* ==== genome level (Model/Intervals.v, second half; Model/IvCombine.v: comb_cols) =====
   a genome row crosses the boundary as
   (chromosome start end gene accession strand weight probes tag) *)
From CNV Require Import Model.Chromsort.
From CNV Require Gen.IvCombiners.

Definition frow : Type := g_row pcols.

Definition getFrow (v : val) : option frow :=
  match v with
  | VL [VS c; VZ a; VZ b; VS g; VS acc; VS st; w; VZ pr; VZ t] =>
      match getQ w with
      | Some wq => Some (a, b, (c, mkPcols g acc st wq pr t))
      | None => None
      end
  | _ => None
  end.
Definition getFrows (v : val) : option (list frow) := getList getFrow v.

Definition vFrow (r : frow) : val :=
  let p := snd (pay r) in
  VL [VS (g_chrom r); VZ (lo r); VZ (hi r); VS (c_gene p); VS (c_acc p); VS (c_strand p);
      VQ (Qred (c_weight p)); VZ (c_probes p); VZ (c_tag p)].
Definition vFrows (l : list frow) : val := VL (map vFrow l).

Definition fcomb : pcols -> list pcols -> pcols := comb_cols Gen.IvCombiners.ga_merge_stranded_default.

(* [bp, table] *)
Definition e_c06_g_merge (v : val) : val :=
  match getPair getZ getFrows v with
  | Some (bp, t) => vFrows (g_merge fcomb bp t)
  | None => bad_input
  end.

Definition e_c06_g_flatten (v : val) : val :=
  match getFrows v with
  | Some t => vFrows (g_flatten (comb_cols Gen.IvCombiners.flatten_stranded) t)
  | None => bad_input
  end.

Definition e_c06_g_subtract (v : val) : val :=
  match getPair getFrows getFrows v with
  | Some (a, b) => vFrows (g_subtract a b)
  | None => bad_input
  end.

Definition e_c06_g_intersect (v : val) : val :=
  match getPair getFrows getFrows v with
  | Some (a, b) => vFrows (g_intersect a b)
  | None => bad_input
  end.

(* [avg, min, table, cuts] *)
Definition e_c06_g_subdivide (v : val) : val :=
  match v with
  | VL [VZ avg; VZ mn; t; cuts] =>
      match getFrows t, getList (getTriple getZ getZ (getList getZ)) cuts with
      | Some t, Some cs =>
          if avg <=? 0 then VErr "avg_size <= 0"
          else vFrows (g_subdivide fcomb avg mn (lookup_cut cs) t)
      | _, _ => bad_input
      end
  | _ => bad_input
  end.

Fixpoint assoc_size (l : list (string * Z)) (c : string) : option Z :=
  match l with
  | [] => None
  | (k, s) :: t => if String.eqb c k then Some s else assoc_size t c
  end.

(* [bp, sizes? = [[chrom, size] ...], table]; an empty mapping is falsy: no upper limit *)
Definition e_c06_g_resize (v : val) : val :=
  match getTriple getZ (getOpt (getList (getPair getS getZ))) getFrows v with
  | Some (bp, sizes, t) =>
      let sz := match sizes with
                | Some ((_ :: _) as l) => Some (assoc_size l)
                | _ => None
                end in
      vFrows (g_resize bp sz t)
  | None => bad_input
  end.

Definition e_c06_g_total (v : val) : val :=
  match getFrows v with
  | Some t => VZ (g_total fcomb t)
  | None => bad_input
  end.

(* GenomicArray.sort *)
Definition e_c06_g_sort (v : val) : val :=
  match getFrows v with
  | Some t => vFrows (sort_regions_fast (@g_proj pcols) t)
  | None => bad_input
  end.
