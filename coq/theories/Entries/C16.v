(* Entry points for C16 (gene-level grouping): model functions behind val -> val wrappers.
   A bin / segment row is (chromosome start end gene log2 weight depth probes). *)
From CNV Require Import Base.Prelude Base.Val Base.Str Gen.Params Gen.GenesDefaults Model.Genes.

Definition getBin (v : val) : option bin :=
  match v with
  | VL [c; s; e; g; l; w; d; p] =>
      match getS c, getZ s, getZ e, getS g, getQ l, getQ w, getQ d, getZ p with
      | Some c, Some s, Some e, Some g, Some l, Some w, Some d, Some p =>
          Some (mkBin c s e g l w d p)
      | _, _, _, _, _, _, _, _ => None
      end
  | _ => None
  end.

Definition getBins (v : val) : option (list bin) := getList getBin v.

Definition vNat (n : nat) : val := VZ (Z.of_nat n).
Definition vBinKey (b : bin) : val := VL [VS (b_chr b); VZ (b_start b); VZ (b_end b); VS (b_gene b)].
Definition vGroup (g : group) : val := VL [VS (fst g); VL (map vBinKey (snd g))].

Definition getIgnore (v : val) : option (list string) :=
  match v with VNone => Some IGNORE_GENE_NAMES | _ => getList getS v end.

(* rows of one chromosome -> [(gene, first, last)] *)
Definition e_c16_gene_map (v : val) : val :=
  match getBins v with
  | Some rows => VL (map (fun e => VL [VS (ge_name e); vNat (ge_first e); vNat (ge_last e)]) (gene_map rows))
  | None => bad_input
  end.

(* (ignore | None, rows) -> [(label, [bin keys])] *)
Definition e_c16_by_gene (v : val) : val :=
  match v with
  | VL [ig; rows] =>
      match getIgnore ig, getBins rows with
      | Some ig, Some rows => VL (map vGroup (by_gene ig rows))
      | _, _ => bad_input
      end
  | _ => bad_input
  end.

Definition vGrow (r : grow) : val :=
  VL [VS (r_gene r); VS (r_chr r); VZ (r_start r); VZ (r_end r); vOptQ (r_log2 r);
      VQ (Qred (r_depth r)); VQ (Qred (r_weight r)); VZ (r_probes r);
      vOptQ (r_segw r); vOptZ (r_segp r)].

(* (rows, segments | None, threshold | None, min_probes | None, skip_low | None, haploid_x_ref, is_female) *)
Definition e_c16_genemetrics (v : val) : val :=
  match v with
  | VL [rows; segs; th; mp; sl; hx; fem] =>
      match getBins rows, getOpt getBins segs, getOpt getQ th, getOpt getZ mp, getOpt getB sl,
            getB hx, getB fem with
      | Some rows, Some segs, Some th, Some mp, Some sl, Some hx, Some fem =>
          let th := match th with Some t => t | None => GENEMETRICS_THRESHOLD end in
          let mp := match mp with Some m => m | None => GENEMETRICS_MIN_PROBES end in
          let sl := match sl with Some s => s | None => GENEMETRICS_SKIP_LOW end in
          VL (map vGrow (do_genemetrics rows segs th mp sl hx fem))
      | _, _, _, _, _, _, _ => bad_input
      end
  | _ => bad_input
  end.

Definition vSrow (r : srow) : val :=
  VL [VS (s_chr r); VZ (s_start r); VZ (s_end r); VS (s_gene r); VZ (s_probes r)].

(* (ignore | None, squash_antitarget | None, rows) *)
Definition e_c16_squash (v : val) : val :=
  match v with
  | VL [ig; sa; rows] =>
      match getIgnore ig, getOpt getB sa, getBins rows with
      | Some ig, Some sa, Some rows =>
          let sa := match sa with Some b => b | None => SQUASH_ANTITARGET end in
          VL (map vSrow (squash_genes ig sa rows))
      | _, _, _ => bad_input
      end
  | _ => bad_input
  end.

Definition vBrow (r : brow) : val :=
  VL [VS (k_gene r); VS (k_chr r); VZ (k_loc r); VQ (Qred (k_change r)); VZ (k_left r); VZ (k_right r)].

(* (rows, segments, min_probes | None) *)
Definition e_c16_breaks (v : val) : val :=
  match v with
  | VL [rows; segs; mp] =>
      match getBins rows, getBins segs, getOpt getZ mp with
      | Some rows, Some segs, Some mp =>
          let mp := match mp with Some m => m | None => BREAKS_MIN_PROBES end in
          VL (map vBrow (do_breaks rows segs mp))
      | _, _, _ => bad_input
      end
  | _ => bad_input
  end.

(* ==== complete tables (Model/Reports.v) and the closed form of by_gene (Spec/Genes.v) ============ *)
From CNV Require Import Base.QNum Model.Reports Spec.Genes.
From CNV Require Model.Center Model.Sex.

Definition vCell (c : cell) : val :=
  match c with CS s => VS s | CZ z => VZ z | CQ (Some q) => VQ (Qred q) | CQ None => VNone end.
Definition vTable (t : table) : val :=
  VL [VL (map VS (fst t)); VL (map (fun r => VL (map vCell r)) (snd t))].
Definition vOptB (o : option bool) : val := match o with Some b => VB b | None => VNone end.

(* build: None | name; an unsupported name is an assertion failure of the code *)
Definition c16_getBuild (v : val) : option (option (option Center.parb)) :=
  match v with
  | VNone => Some (Some None)
  | VS s => match Center.resolve_build s with Some p => Some (Some (Some p)) | None => Some None end
  | _ => None
  end.

(* the G statistic arrives as a finite table *)
Definition c16_mtable_eqb (a b : Sex.mtable) : bool :=
  let '(a1, a2, a3, a4) := a in let '(b1, b2, b3, b4) := b in
  ((a1 =? b1) && (a2 =? b2) && (a3 =? b3) && (a4 =? b4))%Z.
Fixpoint c16_gstat_of (tbl : list (Sex.mtable * Q)) (k : Sex.mtable) : Q :=
  match tbl with
  | [] => (-1)%Q
  | (k', s) :: t => if c16_mtable_eqb k' k then s else c16_gstat_of t k
  end.
Definition c16_getMtable (v : val) : option Sex.mtable :=
  match v with
  | VL [a; b; c; d] =>
      match getZ a, getZ b, getZ c, getZ d with
      | Some a', Some b', Some c', Some d' => Some (a', b', c', d')
      | _, _, _, _ => None
      end
  | _ => None
  end.
Definition c16_getGstat (v : val) : option (list (Sex.mtable * Q)) := getList (getPair c16_getMtable getQ) v.

Definition getSeg (v : val) : option seg :=
  match v with
  | VL [b; ex] =>
      match getBin b, getList (getPair getS (getOpt getQ)) ex with
      | Some b, Some ex => Some (mkSeg b ex)
      | _, _ => None
      end
  | _ => None
  end.
Definition getSegTable (v : val) : option (list string * list seg) := getPair (getList getS) (getList getSeg) v.

(* (ccols, rows, (scols, segs) | None, threshold | None, min_probes | None, skip_low | None, haploid_x_ref,
    is_female | None, build | None, gstat table)
   -> [columns; rows; sex used for the bins | None]  |  error *)
Definition e_c16_genemetrics_full (v : val) : val :=
  match v with
  | VL [cc; rows; segs; th; mp; sl; hx; fem; bd; gs] =>
      match getList getS cc, getBins rows, getOpt getSegTable segs, getOpt getQ th, getOpt getZ mp with
      | Some cc, Some rows, Some segs, Some th, Some mp =>
          match getOpt getB sl, getB hx, getOpt getB fem, c16_getBuild bd, c16_getGstat gs with
          | Some sl, Some hx, Some fem, Some (Some bd), Some gs =>
              let th := match th with Some t => t | None => GENEMETRICS_THRESHOLD end in
              let mp := match mp with Some m => m | None => GENEMETRICS_MIN_PROBES end in
              let sl := match sl with Some s => s | None => GENEMETRICS_SKIP_LOW end in
              let o := mkOpts th mp sl hx fem bd in
              match do_genemetrics_full (c16_gstat_of gs) cc rows segs o with
              | Some t => VL [VL (map VS (fst t)); VL (map (fun r => VL (map vCell r)) (snd t));
                              vOptB (female_for_bins (c16_gstat_of gs) o rows)]
              | None => VErr "ZeroDivisionError"
              end
          | Some _, Some _, Some _, Some None, Some _ => VErr "Assertion"
          | _, _, _, _, _ => bad_input
          end
      | _, _, _, _, _ => bad_input
      end
  | _ => bad_input
  end.

(* the summary function arrives as a finite table of (values, result) *)
Fixpoint c16_eqQ_list (a b : list Q) : bool :=
  match a, b with
  | [], [] => true
  | x :: a', y :: b' => Qeq_bool x y && c16_eqQ_list a' b'
  | _, _ => false
  end.
Fixpoint c16_est_of (tbl : list (list Q * Q)) (l : list Q) : Q :=
  match tbl with
  | [] => (-12345)%Q
  | (k, v) :: t => if c16_eqQ_list k l then v else c16_est_of t l
  end.

(* (ccols, ignore | None, squash_antitarget | None, rows, est table) -> [columns; rows] | error *)
Definition e_c16_squash_full (v : val) : val :=
  match v with
  | VL [cc; ig; sa; rows; et] =>
      match getList getS cc, getIgnore ig, getOpt getB sa, getBins rows,
            getList (getPair (getList getQ) getQ) et with
      | Some cc, Some ig, Some sa, Some rows, Some et =>
          let sa := match sa with Some b => b | None => SQUASH_ANTITARGET end in
          match squash_genes_full (c16_est_of et) cc ig sa rows with
          | Some t => vTable t
          | None => VErr "RuntimeError"
          end
      | _, _, _, _, _ => bad_input
      end
  | _ => bad_input
  end.

(* (rows, segments, min_probes | None) -> [columns; rows] *)
Definition e_c16_breaks_table (v : val) : val :=
  match v with
  | VL [rows; segs; mp] =>
      match getBins rows, getBins segs, getOpt getZ mp with
      | Some rows, Some segs, Some mp =>
          let mp := match mp with Some m => m | None => BREAKS_MIN_PROBES end in
          vTable (do_breaks_table rows segs mp)
      | _, _, _ => bad_input
      end
  | _ => bad_input
  end.

(* (ignore | None, rows of ONE chromosome) -> the closed form of Spec/Genes.v:
   [[label; a; b] ...] position ranges, [times yielded per position] *)
Definition e_c16_by_gene_ranges (v : val) : val :=
  match v with
  | VL [ig; rows] =>
      match getIgnore ig, getBins rows with
      | Some ig, Some rows =>
          let rs := yielded_ranges (full_ignore ig) rows in
          VL [VL (map (fun r => VL [VS (pr_label r); vNat (pr_a r); vNat (pr_b r)]) rs);
              VL (map (fun i => vNat (times_yielded rs i)) (seq 0 (length rows)))]
      | _, _ => bad_input
      end
  | _ => bad_input
  end.
