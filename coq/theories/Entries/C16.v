(* Entry points for C16 (gene-level grouping): model functions behind val -> val wrappers.
   A bin / segment row is (chromosome start end gene log2 weight depth probes). *)
From CNV Require Import Base.Prelude Base.Val Base.Str Gen.Params Gen.GenesDefaults Model.Genes.

Definition getBin (v : val) : option bin :=
  match v with
  | VL [c; s; e; g; l; w; d; p] =>
      match getS c, getZ s, getZ e, getS g, getQ l, getQ w, getQ d, getZ p with
      | Some c, Some s, Some e, Some g, Some l, Some w, Some d, Some p =>
          Some (mkBin c s e g l w d p)
      | _, _, _, _, _, _, _, _ => None
      end
  | _ => None
  end.

Definition getBins (v : val) : option (list bin) := getList getBin v.

Definition vNat (n : nat) : val := VZ (Z.of_nat n).
Definition vBinKey (b : bin) : val := VL [VS (b_chr b); VZ (b_start b); VZ (b_end b); VS (b_gene b)].
Definition vGroup (g : group) : val := VL [VS (fst g); VL (map vBinKey (snd g))].

Definition getIgnore (v : val) : option (list string) :=
  match v with VNone => Some IGNORE_GENE_NAMES | _ => getList getS v end.

(* rows of one chromosome -> [(gene, first, last)] *)
Definition e_c16_gene_map (v : val) : val :=
  match getBins v with
  | Some rows => VL (map (fun e => VL [VS (ge_name e); vNat (ge_first e); vNat (ge_last e)]) (gene_map rows))
  | None => bad_input
  end.

(* (ignore | None, rows) -> [(label, [bin keys])] *)
Definition e_c16_by_gene (v : val) : val :=
  match v with
  | VL [ig; rows] =>
      match getIgnore ig, getBins rows with
      | Some ig, Some rows => VL (map vGroup (by_gene ig rows))
      | _, _ => bad_input
      end
  | _ => bad_input
  end.

Definition vGrow (r : grow) : val :=
  VL [VS (r_gene r); VS (r_chr r); VZ (r_start r); VZ (r_end r); vOptQ (r_log2 r);
      VQ (Qred (r_depth r)); VQ (Qred (r_weight r)); VZ (r_probes r);
      vOptQ (r_segw r); vOptZ (r_segp r)].

(* (rows, segments | None, threshold | None, min_probes | None, skip_low | None, haploid_x_ref, is_female) *)
Definition e_c16_genemetrics (v : val) : val :=
  match v with
  | VL [rows; segs; th; mp; sl; hx; fem] =>
      match getBins rows, getOpt getBins segs, getOpt getQ th, getOpt getZ mp, getOpt getB sl,
            getB hx, getB fem with
      | Some rows, Some segs, Some th, Some mp, Some sl, Some hx, Some fem =>
          let th := match th with Some t => t | None => GENEMETRICS_THRESHOLD end in
          let mp := match mp with Some m => m | None => GENEMETRICS_MIN_PROBES end in
          let sl := match sl with Some s => s | None => GENEMETRICS_SKIP_LOW end in
          VL (map vGrow (do_genemetrics rows segs th mp sl hx fem))
      | _, _, _, _, _, _, _ => bad_input
      end
  | _ => bad_input
  end.

Definition vSrow (r : srow) : val :=
  VL [VS (s_chr r); VZ (s_start r); VZ (s_end r); VS (s_gene r); VZ (s_probes r)].

(* (ignore | None, squash_antitarget | None, rows) *)
Definition e_c16_squash (v : val) : val :=
  match v with
  | VL [ig; sa; rows] =>
      match getIgnore ig, getOpt getB sa, getBins rows with
      | Some ig, Some sa, Some rows =>
          let sa := match sa with Some b => b | None => SQUASH_ANTITARGET end in
          VL (map vSrow (squash_genes ig sa rows))
      | _, _, _ => bad_input
      end
  | _ => bad_input
  end.

Definition vBrow (r : brow) : val :=
  VL [VS (k_gene r); VS (k_chr r); VZ (k_loc r); VQ (Qred (k_change r)); VZ (k_left r); VZ (k_right r)].

(* (rows, segments, min_probes | None) *)
Definition e_c16_breaks (v : val) : val :=
  match v with
  | VL [rows; segs; mp] =>
      match getBins rows, getBins segs, getOpt getZ mp with
      | Some rows, Some segs, Some mp =>
          let mp := match mp with Some m => m | None => BREAKS_MIN_PROBES end in
          VL (map vBrow (do_breaks rows segs mp))
      | _, _, _ => bad_input
      end
  | _ => bad_input
  end.
