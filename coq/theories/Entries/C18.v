(* Entry points for C18 (VCF reader, het selection, BAF): val -> val wrappers. *)
From CNV Require Import Base.Prelude Base.Val Base.Str Model.Vcf Model.VBaf.

(* ---- decoders ----------------------------------------------------------- *)

Definition getSel (v : val) : option sel :=
  match v with
  | VNone => Some SelNone
  | VZ i => Some (SelIdx i)
  | VS s => Some (SelName s)
  | _ => None
  end.

Definition getOZ := getOpt getZ.
Definition getOQ := getOpt getQ.
Definition getOB := getOpt getB.

Definition getCall (v : val) : option scall :=
  match v with
  | VL [gt; ad; dp] =>
      match getList getOZ gt, getList getOZ ad, getOZ dp with
      | Some g, Some a, Some d => Some {| s_gt := g; s_ad := a; s_dp := d |}
      | _, _, _ => None
      end
  | _ => None
  end.

Definition getRec (v : val) : option vrec :=
  match v with
  | VL [chrom; ckey; pos; rf; alts; filt; som; idp; iend; hasad; hasdp; calls] =>
      match getS chrom, getZ ckey, getZ pos, getS rf with
      | Some chrom, Some ckey, Some pos, Some rf =>
      match getList getS alts, getList getS filt, getB som, getOZ idp with
      | Some alts, Some filt, Some som, Some idp =>
      match getOZ iend, getB hasad, getB hasdp, getList getCall calls with
      | Some iend, Some hasad, Some hasdp, Some calls =>
          Some {| r_chrom := chrom; r_ckey := ckey; r_pos := pos; r_ref := rf; r_alts := alts;
                  r_filter := filt; r_somatic := som; r_info_dp := idp; r_info_end := iend;
                  r_has_ad := hasad; r_has_dp := hasdp; r_calls := calls |}
      | _, _, _, _ => None end
      | _, _, _, _ => None end
      | _, _, _, _ => None end
  | _ => None
  end.

Definition getHeader (v : val) : option header :=
  match v with
  | VL [samples; peds] =>
      match getList getS samples, getList (getPair getS getS) peds with
      | Some s, Some p => Some {| h_samples := s; h_peds := p |}
      | _, _ => None
      end
  | _ => None
  end.

Definition getRange (v : val) : option grange :=
  match getTriple getS getZ getZ v with Some (c, s, e) => Some (c, s, e) | None => None end.

(* ---- encoders ----------------------------------------------------------- *)

Definition vXq (x : xq) : val :=
  match x with Fin q => VQ (Qred q) | PInf => VS "inf" | XNaN => VNone end.

Definition vG (g : gcols) : val :=
  VL [VQ (Qred (g_zyg g)); VZ (g_depth g); VZ (g_count g); vXq (g_freq g)].

Definition vRow (r : vrow) : val :=
  VL [VS (v_chrom r); VZ (v_start r); VZ (v_end r); VS (v_ref r); VS (v_alt r); VB (v_somatic r);
      vG (v_t r); match v_n r with Some n => vG n | None => VNone end].

Definition vLRow (lr : lrow) : val := VL [VZ (fst lr); vRow (snd lr)].

Definition vOS (o : option string) : val := match o with Some s => VS s | None => VNone end.

Definition vRes {A} (f : A -> val) (r : res A) : val :=
  match r with Ok a => f a | Fail e => VErr e end.

(* ---- entries ------------------------------------------------------------ *)

(* [header; sample selector; normal selector] -> [sid; nid] *)
Definition e_c18_choose (v : val) : val :=
  match v with
  | VL [h; s; n] =>
      match getHeader h, getSel s, getSel n with
      | Some h, Some s, Some n =>
          vRes (fun p : pair_t => VL [vOS (fst p); vOS (snd p)]) (choose_samples h s n)
      | _, _, _ => bad_input
      end
  | _ => bad_input
  end.

(* [header; records; ssel; nsel; min_depth; skip_reject; skip_somatic] -> [paired; rows] *)
Definition e_c18_read (v : val) : val :=
  match v with
  | VL [h; recs; s; n; md; sr; ss] =>
      match getHeader h, getList getRec recs, getSel s, getSel n with
      | Some h, Some recs, Some s, Some n =>
      match getOZ md, getB sr, getB ss with
      | Some md, Some sr, Some ss =>
          vRes (fun t => VL [VB (t_paired t); VL (map vRow (t_rows t))])
               (read_vcf h recs s n md sr ss)
      | _, _, _ => bad_input end
      | _, _, _, _ => bad_input end
  | _ => bad_input
  end.

(* [header; records; ssel; nsel; min_depth; zygosity_freq; tumor_boost] -> [paired; labelled rows] *)
Definition e_c18_load_het (v : val) : val :=
  match v with
  | VL [h; recs; s; n; md; zf; tb] =>
      match getHeader h, getList getRec recs, getSel s, getSel n with
      | Some h, Some recs, Some s, Some n =>
      match getOZ md, getOQ zf, getB tb with
      | Some md, Some zf, Some tb =>
          vRes (fun t => VL [VB (ht_paired t); VL (map vLRow (ht_rows t))])
               (load_het_snps h recs s n md zf tb)
      | _, _, _ => bad_input end
      | _, _, _, _ => bad_input end
  | _ => bad_input
  end.

(* the variant table a BAF query runs on:
   stage 0: tabio.read(..., min_depth, skip_somatic)      [zf ignored]
   stage 1: load_het_snps(..., min_depth, zf, tumor_boost=False) *)
Definition source_table (h : header) (recs : list vrec) (s n : sel) (stage : Z) (md : option Z)
    (ss : bool) (zf : option Q) : res htable :=
  if stage =? 0 then
    match read_vcf h recs s n md false ss with
    | Ok t => Ok {| ht_paired := t_paired t; ht_rows := label_from 0 (t_rows t) |}
    | Fail e => Fail e
    end
  else load_het_snps h recs s n md zf false.

Definition vXqs (o : option (list xq)) : val :=
  match o with Some l => VL (map vXq l) | None => VS "dest" end.

(* [header; records; ssel; nsel; stage; min_depth; skip_somatic; zf;
    queries = list of [ranges; above_half; tumor_boost]]  -> list of BAF vectors *)
Definition e_c18_baf (v : val) : val :=
  match v with
  | VL [h; recs; s; n; stage; md; ss; zf; queries] =>
      match getHeader h, getList getRec recs, getSel s, getSel n with
      | Some h, Some recs, Some s, Some n =>
      match getZ stage, getOZ md, getB ss, getOQ zf with
      | Some stage, Some md, Some ss, Some zf =>
      match getList (getTriple (getList getRange) getOB getB) queries with
      | Some qs =>
          vRes (fun t =>
                  VL (map (fun q => let '(rg, ah, tb) := q in
                                    vXqs (baf_by_ranges_t t rg ah tb)) qs))
               (source_table h recs s n stage md ss zf)
      | None => bad_input end
      | _, _, _, _ => bad_input end
      | _, _, _, _ => bad_input end
  | _ => bad_input
  end.

(* same source; queries = list of [above_half; tumor_boost] -> mirrored_baf vectors,
   followed by one tumor_boost() vector (VNone when unpaired) *)
Definition e_c18_mirrored (v : val) : val :=
  match v with
  | VL [h; recs; s; n; stage; md; ss; zf; queries] =>
      match getHeader h, getList getRec recs, getSel s, getSel n with
      | Some h, Some recs, Some s, Some n =>
      match getZ stage, getOZ md, getB ss, getOQ zf with
      | Some stage, Some md, Some ss, Some zf =>
      match getList (getPair getOB getB) queries with
      | Some qs =>
          vRes (fun t =>
                  VL [VL (map (fun q => VL (map vXq (mirrored_baf_t t (fst q) (snd q)))) qs);
                      if ht_paired t then VL (map (fun lr => vXq (boost_row (snd lr))) (ht_rows t)) else VNone])
               (source_table h recs s n stage md ss zf)
      | None => bad_input end
      | _, _, _, _ => bad_input end
      | _, _, _, _ => bad_input end
  | _ => bad_input
  end.

(* same source; queries = list of range tables -> het_frac_by_ranges vectors *)
Definition e_c18_het_frac (v : val) : val :=
  match v with
  | VL [h; recs; s; n; stage; md; ss; zf; queries] =>
      match getHeader h, getList getRec recs, getSel s, getSel n with
      | Some h, Some recs, Some s, Some n =>
      match getZ stage, getOZ md, getB ss, getOQ zf with
      | Some stage, Some md, Some ss, Some zf =>
      match getList (getList getRange) queries with
      | Some qs =>
          vRes (fun t => VL (map (fun rg => vXqs (het_frac_by_ranges (ht_rows t) rg)) qs))
               (source_table h recs s n stage md ss zf)
      | None => bad_input end
      | _, _, _, _ => bad_input end
      | _, _, _, _ => bad_input end
  | _ => bad_input
  end.

(* [header; records; ssel; nsel; min_depth; zf; calls = list of [ranges; purity]]
   -> baf column of do_call(segments, load_het_snps(...), purity=...) *)
Definition e_c18_call_baf (v : val) : val :=
  match v with
  | VL [h; recs; s; n; md; zf; calls] =>
      match getHeader h, getList getRec recs, getSel s, getSel n with
      | Some h, Some recs, Some s, Some n =>
      match getOZ md, getOQ zf, getList (getPair (getList getRange) getOQ) calls with
      | Some md, Some zf, Some cs =>
          vRes (fun t =>
                  VL (map (fun c => vXqs (call_baf (ht_paired t) (ht_rows t) (fst c) (snd c))) cs))
               (load_het_snps h recs s n md zf false)
      | _, _, _ => bad_input end
      | _, _, _, _ => bad_input end
  | _ => bad_input
  end.

(* list of [t; n] -> boosted values *)
Definition e_c18_boost (v : val) : val :=
  match getList (getPair getQ getQ) v with
  | Some l => VL (map (fun p => vXq (boost_q (fst p) (snd p))) l)
  | None => bad_input
  end.

(* list of [purity; observed] -> rescaled *)
Definition e_c18_rescale (v : val) : val :=
  match getList (getPair getQ getQ) v with
  | Some l => VL (map (fun p => VQ (Qred (rescale_baf (fst p) (snd p)))) l)
  | None => bad_input
  end.

(* ---- extension: IEEE cells, any summary function ------------------------------------------------- *)

Definition getXr (v : val) : option xr :=
  match v with
  | VNone => Some RNaN
  | VS s => if String.eqb s "inf" then Some RPInf else if String.eqb s "-inf" then Some RNInf else None
  | _ => match getQ v with Some q => Some (RFin q) | None => None end
  end.

Definition vXr (x : xr) : val :=
  match x with RFin q => VQ (Qred q) | RPInf => VS "inf" | RNInf => VS "-inf" | RNaN => VNone end.

(* list of [t; n] (number | "inf" | "-inf" | None) -> _tumor_boost per element as numpy evaluates it *)
Definition e_c18_boost_ieee (v : val) : val :=
  match getList (getPair getXr getXr) v with
  | Some l => VL (map (fun p => vXr (boost_ieee (fst p) (snd p))) l)
  | None => bad_input
  end.

(* list of [above; value] -> _mirrored_baf per element with a given direction *)
Definition e_c18_mirror_ieee (v : val) : val :=
  match getList (getPair getB getXr) v with
  | Some l => VL (map (fun p => vXr (mirror_ieee (fst p) (snd p))) l)
  | None => bad_input
  end.

(* [above_half; values] -> _mirrored_baf of a whole vector (direction from its median when not given) *)
Definition e_c18_mirror_vec (v : val) : val :=
  match getPair getOB (getList getXr) v with
  | Some (ah, vals) =>
      let above := match ah with
                   | Some b => b
                   | None => xr_ltb (RFin VcfDefaults.mirror_center) (median_r vals)
                   end in
      VL (map (fun x => vXr (mirror_ieee above x)) vals)
  | None => bad_input
  end.

(* as e_c18_mirrored, over IEEE cells (tables with infinite frequencies, normal frequency 1):
   queries = list of [above_half; tumor_boost] -> mirrored_baf vectors, then the tumor_boost() vector *)
Definition e_c18_mirrored_r (v : val) : val :=
  match v with
  | VL [h; recs; s; n; stage; md; ss; zf; queries] =>
      match getHeader h, getList getRec recs, getSel s, getSel n with
      | Some h, Some recs, Some s, Some n =>
      match getZ stage, getOZ md, getB ss, getOQ zf with
      | Some stage, Some md, Some ss, Some zf =>
      match getList (getPair getOB getB) queries with
      | Some qs =>
          vRes (fun t =>
                  VL [VL (map (fun q => VL (map vXr (mirrored_baf_r (ht_paired t) (ht_rows t) (fst q) (snd q)))) qs);
                      if ht_paired t then VL (map (fun lr => vXr (boost_row_r (snd lr))) (ht_rows t)) else VNone])
               (source_table h recs s n stage md ss zf)
      | None => bad_input end
      | _, _, _, _ => bad_input end
      | _, _, _, _ => bad_input end
  | _ => bad_input
  end.

Definition summary_by_name (s : string) : option (list xq -> xq) :=
  if String.eqb s "median" then Some nanmedian_x
  else if String.eqb s "mean" then Some nanmean_x
  else if String.eqb s "min" then Some nanmin_x
  else if String.eqb s "max" then Some nanmax_x
  else None.

(* as e_c18_baf with a summary function per query:
   queries = list of [[ranges; above_half; tumor_boost]; name] *)
Definition e_c18_baf_gen (v : val) : val :=
  match v with
  | VL [h; recs; s; n; stage; md; ss; zf; queries] =>
      match getHeader h, getList getRec recs, getSel s, getSel n with
      | Some h, Some recs, Some s, Some n =>
      match getZ stage, getOZ md, getB ss, getOQ zf with
      | Some stage, Some md, Some ss, Some zf =>
      match getList (getPair (getTriple (getList getRange) getOB getB) getS) queries with
      | Some qs =>
          vRes (fun t =>
                  VL (map (fun q => let '((rg, ah, tb), name) := q in
                                    match summary_by_name name with
                                    | Some f => vXqs (baf_by_ranges_gen f (ht_paired t) (ht_rows t) rg ah tb)
                                    | None => bad_input
                                    end) qs))
               (source_table h recs s n stage md ss zf)
      | None => bad_input end
      | _, _, _, _ => bad_input end
      | _, _, _, _ => bad_input end
  | _ => bad_input
  end.

(* [name; above_half; values] -> the value of one range for summary function `name` *)
Definition e_c18_summary_gen (v : val) : val :=
  match getTriple getS getOB (getList getOQ) v with
  | Some (name, ah, vals) =>
      let hits := map (fun o => match o with Some q => Fin q | None => XNaN end) vals in
      match summary_by_name name with
      | Some f =>
          vXq (match ah with
               | Some b => s2v_gen f (map (mirror_x b) hits)
               | None => s2v_gen (summarize_gen f) hits
               end)
      | None => bad_input
      end
  | None => bad_input
  end.

(* [above_half; values] -> series2value: the per-range summary on its own *)
Definition e_c18_summary (v : val) : val :=
  match getPair getOB (getList getOQ) v with
  | Some (ah, vals) =>
      vXq (series2value ah (map (fun o => match o with Some q => Fin q | None => XNaN end) vals))
  | None => bad_input
  end.
