(* Entry points for C01 (clonal calls): model functions behind val -> val wrappers. *)
From CNV Require Import Base.Prelude Base.Val Base.Str Model.Call Spec.Call.

Definition getRow (v : val) : option in_row :=
  match v with
  | VL [c; lo; hi; e] =>
      match getS c, getZ lo, getZ hi, getQ e with
      | Some c, Some lo, Some hi, Some e => Some (c, lo, hi, e)
      | _, _, _, _ => None
      end
  | _ => None
  end.

Definition vOutRow (r : out_row) : val :=
  let '(cn, a, nr) := r in VL [VZ cn; VQ (Qred a); vOptQ nr].

(* [ploidy; purity|None; haploid_x_reference; sample_female; build|None; rows] ->
   per row [cn; absolute; rewritten ratio|None], or VErr on an unsupported build *)
Definition e_c01_call (v : val) : val :=
  match v with
  | VL [k; p; hx; fem; b; rows] =>
      match getZ k, getOpt getQ p, getB hx, getB fem, getOpt getS b, getList getRow rows with
      | Some k, Some p, Some hx, Some fem, Some b, Some rows =>
          match call_clonal k p hx fem b rows with
          | Some out => VL (map vOutRow out)
          | None => VErr "AssertionError"
          end
      | _, _, _, _, _, _ => bad_input
      end
  | _ => bad_input
  end.

(* [ploidy; purity|None; hapx; female; build|None; first; row] -> [reference; expect] of the active path *)
Definition e_c01_copies (v : val) : val :=
  match v with
  | VL [k; p; hx; fem; b; first; row] =>
      match getZ k, getOpt getQ p, getB hx, getB fem, getOpt getS b, getS first, getRow row with
      | Some k, Some p, Some hx, Some fem, Some b, Some first, Some row =>
          vPairZ (row_copies k p hx fem b first row)
      | _, _, _, _, _, _, _ => bad_input
      end
  | _ => bad_input
  end.

Definition style_of (b : bool) : style := if b then ChrStyle else PlainStyle.
Definition klass_code (c : klass) : Z :=
  match c with KAuto => 0 | KX => 1 | KY => 2 | KParX => 3 | KParY => 4 end.

(* the specification's table: [chr_style; build|None; chrom; lo; hi; ploidy; male_ref; female_sample]
   -> [class code; r; x] *)
Definition e_c01_spec_table (v : val) : val :=
  match v with
  | VL [s; b; c; lo; hi; k; mr; fs] =>
      match getB s, getOpt getS b, getS c, getZ lo, getZ hi, getZ k, getB mr, getB fs with
      | Some s, Some b, Some c, Some lo, Some hi, Some k, Some mr, Some fs =>
          let kl := spec_class (style_of s) b c lo hi in
          let '(r, x) := spec_copies k mr fs kl in
          VL [VZ (klass_code kl); VZ r; VZ x]
      | _, _, _, _, _, _, _, _ => bad_input
      end
  | _ => bad_input
  end.

(* numpy round on an exact rational *)
Definition e_c01_round (v : val) : val :=
  match getQ v with Some q => VZ (round_he q) | None => bad_input end.
