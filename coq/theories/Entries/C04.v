(* Entry points for C04 (fix): model functions behind val -> val wrappers. *)
From CNV Require Import Base.Prelude Base.Val Base.Str Base.QNum Model.Chromsort Model.Smoothing Model.Descriptives Model.Fix Gen.DescDefaults.
From Coq Require Import Qabs.
Local Open Scope Q_scope.

Definition getNat (v : val) : option nat :=
  match v with VZ z => if (z <? 0)%Z then None else Some (Z.to_nat z) | _ => None end.

Definition getSrow (v : val) : option srow :=
  match v with
  | VL [VS c; VZ lo; VZ hi; VS g; l2; d] =>
      match getQ l2, getQ d with
      | Some l2, Some d => Some (mkS c lo hi g (Qred l2) (Qred d))
      | _, _ => None
      end
  | _ => None
  end.

Definition getRrow (v : val) : option rrow :=
  match v with
  | VL [VS c; VZ lo; VZ hi; l2; d; gc; rm; sp] =>
      match getQ l2, getQ d, getQ gc, getQ rm, getQ sp with
      | Some l2, Some d, Some gc, Some rm, Some sp =>
          Some (mkR c lo hi (Qred l2) (Qred d) (Qred gc) (Qred rm) (Qred sp))
      | _, _, _, _, _ => None
      end
  | _ => None
  end.

Definition getCfg (v : val) : option cfg :=
  match v with
  | VL [VB a; VB b; VB c; VB d; VB e; VB f; VB g] => Some (mkCfg a b c d e f g)
  | _ => None
  end.

(* [perm_t; ceil_t; perm_a; ceil_a]: the permutations numpy draws after seed(0xA5EED) for the two
   masked table lengths and the float-sensitive int(ceil(n * width * 0.5)) of _width2wing *)
Definition getRawOracles (v : val) : option (list nat * Z * list nat * Z) :=
  match v with
  | VL [pt; ct; pa; ca] =>
      match getList getNat pt, getZ ct, getList getNat pa, getZ ca with
      | Some pt, Some ct, Some pa, Some ca => Some (pt, ct, pa, ca)
      | _, _, _, _ => None
      end
  | _ => None
  end.

Definition err_val (e : fix_error) : val :=
  match e with
  | DupSample => VErr "duplicate-sample"
  | DupReference => VErr "duplicate-reference"
  | MissingBins => VErr "missing"
  end.


(* distance of every log2 that takes part in a low-coverage decision to the cut-off *)
Definition low_margin (l : list brow) : Q :=
  qmin (1000 :: map (fun b => Qabs (blog2 b - low_cut)) l).

(* the wing for a table of n rows: unused (0) below the rolling-median length guard, otherwise
   _width2wing with the supplied ceil; None = the supplied value breaks its contract / bad width *)
Definition wing_for (n : nat) (width : Q) (ceil_oracle : Z) : option nat :=
  if (Z.of_nat n <? 2)%Z then Some O
  else match width2wing (Z.of_nat n) width ceil_oracle with
       | WingOk w => Some (Z.to_nat w)
       | _ => None
       end.

Definition sqrt_table (tab : list (Z * Q)) (z : Z) : Q :=
  match find (fun p => Z.eqb z (fst p)) tab with Some p => snd p | None => 0 end.

Definition out_row (p : brow * Q) : val :=
  let s := fst (fst p) in
  VL [VS (s_chrom s); VZ (s_lo s); VZ (s_hi s); VS (s_gene s); VQ (Qred (s_log2 s)); VQ (Qred (snd p))].

Definition margins (c : cfg) (t a : list srow) (r : list rrow) (l : list brow) : Q :=
  let m1 := match match_ref r (presort t) with
            | inr m => qmin2 (low_margin (mask_bad c m)) (low_margin (center_all c true (mask_bad c m)))
            | inl _ => 1000 end in
  let m2 := match a with
            | [] => 1000
            | _ => match match_ref r (presort a) with
                   | inr m => low_margin (center_all c false (mask_bad c m))
                   | inl _ => 1000 end
            end in
  let m3 := qmin2 (low_margin l) (low_margin (center_all c true l)) in
  Qred (qmin2 m1 (qmin2 m2 m3)).

(* decoding + oracle contracts shared by the two phases: the tables, the configuration and the
   model's oracle record (wings derived from the supplied ceil values through _width2wing) *)
Inductive prepared :=
| PrepOk (c : cfg) (o : oracles) (t a : list srow) (r : list rrow) (nt na : nat)
| PrepErr (v : val).

Definition prepare (vc vw vo vt va vr : val) : prepared :=
  match getCfg vc, getQ vw, getRawOracles vo, getList getSrow vt, getList getSrow va, getList getRrow vr with
  | Some c, Some width, Some (pt, ct, pa, ca), Some t, Some a, Some r =>
      match masked_len c r t, masked_len c r a with
      | Some nt, Some na =>
          match wing_for nt width ct, wing_for na width ca with
          | Some wt, Some wa =>
              if valid_order pt nt && valid_order pa na
              then PrepOk c (mkOr pt wt pa wa) t a r nt na
              else PrepErr (VErr "oracle-permutation")
          | _, _ => PrepErr (VErr "oracle-wing")
          end
      | _, _ =>
          match fix_pre c (mkOr [] O [] O) t a r with
          | inl e => PrepErr (err_val e)
          | inr _ => PrepErr (VErr "internal")
          end
      end
  | _, _, _, _, _, _ => PrepErr bad_input
  end.

(* phase A: [cfg; width; [perm_t; ceil_t; perm_a; ceil_a]; target; antitarget; reference] ->
   [target residuals; antitarget residuals; low-coverage margin; n_t; n_a; wing_t; wing_a]
   (the residuals are what the code hands to descriptives.biweight_midvariance; exact rational
   biweight iterations are not computable in reasonable time, the harness returns the two variances
   computed by the code's own function) *)
Definition e_c04_pre (v : val) : val :=
  match v with
  | VL [vc; vw; vo; vt; va; vr] =>
      match prepare vc vw vo vt va vr with
      | PrepErr e => e
      | PrepOk c o t a r nt na =>
          match fix_pre c o t a r with
          | inl e => err_val e
          | inr l =>
              VL [vListQ (class_residuals c false l); vListQ (class_residuals c true l);
                  VQ (margins c t a r l);
                  VZ (Z.of_nat nt); VZ (Z.of_nat na); VZ (Z.of_nat (wing_t o)); VZ (Z.of_nat (wing_a o))]
          end
      end
  | _ => bad_input
  end.

(* phase B: [cfg; width; oracles; target; antitarget; reference; sqrt table; var_t; var_a] ->
   rows (chrom, lo, hi, gene, log2, weight) *)
Definition e_c04_fix (v : val) : val :=
  match v with
  | VL [vc; vw; vo; vt; va; vr; vtab; vvt; vva] =>
      match prepare vc vw vo vt va vr, getList (getPair getZ getQ) vtab, getQ vvt, getQ vva with
      | PrepErr e, _, _, _ => e
      | PrepOk c o t a r _ _, Some tab, Some var_t, Some var_a =>
          if qlt_b var_t 0 || qlt_b var_a 0 then VErr "oracle-variance"
          else
            match fix_pre c o t a r with
            | inl e => err_val e
            | inr l => VL (map out_row (fix_post c (sqrt_table tab) var_t var_a l))
            end
      | _, _, _, _ => bad_input
      end
  | _ => bad_input
  end.

(* residuals -> biweight_midvariance ** 2 by the exact model (small inputs only) *)
Definition e_c04_var (v : val) : val :=
  match getList getQ v with
  | Some a => VQ (Qred (var_of (map Qred a)))
  | None => bad_input
  end.

(* unit correspondences ---------------------------------------------------------- *)

(* rows (chrom, lo, hi) in table order -> get_edge_bias *)
Definition e_c04_edge (v : val) : val :=
  match getList (getTriple getS getZ getZ) v with
  | Some ks =>
      vListQ (edge_bias (map (fun k => (mkS (fst (fst k)) (snd (fst k)) (snd k) "" 0 0,
                                        mkR "" 0 0 0 0 0 0 0)) ks))
  | None => bad_input
  end.

(* [wing; values] -> smoothing.rolling_median with that wing *)
Definition e_c04_rolling (v : val) : val :=
  match getPair getNat (getList getQ) v with
  | Some (w, xs) => vListQ (rolling w (map Qred xs))
  | None => bad_input
  end.

(* chromosome name -> matches the autosome pattern *)
Definition e_c04_is_auto (v : val) : val :=
  match getS v with Some s => VB (is_auto_name s) | None => bad_input end.

(* [chromosome names; log2 values] -> median of per-chromosome medians *)
Definition e_c04_cmed (v : val) : val :=
  match getPair (getList getS) (getList getQ) v with
  | Some (cs, xs) => VQ (Qred (cmed (combine cs (map Qred xs))))
  | None => bad_input
  end.

(* [cfg; reference row] -> the bin fails mask_bad_bins *)
Definition e_c04_bad_bin (v : val) : val :=
  match getPair getCfg getRrow v with
  | Some (c, r) => VB (bad_bin c r)
  | None => bad_input
  end.
