(* Entry points for C02 (threshold calls, allelic split). *)
From CNV Require Import Base.Prelude Base.Val Base.Str Model.Call Model.Threshold Model.Baf Spec.CallThreshold.

(* a row: [chrom; log2|None; 2^log2; baf|None] *)
Definition getThrRow (v : val) : option (thr_row * option Q) :=
  match v with
  | VL [c; l; e; b] =>
      match getS c, getOpt getQ l, getQ e, getOpt getQ b with
      | Some c, Some l, Some e, Some b => Some ((c, l, e), b)
      | _, _, _, _ => None
      end
  | _ => None
  end.

Definition thresholds_of (o : option (list Q)) : list Q :=
  match o with Some ts => ts | None => default_thresholds end.

(* [ploidy; haploid_x_reference; thresholds|None (default); with_baf; rows] ->
   per row [cn; cn1|None; cn2|None; absolutes*upper_baf] (cn1/cn2/raw only when with_baf) *)
Definition e_c02_call (v : val) : val :=
  match v with
  | VL [k; hx; ts; wb; rows] =>
      match getZ k, getB hx, getOpt (getList getQ) ts, getB wb, getList getThrRow rows with
      | Some k, Some hx, Some ts, Some wb, Some rows =>
          let ts := thresholds_of ts in
          VL (map (fun rb : thr_row * option Q =>
                     let '(row, b) := rb in
                     let cn := thr_row_cn k hx ts row in
                     if wb then
                       let '(c1, c2) := alleles (inject_Z cn) b cn in
                       VL [VZ cn; vOptZ c1; vOptZ c2; VQ (major_raw (inject_Z cn) b)]
                     else VL [VZ cn]) rows)
      | _, _, _, _, _ => bad_input
      end
  | _ => bad_input
  end.

(* the specification's step function: [log2; 2^log2; thresholds|None (literal defaults); ploidy; r] -> cn *)
Definition e_c02_spec_thr (v : val) : val :=
  match v with
  | VL [l; e; ts; k; r] =>
      match getQ l, getQ e, getOpt (getList getQ) ts, getZ k, getZ r with
      | Some l, Some e, Some ts, Some k, Some r =>
          VZ (spec_thr l e (match ts with Some ts => ts | None => lit_thresholds end) k r)
      | _, _, _, _, _ => bad_input
      end
  | _ => bad_input
  end.

(* [absolute; baf|None; cn] -> [cn1|None; cn2|None; raw] *)
Definition e_c02_alleles (v : val) : val :=
  match v with
  | VL [a; b; cn] =>
      match getQ a, getOpt getQ b, getZ cn with
      | Some a, Some b, Some cn =>
          let '(c1, c2) := alleles a b cn in VL [vOptZ c1; vOptZ c2; VQ (major_raw a b)]
      | _, _, _ => bad_input
      end
  | _ => bad_input
  end.

(* [purity; baf|None] -> rescaled baf|None *)
Definition e_c02_rescale_baf (v : val) : val :=
  match v with
  | VL [p; b] =>
      match getQ p, getOpt getQ b with
      | Some p, Some b => vOptQ (rescale_baf p b)
      | _, _ => bad_input
      end
  | _ => bad_input
  end.

(* the default thresholds the model uses (generated from do_call's signature) *)
Definition e_c02_defaults (v : val) : val := vListQ default_thresholds.
