(* Entry points for C02 (threshold calls, allelic split). *)
From CNV Require Import Base.Prelude Base.Val Base.Str Model.Call Model.Threshold Model.Baf Spec.CallThreshold.

(* a row: [chrom; log2|None; 2^log2; baf|None] *)
Definition getThrRow (v : val) : option (thr_row * option Q) :=
  match v with
  | VL [c; l; e; b] =>
      match getS c, getOpt getQ l, getQ e, getOpt getQ b with
      | Some c, Some l, Some e, Some b => Some ((c, l, e), b)
      | _, _, _, _ => None
      end
  | _ => None
  end.

Definition thresholds_of (o : option (list Q)) : list Q :=
  match o with Some ts => ts | None => default_thresholds end.

(* [ploidy; haploid_x_reference; thresholds|None (default); with_baf; rows] ->
   per row [cn; cn1|None; cn2|None; absolutes*upper_baf] (cn1/cn2/raw only when with_baf) *)
Definition e_c02_call (v : val) : val :=
  match v with
  | VL [k; hx; ts; wb; rows] =>
      match getZ k, getB hx, getOpt (getList getQ) ts, getB wb, getList getThrRow rows with
      | Some k, Some hx, Some ts, Some wb, Some rows =>
          let ts := thresholds_of ts in
          VL (map (fun rb : thr_row * option Q =>
                     let '(row, b) := rb in
                     let cn := thr_row_cn k hx ts row in
                     if wb then
                       let '(c1, c2) := alleles (inject_Z cn) b cn in
                       VL [VZ cn; vOptZ c1; vOptZ c2; VQ (major_raw (inject_Z cn) b)]
                     else VL [VZ cn]) rows)
      | _, _, _, _, _ => bad_input
      end
  | _ => bad_input
  end.

(* the specification's step function: [log2; 2^log2; thresholds|None (literal defaults); ploidy; r] -> cn *)
Definition e_c02_spec_thr (v : val) : val :=
  match v with
  | VL [l; e; ts; k; r] =>
      match getQ l, getQ e, getOpt (getList getQ) ts, getZ k, getZ r with
      | Some l, Some e, Some ts, Some k, Some r =>
          VZ (spec_thr l e (match ts with Some ts => ts | None => lit_thresholds end) k r)
      | _, _, _, _, _ => bad_input
      end
  | _ => bad_input
  end.

(* [absolute; baf|None; cn] -> [cn1|None; cn2|None; raw] *)
Definition e_c02_alleles (v : val) : val :=
  match v with
  | VL [a; b; cn] =>
      match getQ a, getOpt getQ b, getZ cn with
      | Some a, Some b, Some cn =>
          let '(c1, c2) := alleles a b cn in VL [vOptZ c1; vOptZ c2; VQ (major_raw a b)]
      | _, _, _ => bad_input
      end
  | _ => bad_input
  end.

(* [purity; baf|None] -> rescaled baf|None *)
Definition e_c02_rescale_baf (v : val) : val :=
  match v with
  | VL [p; b] =>
      match getQ p, getOpt getQ b with
      | Some p, Some b => vOptQ (rescale_baf p b)
      | _, _ => bad_input
      end
  | _ => bad_input
  end.

(* the default thresholds the model uses (generated from do_call's signature) *)
Definition e_c02_defaults (v : val) : val := vListQ default_thresholds.

(* ---- do_call as one function (Model/Baf.v: do_call_model) --------------------------- *)

(* a row: [chrom; start; end; log2|None; 2^log2; baf|None; v2; e2] *)
Definition getDcRow (v : val) : option dc_in :=
  match v with
  | VL [c; lo; hi; l; e; b; v2; e2] =>
      match getS c, getZ lo, getZ hi, getOpt getQ l with
      | Some c, Some lo, Some hi, Some l =>
          match getQ e, getOpt getQ b, getQ v2, getQ e2 with
          | Some e, Some b, Some v2, Some e2 => Some (mk_dc_in c lo hi l e b v2 e2)
          | _, _, _, _ => None
          end
      | _, _, _, _ => None
      end
  | _ => None
  end.

Definition method_of (s : string) : option call_method :=
  if String.eqb s "none" then Some MNone
  else if String.eqb s "threshold" then Some MThreshold
  else if String.eqb s "clonal" then Some MClonal
  else None.

(* [rewritten ratio|None; log2|None; absolutes|None; cn|None; baf|None; has alleles; cn1|None; cn2|None] *)
Definition vDcOut (o : dc_out) : val :=
  VL [vOptQ (o_ratio o); vOptQ (o_log2 o); vOptQ (o_abs o); vOptZ (o_cn o); vOptQ (o_baf o);
      VB (match o_alleles o with Some _ => true | None => false end);
      vOptZ (match o_alleles o with Some (c1, _) => c1 | None => None end);
      vOptZ (match o_alleles o with Some (_, c2) => c2 | None => None end)].

(* [method; ploidy; purity|None; haploid_x_reference; sample_female; build|None; thresholds|None (default);
    variants; with_baf; rows] -> rows, or VErr "AssertionError" / "NanCast" *)
Definition e_c02_do_call (v : val) : val :=
  match v with
  | VL [m; k; p; hx; fem; b; ts; va; wb; rows] =>
      match getS m, getZ k, getOpt getQ p, getB hx, getB fem with
      | Some m, Some k, Some p, Some hx, Some fem =>
          match getOpt getS b, getOpt (getList getQ) ts, getB va, getB wb, getList getDcRow rows with
          | Some b, Some ts, Some va, Some wb, Some rows =>
              match method_of m with
              | Some m =>
                  match do_call_model m k p hx fem b (thresholds_of ts) va wb rows with
                  | DcOk out => VL (map vDcOut out)
                  | DcAssert => VErr "AssertionError"
                  | DcNanCast => VErr "NanCast"
                  end
              | None => VErr "ValueError"
              end
          | _, _, _, _, _ => bad_input
          end
      | _, _, _, _, _ => bad_input
      end
  | _ => bad_input
  end.

(* the literal walk of absolute_threshold's loop with the exact quotient:
   [log2|None; 2^log2; thresholds; ploidy; r] -> [scan_row; thr_cn] *)
Definition e_c02_scan (v : val) : val :=
  match v with
  | VL [l; e; ts; k; r] =>
      match getOpt getQ l, getQ e, getList getQ ts, getZ k, getZ r with
      | Some l, Some e, Some ts, Some k, Some r =>
          VL [VZ (scan_row exact_div l e ts k r); VZ (thr_cn l e ts k r)]
      | _, _, _, _, _ => bad_input
      end
  | _ => bad_input
  end.
