(* Entry points for C15 (centring, chromosomal sex): model functions behind val -> val wrappers. *)
From CNV Require Import Base.Prelude Base.Val Base.Str Base.QNum Model.Center Model.Sex.
From CNV Require Spec.Center.

(* a bin crosses as [chrom; start; end; gene; log2; depth|None; weight|None] *)
Definition getBin (v : val) : option bin :=
  match v with
  | VL [c; s; e; g; l; d; w] =>
      match getS c, getZ s, getZ e, getS g, getQ l, getOpt getQ d, getOpt getQ w with
      | Some c', Some s', Some e', Some g', Some l', Some d', Some w' => Some (mkBin c' s' e' g' l' d' w')
      | _, _, _, _, _, _, _ => None
      end
  | _ => None
  end.
Definition getBins (v : val) : option (list bin) := getList getBin v.

(* build: None | name; Some None = assertion failure (unsupported build) *)
Definition getBuild (v : val) : option (option (option parb)) :=
  match v with
  | VNone => Some (Some None)
  | VS s => match resolve_build s with Some p => Some (Some (Some p)) | None => Some None end
  | _ => None
  end.

(* oracles arrive as finite tables *)
Fixpoint eqQ_list_b (a b : list Q) : bool :=
  match a, b with
  | [], [] => true
  | x :: a', y :: b' => qeq_b x y && eqQ_list_b a' b'
  | _, _ => false
  end.
Fixpoint kde_of (tbl : list (list Q * Z)) (s : list Q) : nat :=
  match tbl with
  | [] => O
  | (k, i) :: t => if eqQ_list_b k s then Z.to_nat i else kde_of t s
  end.
Definition getKde (v : val) : option (list (list Q * Z)) := getList (getPair (getList getQ) getZ) v.

Definition mtable_eqb (a b : mtable) : bool :=
  let '(a1, a2, a3, a4) := a in let '(b1, b2, b3, b4) := b in
  ((a1 =? b1) && (a2 =? b2) && (a3 =? b3) && (a4 =? b4))%Z.
Fixpoint gstat_of (tbl : list (mtable * Q)) (k : mtable) : Q :=
  match tbl with
  | [] => (-1)%Q                 (* not supplied: shows up as a disagreement *)
  | (k', s) :: t => if mtable_eqb k' k then s else gstat_of t k
  end.
Definition getMtable (v : val) : option mtable :=
  match v with
  | VL [a; b; c; d] =>
      match getZ a, getZ b, getZ c, getZ d with
      | Some a', Some b', Some c', Some d' => Some (a', b', c', d')
      | _, _, _, _ => None
      end
  | _ => None
  end.
Definition getGstat (v : val) : option (list (mtable * Q)) := getList (getPair getMtable getQ) v.

Definition vQ (q : Q) : val := VQ (Qred q).
Definition vMtable (t : mtable) : val :=
  let '(a, b, c, d) := t in VL [VZ a; VZ b; VZ c; VZ d].
Definition vOptB (o : option bool) : val := match o with Some b => VB b | None => VNone end.

(* [estimator; by_chrom; skip_low; build; kde table; bins] -> [shift|None; log2 of every output bin] *)
Definition e_c15_center (v : val) : val :=
  match v with
  | VL [en; bc; sl; bd; kd; bs] =>
      match getS en, getB bc, getB sl, getBuild bd, getKde kd, getBins bs with
      | Some en', Some bc', Some sl', Some bd', Some kd', Some t =>
          match est_of_name en', bd' with
          | None, _ => VErr "ValueError"
          | _, None => VErr "Assertion"
          | Some e, Some build =>
              let est := est_fun (kde_of kd') e in
              VL [vOptQ (center_shift est bc' sl' build t);
                  vListQ (map b_log2 (center_all est bc' sl' build t))]
          end
      | _, _, _, _, _, _ => bad_input
      end
  | _ => bad_input
  end.

(* [skip_low; build; bins] -> [[chrom; start] of every selected bin] *)
Definition e_c15_selection (v : val) : val :=
  match v with
  | VL [sl; bd; bs] =>
      match getB sl, getBuild bd, getBins bs with
      | Some sl', Some (Some build), Some t =>
          VL (map (fun b => VL [VS (b_chrom b); VZ (b_start b)]) (center_selection sl' build t))
      | Some _, Some None, Some _ => VErr "Assertion"
      | _, _, _ => bad_input
      end
  | _ => bad_input
  end.

(* [estimator; kde table; values] -> estimate *)
Definition e_c15_est (v : val) : val :=
  match v with
  | VL [en; kd; xs] =>
      match getS en, getKde kd, getList getQ xs with
      | Some en', Some kd', Some l =>
          match est_of_name en' with
          | Some e => vQ (est_fun (kde_of kd') e l)
          | None => VErr "ValueError"
          end
      | _, _, _ => bad_input
      end
  | _ => bad_input
  end.

(* values -> list of |result - initial| of the biweight iterations actually run (decision margins) *)
Fixpoint biloc_steps (n : nat) (a : list Q) (initial : Q) : list Q :=
  match n with
  | O => []
  | S k => let r := biloc_iter a initial in
           let d := qabs (qsub r initial) in
           if qle_b d Gen.CenterDefaults.biweight_epsilon then [d] else d :: biloc_steps k a r
  end.
Definition e_c15_biweight_steps (v : val) : val :=
  match getList getQ v with
  | Some l => vListQ (biloc_steps (Z.to_nat Gen.CenterDefaults.biweight_max_iter) l (median l))
  | None => bad_input
  end.

(* [a; w] -> weighted median *)
Definition e_c15_wmedian (v : val) : val :=
  match getPair (getList getQ) (getList getQ) v with
  | Some (a, w) => vQ (wmed a w)
  | None => bad_input
  end.

(* [sample1; sample2] -> [table; valid] *)
Definition e_c15_mood (v : val) : val :=
  match getPair (getList getQ) (getList getQ) v with
  | Some (a, b) => let t := mood_table a b in VL [vMtable t; VB (mood_valid t)]
  | None => bad_input
  end.

(* [hap; build; gstat table; bins] ->
   None | [is_xy; guess_xx; score; x_lr; y_lr|None; x_ratio; y_ratio|None; do_sex label] *)
Definition e_c15_sex (v : val) : val :=
  match v with
  | VL [hp; bd; gs; bs] =>
      match getB hp, getBuild bd, getGstat gs, getBins bs with
      | Some hap, Some (Some build), Some g, Some t =>
          let gstat := gstat_of g in
          match compare_sex gstat hap build t with
          | None => VL [VNone; vOptB (guess_xx gstat hap build t); VS (fst (do_sex_row gstat hap build t))]
          | Some (is_xy, st) =>
              VL [VB is_xy; vOptB (guess_xx gstat hap build t); vQ (s_score st); vQ (s_x_lr st);
                  vOptQ (s_y_lr st); vQ (s_x_ratio st); vOptQ (s_y_ratio st);
                  VS (fst (do_sex_row gstat hap build t))]
          end
      | Some _, Some None, Some _, Some _ => VErr "Assertion"
      | _, _, _, _ => bad_input
      end
  | _ => bad_input
  end.

(* the hypotheses of C15_sex_bounded_noise / C15_sex_centred_noise as tests, on one sample with its true sex:
   [eps; a; female; hap; build; gstat table; bins] ->
   [every bin within eps; the three centres within eps; contract at chrX; contract at chrY; route at chrX (1 = both
    statistics); route at chrY; centre of the autosomes; centre of chrX; centre of chrY|None]
   (the decision itself is the one c15_sex returns for the same input) *)
Definition e_c15_noise_check (v : val) : val :=
  match v with
  | VL [ep; lv; fm; hp; bd; gs; bs] =>
      match getQ ep, getQ lv, getB fm, getB hp, getBuild bd, getGstat gs, getBins bs with
      | Some eps, Some a, Some female, Some hap, Some (Some build), Some g, Some t =>
          let gstat := gstat_of g in
          let chry := filter (chr_y_filter t build) t in
          let crx := sex_contract_route_x gstat hap build t in
          let cry := sex_contract_route_y gstat build t in
          VL [VB (Spec.Center.bounded_noise_b eps a female hap build t);
              VB (Spec.Center.centred_noise_b (sex_centre t) eps a female hap build t);
              VB (fst crx); VB (fst cry); VZ (snd crx); VZ (snd cry);
              vQ (sex_centre t (autosomes t build)); vQ (sex_centre t (filter (chr_x_filter t build) t));
              match chry with [] => VNone | _ => vQ (sex_centre t chry) end]
      | Some _, Some _, Some _, Some _, Some None, Some _, Some _ => VErr "Assertion"
      | _, _, _, _, _, _, _ => bad_input
      end
  | _ => bad_input
  end.

(* [hap; is_xx|None (already guessed); build; bins] -> log2 of every output bin.  An unsupported build
   asserts only where chr_x_filter is evaluated, i.e. in the two shifting cases *)
Definition e_c15_shift_xx (v : val) : val :=
  match v with
  | VL [hp; xx; bd; bs] =>
      match getB hp, getOpt getB xx, getBuild bd, getBins bs with
      | Some hap, Some is_xx, Some (Some build), Some t => vListQ (map b_log2 (shift_xx hap is_xx build t))
      | Some hap, Some is_xx, Some None, Some t =>
          let xx := match is_xx with Some true => true | _ => false end in
          if Bool.eqb xx hap then VErr "Assertion" else vListQ (map b_log2 t)
      | _, _, _, _ => bad_input
      end
  | _ => bad_input
  end.

(* [hap|None; build; gstat table; bins] -> expected flat log2 of every bin (hap None: guessed) *)
Definition e_c15_flat (v : val) : val :=
  match v with
  | VL [hp; bd; gs; bs] =>
      match getOpt getB hp, getBuild bd, getGstat gs, getBins bs with
      | Some (Some false), Some _, Some _, Some t => vListQ (expect_flat false None t)   (* the build is not looked at *)
      | Some (Some hap), Some (Some build), Some _, Some t => vListQ (expect_flat hap build t)
      | Some None, Some (Some build), Some g, Some t => vListQ (expect_flat_guess (gstat_of g) build t)
      | Some _, Some None, Some _, Some _ => VErr "Assertion"
      | _, _, _, _ => bad_input
      end
  | _ => bad_input
  end.

(* name -> is it an autosome name *)
Definition e_c15_is_auto (v : val) : val :=
  match getS v with
  | Some s => VB (is_auto_name s)
  | None => bad_input
  end.

(* () -> [by_chrom default; skip_low default] of center_all (regenerated from the signature) *)
Definition e_c15_defaults (_ : val) : val :=
  VL [VB Gen.CenterDefaults.center_by_chrom_default; VB Gen.CenterDefaults.center_skip_low_default].

(* commands.do_sex on several tables: [hap; build; gstat table; [[name; bins]]] ->
   [column names; [[name; sex; None ("NA") | [X ratio; Y ratio | None (nan); "+" on X; "+" on Y]]]] *)
Definition e_c15_do_sex_table (v : val) : val :=
  match v with
  | VL [hp; bd; gs; ins] =>
      match getB hp, getBuild bd, getGstat gs, getList (getPair getS getBins) ins with
      | Some hap, Some (Some build), Some g, Some inputs =>
          VL [VL (map VS do_sex_header);
              VL (map (fun row : string * (string * option (Q * option Q)) =>
                         let '(name, (label, ratios)) := row in
                         VL [VS name; VS label;
                             match ratios with
                             | None => VNone
                             | Some (x, y) =>
                                 VL [vQ x; vOptQ y; VB (strsign_plus x);
                                     VB (match y with Some yv => strsign_plus yv | None => false end)]
                             end])
                      (do_sex_table (gstat_of g) hap build inputs))]
      | Some _, Some None, Some _, Some _ => VErr "Assertion"
      | _, _, _, _ => bad_input
      end
  | _ => bad_input
  end.
