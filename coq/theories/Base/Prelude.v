(* Common imports and tactic set-up for the whole development (stdlib only). *)
From Coq Require Export String Ascii.
From Coq Require Export ZArith QArith List Bool Lia Lra ZifyBool.
From Coq Require Export Sorting.Permutation Sorting.Sorted.
Export ListNotations.
Ltac Zify.zify_post_hook ::= Z.to_euclidean_division_equations.

Global Open Scope Z_scope.

(* Generic list helpers shared by the models. *)
Fixpoint last_opt {A} (l : list A) : option A :=
  match l with
  | [] => None
  | [x] => Some x
  | _ :: t => last_opt t
  end.

Definition hd_opt {A} (l : list A) : option A :=
  match l with [] => None | x :: _ => Some x end.

Definition Zlength_nat {A} (l : list A) : Z := Z.of_nat (length l).

Fixpoint sumZ (l : list Z) : Z :=
  match l with [] => 0 | x :: t => x + sumZ t end.

Lemma sumZ_app l1 l2 : sumZ (l1 ++ l2) = sumZ l1 + sumZ l2.
Proof. induction l1 as [|x t IH]; cbn [sumZ app]; lia. Qed.

Fixpoint all_some {A} (l : list (option A)) : option (list A) :=
  match l with
  | [] => Some []
  | None :: _ => None
  | Some x :: t => match all_some t with Some r => Some (x :: r) | None => None end
  end.
