(* Shared rational numerics (executable definitions only; lemmas are in
   Proofs/QNumLemmas.v).  Everything is over Coq's [Q]; results of arithmetic
   are normalised with [Qred] so that extracted code does not blow up.  Lists are
   NaN-free by construction: the harness / entry wrappers strip NaN exactly
   where the Python decorators do.  Equality in all lemmas is [==] (Qeq). *)
From CNV Require Import Base.Prelude.
From Coq Require Import Qround Qabs Sorting.Mergesort Orders.
Local Open Scope Q_scope.

(* ---- reduced arithmetic ------------------------------------------------- *)
Definition qadd (a b : Q) : Q := Qred (a + b).
Definition qsub (a b : Q) : Q := Qred (a - b).
Definition qmul (a b : Q) : Q := Qred (a * b).
Definition qdiv (a b : Q) : Q := Qred (a / b).      (* x / 0 = 0 as in Coq's Q *)
Definition qneg (a : Q) : Q := Qred (- a).
Definition qabs (a : Q) : Q := Qabs a.
Definition qsq (a : Q) : Q := Qred (a * a).
Definition qofZ (z : Z) : Q := inject_Z z.
Definition qofnat (n : nat) : Q := inject_Z (Z.of_nat n).

Definition qle_b (a b : Q) : bool := Qle_bool a b.
Definition qlt_b (a b : Q) : bool := negb (Qle_bool b a).
Definition qeq_b (a b : Q) : bool := Qeq_bool a b.

Definition qmin2 (a b : Q) : Q := if Qle_bool a b then a else b.
Definition qmax2 (a b : Q) : Q := if Qle_bool a b then b else a.

(* minimum / maximum of a list (0 on the empty list) *)
Definition qmin (l : list Q) : Q :=
  match l with [] => 0 | x :: t => fold_left qmin2 t x end.
Definition qmax (l : list Q) : Q :=
  match l with [] => 0 | x :: t => fold_left qmax2 t x end.

(* ---- sums and means ----------------------------------------------------- *)
Fixpoint qsum (l : list Q) : Q :=
  match l with [] => 0 | x :: t => Qred (x + qsum t) end.

(* sum of products a_i * w_i over the common prefix *)
Fixpoint qdot (a w : list Q) : Q :=
  match a, w with
  | x :: a', y :: w' => Qred (x * y + qdot a' w')
  | _, _ => 0
  end.

Definition qmean (l : list Q) : Q := Qred (qsum l / qofnat (length l)).

(* numpy.average(a, weights=w) = sum(a*w)/sum(w) *)
Definition wmean (a w : list Q) : Q := Qred (qdot a w / qsum w).

(* running sums: [x1; x1+x2; ...] *)
Fixpoint qcumsum_from (acc : Q) (l : list Q) : list Q :=
  match l with
  | [] => []
  | x :: t => let s := Qred (acc + x) in s :: qcumsum_from s t
  end.
Definition qcumsum (l : list Q) : list Q := qcumsum_from 0 l.

(* ---- sorting (stdlib merge sort, stable) -------------------------------- *)
Module QOrder <: TotalLeBool.
  Definition t := Q.
  Definition leb := Qle_bool.
  Theorem leb_total : forall a1 a2, leb a1 a2 = true \/ leb a2 a1 = true.
  Proof.
    intros a b. unfold leb.
    destruct (Qle_bool a b) eqn:E; [now left|right].
    apply Qle_bool_iff. apply Qlt_le_weak. apply Qnot_le_lt.
    intro H. apply Qle_bool_iff in H. congruence.
  Qed.
End QOrder.
Module QSort := Sort QOrder.

Definition qsort (l : list Q) : list Q := QSort.sort l.

(* ---- order statistics --------------------------------------------------- *)
Definition nthq (i : nat) (l : list Q) : Q := nth i l 0.

(* numpy.median of an already sorted list: mean of the two middle values for even length *)
Definition median_sorted (s : list Q) : Q :=
  let n := length s in
  if Nat.even n
  then Qred ((nthq (Nat.div n 2 - 1) s + nthq (Nat.div n 2) s) / 2)
  else nthq (Nat.div n 2) s.

Definition median (l : list Q) : Q := median_sorted (qsort l).

(* value of the piecewise-linear interpolant of a sorted list at (rational)
   position h in [0, n-1]  (numpy's default "linear" method) *)
Definition interp_sorted (s : list Q) (h : Q) : Q :=
  let lo := Z.to_nat (Qfloor h) in
  let f := h - inject_Z (Qfloor h) in
  let a := nthq lo s in
  let b := nth (S lo) s a in
  Qred (a + f * (b - a)).

(* numpy.percentile(l, p), p in [0,100], default linear interpolation *)
Definition percentile_pos (n : nat) (p : Q) : Q :=
  Qred (qofnat (n - 1) * p / 100).
Definition percentile (p : Q) (l : list Q) : Q :=
  let s := qsort l in interp_sorted s (percentile_pos (length s) p).

(* ---- rounding ----------------------------------------------------------- *)
Definition floorQ (q : Q) : Z := Qfloor q.
Definition ceilQ (q : Q) : Z := Qceiling q.

(* Python's round(): to nearest, ties to the even integer *)
Definition round_half_even (q : Q) : Z :=
  let f := Qfloor q in
  match Qcompare (q - inject_Z f) (1 # 2) with
  | Lt => f
  | Gt => (f + 1)%Z
  | Eq => if Z.even f then f else (f + 1)%Z
  end.
