(* The real functions behind the oracles of DESIGN section 2 satisfy their contracts.

   Over Coq's R (standard library Reals only; no Interval / Coquelicot tactics):
     exp2 v := Rpower 2 v,   log2 y := ln y / ln 2,   sqrt
   are positive / monotone / inverse to each other as the contracts used in the
   Q-valued theorems demand, and the two numeric facts used there hold:
     3/2 < 2^(7/10)   (from 2^7 > (3/2)^10)      2^(-5) = 1/32.
   So no theorem of the form `forall exp2, contract exp2 -> ...` is vacuous.

   These are the only statements of the development that depend on the standard
   library's axioms for the reals (ClassicalDedekindReals.sig_not_dec, sig_forall_dec,
   FunctionalExtensionality.functional_extensionality_dep, Classical_Prop.classic).
   Nothing over Z / Q / lists imports this file, except explicitly named corollaries. *)
From Coq Require Import Reals Lra.

Local Open Scope R_scope.

Definition exp2 (v : R) : R := Rpower 2 v.
Definition log2 (y : R) : R := ln y / ln 2.

Lemma ln2_pos : 0 < ln 2.
Proof. rewrite <- ln_1. apply ln_increasing; lra. Qed.

(* ---------------------------------------------------------------- exp2 *)

Lemma exp2_pos v : 0 < exp2 v.
Proof. unfold exp2, Rpower. apply exp_pos. Qed.

Lemma exp2_0 : exp2 0 = 1.
Proof. unfold exp2. apply Rpower_O. lra. Qed.

Lemma exp2_1 : exp2 1 = 2.
Proof. unfold exp2. apply Rpower_1. lra. Qed.

Lemma exp2_plus a b : exp2 (a + b) = exp2 a * exp2 b.
Proof. unfold exp2. apply Rpower_plus. Qed.

Lemma exp2_succ v : exp2 (v + 1) = 2 * exp2 v.
Proof. rewrite exp2_plus, exp2_1. ring. Qed.

Lemma exp2_opp v : exp2 (- v) = / exp2 v.
Proof. unfold exp2. apply Rpower_Ropp. Qed.

Lemma exp2_strict_mono a b : a < b -> exp2 a < exp2 b.
Proof. intro H. unfold exp2. apply Rpower_lt; lra. Qed.

Lemma exp2_mono a b : a <= b -> exp2 a <= exp2 b.
Proof.
  intros [H | ->]; [left; apply exp2_strict_mono; exact H | right; reflexivity].
Qed.

Lemma exp2_inj_le a b : exp2 a <= exp2 b -> a <= b.
Proof.
  intro H. destruct (Rle_or_lt a b) as [L|G]; [exact L|].
  apply exp2_strict_mono in G. lra.
Qed.

Lemma exp2_INR (n : nat) : exp2 (INR n) = 2 ^ n.
Proof. unfold exp2. apply Rpower_pow. lra. Qed.

(* ---------------------------------------------------------------- log2 *)

Lemma exp2_log2 y : 0 < y -> exp2 (log2 y) = y.
Proof.
  intro H. unfold exp2, log2, Rpower.
  replace (ln y / ln 2 * ln 2) with (ln y) by (field; pose proof ln2_pos; lra).
  apply exp_ln. exact H.
Qed.

Lemma log2_exp2 v : log2 (exp2 v) = v.
Proof.
  unfold exp2, log2, Rpower. rewrite ln_exp. field. pose proof ln2_pos; lra.
Qed.

Lemma log2_1 : log2 1 = 0.
Proof. unfold log2. rewrite ln_1. field. pose proof ln2_pos; lra. Qed.

Lemma log2_strict_mono a b : 0 < a -> a < b -> log2 a < log2 b.
Proof.
  intros Ha Hab. unfold log2. apply Rmult_lt_compat_r.
  - apply Rinv_0_lt_compat. exact ln2_pos.
  - apply ln_increasing; assumption.
Qed.

Lemma log2_mono a b : 0 < a -> a <= b -> log2 a <= log2 b.
Proof.
  intros Ha [H | ->]; [left; apply log2_strict_mono; assumption | right; reflexivity].
Qed.

Lemma log2_mult a b : 0 < a -> 0 < b -> log2 (a * b) = log2 a + log2 b.
Proof.
  intros Ha Hb. unfold log2. rewrite ln_mult by assumption. field. pose proof ln2_pos; lra.
Qed.

(* ---------------------------------------------------------------- sqrt *)

Lemma sqrt_nonneg x : 0 <= sqrt x.
Proof. apply sqrt_pos. Qed.

Lemma sqrt_zero : sqrt 0 = 0.
Proof. apply sqrt_0. Qed.

Lemma sqrt_mono x y : 0 <= x -> x <= y -> sqrt x <= sqrt y.
Proof. intros Hx Hxy. apply sqrt_le_1; lra. Qed.

Lemma sqrt_square x : 0 <= x -> sqrt x * sqrt x = x.
Proof. apply sqrt_sqrt. Qed.

(* ---------------------------------------------------------------- numeric facts *)

(* x^10 <= y^10 for 0 <= x <= y *)
Lemma pow_mono_le x y (n : nat) : 0 <= x -> x <= y -> x ^ n <= y ^ n.
Proof. intros Hx Hxy. apply pow_incr. split; assumption. Qed.

Lemma exp2_pow v (n : nat) : exp2 v ^ n = exp2 (INR n * v).
Proof.
  induction n as [|n IH].
  - simpl. rewrite Rmult_0_l, exp2_0. reflexivity.
  - rewrite S_INR. simpl pow. rewrite IH.
    replace ((INR n + 1) * v) with (v + INR n * v) by ring.
    rewrite exp2_plus. reflexivity.
Qed.

(* 3/2 < 2^(7/10), because (3/2)^10 = 59049/1024 < 128 = 2^7 *)
Lemma exp2_7_10 : 3 / 2 < exp2 (7 / 10).
Proof.
  destruct (Rlt_or_le (3 / 2) (exp2 (7 / 10))) as [H|H]; [exact H|exfalso].
  assert (P : exp2 (7 / 10) ^ 10 <= (3 / 2) ^ 10).
  { apply pow_mono_le; [left; apply exp2_pos | exact H]. }
  rewrite exp2_pow in P.
  replace (INR 10 * (7 / 10)) with (INR 7) in P by (simpl; field).
  rewrite exp2_INR in P. simpl in P. lra.
Qed.

(* more generally, from 3/5 on: (3/2)^5 = 243/32 < 8 = 2^3 *)
Lemma exp2_3_5 : 3 / 2 < exp2 (3 / 5).
Proof.
  destruct (Rlt_or_le (3 / 2) (exp2 (3 / 5))) as [H|H]; [exact H|exfalso].
  assert (P : exp2 (3 / 5) ^ 5 <= (3 / 2) ^ 5).
  { apply pow_mono_le; [left; apply exp2_pos | exact H]. }
  rewrite exp2_pow in P.
  replace (INR 5 * (3 / 5)) with (INR 3) in P by (simpl; field).
  rewrite exp2_INR in P. simpl in P. lra.
Qed.

Lemma exp2_above_3_2 v : 3 / 5 <= v -> 3 / 2 < exp2 v.
Proof. intro H. eapply Rlt_le_trans; [apply exp2_3_5 | apply exp2_mono; exact H]. Qed.

Lemma exp2_m5 : exp2 (-5) = 1 / 32.
Proof.
  replace (-5) with (- INR 5) by (simpl; ring).
  rewrite exp2_opp, exp2_INR. simpl. field.
Qed.

(* 1 < 2^v <= 2 for 0 < v <= 1: the ceiling of 2^v is 2 there *)
Lemma exp2_unit_interval v : 0 < v -> v <= 1 -> 1 < exp2 v <= 2.
Proof.
  intros H0 H1. split.
  - rewrite <- exp2_0. apply exp2_strict_mono. exact H0.
  - rewrite <- exp2_1. apply exp2_mono. exact H1.
Qed.

(* ---------------------------------------------------------------- the mixing model in log2 space *)

(* C01 in the property's own terms: if the log2 ratio is log2((p*n + (1-p)*x)/r), the
   purity inversion applied to 2^log2 returns n *)
Lemma log2_inversion (n p r x : R) :
  0 < p -> 0 < r -> 0 < (p * n + (1 - p) * x) / r ->
  (r * exp2 (log2 ((p * n + (1 - p) * x) / r)) - x * (1 - p)) / p = n.
Proof.
  intros Hp Hr Hy. rewrite exp2_log2 by exact Hy. field. split; lra.
Qed.

Lemma log2_inversion_pure (n r : R) : 0 < r -> 0 < n / r -> r * exp2 (log2 (n / r)) = n.
Proof. intros Hr Hy. rewrite exp2_log2 by exact Hy. field. lra. Qed.

(* adding 1 to a log2 ratio doubles the ratio (the sex-chromosome shift of log2_ratios) *)
Lemma log2_shift y : 0 < y -> log2 y + 1 = log2 (2 * y).
Proof.
  intro H. rewrite log2_mult by lra. unfold log2 at 2.
  replace (ln 2 / ln 2) with 1 by (field; pose proof ln2_pos; lra). ring.
Qed.

(* the contracts, packaged: the real exp2 / log2 / sqrt are instances *)
Definition exp2_contract (f : R -> R) : Prop :=
  (forall v, 0 < f v) /\ (forall a b, a <= b -> f a <= f b) /\ f 0 = 1 /\
  (forall v, f (v + 1) = 2 * f v) /\ 3 / 2 < f (7 / 10).

Definition log2_contract (f g : R -> R) : Prop := forall y, 0 < y -> f (g y) = y.

Definition sqrt_contract (f : R -> R) : Prop :=
  (forall x, 0 <= f x) /\ (forall x y, 0 <= x -> x <= y -> f x <= f y) /\ f 0 = 0.

Theorem exp2_contract_real : exp2_contract exp2.
Proof.
  repeat split.
  - apply exp2_pos.
  - apply exp2_mono.
  - apply exp2_0.
  - apply exp2_succ.
  - apply exp2_7_10.
Qed.

Theorem log2_contract_real : log2_contract exp2 log2.
Proof. intros y H. apply exp2_log2. exact H. Qed.

Theorem sqrt_contract_real : sqrt_contract sqrt.
Proof.
  repeat split.
  - apply sqrt_nonneg.
  - apply sqrt_mono.
  - apply sqrt_zero.
Qed.
