(* The generic value type crossing the model/driver boundary, and decoders.
   Every model entry point is a total function val -> val. *)
From CNV Require Import Base.Prelude.

Inductive val :=
| VZ (z : Z)
| VQ (q : Q)
| VS (s : string)
| VB (b : bool)
| VL (l : list val)
| VNone
| VErr (s : string).

Definition getZ (v : val) : option Z := match v with VZ z => Some z | _ => None end.
Definition getQ (v : val) : option Q :=
  match v with VQ q => Some q | VZ z => Some (inject_Z z) | _ => None end.
Definition getS (v : val) : option string := match v with VS s => Some s | _ => None end.
Definition getB (v : val) : option bool := match v with VB b => Some b | _ => None end.
Definition getL (v : val) : option (list val) := match v with VL l => Some l | _ => None end.

Definition getOpt {A} (f : val -> option A) (v : val) : option (option A) :=
  match v with VNone => Some None | _ => match f v with Some a => Some (Some a) | None => None end end.

Definition getList {A} (f : val -> option A) (v : val) : option (list A) :=
  match v with VL l => all_some (map f l) | _ => None end.

Definition getPair {A B} (f : val -> option A) (g : val -> option B) (v : val) : option (A * B) :=
  match v with
  | VL [a; b] => match f a, g b with Some x, Some y => Some (x, y) | _, _ => None end
  | _ => None
  end.

Definition getTriple {A B C} (f : val -> option A) (g : val -> option B) (h : val -> option C)
  (v : val) : option (A * B * C) :=
  match v with
  | VL [a; b; c] =>
      match f a, g b, h c with Some x, Some y, Some z => Some (x, y, z) | _, _, _ => None end
  | _ => None
  end.

Definition vOptZ (o : option Z) : val := match o with Some z => VZ z | None => VNone end.
Definition vOptQ (o : option Q) : val := match o with Some q => VQ (Qred q) | None => VNone end.
Definition vListZ (l : list Z) : val := VL (map VZ l).
Definition vListQ (l : list Q) : val := VL (map (fun q => VQ (Qred q)) l).
Definition vPairZ (p : Z * Z) : val := VL [VZ (fst p); VZ (snd p)].

Definition bad_input : val := VErr "decode"%string.
