(* String helpers on Coq strings: list view, prefix / suffix / infix tests,
   character classes. Executable, stdlib only. *)
From CNV Require Import Base.Prelude.

Definition chars (s : string) : list ascii := list_ascii_of_string s.
Definition unchars (l : list ascii) : string := string_of_list_ascii l.

Fixpoint prefixb (p s : list ascii) : bool :=
  match p, s with
  | [], _ => true
  | a :: p', b :: s' => Ascii.eqb a b && prefixb p' s'
  | _ :: _, [] => false
  end.

Definition suffixb (p s : list ascii) : bool := prefixb (rev p) (rev s).

Fixpoint infixb (p s : list ascii) : bool :=
  prefixb p s || match s with [] => false | _ :: t => infixb p t end.

Definition is_digit (c : ascii) : bool :=
  let n := nat_of_ascii c in (48 <=? n)%nat && (n <=? 57)%nat.
Definition is_upper (c : ascii) : bool :=
  let n := nat_of_ascii c in (65 <=? n)%nat && (n <=? 90)%nat.
Definition is_lower (c : ascii) : bool :=
  let n := nat_of_ascii c in (97 <=? n)%nat && (n <=? 122)%nat.
Definition is_alpha (c : ascii) : bool := is_upper c || is_lower c.
Definition is_word (c : ascii) : bool :=
  is_alpha c || is_digit c || Ascii.eqb c "_"%char.

Definition to_lower (c : ascii) : ascii :=
  if is_upper c then ascii_of_nat (nat_of_ascii c + 32) else c.
Definition lower (s : list ascii) : list ascii := map to_lower s.

Definition str_prefix (p s : string) : bool := prefixb (chars p) (chars s).
Definition str_suffix (p s : string) : bool := suffixb (chars p) (chars s).
Definition str_infix (p s : string) : bool := infixb (chars p) (chars s).

Fixpoint mem_string (s : string) (l : list string) : bool :=
  match l with [] => false | x :: t => String.eqb s x || mem_string s t end.
