(* C14, part 1: the groups formed by squash_by_groups are the maximal runs.
   - runs_by satisfies the characterisation is_max_runs (for an equivalence);
   - pandas-style grouping by key coincides with cutting into runs when equal
     keys are adjacent (Contig);
   - the model's keys are componentwise non-decreasing for a table whose
     chromosomes are contiguous, hence Contig, and two neighbouring rows have
     equal keys exactly when they agree in chromosome, level, cn1 and cn2. *)
From Coq Require Import QArith.Qabs.
From CNV Require Import Base.Prelude Base.Str Gen.SegfilterDefaults Model.Segfilters Spec.Segfilters.

(* ------------------------------------------------------------------ runs_by *)

Section RunsFacts.
Context {A : Type} (same : A -> A -> bool).

Lemma concat_cons_run a rs : concat (cons_run same a rs) = a :: concat rs.
Proof.
  unfold cons_run. destruct rs as [|[|b r] rs']; cbn; try reflexivity.
  destruct (same a b); reflexivity.
Qed.

Lemma concat_runs_by l : concat (runs_by same l) = l.
Proof.
  induction l as [|a t IH]; cbn; [reflexivity|].
  rewrite concat_cons_run, IH. reflexivity.
Qed.

Lemma runs_by_nonempty l : Forall (fun r => r <> []) (runs_by same l).
Proof.
  induction l as [|a t IH]; cbn; [constructor|].
  unfold cons_run. destruct (runs_by same t) as [|[|b r] rs'].
  - repeat constructor. discriminate.
  - constructor; [discriminate|exact IH].
  - destruct (same a b).
    + inversion IH; subst. constructor; [discriminate|assumption].
    + constructor; [discriminate|exact IH].
Qed.

(* the first run of a non-empty list starts with the first element *)
Lemma runs_by_hd a t : exists r rs, runs_by same (a :: t) = (a :: r) :: rs.
Proof.
  cbn. unfold cons_run. destruct (runs_by same t) as [|[|b r] rs'].
  - exists [], []. reflexivity.
  - exists [], ([] :: rs'). reflexivity.
  - destruct (same a b).
    + exists (b :: r), rs'. reflexivity.
    + exists [], ((b :: r) :: rs'). reflexivity.
Qed.

Lemma runs_by_ext (same' : A -> A -> bool) l :
  (forall a b, same a b = same' a b) -> runs_by same l = runs_by same' l.
Proof.
  intros E. induction l as [|a t IH]; cbn; [reflexivity|].
  rewrite IH. unfold cons_run. destruct (runs_by same' t) as [|[|b r] rs']; try reflexivity.
  rewrite E. reflexivity.
Qed.

Hypothesis same_refl : forall a, same a a = true.
Hypothesis same_sym : forall a b, same a b = true -> same b a = true.
Hypothesis same_trans : forall a b c, same a b = true -> same b c = true -> same a c = true.

Lemma runs_by_alike l :
  Forall (fun r => forall x y, In x r -> In y r -> same x y = true) (runs_by same l).
Proof.
  induction l as [|a t IH]; cbn; [constructor|].
  unfold cons_run. destruct (runs_by same t) as [|[|b r] rs'] eqn:E.
  - repeat constructor. intros x y [<-|[]] [<-|[]]. apply same_refl.
  - constructor; [|exact IH]. intros x y [<-|[]] [<-|[]]. apply same_refl.
  - destruct (same a b) eqn:Sab.
    + inversion IH as [|? ? Hr Hrs]; subst. constructor; [|exact Hrs].
      assert (Ha : forall y, In y (b :: r) -> same a y = true).
      { intros y Hy. apply same_trans with b; [exact Sab|]. apply Hr; [left; reflexivity|exact Hy]. }
      intros x y [<-|Hx] [<-|Hy].
      * apply same_refl.
      * apply Ha, Hy.
      * apply same_sym, Ha, Hx.
      * apply Hr; assumption.
    + constructor; [|exact IH]. intros x y [<-|[]] [<-|[]]. apply same_refl.
Qed.

Lemma runs_by_maximal l : forall pre r1 r2 post x y,
  runs_by same l = pre ++ r1 :: r2 :: post -> last_opt r1 = Some x -> hd_opt r2 = Some y ->
  same x y = false.
Proof.
  induction l as [|a t IH]; intros pre r1 r2 post x y E Hx Hy.
  - cbn in E. destruct pre; discriminate.
  - cbn in E. pose proof (runs_by_nonempty t) as NE.
    unfold cons_run in E. destruct (runs_by same t) as [|[|b r] rs'] eqn:Et.
    + destruct pre as [|p [|q pre']]; discriminate.
    + inversion NE as [|? ? H0 _]; subst. contradiction H0. reflexivity.
    + destruct (same a b) eqn:Sab.
      * destruct pre as [|p pre'].
        -- cbn in E. injection E as E1 E2. subst r1 rs'.
           apply (IH [] (b :: r) r2 post x y); [reflexivity| |exact Hy].
           cbn in Hx. exact Hx.
        -- cbn in E. injection E as E1 E2. subst p rs'.
           apply (IH ((b :: r) :: pre') r1 r2 post x y); [reflexivity|exact Hx|exact Hy].
      * destruct pre as [|p pre'].
        -- cbn in E. injection E as E1 E2 E3. subst r1 r2 post.
           cbn in Hx, Hy. injection Hx as <-. injection Hy as <-. exact Sab.
        -- cbn in E. injection E as E1 E2. subst p.
           apply (IH pre' r1 r2 post x y); [exact E2|exact Hx|exact Hy].
Qed.

Lemma runs_by_is_max_runs l : is_max_runs same l (runs_by same l).
Proof.
  repeat split.
  - apply concat_runs_by.
  - apply runs_by_nonempty.
  - apply runs_by_alike.
  - apply runs_by_maximal.
Qed.

End RunsFacts.

(* a relation on tagged elements that agrees, on neighbours, with a relation on
   the elements themselves cuts the list in the same places *)
Lemma runs_by_tagged {K A} (R1 : K * A -> K * A -> bool) (R2 : A -> A -> bool) (l : list (K * A)) :
  AdjForall (fun x y => R1 x y = R2 (snd x) (snd y)) l ->
  map (map snd) (runs_by R1 l) = runs_by R2 (map snd l).
Proof.
  induction l as [|x t IH]; intros H; cbn; [reflexivity|].
  assert (Ht : AdjForall (fun x y => R1 x y = R2 (snd x) (snd y)) t).
  { inversion H; subst; [constructor|assumption]. }
  specialize (IH Ht). rewrite <- IH.
  destruct t as [|y t'].
  - cbn. reflexivity.
  - destruct (runs_by_hd R1 y t') as (r & rs & E). rewrite E. cbn.
    inversion H as [| |? ? ? Hxy _]; subst. rewrite Hxy.
    destruct (R2 (snd x) (snd y)); reflexivity.
Qed.

(* ---------------------------------------------------- grouping by key = runs *)

Lemma key_eqb_eq (a b : key) : key_eqb a b = true <-> a = b.
Proof.
  destruct a as [[a1 a2] a3], b as [[b1 b2] b3]. unfold key_eqb.
  rewrite !andb_true_iff, !Z.eqb_eq. split.
  - intros [[-> ->] ->]. reflexivity.
  - intros E. injection E as -> -> ->. auto.
Qed.

Lemma key_eqb_refl k : key_eqb k k = true.
Proof. apply key_eqb_eq. reflexivity. Qed.

Lemma key_eqb_neq (a b : key) : key_eqb a b = false <-> a <> b.
Proof.
  split.
  - intros H E. apply key_eqb_eq in E. congruence.
  - intros H. destruct (key_eqb a b) eqn:E; [|reflexivity]. apply key_eqb_eq in E. contradiction.
Qed.

Section Grouping.
Context {A : Type}.

Definition samek (x y : key * A) : bool := key_eqb (fst x) (fst y).

Definition run_to_group (r : list (key * A)) : key * list A :=
  match r with
  | [] => ((0, 0, 0), [])
  | x :: _ => (fst x, map snd r)
  end.

Lemma snd_run_to_group r : snd (run_to_group r) = map snd r.
Proof. destruct r; reflexivity. Qed.

Lemma keys_remove_group k (gs : list (key * list A)) k' :
  In k' (map fst (remove_group k gs)) -> In k' (map fst gs).
Proof.
  induction gs as [|[k0 g] gs IH]; cbn; [tauto|].
  destruct (key_eqb k k0); cbn; tauto.
Qed.

Lemma keys_group_by (l : list (key * A)) k :
  In k (map fst (group_by_key l)) -> In k (map fst l).
Proof.
  induction l as [|[k0 a] t IH]; cbn; [tauto|].
  intros [H|H]; [left; exact H|right]. apply IH. eapply keys_remove_group. exact H.
Qed.

Lemma lookup_absent k (gs : list (key * list A)) :
  ~ In k (map fst gs) -> lookup_group k gs = [].
Proof.
  induction gs as [|[k0 g] gs IH]; cbn; [reflexivity|]. intros H.
  destruct (key_eqb k k0) eqn:E.
  - apply key_eqb_eq in E. subst. tauto.
  - apply IH. tauto.
Qed.

Lemma remove_absent k (gs : list (key * list A)) :
  ~ In k (map fst gs) -> remove_group k gs = gs.
Proof.
  induction gs as [|[k0 g] gs IH]; cbn; [reflexivity|]. intros H.
  destruct (key_eqb k k0) eqn:E.
  - apply key_eqb_eq in E. subst. tauto.
  - rewrite IH; tauto.
Qed.

Lemma group_by_contig (l : list (key * A)) :
  Contig (map fst l) -> group_by_key l = map run_to_group (runs_by samek l).
Proof.
  induction l as [|[k a] t IH]; intros C; [reflexivity|].
  cbn [map fst] in C. inversion C as [|? ? Ct Hk]; subst.
  specialize (IH Ct). cbn [group_by_key runs_by]. rewrite IH.
  destruct t as [|[k' a'] t'].
  - cbn. reflexivity.
  - destruct (runs_by_hd samek (k', a') t') as (r & rs & E). rewrite E.
    cbn [map run_to_group fst snd lookup_group remove_group cons_run].
    unfold samek at 1. cbn [fst].
    destruct (key_eqb k k') eqn:Ek.
    + cbn. reflexivity.
    + assert (NI : ~ In k (map fst ((k', a') :: t'))).
      { destruct Hk as [Hk|Hk]; [|exact Hk]. cbn in Hk. injection Hk as ->.
        rewrite key_eqb_refl in Ek. discriminate. }
      assert (NG : ~ In k (map fst (group_by_key ((k', a') :: t')))).
      { intros H. apply NI. apply keys_group_by. exact H. }
      rewrite IH, E in NG. cbn [map run_to_group fst] in NG.
      cbn [map snd] in *.
      rewrite lookup_absent; [|intros H; apply NG; right; exact H].
      rewrite remove_absent; [|intros H; apply NG; right; exact H].
      cbn. reflexivity.
Qed.

End Grouping.

(* -------------------------------------------------------- sorted keys: Contig *)

Definition le3 (a b : key) : Prop :=
  let '(a1, a2, a3) := a in let '(b1, b2, b3) := b in a1 <= b1 /\ a2 <= b2 /\ a3 <= b3.

Lemma le3_antisym a b : le3 a b -> le3 b a -> a = b.
Proof.
  destruct a as [[a1 a2] a3], b as [[b1 b2] b3]. cbn. intros (?&?&?) (?&?&?).
  f_equal; [f_equal|]; lia.
Qed.

Lemma le3_trans a b c : le3 a b -> le3 b c -> le3 a c.
Proof.
  destruct a as [[a1 a2] a3], b as [[b1 b2] b3], c as [[c1 c2] c3]. cbn. intros (?&?&?) (?&?&?).
  repeat split; lia.
Qed.

Lemma sorted3_contig (l : list key) : StronglySorted le3 l -> Contig l.
Proof.
  induction l as [|k t IH]; intros S; [constructor|].
  inversion S as [|? ? St Hall]; subst. constructor; [apply IH, St|].
  destruct t as [|k' t']; [right; cbn; tauto|].
  destruct (key_eqb k k') eqn:E.
  - apply key_eqb_eq in E. subst. left. reflexivity.
  - right. apply key_eqb_neq in E. intros [H|H]; [congruence|].
    inversion Hall as [|? ? Hkk' _]; subst.
    inversion St as [|? ? _ Hall']; subst.
    rewrite Forall_forall in Hall'. specialize (Hall' k H).
    apply E. apply le3_antisym; assumption.
Qed.

(* ------------------------------------------- chromosome ordinals (uniq_str) *)

Lemma in_uniq_str l c : In c (uniq_str l) <-> In c l.
Proof.
  induction l as [|x t IH]; cbn; [tauto|]. rewrite filter_In, IH. split.
  - intros [H|[H _]]; auto.
  - intros [H|H]; [left; exact H|].
    destruct (String.eqb x c) eqn:E.
    + apply String.eqb_eq in E. left. exact E.
    + right. split; [exact H|]. reflexivity.
Qed.

Lemma filter_idem {A} (p : A -> bool) l : filter p (filter p l) = filter p l.
Proof.
  induction l as [|x t IH]; cbn; [reflexivity|].
  destruct (p x) eqn:E; cbn; [rewrite E, IH|]; auto.
Qed.

Lemma filter_all {A} (p : A -> bool) l : (forall x, In x l -> p x = true) -> filter p l = l.
Proof.
  induction l as [|x t IH]; cbn; intros H; [reflexivity|].
  rewrite (H x (or_introl eq_refl)), IH; auto.
Qed.

Lemma index_of_nonneg c l : 0 <= index_of c l.
Proof. induction l as [|x t IH]; cbn [index_of]; [lia|]. destruct (String.eqb c x); lia. Qed.

Lemma index_of_inj a b l : In a l -> index_of a l = index_of b l -> a = b.
Proof.
  induction l as [|x t IH]; cbn [index_of In]; [tauto|]. intros Ha.
  pose proof (index_of_nonneg a t). pose proof (index_of_nonneg b t).
  destruct (String.eqb a x) eqn:Ea, (String.eqb b x) eqn:Eb; intros E; try lia.
  - apply String.eqb_eq in Ea, Eb. congruence.
  - apply IH; [|lia]. destruct Ha as [Ha|Ha]; [|exact Ha].
    subst. rewrite String.eqb_refl in Ea. discriminate.
Qed.

(* along a contiguous list of names, ordinals relative to the whole list are a
   constant shift of the ordinals relative to any suffix *)
Lemma ordinal_shift : forall pre names suf,
  Contig names -> names = pre ++ suf ->
  exists d, forall y, In y suf -> index_of y (uniq_str names) = d + index_of y (uniq_str suf).
Proof.
  induction pre as [|x pre IH]; intros names suf C E.
  - exists 0. intros y _. cbn in E. subst. lia.
  - subst names. cbn [app] in C. inversion C as [|? ? Ct Hx]; subst.
    destruct (IH (pre ++ suf) suf Ct eq_refl) as (d' & Hd').
    cbn [app uniq_str].
    destruct Hx as [Hx|Hx].
    + (* the tail starts with x again: same unique list *)
      exists d'. intros y Hy.
      destruct (pre ++ suf) as [|x' tl] eqn:Etl; [discriminate|].
      cbn in Hx. injection Hx as ->.
      rewrite <- (Hd' y Hy). cbn [uniq_str filter].
      rewrite String.eqb_refl. cbn [negb]. rewrite filter_idem. reflexivity.
    + (* x never returns *)
      exists (1 + d'). intros y Hy.
      rewrite filter_all.
      * cbn [index_of]. destruct (String.eqb y x) eqn:Eyx.
        -- apply String.eqb_eq in Eyx. subst. exfalso. apply Hx. apply in_or_app. right. exact Hy.
        -- rewrite (Hd' y Hy). lia.
      * intros z Hz. apply (proj1 (in_uniq_str _ _)) in Hz. destruct (String.eqb x z) eqn:Exz; [|reflexivity].
        apply String.eqb_eq in Exz. subst z. exfalso. apply Hx. exact Hz.
Qed.

Lemma ssorted_of_splits {A} (R : A -> A -> Prop) (l : list A) :
  (forall pre x suf, l = pre ++ x :: suf -> Forall (R x) suf) -> StronglySorted R l.
Proof.
  induction l as [|a t IH]; intros H; constructor.
  - apply IH. intros pre x suf E. apply (H (a :: pre) x suf). rewrite E. reflexivity.
  - apply (H [] a t). reflexivity.
Qed.

Definition ord_in (names : list string) (c : string) : Z := index_of c (uniq_str names).

Lemma ordinals_sorted names :
  Contig names -> StronglySorted (fun a b => ord_in names a <= ord_in names b) names.
Proof.
  intros C. apply ssorted_of_splits. intros pre x suf E.
  destruct (ordinal_shift pre names (x :: suf) C E) as (d & Hd).
  apply Forall_forall. intros y Hy. unfold ord_in.
  rewrite (Hd x (or_introl eq_refl)), (Hd y (or_intror Hy)).
  cbn [uniq_str index_of]. rewrite String.eqb_refl.
  pose proof (index_of_nonneg y (x :: filter (fun y0 => negb (String.eqb x y0)) (uniq_str suf))) as Hn.
  cbn [index_of] in Hn. lia.
Qed.

Lemma ord_in_inj names a b : In a names -> ord_in names a = ord_in names b -> a = b.
Proof. intros Ha. apply index_of_inj. apply in_uniq_str. exact Ha. Qed.

Lemma ssorted_map {A B} (f : A -> B) (R : B -> B -> Prop) l :
  StronglySorted R (map f l) -> StronglySorted (fun a b => R (f a) (f b)) l.
Proof.
  induction l as [|a t IH]; cbn; intros S; constructor; inversion S; subst.
  - apply IH. assumption.
  - rewrite Forall_map in *. assumption.
Qed.
