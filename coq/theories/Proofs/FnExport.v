(* Source tie for the copy number the exports compute themselves.  export_bed and segments2vcf
   call call.absolute_dataframe(segments, ploidy, 1.0, ...), which applies
   _log2_ratio_to_absolute(log2, reference, expect, purity = 1.0) to every row; the definition
   that tools/py2v_fn.py regenerates from the body of that Python function (Gen/FnCall.v),
   evaluated at the purity literal of the exports (Gen/ExportDefaults.v export_purity), is the
   value the export model rounds (Model/Export.v absolute_one), for every exp2 that supplies
   the segment's ratio.
   cnvlib/export.py itself has no scalar helper inside the translator's subset:
   theta_read_counts ends in `read_count.round().fillna(0).astype("int")` (method calls on the
   value), the INFO fields / labels / ids are f-strings. *)
From CNV Require Import Base.Prelude Base.Str Gen.CallDefaults Gen.ExportDefaults Gen.FnCall.
From CNV Require Import Model.Call Proofs.CallNum Proofs.Call Proofs.FnCall Model.Export.
From Coq Require Import Lqa.   (* after Prelude: `lra` over Q *)

Local Open Scope Q_scope.

Lemma export_purity_full : 1 <= export_purity.
Proof. unfold export_purity. lra. Qed.

Lemma absolute_one_pure s r x : absolute_one s r x = abs_pure (s_e s) r.
Proof. reflexivity. Qed.

Lemma fn_export_absolute (exp2 : Q -> Q) (s : seg) (r x : Z) :
  s_e s == exp2 (s_v s) ->
  fn_log2_ratio_to_absolute exp2 (s_v s) r x (Some export_purity) == absolute_one s r x.
Proof.
  intro He. rewrite absolute_one_pure.
  rewrite (fn_abs_full_purity_eq exp2 (s_v s) r x export_purity export_purity_full).
  rewrite !abs_pure_eq, He. reflexivity.
Qed.

(* hence the integer copy number of a row without a cn column is numpy's round of the
   translated function's value *)
Lemma fn_export_ncopies (exp2 : Q -> Q) (s : seg) (r x : Z) :
  s_e s == exp2 (s_v s) ->
  round_he (fn_log2_ratio_to_absolute exp2 (s_v s) r x (Some export_purity)) = round_he (absolute_one s r x).
Proof. intro He. apply round_he_comp. now apply fn_export_absolute. Qed.
