(* Proofs for C07, part 1: numpy's binary search returns the count of smaller
   (or smaller-or-equal) elements on a sorted array; position <-> value lemmas
   on sorted lists; selections by position predicate and by mask are filters. *)
From CNV Require Import Base.Prelude Model.Ranges.

(* ---- counts -------------------------------------------------------------- *)
Lemma zlen_cons {A} (x : A) l : zlen (x :: l) = 1 + zlen l.
Proof. unfold zlen. cbn [length]. lia. Qed.

Lemma zlen_nonneg {A} (l : list A) : 0 <= zlen l.
Proof. unfold zlen. lia. Qed.

Lemma count_side_nil s key : count_side s [] key = 0.
Proof. reflexivity. Qed.

Lemma count_side_cons s x arr key :
  count_side s (x :: arr) key = (if ss_cmp s x key then 1 else 0) + count_side s arr key.
Proof.
  unfold count_side. cbn [filter]. destruct (ss_cmp s x key).
  - rewrite zlen_cons. reflexivity.
  - lia.
Qed.

Lemma count_side_bounds s arr key : 0 <= count_side s arr key <= zlen arr.
Proof.
  induction arr as [|x t IH].
  - rewrite count_side_nil. unfold zlen. cbn. lia.
  - rewrite count_side_cons, zlen_cons. destruct (ss_cmp s x key); lia.
Qed.

Lemma ss_cmp_mono_l s x y key : x <= y -> ss_cmp s y key = true -> ss_cmp s x key = true.
Proof. destruct s; cbn; intros; lia. Qed.

Lemma ss_cmp_mono_r s x k1 k2 : k1 <= k2 -> ss_cmp s x k1 = true -> ss_cmp s x k2 = true.
Proof. destruct s; cbn; intros; lia. Qed.

Lemma count_side_mono s arr k1 k2 : k1 <= k2 -> count_side s arr k1 <= count_side s arr k2.
Proof.
  intros Hk. induction arr as [|x t IH].
  - rewrite !count_side_nil. lia.
  - rewrite !count_side_cons.
    destruct (ss_cmp s x k1) eqn:E1.
    + rewrite (ss_cmp_mono_r s x k1 k2 Hk E1). lia.
    + destruct (ss_cmp s x k2); lia.
Qed.

(* when the head already fails the comparison, so does everything after it *)
Lemma count_side_zero s x arr key :
  StronglySorted Z.le (x :: arr) -> ss_cmp s x key = false -> count_side s (x :: arr) key = 0.
Proof.
  intros HS Hx. inversion HS as [|? ? HS' Hall]; subst.
  rewrite count_side_cons, Hx.
  assert (count_side s arr key = 0) as ->; [|lia].
  clear HS. induction arr as [|y t IH].
  - apply count_side_nil.
  - rewrite count_side_cons.
    inversion Hall as [|? ? Hy Hall']; subst. inversion HS' as [|? ? HS'' Hall'']; subst.
    destruct (ss_cmp s y key) eqn:Ey.
    + rewrite (ss_cmp_mono_l s x y key Hy Ey) in Hx. discriminate.
    + rewrite IH by assumption. lia.
Qed.

(* position k holds a value that passes the comparison iff k < count *)
Lemma nth_count s arr key : StronglySorted Z.le arr ->
  forall k v, nth_error arr k = Some v ->
  ss_cmp s v key = (Z.of_nat k <? count_side s arr key).
Proof.
  induction arr as [|x t IH]; intros HS k v Hn.
  - destruct k; discriminate.
  - destruct (ss_cmp s x key) eqn:Ex.
    + rewrite count_side_cons, Ex.
      pose proof (count_side_bounds s t key) as Hb.
      destruct k as [|k'].
      * cbn in Hn. inversion Hn; subst. rewrite Ex. lia.
      * cbn [nth_error] in Hn. inversion HS; subst.
        rewrite (IH H1 k' v Hn). lia.
    + rewrite (count_side_zero s x t key HS Ex).
      inversion HS as [|? ? HS' Hall]; subst.
      destruct k as [|k'].
      * cbn in Hn. inversion Hn; subst. rewrite Ex. lia.
      * cbn [nth_error] in Hn.
        apply nth_error_In in Hn. rewrite Forall_forall in Hall. specialize (Hall v Hn).
        destruct (ss_cmp s v key) eqn:Ev.
        -- rewrite (ss_cmp_mono_l s x v key Hall Ev) in Ex. discriminate.
        -- lia.
Qed.

(* ---- the binary search --------------------------------------------------- *)
Lemma nth_nth_error (arr : list Z) (k : nat) : (k < length arr)%nat ->
  nth_error arr k = Some (nth k arr 0).
Proof.
  revert k; induction arr as [|x t IH]; intros k Hk; cbn in Hk; [lia|].
  destruct k; cbn; [reflexivity|]. apply IH. lia.
Qed.

Lemma bs_loop_sorted s arr key : StronglySorted Z.le arr ->
  forall fuel mn mx,
  0 <= mn -> mn <= count_side s arr key <= mx -> mx <= zlen arr ->
  mx - mn < Z.of_nat fuel ->
  bs_loop s arr key fuel mn mx = count_side s arr key.
Proof.
  intros HS. induction fuel as [|f IH]; intros mn mx H0 Hc Hn Hf; [lia|].
  cbn [bs_loop]. destruct (mn <? mx) eqn:Elt; [|lia].
  set (mid := mn + (mx - mn) / 2).
  assert (Hmid : mn <= mid < mx) by (unfold mid; lia).
  assert (Hlen : (Z.to_nat mid < length arr)%nat) by (unfold zlen in Hn; lia).
  pose proof (nth_count s arr key HS _ _ (nth_nth_error arr _ Hlen)) as Hnth.
  rewrite Z2Nat.id in Hnth by lia.
  destruct (ss_cmp s (nth (Z.to_nat mid) arr 0) key) eqn:Ecmp.
  - apply IH; lia.
  - apply IH; lia.
Qed.

Lemma ss_go_sorted s arr : StronglySorted Z.le arr ->
  forall keys last mn mx,
  mn = count_side s arr last \/ mn = 0 ->
  mx = count_side s arr last \/ mx = zlen arr ->
  ss_go s arr (zlen arr) last mn mx keys = map (count_side s arr) keys.
Proof.
  intros HS. induction keys as [|k t IH]; intros last mn mx Hmn Hmx; [reflexivity|].
  cbn [ss_go map].
  pose proof (count_side_bounds s arr k) as Hb.
  pose proof (count_side_bounds s arr last) as Hbl.
  assert (Hr : (let '(mn1, mx1) :=
                  if ss_cmp s last k then (mn, zlen arr)
                  else (0, if mx <? zlen arr then mx + 1 else zlen arr) in
                bs_loop s arr k (S (length arr)) mn1 mx1) = count_side s arr k).
  { destruct (ss_cmp s last k) eqn:Ec.
    - assert (last <= k) by (destruct s; cbn in Ec; lia).
      pose proof (count_side_mono s arr last k H).
      apply bs_loop_sorted; try assumption;
        unfold zlen in *; destruct Hmn; destruct Hmx; lia.
    - assert (k <= last) by (destruct s; cbn in Ec; lia).
      pose proof (count_side_mono s arr k last H).
      apply bs_loop_sorted; try assumption;
        unfold zlen in *; destruct (mx <? Z.of_nat (length arr)) eqn:E; destruct Hmn; destruct Hmx; lia. }
  destruct (if ss_cmp s last k then (mn, zlen arr)
            else (0, if mx <? zlen arr then mx + 1 else zlen arr)) as [mn1 mx1].
  rewrite Hr. f_equal. apply IH; left; reflexivity.
Qed.

Theorem searchsorted_sorted s arr keys : StronglySorted Z.le arr ->
  searchsorted s arr keys = map (count_side s arr) keys.
Proof.
  intros HS. unfold searchsorted. destruct keys as [|k0 t]; [reflexivity|].
  apply ss_go_sorted; auto.
Qed.

Lemma searchsorted1_sorted s arr key : StronglySorted Z.le arr ->
  searchsorted1 s arr key = count_side s arr key.
Proof. intros HS. unfold searchsorted1. rewrite searchsorted_sorted by assumption. reflexivity. Qed.

(* ---- is_monotonic -------------------------------------------------------- *)
Lemma is_monotonic_sorted l : is_monotonic l = true -> StronglySorted Z.le l.
Proof.
  intros H. apply Sorted_StronglySorted; [intros x y z; lia|].
  induction l as [|a t IH]; [constructor|].
  destruct t as [|b t'].
  - constructor; constructor.
  - change (is_monotonic (a :: b :: t')) with ((a <=? b) && is_monotonic (b :: t')) in H.
    apply andb_true_iff in H as [Hab Ht].
    constructor; [apply IH; exact Ht|]. constructor. lia.
Qed.

Lemma sorted_is_monotonic l : Sorted Z.le l -> is_monotonic l = true.
Proof.
  induction 1 as [|a t HS IH Hhd]; [reflexivity|].
  destruct t as [|b t']; [reflexivity|].
  change (is_monotonic (a :: b :: t')) with ((a <=? b) && is_monotonic (b :: t')).
  inversion Hhd; subst. rewrite IH. lia.
Qed.

(* ---- selections are filters ---------------------------------------------- *)
Lemma select_pos_filter {A} (p : Z -> bool) (q : A -> bool) (l : list A) : forall i0,
  (forall k r, nth_error l k = Some r -> p (i0 + Z.of_nat k) = q r) ->
  select_pos p i0 l = filter q l.
Proof.
  induction l as [|x t IH]; intros i0 H; [reflexivity|].
  cbn [select_pos filter].
  pose proof (H 0%nat x eq_refl) as H0. replace (i0 + Z.of_nat 0) with i0 in H0 by lia.
  rewrite H0.
  rewrite (IH (i0 + 1)).
  - reflexivity.
  - intros k r Hk. rewrite <- (H (S k) r Hk). f_equal. lia.
Qed.

Lemma mask_select_map {A} (q : A -> bool) (l : list A) : mask_select (map q l) l = filter q l.
Proof. induction l as [|x t IH]; [reflexivity|]. cbn. rewrite IH. reflexivity. Qed.

Lemma mask_idx_map {A} (p : Z -> bool) (f q : A -> bool) (l : list A) : forall i0,
  (forall k r, nth_error l k = Some r -> f r && p (i0 + Z.of_nat k) = q r) ->
  mask_idx p i0 (map f l) = map q l.
Proof.
  induction l as [|x t IH]; intros i0 H; [reflexivity|].
  cbn [map mask_idx].
  pose proof (H 0%nat x eq_refl) as H0. replace (i0 + Z.of_nat 0) with i0 in H0 by lia.
  rewrite H0. f_equal. apply IH.
  intros k r Hk. rewrite <- (H (S k) r Hk). do 2 f_equal. lia.
Qed.

Lemma mask_and_map {A} (f g : A -> bool) (l : list A) :
  mask_and (map f l) (map g l) = map (fun r => f r && g r) l.
Proof. induction l as [|x t IH]; [reflexivity|]. cbn. rewrite IH. reflexivity. Qed.

Lemma filter_ext_in' {A} (f g : A -> bool) (l : list A) :
  (forall x, In x l -> f x = g x) -> filter f l = filter g l.
Proof.
  induction l as [|x t IH]; intros H; [reflexivity|].
  cbn. rewrite (H x (or_introl eq_refl)). rewrite IH; [reflexivity|].
  intros y Hy. apply H. right. exact Hy.
Qed.

Lemma filter_all_true {A} (f : A -> bool) (l : list A) :
  (forall x, In x l -> f x = true) -> filter f l = l.
Proof.
  induction l as [|x t IH]; intros H; [reflexivity|].
  cbn. rewrite (H x (or_introl eq_refl)). f_equal. apply IH. intros y Hy. apply H. right. exact Hy.
Qed.

Lemma filter_all_false {A} (f : A -> bool) (l : list A) :
  (forall x, In x l -> f x = false) -> filter f l = [].
Proof.
  induction l as [|x t IH]; intros H; [reflexivity|].
  cbn. rewrite (H x (or_introl eq_refl)). apply IH. intros y Hy. apply H. right. exact Hy.
Qed.

Lemma nth_error_lt_zlen {A} (l : list A) k r : nth_error l k = Some r -> Z.of_nat k < zlen l.
Proof.
  intros H. assert (nth_error l k <> None) by congruence.
  apply nth_error_Some in H0. unfold zlen. lia.
Qed.
