(* C03 proofs, part 5: the statements of Props/C03.v in the form the model entry
   points compute them (flags from the three filters, any outlier mask, any
   breakpoint list). *)
From CNV Require Import Base.Prelude Base.Str Model.Arms Model.Segment Spec.Segments
  Proofs.SegTiles Proofs.SegArm Proofs.SegFields Proofs.SegChrom Gen.Params Gen.SegDefaults.

Lemma flag_bins_bins sl mw bins mask : map fst (flag_bins sl mw bins mask) = bins.
Proof.
  revert mask; induction bins as [|b t IH]; intros mask; cbn [flag_bins map fst]; [reflexivity|].
  rewrite IH. reflexivity.
Qed.

Section Flagged.
Variables (m : method) (sl : bool) (mw : Q) (bins : list bin) (mask : list bool) (bps : list Z).
Let fl := flag_bins sl mw bins mask.

Lemma p_tiling : bins_wf bins -> tiling bins (chrom_segs m fl bps).
Proof.
  intros H. pose proof (chrom_tiling m fl bps) as T. unfold fl in *. rewrite flag_bins_bins in T. apply T; exact H.
Qed.

Lemma p_accounting : bins_wf bins -> accounting (survivors fl) (chrom_segs m fl bps).
Proof.
  intros H. apply chrom_accounting. unfold fl. rewrite flag_bins_bins. exact H.
Qed.

Lemma p_arm_edges :
  bins_wf bins ->
  exists parts, concat parts = chrom_segs m fl bps /\
    Forall2 (fun a part => arm_edges (map fst a) (survivors a) part) (chrom_arms fl) parts.
Proof.
  intros H. apply chrom_arm_edges. unfold fl. rewrite flag_bins_bins. exact H.
Qed.

Lemma p_fields : bins_wf bins -> Forall (fields_ok bins) (chrom_segs m fl bps).
Proof.
  intros H. pose proof (chrom_fields m fl bps) as T. unfold fl in *. rewrite flag_bins_bins in T. apply T; exact H.
Qed.

Lemma p_log2 :
  bins_wf bins -> m <> MHaar ->
  Forall (fun b => (0 <= weight_of b)%Q) bins ->
  Forall (log2_mean_ok (survivors fl)) (chrom_segs m fl bps).
Proof.
  intros H Hm Hw. apply chrom_log2; [unfold fl; rewrite flag_bins_bins; exact H|exact Hm|].
  unfold survivors. apply Forall_map. apply Forall_filter.
  apply Forall_forall. intros x Hx. rewrite Forall_forall in Hw. apply Hw.
  rewrite <- (flag_bins_bins sl mw bins mask). apply in_map. exact Hx.
Qed.

End Flagged.

(* whole-table methods: one chromosome entry, flags from the filters *)
Section FlaggedHmm.
Variables (sl : bool) (mw : Q) (name : string) (bins : list bin) (mask : list bool) (bps : list Z) (a b : bool).
Let c := mkChrom name (flag_bins sl mw bins mask) bps.

Lemma h_tiling : bins_wf bins -> tiling bins (chrom_hmm_segs a b c).
Proof.
  intros H. pose proof (hmm_tiling a b c) as T. unfold c in *. cbn [c_fl] in T. rewrite flag_bins_bins in T. apply T; exact H.
Qed.

Lemma h_accounting : bins_wf bins -> accounting (survivors (c_fl c)) (chrom_hmm_segs a b c).
Proof.
  intros H. apply hmm_accounting. unfold c. cbn [c_fl]. rewrite flag_bins_bins. exact H.
Qed.

Lemma h_fields : Forall (fields_ok bins) (chrom_hmm_segs a b c).
Proof.
  pose proof (hmm_fields a b c) as T. unfold c in *. cbn [c_fl] in T. rewrite flag_bins_bins in T. exact T.
Qed.

Lemma h_log2 : bins_wf bins -> Forall (log2_mean_ok (survivors (c_fl c))) (chrom_hmm_segs a b c).
Proof.
  intros H. apply hmm_log2. unfold c. cbn [c_fl]. rewrite flag_bins_bins. exact H.
Qed.

End FlaggedHmm.

(* the survivor rule, with the property's / params.py's literal numbers *)
Lemma low_coverage_rule b :
  low_coverage b = true <-> (b_log2 b < -15 # 1)%Q \/ (b_depth b == 0)%Q.
Proof.
  unfold low_coverage. rewrite orb_true_iff, Qltb_true, Qeq_bool_iff.
  change (NULL_LOG2_COVERAGE - MIN_REF_COVERAGE)%Q with (-15 # 1)%Q. tauto.
Qed.

Lemma survives_rule sl mw o b :
  survives sl mw o b = true <->
  (sl = true -> low_coverage b = false) /\ o = false /\
  exists w, b_weight b = Some w /\
            (if Qeq_bool mw 0 then ~ (w == 0)%Q else ~ (w < mw)%Q).
Proof.
  unfold survives, weight_too_low. rewrite !andb_true_iff, !negb_true_iff.
  destruct (b_weight b) as [w|].
  - split.
    + intros ((H1 & H2) & H3). split.
      * intros ->. cbn in H1. exact H1.
      * split; [exact H2|]. exists w. split; [reflexivity|].
        destruct (Qeq_bool mw 0).
        -- intros Hw. apply Qeq_bool_iff in Hw. congruence.
        -- apply Qltb_false. exact H3.
    + intros (H1 & H2 & w' & [= <-] & H3). split; [split|].
      * destruct sl; [|reflexivity]. cbn. apply H1. reflexivity.
      * exact H2.
      * destruct (Qeq_bool mw 0).
        -- destruct (Qeq_bool w 0) eqn:Ew; [|reflexivity]. apply Qeq_bool_iff in Ew. contradiction.
        -- apply Qltb_false. exact H3.
  - split.
    + intros (_ & H3). discriminate.
    + intros (_ & _ & w & Hw & _). discriminate.
Qed.
