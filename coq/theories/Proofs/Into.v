(* Proofs for C07, part 4: into_ranges gives one value per query row in query
   order -- default / the value itself / the summary of the overlapping rows'
   values -- and the default summaries are what the property names: the distinct
   strings (joined by ","), the median of the non-NaN floats. *)
From CNV Require Import Base.Prelude Model.Ranges Model.Into Spec.RangeQuery
  Proofs.RangesLib Proofs.Ranges Proofs.RangesTables.
From CNV Require Gen.RangeDefaults.

(* ---- series2value --------------------------------------------------------- *)
Lemma series2value_total {V} (default : V) (F : list V -> V) (hits : list (Z * V)) :
  series2value default (fun h => Some (F (map snd h))) hits =
  Some (summary_spec default F (map snd hits)).
Proof. destruct hits as [|[l v] [|h2 t]]; reflexivity. Qed.

Lemma series2value_few {V} (default : V) f (hits : list (Z * V)) :
  (length hits <= 1)%nat ->
  series2value default f hits = Some (match hits with [] => default | (_, v) :: _ => v end).
Proof. destruct hits as [|[l v] [|h2 t]]; cbn; intros; try reflexivity; lia. Qed.

(* the values of the rows that overlap query row b, in table order *)
Definition hits_of {V} (source : list trow) (col : Z -> V) (b : trow) : list (Z * V) :=
  map (fun r => (r_id r, col (r_id r)))
      (outer_spec (r_lo (snd b)) (r_hi (snd b)) (rows_of (fst b) source)).

Theorem into_ranges_hits {V} (source dest : list trow) (col : Z -> V) default f :
  dest <> [] -> table_ok source -> grouped dest ->
  into_ranges source dest col default f =
  Some (map (fun b => series2value default f (hits_of source col b)) dest).
Proof.
  intros Hd Hok Hg. unfold into_ranges.
  destruct dest as [|d0 dr]; [congruence|]. destruct source as [|s0 sr].
  - reflexivity.
  - (* into_ranges calls iter_slices(source, dest, "outer", True): literals generated from the source *)
    change (imode_of_name RangeDefaults.into_slices_mode) with Outer.
    change RangeDefaults.into_slices_keep_empty with true.
    rewrite iter_slices_answers by assumption.
    rewrite filter_all_true by (intros x _; reflexivity).
    rewrite answers_map, !map_map. reflexivity.
Qed.

Theorem into_ranges_summary {V} (source dest : list trow) (col : Z -> V) default (F : list V -> V) :
  dest <> [] -> table_ok source -> grouped dest ->
  into_ranges source dest col default (fun h => Some (F (map snd h))) =
  Some (map (fun b => Some (summary_spec default F (map snd (hits_of source col b)))) dest).
Proof.
  intros. rewrite into_ranges_hits by assumption. f_equal.
  apply map_ext. intros b. apply series2value_total.
Qed.

(* a constant "summary" (make_const) is the total function fun _ => v *)
Lemma const_of_total {V} (v : V) : const_of v = (fun h => Some ((fun _ : list V => v) (map snd h))).
Proof. reflexivity. Qed.

(* first_of: the first hit's value (by position) *)
Theorem first_of_spec {V} (hits : list (Z * V)) :
  first_of hits = option_map snd (hd_error hits).
Proof. destruct hits as [|[l v] t]; reflexivity. Qed.

(* ---- join_strings: the distinct strings -------------------------------------- *)
Lemma NoDup_distinct l : NoDup (distinct l).
Proof.
  induction l as [|x t IH]; [constructor|].
  cbn [distinct]. constructor.
  - intros Hin. apply filter_In in Hin as [_ Hx]. rewrite String.eqb_refl in Hx. discriminate.
  - apply NoDup_filter. exact IH.
Qed.

Theorem distinct_spec l : is_distinct_of (distinct l) l.
Proof. split; [apply NoDup_distinct|]. intros x. apply In_distinct. Qed.

(* distinct is pandas.unique: a left-to-right scan appending the unseen *)
Lemma distinct_snoc l x :
  distinct (l ++ [x]) = if existsb (String.eqb x) l then distinct l else distinct l ++ [x].
Proof.
  induction l as [|y t IH]; [reflexivity|].
  cbn [app distinct existsb]. rewrite IH.
  destruct (String.eqb x y) eqn:Exy; cbn [orb].
  - destruct (existsb (String.eqb x) t); [reflexivity|].
    rewrite filter_app. cbn [filter]. rewrite Exy. cbn [negb]. rewrite app_nil_r. reflexivity.
  - destruct (existsb (String.eqb x) t); [reflexivity|].
    rewrite filter_app. cbn [filter]. rewrite Exy. cbn [negb]. reflexivity.
Qed.

Lemma existsb_distinct l x : existsb (String.eqb x) (distinct l) = existsb (String.eqb x) l.
Proof.
  destruct (existsb (String.eqb x) l) eqn:E.
  - apply existsb_exists in E as [y [Hy Exy]]. apply existsb_exists. exists y.
    split; [apply In_distinct; exact Hy|exact Exy].
  - destruct (existsb (String.eqb x) (distinct l)) eqn:E'; [|reflexivity].
    apply existsb_exists in E' as [y [Hy Exy]].
    assert (existsb (String.eqb x) l = true) as Ht.
    { apply existsb_exists. exists y. split; [apply In_distinct; exact Hy|exact Exy]. }
    congruence.
Qed.

Theorem distinct_unique_scan l : distinct l = unique_scan l.
Proof.
  unfold unique_scan. induction l as [|x t IH] using rev_ind; [reflexivity|].
  rewrite fold_left_app. cbn [fold_left]. rewrite <- IH.
  rewrite existsb_distinct. apply distinct_snoc.
Qed.

(* the first occurrences keep their order: the head of the input leads the output *)
Lemma distinct_head x t : hd_error (distinct (x :: t)) = Some x.
Proof. reflexivity. Qed.

(* the separator is the property's literal "," (generated: RangeDefaults.join_sep) *)
Theorem join_strings_spec hits :
  join_strings hits = Some (String.concat "," (distinct (map snd hits))).
Proof. unfold join_strings. change RangeDefaults.join_sep with ","%string. reflexivity. Qed.

(* ---- nanmedian ------------------------------------------------------------------ *)
Lemma insertQ_perm x l : Permutation (insertQ x l) (x :: l).
Proof.
  induction l as [|y t IH]; [apply Permutation_refl|].
  cbn [insertQ]. destruct (Qle_bool x y); [apply Permutation_refl|].
  eapply Permutation_trans; [apply perm_skip; exact IH|apply perm_swap].
Qed.

Lemma sortQ_perm l : Permutation (sortQ l) l.
Proof.
  induction l as [|x t IH]; [apply Permutation_refl|].
  cbn [sortQ fold_right]. eapply Permutation_trans; [apply insertQ_perm|].
  apply perm_skip. exact IH.
Qed.

Lemma insertQ_sorted x l : StronglySorted Qle l -> StronglySorted Qle (insertQ x l).
Proof.
  induction 1 as [|y t HS IH Hall]; [repeat constructor|].
  cbn [insertQ]. destruct (Qle_bool x y) eqn:E.
  - apply Qle_bool_iff in E. constructor; [constructor; assumption|].
    constructor; [exact E|].
    rewrite Forall_forall in *. intros z Hz. eapply Qle_trans; [exact E|apply Hall; exact Hz].
  - assert (Hyx : (y <= x)%Q).
    { apply Qlt_le_weak. apply Qnot_le_lt. intros Hle. apply Qle_bool_iff in Hle. congruence. }
    constructor; [exact IH|].
    rewrite Forall_forall in *. intros z Hz.
    apply (Permutation_in _ (insertQ_perm x t)) in Hz. destruct Hz as [<-|Hz]; [exact Hyx|].
    apply Hall. exact Hz.
Qed.

Lemma sortQ_sorted l : StronglySorted Qle (sortQ l).
Proof.
  induction l as [|x t IH]; [constructor|]. cbn [sortQ fold_right]. apply insertQ_sorted. exact IH.
Qed.

Theorem medianQ_spec l m : medianQ l = Some m -> is_median m l.
Proof.
  unfold medianQ. intros H. exists (sortQ l).
  split; [apply sortQ_perm|]. split; [apply sortQ_sorted|].
  cbv zeta. set (s := sortQ l) in *. set (n := length s) in *.
  destruct n as [|n'] eqn:En; [discriminate|]. rewrite <- En in *.
  destruct (Nat.odd n) eqn:Eo.
  - left. split; [reflexivity|]. exists m. split; [exact H|reflexivity].
  - right. split; [reflexivity|].
    destruct (nth_error s (n / 2 - 1)) as [a|]; [|discriminate].
    destruct (nth_error s (n / 2)) as [b|]; [|discriminate].
    exists a, b. split; [reflexivity|]. split; [reflexivity|].
    replace m with (Qred ((a + b) / 2)) by congruence. apply Qred_correct.
Qed.

Theorem medianQ_none l : medianQ l = None <-> l = [].
Proof.
  split.
  - unfold medianQ. intros H.
    pose proof (Permutation_length (sortQ_perm l)) as Hlen.
    set (s := sortQ l) in *. set (n := length s) in *.
    destruct n as [|n'] eqn:En.
    + destruct l; [reflexivity|cbn in Hlen; lia].
    + exfalso. rewrite <- En in *.
      assert (Hn : (0 < n)%nat) by lia.
      assert (H2 : (n / 2 < n)%nat) by (apply Nat.div_lt; lia).
      destruct (Nat.odd n) eqn:Eo.
      * apply nth_error_None in H. fold n in H. lia.
      * destruct (nth_error s (n / 2 - 1)) eqn:E1.
        -- destruct (nth_error s (n / 2)) eqn:E2; [discriminate|].
           apply nth_error_None in E2. fold n in E2. lia.
        -- apply nth_error_None in E1. fold n in E1. lia.
  - intros ->. reflexivity.
Qed.

Theorem nanmedian_spec hits :
  nanmedian hits = Some (medianQ (somes (map snd hits))).
Proof. reflexivity. Qed.

Theorem into_strings_spec hits :
  join_strings hits = Some (String.concat "," (unique_scan (map snd hits))) /\
  is_distinct_of (unique_scan (map snd hits)) (map snd hits).
Proof.
  rewrite <- distinct_unique_scan. split; [apply join_strings_spec|apply distinct_spec].
Qed.

Theorem into_median_spec hits :
  nanmedian hits = Some (medianQ (somes (map snd hits))) /\
  (forall m, medianQ (somes (map snd hits)) = Some m -> is_median m (somes (map snd hits))) /\
  (medianQ (somes (map snd hits)) = None <-> somes (map snd hits) = []).
Proof.
  split; [apply nanmedian_spec|]. split; [intros m; apply medianQ_spec|apply medianQ_none].
Qed.

