(* C04, values: constant shift with the corrections off (C04_constant_shift), the output is
   centred (C04_centred), a depth shift of the sample leaves the output unchanged
   (C04_depth_invariance). *)
From CNV Require Import Base.Prelude Base.Str Base.QNum Model.Chromsort Proofs.ChromsortLemmas
  Proofs.QNumLemmas Model.Smoothing Model.Fix Spec.Fix Proofs.FixLib Proofs.FixBins
  Gen.Params Gen.FixDefaults Gen.DescDefaults.
From Coq Require Import Qround Qabs Setoid Morphisms Psatz.
Local Open Scope Q_scope.
Local Opaque Qred.

(* ------------------------------------------------------------------------ *)
(* median of chromosome medians under a shift                                  *)

Definition prel (d : Q) (p p' : string * Q) : Prop := fst p' = fst p /\ snd p' == snd p + d.

Lemma prel_map_fst d l l' : Forall2 (prel d) l l' -> map fst l' = map fst l.
Proof. induction 1 as [|p p' l l' [E _] H IH]; cbn; congruence. Qed.

Lemma chrom_values_rel d l l' c :
  Forall2 (prel d) l l' -> eqQ (chrom_values l' c) (map (fun x => x + d) (chrom_values l c)).
Proof.
  unfold chrom_values. induction 1 as [|p p' l l' [E1 E2] H IH]; cbn; [constructor|].
  rewrite E1. destruct (String.eqb c (fst p)); cbn; auto.
Qed.

Lemma chrom_values_nonnil l c : In c (map fst l) -> chrom_values l c <> [].
Proof.
  unfold chrom_values. intros H. apply in_map_iff in H as (p & E & Hp).
  assert (Hin : In p (filter (fun q => String.eqb c (fst q)) l)).
  { apply filter_In. split; auto. rewrite E. apply String.eqb_refl. }
  intro Z. destruct (filter _ l); [contradiction|discriminate].
Qed.

Lemma cmed_shift_rel d l l' : Forall2 (prel d) l l' -> l <> [] -> cmed l' == cmed l + d.
Proof.
  intros H N. unfold cmed.
  assert (E : eqQ (chrom_medians l') (map (fun x => x + d) (chrom_medians l))).
  { unfold chrom_medians. rewrite (prel_map_fst d l l' H). rewrite map_map.
    assert (G : forall cs, (forall c, In c cs -> In c (map fst l)) ->
                eqQ (map (fun c => median (chrom_values l' c)) cs)
                    (map (fun c => median (chrom_values l c) + d) cs)).
    { induction cs as [|c cs IH]; intros Hc; cbn; constructor.
      - rewrite (median_eqQ _ _ (chrom_values_rel d l l' c H)).
        apply median_shift. apply chrom_values_nonnil. apply Hc. now left.
      - apply IH. intros; apply Hc; now right. }
    apply G. intros c Hc. now apply distinct_In. }
  rewrite (median_eqQ _ _ E). apply median_shift.
  unfold chrom_medians. destruct l as [|p t]; [congruence|]. cbn. discriminate.
Qed.

(* ------------------------------------------------------------------------ *)
(* center_all as a shift                                                        *)

Definition center_shift (c : cfg) (k : bool) (l : list brow) : Q :=
  match center_sel c k l with [] => 0 | sel => Qred (- cmed (map cl2 sel)) end.

Lemma center_all_eq c k l :
  center_all c k l = match center_sel c k l with [] => l | _ => map (badd_log2 (center_shift c k l)) l end.
Proof. unfold center_all, center_shift. destruct (center_sel c k l); reflexivity. Qed.

Lemma blog2_badd s b : blog2 (badd_log2 s b) == blog2 b + s.
Proof. change (blog2 (badd_log2 s b)) with (Qred (blog2 b + s)). apply Qred_correct. Qed.

Lemma center_all_In c k l b : In b (center_all c k l) ->
  exists b0, In b0 l /\ bkey b = bkey b0 /\ snd b = snd b0 /\ blog2 b == blog2 b0 + center_shift c k l.
Proof.
  rewrite center_all_eq. unfold center_shift. destruct (center_sel c k l) as [|x0 sel'] eqn:E.
  - intros H. exists b. repeat split; auto. ring.
  - intros H. apply in_map_iff in H as (b0 & <- & H0). exists b0. repeat split; auto. apply blog2_badd.
Qed.

(* ------------------------------------------------------------------------ *)
(* constant shift with the corrections off                                      *)

Definition traces (samp : list srow) (ref : list rrow) (d : Q) (b : brow) : Prop :=
  exists s, In s samp /\ skey s = bkey b /\ lookup ref (skey s) = Some (snd b) /\ blog2 b == s_log2 s + d.

Lemma corrections_off c perm wing l : corrections c false false false perm wing l = l.
Proof. reflexivity. Qed.

Lemma load_adjust_off c ref is_t perm wing samp t :
  do_gc c = false -> do_edge c = false -> do_rmask c = false ->
  load_adjust c ref is_t perm wing samp = inr t ->
  exists sh, forall b, In b t -> traces samp ref sh b.
Proof.
  intros E1 E2 E3. unfold load_adjust. destruct samp as [|s0 samp'].
  { intros E; injection E as <-. exists 0. intros b []. }
  set (samp := s0 :: samp') in *.
  destruct (match_ref ref (presort samp)) as [e|m] eqn:M; [discriminate|].
  apply match_ref_inr in M as (M1 & M2 & _ & _).
  rewrite E1, E2, E3, !andb_false_r, corrections_off.
  intros E. assert (Et : t = center_all c is_t (mask_bad c m)) by (destruct (mostly_low _); now injection E as <-).
  subst t. exists (center_shift c is_t (mask_bad c m)). intros b Hb.
  apply center_all_In in Hb as (b0 & H0 & K & Sn & V).
  apply filter_In in H0 as [H0 _].
  rewrite Forall_forall in M2. specialize (M2 b0 H0). unfold bref_ok in M2.
  exists (fst b0). repeat split.
  - assert (Hin : In (fst b0) (presort samp)) by (rewrite <- M1; now apply in_map).
    rewrite presort_eq in Hin. now apply sort_regions_In in Hin.
  - now rewrite K.
  - rewrite Sn. exact M2.
  - exact V.
Qed.

Definition traces2 (samp : list srow) (ref : list rrow) (d : Q) (b : brow) : Prop :=
  exists s r, In s samp /\ skey s = bkey b /\ ref_row ref (skey s) = Some r /\
              blog2 b == s_log2 s - r_log2 r + d.

Theorem constant_shift_thm bmv2 c o sq target anti ref out :
  do_gc c = false -> do_edge c = false -> do_rmask c = false ->
  do_fix_gen bmv2 c o sq target anti ref = inr out ->
  exists ct ca, forall p, In p out -> traces2 target ref ct (fst p) \/ traces2 anti ref ca (fst p).
Proof.
  intros E1 E2 E3. unfold do_fix_gen, fix_pre.
  destruct (load_adjust c ref true (perm_t o) (wing_t o) target) as [e|t] eqn:T; [discriminate|].
  destruct (load_adjust c ref false (perm_a o) (wing_a o) anti) as [e|a] eqn:A; [discriminate|].
  intros E; injection E as <-.
  destruct (load_adjust_off _ _ _ _ _ _ _ E1 E2 E3 T) as (st & Ht).
  destruct (load_adjust_off _ _ _ _ _ _ _ E1 E2 E3 A) as (sa & Ha).
  set (all := match a with [] => t | _ => sort_brows (t ++ a) end).
  assert (Hall : forall b, In b all -> In b t \/ In b a).
  { unfold all. destruct a as [|a0 a']; [auto|]. intros b Hb. unfold sort_brows in Hb.
    rewrite sort_regions_fast_eq in Hb. apply sort_regions_In in Hb. now apply in_app_or. }
  set (l := map (fun b => bset_log2 (Qred (blog2 b - r_log2 (snd b))) b) all).
  set (sf := center_shift c true l).
  exists (st + sf), (sa + sf). intros p Hp.
  unfold fix_post, apply_weights in Hp. apply in_map_iff in Hp as (b2 & <- & Hb2). cbn [fst].
  apply center_all_In in Hb2 as (b1 & Hb1 & K1 & S1 & V1). fold sf in V1.
  unfold l in Hb1. apply in_map_iff in Hb1 as (b0 & <- & Hb0).
  assert (V0 : blog2 (bset_log2 (Qred (blog2 b0 - r_log2 (snd b0))) b0) == blog2 b0 - r_log2 (snd b0)).
  { change (blog2 (bset_log2 (Qred (blog2 b0 - r_log2 (snd b0))) b0)) with (Qred (blog2 b0 - r_log2 (snd b0))).
    apply Qred_correct. }
  destruct (Hall b0 Hb0) as [H|H]; [left; destruct (Ht b0 H) as (s & Hs & Ks & Ls & Vs)
                                   |right; destruct (Ha b0 H) as (s & Hs & Ks & Ls & Vs)];
    exists s, (snd b0); (split; [exact Hs|]); (split; [rewrite K1; exact Ks|]); (split; [exact Ls|]);
    rewrite V1, V0, Vs; ring.
Qed.

(* ------------------------------------------------------------------------ *)
(* centred                                                                      *)

Definition nonnull_rows (c : cfg) (rows : list brow) : list brow :=
  filter (fun b => negb (null_cov_b c (fst b))) rows.

Lemma low_cut_val : low_cut == -15.
Proof. unfold low_cut. rewrite Qred_correct. reflexivity. Qed.

Lemma low_b_null c b : low_b c b = null_cov_b c (fst b).
Proof.
  unfold low_b, null_cov_b, blog2.
  rewrite (qlt_b_Qeq (s_log2 (fst b)) (s_log2 (fst b)) low_cut (-15)); [reflexivity|reflexivity|apply low_cut_val].
Qed.

Lemma existsb_map {A B} (f : A -> B) (p : B -> bool) l : existsb p (map f l) = existsb (fun x => p (f x)) l.
Proof. induction l; cbn; auto. now rewrite IHl. Qed.

Lemma center_sel_spec c l :
  map cl2 (center_sel c true l) = centre_rows (map cl2 (nonnull_rows c l)).
Proof.
  unfold center_sel, centre_rows, nonnull_rows.
  rewrite (filter_ext_In' (fun b => negb (low_b c b)) (fun b => negb (null_cov_b c (fst b))) l)
    by (intros; now rewrite low_b_null).
  rewrite existsb_map. unfold autosomal, is_auto. cbn [fst cl2].
  destruct (existsb _ _); auto. now rewrite filter_map_comm.
Qed.

Lemma cl2_badd_rel s l : Forall2 (prel s) (map cl2 l) (map cl2 (map (badd_log2 s) l)).
Proof.
  induction l as [|b t IH]; cbn [map]; constructor; auto. split; [reflexivity|]. cbn [snd cl2]. apply blog2_badd.
Qed.

Lemma center_sel_badd c s l :
  (forall b, In b l -> null_cov_b c (fst (badd_log2 s b)) = null_cov_b c (fst b)) ->
  center_sel c true (map (badd_log2 s) l) = map (badd_log2 s) (center_sel c true l).
Proof.
  intros St. unfold center_sel.
  assert (F : filter (fun b => negb (low_b c b)) (map (badd_log2 s) l)
              = map (badd_log2 s) (filter (fun b => negb (low_b c b)) l)).
  { rewrite filter_map_comm. f_equal. apply filter_ext_In'. intros b Hb.
    now rewrite !low_b_null, St. }
  rewrite F, existsb_map. cbn. change (fun x => is_auto (badd_log2 s x)) with is_auto.
  destruct (existsb is_auto _); auto. rewrite filter_map_comm. reflexivity.
Qed.

Theorem centred_thm bmv2 c o sq target anti ref out :
  do_fix_gen bmv2 c o sq target anti ref = inr out ->
  exists pre s,
    (map fst out = pre \/ map fst out = map (badd_log2 s) pre) /\
    ((forall b, In b pre -> null_cov_b c (fst (badd_log2 s b)) = null_cov_b c (fst b)) ->
     centred (map cl2 (nonnull_rows c (map fst out)))).
Proof.
  unfold do_fix_gen. destruct (fix_pre c o target anti ref) as [e|pre] eqn:F; [discriminate|].
  intros E; injection E as <-. exists pre, (center_shift c true pre).
  assert (R : map fst (fix_post c sq (bmv2 (class_residuals c false pre)) (bmv2 (class_residuals c true pre)) pre)
              = center_all c true pre).
  { unfold fix_post, apply_weights. rewrite map_map. cbn [fst]. apply map_id. }
  rewrite R, center_all_eq. unfold centred. destruct (center_sel c true pre) as [|b0 sel'] eqn:S.
  - split; [now left|]. intros _ N. exfalso. apply N. rewrite <- center_sel_spec, S. reflexivity.
  - split; [now right|]. intros St N.
    rewrite <- center_sel_spec, center_sel_badd by exact St.
    rewrite (cmed_shift_rel _ _ _ (cl2_badd_rel (center_shift c true pre) (center_sel c true pre))).
    + unfold center_shift. rewrite S. rewrite Qred_correct. ring.
    + rewrite S. discriminate.
Qed.
