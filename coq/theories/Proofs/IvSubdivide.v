(* Facts about the subdivide model (Model/Intervals.v: round_div, nbins,
   bins_from, split_row): the rounding rule, the bins tile the row, every bin
   size is within one of span / n under the cut oracle contract. *)
From CNV Require Import Base.Prelude Model.IvRow Model.Intervals Spec.Cover Proofs.IvCover.

(* ---- rounding ------------------------------------------------------------ *)

Lemma round_div_half_even (s a : Z) : 0 < a -> is_round_half_even s a (round_div s a).
Proof.
  intros Ha. unfold is_round_half_even, round_div.
  pose proof (Z.div_mod s a ltac:(lia)) as Hdm.
  pose proof (Z.mod_pos_bound s a Ha) as Hr.
  set (q := s / a) in *. set (r := s mod a) in *.
  destruct (2 * r <? a) eqn:E1.
  - apply Z.ltb_lt in E1.
    assert (Hs : s - q * a = r) by lia. rewrite Hs. split; lia.
  - apply Z.ltb_ge in E1.
    destruct (a <? 2 * r) eqn:E2.
    + apply Z.ltb_lt in E2.
      assert (Hs : s - (q + 1) * a = r - a) by lia. rewrite Hs. split; lia.
    + apply Z.ltb_ge in E2.
      destruct (Z.even q) eqn:E3.
      * assert (Hs : s - q * a = r) by lia. rewrite Hs. split; [lia | auto].
      * assert (Hs : s - (q + 1) * a = r - a) by lia. rewrite Hs. split; [lia |].
        intros _. rewrite Z.add_1_r, Z.even_succ, <- Z.negb_even, E3. reflexivity.
Qed.

Lemma round_div_nonneg (s a : Z) : 0 < a -> 0 <= s -> 0 <= round_div s a.
Proof.
  intros Ha Hs. unfold round_div.
  assert (Hq : 0 <= s / a) by (apply Z.div_pos; lia).
  destruct (2 * (s mod a) <? a); [lia|].
  destruct (a <? 2 * (s mod a)); [lia|].
  destruct (Z.even (s / a)); lia.
Qed.

Lemma round_div_le (s a : Z) : 1 <= a -> 1 <= s -> round_div s a <= s.
Proof.
  intros Ha Hs. unfold round_div.
  pose proof (Z.div_mod s a ltac:(lia)) as Hdm.
  pose proof (Z.mod_pos_bound s a ltac:(lia)) as Hr.
  assert (Hq : 0 <= s / a) by (apply Z.div_pos; lia).
  set (q := s / a) in *. set (r := s mod a) in *.
  assert (Hq1 : q <= s) by nia.
  assert (Hq2 : a <= 2 * r -> q + 1 <= s) by nia.
  destruct (2 * r <? a) eqn:E1; [lia|]. apply Z.ltb_ge in E1.
  destruct (a <? 2 * r); [lia|].
  destruct (Z.even q); lia.
Qed.

Lemma nbins_spec (avg span : Z) :
  0 < avg -> nbins avg span = (if round_div span avg =? 0 then 1 else round_div span avg).
Proof. intros _. reflexivity. Qed.

Lemma nbins_max (avg span : Z) :
  0 < avg -> 0 <= span -> nbins avg span = Z.max 1 (round_div span avg).
Proof.
  intros Ha Hs. unfold nbins.
  pose proof (round_div_nonneg span avg Ha Hs) as H.
  destruct (round_div span avg =? 0) eqn:E; lia.
Qed.

Lemma nbins_le_span (avg span : Z) : 1 <= avg -> 1 <= span -> 1 <= nbins avg span <= span.
Proof.
  intros Ha Hs. rewrite nbins_max by lia.
  pose proof (round_div_le span avg Ha Hs). lia.
Qed.

(* ---- bins ---------------------------------------------------------------- *)

Lemma bins_from_spec {A} (cut : Z -> Z) (s0 e : Z) (p : A) (k : nat) (i bs : Z) :
  let out := bins_from cut s0 bs i k e p in
  length out = S k /\ tiles bs e out /\ Forall (fun b => pay b = p) out.
Proof.
  cbv zeta. revert i bs. induction k as [|k IH]; intros i bs; cbn [bins_from].
  - split; [reflexivity|]. split; [cbn; auto|]. constructor; [reflexivity | constructor].
  - destruct (IH (i + 1) (s0 + cut i)) as [Hl [Ht Hp]].
    split; [cbn [length]; rewrite Hl; reflexivity|].
    split.
    + cbn [tiles]. split; [reflexivity | exact Ht].
    + constructor; [reflexivity | exact Hp].
Qed.

Lemma bins_sizes_gen {A} (cut : Z -> Z) (s0 e : Z) (p : A) (n : Z) :
  cut_contract (e - s0) n cut ->
  forall (k : nat) (i bs : Z),
    Z.of_nat k = n - i -> 1 <= i ->
    (i - 1) * (e - s0) - n <= n * (bs - s0) <= (i - 1) * (e - s0) ->
    Forall (fun b : @row A => (e - s0) - n <= n * (hi b - lo b) <= (e - s0) + n)
           (bins_from cut s0 bs i k e p).
Proof.
  intros Hc. induction k as [|k IH]; intros i bs Hk Hi Hbs; cbn [bins_from].
  - constructor; [|constructor]. unfold hi, lo; cbn [fst snd].
    assert (Hin : i = n) by lia. subst i. nia.
  - pose proof (Hc i ltac:(lia)) as Hci.
    constructor.
    + unfold hi, lo; cbn [fst snd]. nia.
    + apply IH; [lia | lia |].
      replace (s0 + cut i - s0) with (cut i) by lia.
      replace (i + 1 - 1) with i by lia. exact Hci.
Qed.

Lemma bins_sizes {A} (cut : Z -> Z) (s0 e : Z) (p : A) (n : Z) :
  2 <= n -> cut_contract (e - s0) n cut ->
  Forall (fun b => (e - s0) - n <= n * (hi b - lo b) <= (e - s0) + n)
         (bins_from cut s0 s0 1 (Z.to_nat (n - 1)) e p).
Proof.
  intros Hn Hc. apply bins_sizes_gen; auto; lia.
Qed.

(* ---- split_row ----------------------------------------------------------- *)

Lemma split_row_spec {A} (avg mn : Z) (cut : Z -> Z -> Z -> Z) (r : @row A) :
  0 < avg -> lo r < hi r ->
  (forall span n, cut_contract span n (cut span n)) ->
  let span := hi r - lo r in
  let n := Z.max 1 (round_div span avg) in
  (span < mn -> split_row avg mn cut r = []) /\
  (mn <= span ->
     let out := split_row avg mn cut r in
     Z.of_nat (length out) = n /\ tiles (lo r) (hi r) out /\
     Forall (fun b => pay b = pay r /\ span - n <= n * (hi b - lo b) <= span + n) out).
Proof.
  intros Ha Hr Hc span n. unfold split_row. fold span.
  rewrite (nbins_max avg span) by (unfold span; lia). fold n.
  split.
  - intros Hlt. apply Z.ltb_lt in Hlt. rewrite Hlt. reflexivity.
  - intros Hge. cbv zeta. apply Z.ltb_ge in Hge. rewrite Hge.
    destruct (n =? 1) eqn:En.
    + apply Z.eqb_eq in En. split; [cbn; lia|].
      split; [cbn; auto|].
      constructor; [|constructor]. split; [reflexivity|]. fold span. lia.
    + apply Z.eqb_neq in En. assert (Hn : 2 <= n) by (unfold n in *; lia).
      destruct (bins_from_spec (cut span n) (lo r) (hi r) (pay r) (Z.to_nat (n - 1)) 1 (lo r))
        as [Hl [Ht Hp]].
      split; [rewrite Hl; lia|]. split; [exact Ht|].
      pose proof (bins_sizes (cut span n) (lo r) (hi r) (pay r) n Hn (Hc span n)) as Hs.
      fold span in Hs.
      rewrite Forall_forall in *. intros b Hb. split; auto.
Qed.

(* ---- cover of a tiling --------------------------------------------------- *)

Lemma tiles_le {A} (s e : Z) (t : list (@row A)) : tiles s e t -> valid t -> s <= e.
Proof.
  revert s. induction t as [|r t IH]; intros s Ht Hv; cbn [tiles] in Ht.
  - lia.
  - destruct Ht as [Hlo Ht]. apply valid_cons in Hv as [Hr Hv].
    specialize (IH _ Ht Hv). lia.
Qed.

Lemma tiles_covers {A} (s e : Z) (t : list (@row A)) :
  tiles s e t -> valid t -> forall x, covers t x <-> s <= x < e.
Proof.
  revert s. induction t as [|r t IH]; intros s Ht Hv x; cbn [tiles] in Ht.
  - split; [intros H; destruct (covers_nil _ H) | lia].
  - destruct Ht as [Hlo Ht]. apply valid_cons in Hv as [Hr Hv].
    pose proof (tiles_le _ _ _ Ht Hv) as Hle.
    rewrite covers_cons, (IH _ Ht Hv). lia.
Qed.
