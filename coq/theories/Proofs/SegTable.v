(* C03 proofs, part 11: the per-arm report of the whole-table model (arm_full: what
   _do_segmentation returns for one arm) against the arm_segs of the theorems in Props/C03.v:
   identical for breakpoints given as an oracle (none; haar with the code's breakpoints), and
   identical up to the log2 column for haar computed by the C11 core. *)
From CNV Require Import Base.Prelude Base.Str Gen.SegDefaults Model.Arms Model.Segment Spec.Segments
  Proofs.SegTiles Proofs.SegArm Proofs.SegFields Proofs.SegChrom Proofs.SegSlices Proofs.SegVariants Proofs.SegHaar.

Lemma raw_of_stretch_lo m v rs : map (raw_of m) (stretch_lo v rs) = raw_stretch_lo v (map (raw_of m) rs).
Proof. destruct rs as [|r t]; reflexivity. Qed.

Lemma raw_of_stretch_hi m v : forall rs, map (raw_of m) (stretch_hi v rs) = raw_stretch_hi v (map (raw_of m) rs).
Proof.
  induction rs as [|r t IH]; [reflexivity|]. destruct t as [|r2 t2]; [reflexivity|].
  change (stretch_hi v (r :: r2 :: t2)) with (r :: stretch_hi v (r2 :: t2)).
  cbn [map]. change (raw_stretch_hi v (raw_of m r :: raw_of m r2 :: map (raw_of m) t2))
    with (raw_of m r :: raw_stretch_hi v (raw_of m r2 :: map (raw_of m) t2)).
  f_equal. exact IH.
Qed.

Lemma arm_segs_nil_rows m fl bps : survivors fl = [] -> arm_segs m fl bps = [].
Proof. intros H. unfold arm_segs. rewrite (arm_rsegs_nil fl bps H). reflexivity. Qed.

(* the rows handed to transfer_fields, stretched, are the arm's segment chain *)
Lemma stretched_given m fl bps :
  stretched (map fst fl) (map (raw_of m) (map seg_of_group (groups_of_breaks bps (survivors fl)))) =
  map (raw_of m) (arm_rsegs fl bps).
Proof.
  unfold stretched, arm_rsegs. destruct fl as [|f t]; [reflexivity|].
  cbn [map]. rewrite raw_of_stretch_hi, raw_of_stretch_lo.
  rewrite last_cons. rewrite <- (last_map fst t f). reflexivity.
Qed.

Section ArmGiven.
Context {B : Type} (baf : Z -> Z -> B).

Lemma arm_rows_given m bps fl :
  arm_rows (AGiven m bps) fl None = Some (match survivors fl with [] => [] | _ => method_rows (AGiven m bps) (survivors fl) end).
Proof. unfold arm_rows. destruct (survivors fl); reflexivity. Qed.

(* breakpoints as an oracle, no variants: the report of the arm is arm_segs *)
Theorem arm_full_given c m bps fl out :
  bins_wf (map fst fl) -> 0 <= span_lo (map fst fl) ->
  arm_full baf c (AGiven m bps) fl None = Some out -> map fst out = arm_segs m fl bps.
Proof.
  intros H He Ho. destruct (arm_full_spec baf c _ fl None out H He Ho) as (rows & Hr & _ & _ & Hf & _).
  rewrite Hf. unfold arm_segs. rewrite arm_rows_given in Hr. injection Hr as <-.
  destruct (survivors fl) as [|s st] eqn:Es.
  - rewrite (arm_rsegs_nil fl bps Es). unfold stretched. destruct (map fst fl); reflexivity.
  - rewrite <- Es. unfold method_rows. rewrite stretched_given. rewrite map_map. reflexivity.
Qed.

Lemma arm_rows_cases am fl rows :
  arm_rows am fl None = Some rows ->
  (survivors fl = [] /\ rows = []) \/ (survivors fl <> [] /\ rows = method_rows am (survivors fl)).
Proof.
  unfold arm_rows. destruct (survivors fl) as [|s st] eqn:Es; intros Hr; injection Hr as <-.
  - left. split; reflexivity.
  - right. split; [discriminate|reflexivity].
Qed.

(* haar computed by the C11 core, no variants: the report of the arm is arm_segs at the
   computed breakpoints, up to the log2 column *)
Theorem arm_full_haar c su sw q os fl out :
  bins_wf (map fst fl) -> 0 <= span_lo (map fst fl) ->
  oracle_fits (arm_split b_lo b_hi (survivors fl)) os ->
  arm_full baf c (AHaar su sw q os) fl None = Some out ->
  map strip (map fst out) =
  map strip (arm_segs MHaar fl (haar_arm_bps su sw q 0 (arm_split b_lo b_hi (survivors fl)) os)).
Proof.
  intros H He Hfit Ho.
  destruct (arm_full_spec baf c _ fl None out H He Ho) as (rows & Hr & _ & _ & Hf & _).
  rewrite Hf. destruct (arm_rows_cases _ _ _ Hr) as [(Es & ->)|(Hne & ->)].
  - rewrite (arm_segs_nil_rows MHaar fl _ Es). unfold stretched. destruct (map fst fl); reflexivity.
  - rewrite <- (transfer_spec c _ _ H He).
    change (method_rows (AHaar su sw q os) (survivors fl)) with (segment_haar su sw q (survivors fl) os).
    rewrite (transfer_coords c (map fst fl) _ _ (haar_rows_spec su sw q (survivors fl) os Hfit)).
    rewrite (transfer_spec c _ _ H He). unfold method_rows. rewrite stretched_given.
    unfold arm_segs. rewrite !map_map. reflexivity.
Qed.

End ArmGiven.
