(* C01 source tie of do_call's dispatch: the statement range

       if purity and purity < 1.0:   absolutes = absolute_clonal(...).clip(lower=0); outarr["log2"] = log2_ratios(...)
                                     if variants: outarr["baf"] = rescale_baf(purity, outarr["baf"])
       elif method == "clonal":      absolutes = absolute_pure(...)
       if method == "threshold":     absolutes = absolute_threshold(...)

   is regenerated, per row, from the Python source on every run (Gen/FnCallDispatch.v fn_dispatch; the results
   of the called functions are opaque inputs, each tied by its own module).  Here: the choice made is exactly
   Model/Call.v use_purity (purity given, non-zero and below the limit 1), then the method, with "threshold"
   overriding -- the dispatch of Model/Baf.v dc_purity_step / do_call_row. *)
From CNV Require Import Base.Prelude Base.Str Gen.CallDefaults Gen.FnCallDispatch Model.Call.

Lemma source_dispatch purity m variants l b cc lr br pure thr toks :
  fn_dispatch purity m variants l b cc lr br pure thr toks
  = let '(a, l', b') :=
        match use_purity purity with
        | Some _ => (cc, lr, if variants then br else b)
        | None => ((if String.eqb m "clonal" then pure else inject_Z 0), l, b)
        end in
    ((if String.eqb m "threshold" then thr else a), l', b').
Proof.
  unfold fn_dispatch, use_purity, purity_limit.
  destruct purity as [p|]; [|reflexivity].
  change (inject_Z 1) with (1 # 1)%Q.
  destruct (negb (Qeq_bool p 0) && negb (Qle_bool (1 # 1) p)); reflexivity.
Qed.
