(* Lemmas about the shared rational numerics of Base/QNum.v.
   Equality on Q is [==]; pointwise equality of lists is [Forall2 Qeq];
   [PermQ] is "permutation up to ==" (it contains both [Permutation] and
   [Forall2 Qeq]).  Everything is closed under the global context. *)
From CNV Require Import Base.Prelude Base.QNum.
From Coq Require Import Qround Qabs Sorting.Mergesort Orders Setoid Morphisms Psatz.
Local Open Scope Q_scope.

(* ------------------------------------------------------------------------ *)
(** * Reduced arithmetic is arithmetic *)

Lemma qadd_spec a b : qadd a b == a + b. Proof. apply Qred_correct. Qed.
Lemma qsub_spec a b : qsub a b == a - b. Proof. apply Qred_correct. Qed.
Lemma qmul_spec a b : qmul a b == a * b. Proof. apply Qred_correct. Qed.
Lemma qdiv_spec a b : qdiv a b == a / b. Proof. apply Qred_correct. Qed.
Lemma qneg_spec a : qneg a == - a. Proof. apply Qred_correct. Qed.
Lemma qsq_spec a : qsq a == a * a. Proof. apply Qred_correct. Qed.
Lemma qabs_spec a : qabs a = Qabs a. Proof. reflexivity. Qed.
Lemma qsq_nonneg a : 0 <= qsq a.
Proof. rewrite qsq_spec. nra. Qed.

Lemma qle_b_iff a b : qle_b a b = true <-> a <= b.
Proof. apply Qle_bool_iff. Qed.
Lemma qle_b_false a b : qle_b a b = false <-> b < a.
Proof.
  unfold qle_b. split; intro H.
  - apply Qnot_le_lt. intro L. apply Qle_bool_iff in L. congruence.
  - destruct (Qle_bool a b) eqn:E; [|reflexivity].
    apply Qle_bool_iff in E. lra.
Qed.
Lemma qlt_b_iff a b : qlt_b a b = true <-> a < b.
Proof.
  unfold qlt_b. rewrite negb_true_iff. apply (qle_b_false b a).
Qed.
Lemma qlt_b_false a b : qlt_b a b = false <-> b <= a.
Proof.
  unfold qlt_b. rewrite negb_false_iff. apply Qle_bool_iff.
Qed.
Lemma qeq_b_iff a b : qeq_b a b = true <-> a == b.
Proof. apply Qeq_bool_iff. Qed.
Lemma qeq_b_false a b : qeq_b a b = false <-> ~ a == b.
Proof.
  unfold qeq_b. split; intro H.
  - intro E. apply Qeq_bool_iff in E. congruence.
  - destruct (Qeq_bool a b) eqn:E; [|reflexivity]. apply Qeq_bool_iff in E. contradiction.
Qed.

Lemma qmin2_spec a b : qmin2 a b <= a /\ qmin2 a b <= b /\ (qmin2 a b = a \/ qmin2 a b = b).
Proof.
  unfold qmin2. destruct (Qle_bool a b) eqn:E.
  - apply Qle_bool_iff in E. repeat split; try lra. now left.
  - apply (qle_b_false a b) in E. repeat split; try lra. now right.
Qed.
Lemma qmax2_spec a b : a <= qmax2 a b /\ b <= qmax2 a b /\ (qmax2 a b = a \/ qmax2 a b = b).
Proof.
  unfold qmax2. destruct (Qle_bool a b) eqn:E.
  - apply Qle_bool_iff in E. repeat split; try lra. now right.
  - apply (qle_b_false a b) in E. repeat split; try lra. now left.
Qed.

Lemma Qabs_nonneg_q a : 0 <= Qabs a. Proof. apply Qabs_nonneg. Qed.
Lemma Qabs_shift a b c : Qabs ((a + c) - (b + c)) == Qabs (a - b).
Proof. apply Qabs_wd. ring. Qed.
Lemma Qabs_scale k a : Qabs (k * a) == Qabs k * Qabs a.
Proof. apply Qabs_Qmult. Qed.

(* ------------------------------------------------------------------------ *)
(** * Pointwise equality and permutation up to == *)

Notation eqQ := (Forall2 Qeq).
Definition PermQ (l1 l2 : list Q) : Prop := Permutation (map Qred l1) (map Qred l2).

Lemma Qred_eq_iff x y : Qred x = Qred y <-> x == y.
Proof.
  split; intro H.
  - rewrite <- (Qred_correct x), <- (Qred_correct y), H. reflexivity.
  - now apply Qred_complete.
Qed.
Lemma Qred_idem x : Qred (Qred x) = Qred x.
Proof. apply Qred_complete, Qred_correct. Qed.

Lemma eqQ_refl l : eqQ l l.
Proof. induction l; constructor; auto. reflexivity. Qed.
Lemma eqQ_sym l l' : eqQ l l' -> eqQ l' l.
Proof. induction 1; constructor; auto. now symmetry. Qed.
Lemma eqQ_trans l1 l2 l3 : eqQ l1 l2 -> eqQ l2 l3 -> eqQ l1 l3.
Proof.
  intro H; revert l3; induction H as [|x y l l' Hxy H IH]; intros l3 H3.
  - inversion H3; subst; constructor.
  - inversion H3 as [|y' z l'' l3' Hyz H3']; subst. constructor.
    + now rewrite Hxy.
    + now apply IH.
Qed.
Global Instance eqQ_Equivalence : Equivalence eqQ.
Proof. split; [exact eqQ_refl|exact eqQ_sym|exact eqQ_trans]. Qed.

Lemma eqQ_length l l' : eqQ l l' -> length l = length l'.
Proof. induction 1; cbn; congruence. Qed.

Lemma eqQ_map_Qred l l' : eqQ l l' <-> map Qred l = map Qred l'.
Proof.
  split.
  - induction 1; cbn; [reflexivity|]. f_equal; auto. now apply Qred_complete.
  - revert l'; induction l as [|x t IH]; intros [|y t'] H; cbn in H; try discriminate.
    + constructor.
    + injection H as H1 H2. constructor; [now apply Qred_eq_iff|now apply IH].
Qed.

Lemma eqQ_map (f g : Q -> Q) l l' :
  (forall x y, x == y -> f x == g y) -> eqQ l l' -> eqQ (map f l) (map g l').
Proof. intros Hf; induction 1; cbn; constructor; auto. Qed.

Lemma eqQ_map_ext (f g : Q -> Q) l :
  (forall x, In x l -> f x == g x) -> eqQ (map f l) (map g l).
Proof.
  induction l as [|x t IH]; intro H; cbn; constructor.
  - apply H; now left.
  - apply IH; intros; apply H; now right.
Qed.

Lemma eqQ_app l1 l1' l2 l2' : eqQ l1 l1' -> eqQ l2 l2' -> eqQ (l1 ++ l2) (l1' ++ l2').
Proof. induction 1; cbn; intro H2; [exact H2|constructor; auto]. Qed.

Lemma eqQ_rev l l' : eqQ l l' -> eqQ (rev l) (rev l').
Proof.
  induction 1; cbn; [constructor|]. apply eqQ_app; auto.
Qed.

Lemma eqQ_nth l l' d d' i : eqQ l l' -> d == d' -> nth i l d == nth i l' d'.
Proof.
  intros H; revert i; induction H; intros [|i] Hd; cbn; auto.
Qed.

Lemma eqQ_nthq l l' i : eqQ l l' -> nthq i l == nthq i l'.
Proof. intro H. apply eqQ_nth; [exact H|reflexivity]. Qed.

Global Instance PermQ_Equivalence : Equivalence PermQ.
Proof.
  split; unfold PermQ.
  - intro; reflexivity.
  - intros x y; now symmetry.
  - intros x y z; etransitivity; eauto.
Qed.

Lemma Permutation_PermQ l l' : Permutation l l' -> PermQ l l'.
Proof. intro; unfold PermQ; now apply Permutation_map. Qed.
Lemma eqQ_PermQ l l' : eqQ l l' -> PermQ l l'.
Proof. intro H; unfold PermQ. apply eqQ_map_Qred in H. now rewrite H. Qed.
Lemma PermQ_length l l' : PermQ l l' -> length l = length l'.
Proof. intro H. apply Permutation_length in H. now rewrite !map_length in H. Qed.
Lemma PermQ_map (f g : Q -> Q) l l' :
  (forall x y, x == y -> f x == g y) -> PermQ l l' -> PermQ (map f l) (map g l').
Proof.
  intros Hf H. unfold PermQ in *. rewrite !map_map.
  assert (E1 : map (fun x => Qred (f x)) l = map (fun x => Qred (f (Qred x))) l).
  { apply map_ext; intro x. apply Qred_complete. transitivity (g x); [apply Hf; reflexivity|].
    symmetry; apply Hf, Qred_correct. }
  assert (E2 : map (fun x => Qred (g x)) l' = map (fun x => Qred (f (Qred x))) l').
  { apply map_ext; intro x. apply Qred_complete. symmetry. apply Hf. apply Qred_correct. }
  rewrite E1, E2.
  rewrite <- (map_map Qred (fun x => Qred (f x)) l), <- (map_map Qred (fun x => Qred (f x)) l').
  now apply Permutation_map.
Qed.
Lemma PermQ_nil l : PermQ [] l -> l = [].
Proof.
  intro H. apply PermQ_length in H. destruct l; [reflexivity|discriminate].
Qed.
Lemma PermQ_In l l' x : PermQ l l' -> In x l -> exists y, In y l' /\ x == y.
Proof.
  intros H Hx. unfold PermQ in H.
  assert (In (Qred x) (map Qred l')) as Hy.
  { eapply Permutation_in; [exact H|]. now apply in_map. }
  apply in_map_iff in Hy. destruct Hy as (y & E & Hy). exists y; split; auto.
  symmetry. now apply Qred_eq_iff.
Qed.

(* ------------------------------------------------------------------------ *)
(** * Sortedness; a sorted permutation is unique up to == *)

Notation sortedQ := (StronglySorted Qle).

Lemma sortedQ_cons_inv a l : sortedQ (a :: l) -> sortedQ l /\ Forall (Qle a) l.
Proof. intro H; inversion H; auto. Qed.

Lemma Forall_Qle_eqQ x y l l' : x == y -> eqQ l l' -> Forall (Qle x) l -> Forall (Qle y) l'.
Proof.
  intros Hxy H. induction H as [|a b l l' Hab H IH]; intro F; constructor.
  - apply Forall_inv in F. rewrite <- Hxy, <- Hab. exact F.
  - apply IH. now apply Forall_inv_tail in F.
Qed.

Lemma sortedQ_eqQ l l' : eqQ l l' -> sortedQ l -> sortedQ l'.
Proof.
  induction 1 as [|x y l l' Hxy H IH]; intro S; [constructor|].
  apply sortedQ_cons_inv in S; destruct S as [S F]. constructor; [auto|].
  eapply Forall_Qle_eqQ; eauto.
Qed.

Lemma sortedQ_map (f : Q -> Q) l :
  (forall a b, a <= b -> f a <= f b) -> sortedQ l -> sortedQ (map f l).
Proof.
  intros Hf. induction 1 as [|a l S IH F]; cbn; constructor; auto.
  apply Forall_map. eapply Forall_impl; [|exact F]. cbn; auto.
Qed.

Lemma sortedQ_app l1 l2 :
  sortedQ l1 -> sortedQ l2 -> (forall x y, In x l1 -> In y l2 -> x <= y) -> sortedQ (l1 ++ l2).
Proof.
  induction 1 as [|a l S IH F]; cbn; intros S2 H; auto.
  constructor.
  - apply IH; auto.
  - apply Forall_app; split; auto. apply Forall_forall; intros y Hy. apply H; auto.
Qed.

(* reversing the image of a sorted list under an antitone map gives a sorted list *)
Lemma sortedQ_rev_anti (f : Q -> Q) l :
  (forall a b, a <= b -> f b <= f a) -> sortedQ l -> sortedQ (rev (map f l)).
Proof.
  intros Hf. induction 1 as [|a l S IH F]; cbn; [constructor|].
  apply sortedQ_app; auto.
  - constructor; constructor.
  - intros x y Hx [<-|[]]. apply in_rev in Hx. apply in_map_iff in Hx.
    destruct Hx as (z & <- & Hz). apply Hf. rewrite Forall_forall in F. auto.
Qed.

Lemma sortedQ_nth_le l i j : sortedQ l -> (i <= j < length l)%nat -> nthq i l <= nthq j l.
Proof.
  unfold nthq. intro S; revert i j; induction S as [|a l S IH F]; intros i j H; cbn in *; [lia|].
  destruct i, j; try lia.
  - lra.
  - rewrite Forall_forall in F. apply F. apply nth_In. lia.
  - apply IH. lia.
Qed.

Lemma canon_sorted_perm_eq l1 l2 :
  Forall (fun x => Qred x = x) l1 -> Forall (fun x => Qred x = x) l2 ->
  sortedQ l1 -> sortedQ l2 -> Permutation l1 l2 -> l1 = l2.
Proof.
  revert l2; induction l1 as [|a t1 IH]; intros l2 C1 C2 S1 S2 P.
  - apply Permutation_nil in P. now subst.
  - destruct l2 as [|b t2]; [symmetry in P; apply Permutation_nil in P; discriminate|].
    apply sortedQ_cons_inv in S1; destruct S1 as [S1 F1].
    apply sortedQ_cons_inv in S2; destruct S2 as [S2 F2].
    rewrite Forall_forall in F1, F2.
    assert (Hab : a == b).
    { assert (In a (b :: t2)) as Ia by (eapply Permutation_in; [exact P|now left]).
      assert (In b (a :: t1)) as Ib by (eapply Permutation_in; [symmetry; exact P|now left]).
      assert (b <= a) by (destruct Ia as [->|Ia]; [lra|auto]).
      assert (a <= b) by (destruct Ib as [->|Ib]; [lra|auto]).
      lra. }
    inversion C1 as [|? ? Ca C1']; inversion C2 as [|? ? Cb C2']; subst.
    assert (a = b) by (rewrite <- Ca, <- Cb; now apply Qred_complete).
    subst b. f_equal. apply IH; auto. eapply Permutation_cons_inv; exact P.
Qed.

Lemma sorted_PermQ_unique l1 l2 : sortedQ l1 -> sortedQ l2 -> PermQ l1 l2 -> eqQ l1 l2.
Proof.
  intros S1 S2 P. apply eqQ_map_Qred. apply canon_sorted_perm_eq.
  - apply Forall_map, Forall_forall; intros; apply Qred_idem.
  - apply Forall_map, Forall_forall; intros; apply Qred_idem.
  - apply sortedQ_map; auto. intros a b; now rewrite !Qred_correct.
  - apply sortedQ_map; auto. intros a b; now rewrite !Qred_correct.
  - exact P.
Qed.

(* ------------------------------------------------------------------------ *)
(** * qsort *)

Lemma qsort_perm l : Permutation (qsort l) l.
Proof. symmetry. apply QSort.Permuted_sort. Qed.

Lemma qsort_length l : length (qsort l) = length l.
Proof. apply Permutation_length, qsort_perm. Qed.

Lemma qsort_In l x : In x (qsort l) <-> In x l.
Proof.
  split; apply Permutation_in; [apply qsort_perm|symmetry; apply qsort_perm].
Qed.

Lemma qsort_sorted l : sortedQ (qsort l).
Proof.
  unfold qsort.
  assert (T : Transitive (fun x y => is_true (QOrder.leb x y))).
  { intros x y z H1 H2. unfold is_true, QOrder.leb in *.
    apply Qle_bool_iff in H1, H2. apply Qle_bool_iff. lra. }
  pose proof (QSort.StronglySorted_sort l T) as S.
  induction S as [|a s S IH F]; constructor; auto.
  eapply Forall_impl; [|exact F]. intros b Hb. now apply Qle_bool_iff.
Qed.

Lemma qsort_nil_iff l : qsort l = [] <-> l = [].
Proof.
  split; intro H.
  - pose proof (qsort_length l) as L. rewrite H in L. destruct l; [reflexivity|discriminate].
  - subst; reflexivity.
Qed.

(* sorting is a function of the multiset up to == *)
Lemma qsort_PermQ l l' : PermQ l l' -> eqQ (qsort l) (qsort l').
Proof.
  intro P. apply sorted_PermQ_unique; try apply qsort_sorted.
  transitivity l; [apply Permutation_PermQ, qsort_perm|].
  transitivity l'; [exact P|]. symmetry. apply Permutation_PermQ, qsort_perm.
Qed.
Lemma qsort_perm_inv l l' : Permutation l l' -> eqQ (qsort l) (qsort l').
Proof. intro; now apply qsort_PermQ, Permutation_PermQ. Qed.
Lemma qsort_eqQ l l' : eqQ l l' -> eqQ (qsort l) (qsort l').
Proof. intro; now apply qsort_PermQ, eqQ_PermQ. Qed.

Lemma qsort_sorted_id l : sortedQ l -> eqQ (qsort l) l.
Proof.
  intro S. apply sorted_PermQ_unique; auto using qsort_sorted.
  apply Permutation_PermQ, qsort_perm.
Qed.

(* sorting commutes with monotone maps, and with antitone maps up to reversal *)
Lemma qsort_map_mono (f : Q -> Q) l :
  (forall a b, a <= b -> f a <= f b) -> eqQ (qsort (map f l)) (map f (qsort l)).
Proof.
  intro Hf. apply sorted_PermQ_unique.
  - apply qsort_sorted.
  - apply sortedQ_map; auto using qsort_sorted.
  - apply Permutation_PermQ. transitivity (map f l); [apply qsort_perm|].
    apply Permutation_map. symmetry; apply qsort_perm.
Qed.
Lemma qsort_map_anti (f : Q -> Q) l :
  (forall a b, a <= b -> f b <= f a) -> eqQ (qsort (map f l)) (rev (map f (qsort l))).
Proof.
  intro Hf. apply sorted_PermQ_unique.
  - apply qsort_sorted.
  - apply sortedQ_rev_anti; auto using qsort_sorted.
  - apply Permutation_PermQ. transitivity (map f l); [apply qsort_perm|].
    transitivity (map f (qsort l)); [|apply Permutation_rev].
    apply Permutation_map. symmetry; apply qsort_perm.
Qed.

(* ------------------------------------------------------------------------ *)
(** * qmin / qmax of a list *)

Lemma fold_qmin2_spec t x :
  fold_left qmin2 t x <= x /\ (forall y, In y t -> fold_left qmin2 t x <= y) /\
  (fold_left qmin2 t x = x \/ In (fold_left qmin2 t x) t).
Proof.
  revert x; induction t as [|a t IH]; intro x; cbn [fold_left].
  - repeat split; [lra|intros y []|now left].
  - destruct (IH (qmin2 x a)) as (H1 & H2 & H3). destruct (qmin2_spec x a) as (M1 & M2 & M3).
    repeat split.
    + lra.
    + intros y [<-|Hy]; [lra|auto].
    + destruct H3 as [H3|H3]; [|right; now right].
      rewrite H3. destruct M3 as [M3|M3]; rewrite M3; [now left|right; now left].
Qed.
Lemma fold_qmax2_spec t x :
  x <= fold_left qmax2 t x /\ (forall y, In y t -> y <= fold_left qmax2 t x) /\
  (fold_left qmax2 t x = x \/ In (fold_left qmax2 t x) t).
Proof.
  revert x; induction t as [|a t IH]; intro x; cbn [fold_left].
  - repeat split; [lra|intros y []|now left].
  - destruct (IH (qmax2 x a)) as (H1 & H2 & H3). destruct (qmax2_spec x a) as (M1 & M2 & M3).
    repeat split.
    + lra.
    + intros y [<-|Hy]; [lra|auto].
    + destruct H3 as [H3|H3]; [|right; now right].
      rewrite H3. destruct M3 as [M3|M3]; rewrite M3; [now left|right; now left].
Qed.

Lemma qmin_le l x : In x l -> qmin l <= x.
Proof.
  destruct l as [|a t]; [intros []|]. cbn [qmin]. destruct (fold_qmin2_spec t a) as (H1 & H2 & _).
  intros [<-|H]; auto.
Qed.
Lemma qmax_ge l x : In x l -> x <= qmax l.
Proof.
  destruct l as [|a t]; [intros []|]. cbn [qmax]. destruct (fold_qmax2_spec t a) as (H1 & H2 & _).
  intros [<-|H]; auto.
Qed.
Lemma qmin_In l : l <> [] -> In (qmin l) l.
Proof.
  destruct l as [|a t]; [congruence|intros _]. cbn [qmin].
  destruct (fold_qmin2_spec t a) as (_ & _ & [H|H]); [left; now rewrite H|now right].
Qed.
Lemma qmax_In l : l <> [] -> In (qmax l) l.
Proof.
  destruct l as [|a t]; [congruence|intros _]. cbn [qmax].
  destruct (fold_qmax2_spec t a) as (_ & _ & [H|H]); [left; now rewrite H|now right].
Qed.
Lemma qmin_le_qmax l : l <> [] -> qmin l <= qmax l.
Proof. intro H. apply qmax_ge, qmin_In, H. Qed.
Lemma qmin_glb l lo : l <> [] -> (forall x, In x l -> lo <= x) -> lo <= qmin l.
Proof. intros H B. apply B, qmin_In, H. Qed.
Lemma qmax_lub l hi : l <> [] -> (forall x, In x l -> x <= hi) -> qmax l <= hi.
Proof. intros H B. apply B, qmax_In, H. Qed.

(* ------------------------------------------------------------------------ *)
(** * Sums, dot products, means *)

Lemma qofnat_S n : qofnat (S n) == qofnat n + 1.
Proof.
  unfold qofnat. rewrite Nat2Z.inj_succ. unfold Z.succ. rewrite inject_Z_plus. reflexivity.
Qed.
Lemma qofnat_0 : qofnat 0 == 0. Proof. reflexivity. Qed.
Lemma qofnat_nonneg n : 0 <= qofnat n.
Proof. unfold qofnat. change 0 with (inject_Z 0). rewrite <- Zle_Qle. lia. Qed.
Lemma qofnat_pos n : (0 < n)%nat -> 0 < qofnat n.
Proof. intro H. unfold qofnat. change 0 with (inject_Z 0). rewrite <- Zlt_Qlt. lia. Qed.
Lemma qofnat_le n m : (n <= m)%nat -> qofnat n <= qofnat m.
Proof. intro H. unfold qofnat. rewrite <- Zle_Qle. lia. Qed.
Lemma qofnat_plus n m : qofnat (n + m) == qofnat n + qofnat m.
Proof. unfold qofnat. rewrite Nat2Z.inj_add, inject_Z_plus. reflexivity. Qed.

Lemma qsum_nil : qsum [] == 0. Proof. reflexivity. Qed.
Lemma qsum_cons x l : qsum (x :: l) == x + qsum l.
Proof. cbn [qsum]. apply Qred_correct. Qed.
Lemma qsum_app l1 l2 : qsum (l1 ++ l2) == qsum l1 + qsum l2.
Proof.
  induction l1 as [|x t IH]; cbn [app].
  - rewrite qsum_nil. ring.
  - rewrite !qsum_cons, IH. ring.
Qed.
Lemma qsum_eqQ l l' : eqQ l l' -> qsum l == qsum l'.
Proof. induction 1 as [|x y l l' Hxy H IH]; [reflexivity|]. rewrite !qsum_cons, Hxy, IH. reflexivity. Qed.
Lemma qsum_perm l l' : Permutation l l' -> qsum l == qsum l'.
Proof.
  induction 1 as [|x l l' H IH|x y l|l1 l2 l3 H1 IH1 H2 IH2].
  - reflexivity.
  - rewrite !qsum_cons, IH. reflexivity.
  - rewrite !qsum_cons. ring.
  - now rewrite IH1.
Qed.
Lemma qsum_map_Qred l : qsum (map Qred l) == qsum l.
Proof.
  induction l as [|x t IH]; [reflexivity|]. cbn [map]. rewrite !qsum_cons, IH, Qred_correct. reflexivity.
Qed.
Lemma qsum_PermQ l l' : PermQ l l' -> qsum l == qsum l'.
Proof. intro H. rewrite <- (qsum_map_Qred l), <- (qsum_map_Qred l'). now apply qsum_perm. Qed.
Lemma qsum_rev l : qsum (rev l) == qsum l.
Proof. apply qsum_perm. symmetry. apply Permutation_rev. Qed.

Lemma qsum_map_add c l : qsum (map (fun x => x + c) l) == qsum l + qofnat (length l) * c.
Proof.
  induction l as [|x t IH]; cbn [map length].
  - rewrite qsum_nil, qofnat_0. ring.
  - rewrite !qsum_cons, IH, qofnat_S. ring.
Qed.
Lemma qsum_map_mul k l : qsum (map (fun x => k * x) l) == k * qsum l.
Proof.
  induction l as [|x t IH]; cbn [map].
  - rewrite qsum_nil. ring.
  - rewrite !qsum_cons, IH. ring.
Qed.
Lemma qsum_map_ext (f g : Q -> Q) l : (forall x, In x l -> f x == g x) -> qsum (map f l) == qsum (map g l).
Proof. intro H. apply qsum_eqQ, eqQ_map_ext, H. Qed.
Lemma qsum_nonneg l : (forall x, In x l -> 0 <= x) -> 0 <= qsum l.
Proof.
  induction l as [|x t IH]; intro H; [rewrite qsum_nil; lra|].
  rewrite qsum_cons. assert (0 <= x) by (apply H; now left).
  assert (0 <= qsum t) by (apply IH; intros; apply H; now right). lra.
Qed.
Lemma qsum_bounds l lo hi : (forall x, In x l -> lo <= x <= hi) ->
  qofnat (length l) * lo <= qsum l <= qofnat (length l) * hi.
Proof.
  induction l as [|x t IH]; intro H; cbn [length].
  - rewrite qsum_nil, qofnat_0. lra.
  - rewrite qsum_cons, qofnat_S. assert (lo <= x <= hi) by (apply H; now left).
    assert (qofnat (length t) * lo <= qsum t <= qofnat (length t) * hi) by (apply IH; intros; apply H; now right).
    lra.
Qed.
Lemma qsum_pos_exists l : (forall x, In x l -> 0 <= x) -> 0 < qsum l -> exists x, In x l /\ 0 < x.
Proof.
  induction l as [|x t IH]; intros N P; [rewrite qsum_nil in P; lra|].
  rewrite qsum_cons in P. destruct (Qlt_le_dec 0 x) as [Hx|Hx].
  - exists x; split; [now left|exact Hx].
  - destruct IH as (y & Hy & Py).
    + intros; apply N; now right.
    + assert (0 <= x) by (apply N; now left). lra.
    + exists y; split; [now right|exact Py].
Qed.

Lemma qmean_spec l : qmean l == qsum l / qofnat (length l).
Proof. apply Qred_correct. Qed.
Lemma length_pos_nonnil {A} (l : list A) : l <> [] -> (0 < length l)%nat.
Proof. destruct l; [congruence|cbn; lia]. Qed.
Lemma qmean_PermQ l l' : PermQ l l' -> qmean l == qmean l'.
Proof.
  intro H. rewrite !qmean_spec, (qsum_PermQ _ _ H), (PermQ_length _ _ H). reflexivity.
Qed.
Lemma qmean_shift c l : l <> [] -> qmean (map (fun x => x + c) l) == qmean l + c.
Proof.
  intro H. rewrite !qmean_spec, qsum_map_add, map_length.
  pose proof (qofnat_pos _ (length_pos_nonnil l H)). field. lra.
Qed.
Lemma qmean_scale k l : qmean (map (fun x => k * x) l) == k * qmean l.
Proof.
  rewrite !qmean_spec, qsum_map_mul, map_length. unfold Qdiv. ring.
Qed.
Lemma qmean_bounds l lo hi : l <> [] -> (forall x, In x l -> lo <= x <= hi) -> lo <= qmean l <= hi.
Proof.
  intros H B. rewrite qmean_spec.
  pose proof (qofnat_pos _ (length_pos_nonnil l H)) as P.
  destruct (qsum_bounds l lo hi B) as [B1 B2]. split.
  - apply Qle_shift_div_l; [exact P|]. lra.
  - apply Qle_shift_div_r; [exact P|]. lra.
Qed.
Lemma qmean_min_max l : l <> [] -> qmin l <= qmean l <= qmax l.
Proof.
  intro H. apply qmean_bounds; [exact H|]. intros x Hx. split; [now apply qmin_le|now apply qmax_ge].
Qed.

Lemma qdot_cons x a y w : qdot (x :: a) (y :: w) == x * y + qdot a w.
Proof. cbn [qdot]. apply Qred_correct. Qed.
Lemma qdot_nil_l w : qdot [] w = 0. Proof. reflexivity. Qed.
Lemma qdot_nil_r a : qdot a [] = 0. Proof. destruct a; reflexivity. Qed.
Lemma qdot_eqQ a a' w w' : eqQ a a' -> eqQ w w' -> qdot a w == qdot a' w'.
Proof.
  intro H; revert w w'; induction H as [|x x' a a' Hx H IH]; intros w w' Hw.
  - reflexivity.
  - destruct Hw as [|y y' w w' Hy Hw]; [rewrite !qdot_nil_r; reflexivity|].
    rewrite !qdot_cons, Hx, Hy, (IH _ _ Hw). reflexivity.
Qed.
Lemma qdot_map_add_l c a w : length a = length w ->
  qdot (map (fun x => x + c) a) w == qdot a w + c * qsum w.
Proof.
  revert w; induction a as [|x a IH]; intros [|y w] L; cbn in L; try discriminate.
  - cbn. ring.
  - cbn [map]. rewrite !qdot_cons, qsum_cons, IH by congruence. ring.
Qed.
Lemma qdot_map_mul_l k a w : qdot (map (fun x => k * x) a) w == k * qdot a w.
Proof.
  revert w; induction a as [|x a IH]; intros [|y w]; cbn [map]; rewrite ?qdot_nil_l, ?qdot_nil_r; try ring.
  rewrite !qdot_cons, IH. ring.
Qed.
Lemma qdot_map_mul_r k a w : qdot a (map (fun x => k * x) w) == k * qdot a w.
Proof.
  revert w; induction a as [|x a IH]; intros [|y w]; cbn [map]; rewrite ?qdot_nil_l, ?qdot_nil_r; try ring.
  rewrite !qdot_cons, IH. ring.
Qed.
(* convexity: only the elements carrying positive weight need to be in [lo,hi] *)
Lemma qdot_bounds a w lo hi : length a = length w ->
  (forall x y, In (x, y) (combine a w) -> 0 <= y /\ (0 < y -> lo <= x <= hi)) ->
  lo * qsum w <= qdot a w <= hi * qsum w.
Proof.
  revert w; induction a as [|x a IH]; intros [|y w] L H; cbn in L; try discriminate.
  - cbn. lra.
  - rewrite qdot_cons, qsum_cons.
    destruct (H x y (or_introl eq_refl)) as [Hy Hx].
    assert (lo * qsum w <= qdot a w <= hi * qsum w) as IH'.
    { apply IH; [congruence|]. intros x' y' I. apply H. now right. }
    destruct (Qlt_le_dec 0 y) as [P|P].
    + destruct (Hx P). nra.
    + assert (y == 0) as -> by lra. lra.
Qed.

Lemma wmean_spec a w : wmean a w == qdot a w / qsum w.
Proof. apply Qred_correct. Qed.
Lemma wmean_eqQ a a' w w' : eqQ a a' -> eqQ w w' -> wmean a w == wmean a' w'.
Proof. intros Ha Hw. rewrite !wmean_spec, (qdot_eqQ _ _ _ _ Ha Hw), (qsum_eqQ _ _ Hw). reflexivity. Qed.
Lemma wmean_shift c a w : length a = length w -> ~ qsum w == 0 ->
  wmean (map (fun x => x + c) a) w == wmean a w + c.
Proof. intros L N. rewrite !wmean_spec, qdot_map_add_l by exact L. field. exact N. Qed.
Lemma wmean_scale k a w : wmean (map (fun x => k * x) a) w == k * wmean a w.
Proof. rewrite !wmean_spec, qdot_map_mul_l. unfold Qdiv. ring. Qed.
Lemma wmean_weights_scale k a w : ~ k == 0 -> wmean a (map (fun x => k * x) w) == wmean a w.
Proof.
  intro N. rewrite !wmean_spec, qdot_map_mul_r, qsum_map_mul.
  destruct (Qeq_dec (qsum w) 0) as [Z|Z].
  - rewrite Z. unfold Qdiv. rewrite Qmult_0_r. cbn. ring.
  - field. split; assumption.
Qed.
Lemma wmean_bounds_pos a w lo hi : length a = length w -> 0 < qsum w ->
  (forall x y, In (x, y) (combine a w) -> 0 <= y /\ (0 < y -> lo <= x <= hi)) ->
  lo <= wmean a w <= hi.
Proof.
  intros L P H. rewrite wmean_spec. destruct (qdot_bounds a w lo hi L H) as [B1 B2]. split.
  - apply Qle_shift_div_l; [exact P|exact B1].
  - apply Qle_shift_div_r; [exact P|exact B2].
Qed.
Lemma wmean_bounds a w lo hi : length a = length w -> 0 < qsum w ->
  (forall y, In y w -> 0 <= y) -> (forall x, In x a -> lo <= x <= hi) -> lo <= wmean a w <= hi.
Proof.
  intros L P Hw Ha. apply wmean_bounds_pos; auto.
  intros x y I. split; [apply Hw; eapply in_combine_r; eauto|intros _; apply Ha; eapply in_combine_l; eauto].
Qed.
Lemma wmean_min_max a w : length a = length w -> 0 < qsum w -> (forall y, In y w -> 0 <= y) ->
  qmin a <= wmean a w <= qmax a.
Proof.
  intros L P Hw. apply wmean_bounds; auto. intros x Hx. split; [now apply qmin_le|now apply qmax_ge].
Qed.

(* ------------------------------------------------------------------------ *)
(** * Median (numpy semantics) *)
From Coq Require Import ZifyNat.

Lemma even_half_true n : Nat.even n = true -> (n = 2 * (n / 2))%nat.
Proof. intro H. apply Nat.even_spec in H. destruct H as [m ->]. lia. Qed.
Lemma even_half_false n : Nat.even n = false -> (n = 2 * (n / 2) + 1)%nat.
Proof.
  intro H. assert (O : Nat.odd n = true) by (rewrite <- Nat.negb_even, H; reflexivity).
  apply Nat.odd_spec in O. destruct O as [m ->]. lia.
Qed.

Lemma median_sorted_even s : Nat.even (length s) = true ->
  median_sorted s == (nthq (length s / 2 - 1) s + nthq (length s / 2) s) / 2.
Proof. intro E. unfold median_sorted. rewrite E. apply Qred_correct. Qed.
Lemma median_sorted_odd s : Nat.even (length s) = false ->
  median_sorted s = nthq (length s / 2) s.
Proof. intro E. unfold median_sorted. now rewrite E. Qed.

Lemma median_sorted_eqQ s s' : eqQ s s' -> median_sorted s == median_sorted s'.
Proof.
  intro H. unfold median_sorted. rewrite <- (eqQ_length _ _ H).
  destruct (Nat.even (length s)).
  - rewrite !Qred_correct, (eqQ_nthq _ _ (length s / 2 - 1) H), (eqQ_nthq _ _ (length s / 2) H).
    reflexivity.
  - apply eqQ_nthq, H.
Qed.

(* the median depends only on the multiset of values, up to == *)
Lemma median_PermQ l l' : PermQ l l' -> median l == median l'.
Proof. intro H. unfold median. apply median_sorted_eqQ, qsort_PermQ, H. Qed.
Lemma median_perm l l' : Permutation l l' -> median l == median l'.
Proof. intro H. apply median_PermQ, Permutation_PermQ, H. Qed.
Lemma median_eqQ l l' : eqQ l l' -> median l == median l'.
Proof. intro H. apply median_PermQ, eqQ_PermQ, H. Qed.
Lemma median_map_ext (f g : Q -> Q) l : (forall x, In x l -> f x == g x) -> median (map f l) == median (map g l).
Proof. intro H. apply median_eqQ, eqQ_map_ext, H. Qed.
Lemma median_of_sorted s : sortedQ s -> median s == median_sorted s.
Proof. intro S. unfold median. apply median_sorted_eqQ, qsort_sorted_id, S. Qed.

Lemma nthq_rev s i : (i < length s)%nat -> nthq i (rev s) = nthq (length s - S i) s.
Proof. intro H. unfold nthq. apply rev_nth. exact H. Qed.
Lemma nthq_map f s i : (i < length s)%nat -> nthq i (map f s) = f (nthq i s).
Proof.
  intro H. unfold nthq. rewrite (nth_indep _ 0 (f 0)) by (now rewrite map_length). apply map_nth.
Qed.
Lemma nthq_In s i : (i < length s)%nat -> In (nthq i s) s.
Proof. intro H. unfold nthq. now apply nth_In. Qed.

Lemma median_sorted_rev s : median_sorted (rev s) == median_sorted s.
Proof.
  unfold median_sorted. rewrite rev_length. destruct (Nat.even (length s)) eqn:E.
  - rewrite !Qred_correct. destruct (Nat.eq_dec (length s) 0) as [Z|Z].
    + destruct s; [reflexivity|discriminate].
    + apply even_half_true in E. rewrite !nthq_rev by lia.
      replace (length s - S (length s / 2 - 1))%nat with (length s / 2)%nat by lia.
      replace (length s - S (length s / 2))%nat with (length s / 2 - 1)%nat by lia.
      field.
  - apply even_half_false in E. rewrite nthq_rev by lia.
    replace (length s - S (length s / 2))%nat with (length s / 2)%nat by lia. reflexivity.
Qed.

Definition midpoint_hom (f : Q -> Q) : Prop := forall a b, f ((a + b) / 2) == (f a + f b) / 2.

Lemma mono_proper (f : Q -> Q) : (forall a b, a <= b -> f a <= f b) -> Proper (Qeq ==> Qeq) f.
Proof. intros H a b E. apply Qle_antisym; apply H; lra. Qed.
Lemma anti_proper (f : Q -> Q) : (forall a b, a <= b -> f b <= f a) -> Proper (Qeq ==> Qeq) f.
Proof. intros H a b E. apply Qle_antisym; apply H; lra. Qed.

Lemma median_sorted_map (f : Q -> Q) s : s <> [] -> Proper (Qeq ==> Qeq) f -> midpoint_hom f ->
  median_sorted (map f s) == f (median_sorted s).
Proof.
  intros N Pf M. pose proof (length_pos_nonnil s N) as L. unfold median_sorted. rewrite map_length.
  destruct (Nat.even (length s)) eqn:E.
  - apply even_half_true in E. rewrite !nthq_map by lia.
    rewrite Qred_correct. rewrite (Pf _ _ (Qred_correct _)). symmetry. apply M.
  - apply even_half_false in E. rewrite nthq_map by lia. reflexivity.
Qed.

Lemma qsort_nonnil l : l <> [] -> qsort l <> [].
Proof. intros N H. apply (proj1 (qsort_nil_iff l)) in H. exact (N H). Qed.

(* a monotone (resp. antitone) map that preserves midpoints commutes with the median *)
Lemma median_map_mono (f : Q -> Q) l : l <> [] -> (forall a b, a <= b -> f a <= f b) -> midpoint_hom f ->
  median (map f l) == f (median l).
Proof.
  intros N Hf M. unfold median.
  rewrite (median_sorted_eqQ _ _ (qsort_map_mono f l Hf)).
  apply median_sorted_map; auto using qsort_nonnil, mono_proper.
Qed.
Lemma median_map_anti (f : Q -> Q) l : l <> [] -> (forall a b, a <= b -> f b <= f a) -> midpoint_hom f ->
  median (map f l) == f (median l).
Proof.
  intros N Hf M. unfold median.
  rewrite (median_sorted_eqQ _ _ (qsort_map_anti f l Hf)), median_sorted_rev.
  apply median_sorted_map; auto using qsort_nonnil, anti_proper.
Qed.

Lemma median_nil : median [] == 0.
Proof. reflexivity. Qed.
Lemma median_singleton x : median [x] == x.
Proof. reflexivity. Qed.

(* equivariance: for every k (of either sign) and c *)
Lemma median_affine k c l : l <> [] -> median (map (fun x => k * x + c) l) == k * median l + c.
Proof.
  intro N. destruct (Qlt_le_dec k 0) as [K|K].
  - apply (median_map_anti (fun x => k * x + c)); auto.
    + intros a b H. nra.
    + intros a b. field.
  - apply (median_map_mono (fun x => k * x + c)); auto.
    + intros a b H. nra.
    + intros a b. field.
Qed.
Lemma median_shift c l : l <> [] -> median (map (fun x => x + c) l) == median l + c.
Proof.
  intro N. apply (median_map_mono (fun x => x + c)); auto.
  - intros a b H. lra.
  - intros a b. field.
Qed.
Lemma median_scale k l : median (map (fun x => k * x) l) == k * median l.
Proof.
  destruct l as [|x0 t]; [cbn [map]; rewrite median_nil; ring|].
  destruct (Qlt_le_dec k 0) as [K|K].
  - apply (median_map_anti (fun x => k * x)); [discriminate| |].
    + intros a b H. nra.
    + intros a b. field.
  - apply (median_map_mono (fun x => k * x)); [discriminate| |].
    + intros a b H. nra.
    + intros a b. field.
Qed.
Lemma median_opp l : median (map Qopp l) == - median l.
Proof.
  rewrite (median_map_ext Qopp (fun x => (-1) * x)) by (intros; ring).
  rewrite median_scale. ring.
Qed.

(* min <= median <= max *)
Lemma median_sorted_bounds s lo hi : s <> [] -> (forall x, In x s -> lo <= x <= hi) ->
  lo <= median_sorted s <= hi.
Proof.
  intros N B. pose proof (length_pos_nonnil s N) as L. unfold median_sorted.
  destruct (Nat.even (length s)) eqn:E.
  - apply even_half_true in E. rewrite Qred_correct.
    assert (lo <= nthq (length s / 2 - 1) s <= hi) by (apply B, nthq_In; lia).
    assert (lo <= nthq (length s / 2) s <= hi) by (apply B, nthq_In; lia).
    split; [apply Qle_shift_div_l|apply Qle_shift_div_r]; lra.
  - apply even_half_false in E. apply B, nthq_In. lia.
Qed.
Lemma median_bounds l lo hi : l <> [] -> (forall x, In x l -> lo <= x <= hi) -> lo <= median l <= hi.
Proof.
  intros N B. unfold median. apply median_sorted_bounds; [now apply qsort_nonnil|].
  intros x Hx. apply B, qsort_In, Hx.
Qed.
Lemma median_min_max l : l <> [] -> qmin l <= median l <= qmax l.
Proof.
  intro N. apply median_bounds; [exact N|]. intros x Hx. split; [now apply qmin_le|now apply qmax_ge].
Qed.
Lemma median_const c l : l <> [] -> (forall x, In x l -> x == c) -> median l == c.
Proof.
  intros N H. assert (c <= median l <= c) as [? ?]; [|lra].
  apply median_bounds; [exact N|]. intros x Hx. rewrite (H x Hx). lra.
Qed.
Lemma median_nonneg l : (forall x, In x l -> 0 <= x) -> 0 <= median l.
Proof.
  intro H. destruct l as [|x0 t]; [rewrite median_nil; lra|].
  assert (0 <= median (x0 :: t) <= qmax (x0 :: t)) as [? _]; [|assumption].
  apply median_bounds; [discriminate|]. intros x Hx. split; [now apply H|now apply qmax_ge].
Qed.

(* ------------------------------------------------------------------------ *)
(** * Linear-interpolated percentile (numpy default) *)

Lemma frac_bounds h : 0 <= h - inject_Z (Qfloor h) /\ h - inject_Z (Qfloor h) < 1.
Proof.
  pose proof (Qfloor_le h) as H1. pose proof (Qlt_floor h) as H2.
  rewrite inject_Z_plus in H2. change (inject_Z 1) with 1 in H2. split; lra.
Qed.

Lemma Qfloor_nonneg h : 0 <= h -> (0 <= Qfloor h)%Z.
Proof.
  intro H. change 0%Z with (Qfloor 0). now apply Qfloor_resp_le.
Qed.
Lemma Qfloor_le_Z h z : h <= inject_Z z -> (Qfloor h <= z)%Z.
Proof. intro H. rewrite <- (Qfloor_Z z). now apply Qfloor_resp_le. Qed.
Lemma Qfloor_ge_Z h z : inject_Z z <= h -> (z <= Qfloor h)%Z.
Proof. intro H. rewrite <- (Qfloor_Z z). now apply Qfloor_resp_le. Qed.

Lemma interp_sorted_spec s h :
  interp_sorted s h ==
  nthq (Z.to_nat (Qfloor h)) s +
  (h - inject_Z (Qfloor h)) *
  (nth (S (Z.to_nat (Qfloor h))) s (nthq (Z.to_nat (Qfloor h)) s) - nthq (Z.to_nat (Qfloor h)) s).
Proof. apply Qred_correct. Qed.

Lemma interp_sorted_eqQ s s' h h' : eqQ s s' -> h == h' -> interp_sorted s h == interp_sorted s' h'.
Proof.
  intros Hs Hh. rewrite !interp_sorted_spec. rewrite <- (Qfloor_comp _ _ Hh).
  set (i := Z.to_nat (Qfloor h)).
  pose proof (eqQ_nthq _ _ i Hs) as EA.
  pose proof (eqQ_nth s s' (nthq i s) (nthq i s') (S i) Hs EA) as EB.
  set (B := nth (S i) s (nthq i s)) in *. set (B' := nth (S i) s' (nthq i s')) in *.
  set (A := nthq i s) in *. set (A' := nthq i s') in *.
  assert (EF : h - inject_Z (Qfloor h) == h' - inject_Z (Qfloor h)) by lra.
  set (F := h - inject_Z (Qfloor h)) in *. set (F' := h' - inject_Z (Qfloor h)) in *.
  rewrite EA, EB, EF. reflexivity.
Qed.

Lemma nth_succ_cases s i : (S i < length s)%nat /\ nth (S i) s (nthq i s) = nthq (S i) s \/
                            (length s <= S i)%nat /\ nth (S i) s (nthq i s) = nthq i s.
Proof.
  destruct (Nat.lt_ge_cases (S i) (length s)) as [H|H].
  - left. split; [exact H|]. unfold nthq. now apply nth_indep.
  - right. split; [exact H|]. now apply nth_overflow.
Qed.

Lemma interp_sorted_bounds s h lo hi :
  (forall x, In x s -> lo <= x <= hi) -> (Z.to_nat (Qfloor h) < length s)%nat ->
  lo <= interp_sorted s h <= hi.
Proof.
  intros B L. rewrite interp_sorted_spec. set (i := Z.to_nat (Qfloor h)) in *.
  destruct (frac_bounds h) as [F0 F1]. set (f := h - inject_Z (Qfloor h)) in *.
  assert (lo <= nthq i s <= hi) as [A1 A2] by (apply B, nthq_In, L).
  assert (lo <= nth (S i) s (nthq i s) <= hi) as [B1 B2].
  { destruct (nth_succ_cases s i) as [[H ->]|[H ->]]; [apply B, nthq_In, H|split; assumption]. }
  split; nra.
Qed.

Lemma percentile_pos_spec n p : percentile_pos n p == qofnat (n - 1) * p / 100.
Proof. apply Qred_correct. Qed.

Lemma percentile_pos_range n p : (0 < n)%nat -> 0 <= p <= 100 ->
  0 <= percentile_pos n p <= qofnat (n - 1).
Proof.
  intros N [P0 P1]. rewrite percentile_pos_spec. pose proof (qofnat_nonneg (n - 1)) as Q0.
  split.
  - apply Qle_shift_div_l; [lra|]. nra.
  - apply Qle_shift_div_r; [lra|]. nra.
Qed.

Lemma percentile_pos_index n p : (0 < n)%nat -> 0 <= p <= 100 ->
  (Z.to_nat (Qfloor (percentile_pos n p)) < n)%nat.
Proof.
  intros N P. destruct (percentile_pos_range n p N P) as [H0 H1].
  pose proof (Qfloor_nonneg _ H0). unfold qofnat in H1. apply Qfloor_le_Z in H1. lia.
Qed.

Lemma percentile_pos_mono n p1 p2 : p1 <= p2 -> percentile_pos n p1 <= percentile_pos n p2.
Proof.
  intro H. rewrite !percentile_pos_spec. pose proof (qofnat_nonneg (n - 1)) as Q0.
  apply Qle_shift_div_r; [lra|]. unfold Qdiv. rewrite <- Qmult_assoc.
  setoid_replace (/ 100 * 100) with 1 by reflexivity. nra.
Qed.

(* the percentile depends only on the multiset of values, up to == *)
Lemma percentile_PermQ p p' l l' : p == p' -> PermQ l l' -> percentile p l == percentile p' l'.
Proof.
  intros Hp H. unfold percentile. rewrite !qsort_length, <- (PermQ_length _ _ H).
  apply interp_sorted_eqQ; [now apply qsort_PermQ|].
  rewrite !percentile_pos_spec, Hp. reflexivity.
Qed.
Lemma percentile_perm p l l' : Permutation l l' -> percentile p l == percentile p l'.
Proof. intro H. apply percentile_PermQ; [reflexivity|now apply Permutation_PermQ]. Qed.
Lemma percentile_eqQ p l l' : eqQ l l' -> percentile p l == percentile p l'.
Proof. intro H. apply percentile_PermQ; [reflexivity|now apply eqQ_PermQ]. Qed.

(* within [min, max] *)
Lemma percentile_bounds p l lo hi : l <> [] -> 0 <= p <= 100 ->
  (forall x, In x l -> lo <= x <= hi) -> lo <= percentile p l <= hi.
Proof.
  intros N P B. unfold percentile. apply interp_sorted_bounds.
  - intros x Hx. apply B, qsort_In, Hx.
  - apply percentile_pos_index; [|exact P]. rewrite qsort_length. now apply length_pos_nonnil.
Qed.
Lemma percentile_min_max p l : l <> [] -> 0 <= p <= 100 -> qmin l <= percentile p l <= qmax l.
Proof.
  intros N P. apply percentile_bounds; auto. intros x Hx. split; [now apply qmin_le|now apply qmax_ge].
Qed.
Lemma percentile_const p c l : l <> [] -> 0 <= p <= 100 -> (forall x, In x l -> x == c) -> percentile p l == c.
Proof.
  intros N P H. assert (c <= percentile p l <= c) as [? ?]; [|lra].
  apply percentile_bounds; auto. intros x Hx. rewrite (H x Hx). lra.
Qed.

(* monotone in the position, hence in p *)
Lemma interp_sorted_mono s h1 h2 : sortedQ s -> 0 <= h1 -> h1 <= h2 ->
  (Z.to_nat (Qfloor h2) < length s)%nat -> interp_sorted s h1 <= interp_sorted s h2.
Proof.
  intros Hs H0 H12 L. rewrite !interp_sorted_spec.
  pose proof (Qfloor_nonneg _ H0) as Z1. pose proof (Qfloor_resp_le _ _ H12) as Z12.
  destruct (frac_bounds h1) as [F10 F11]. destruct (frac_bounds h2) as [F20 F21].
  set (i1 := Z.to_nat (Qfloor h1)) in *. set (i2 := Z.to_nat (Qfloor h2)) in *.
  assert (I12 : (i1 <= i2)%nat) by lia.
  assert (A1B1 : nthq i1 s <= nth (S i1) s (nthq i1 s)).
  { destruct (nth_succ_cases s i1) as [[H ->]|[H ->]]; [apply sortedQ_nth_le; auto; lia|lra]. }
  assert (A2B2 : nthq i2 s <= nth (S i2) s (nthq i2 s)).
  { destruct (nth_succ_cases s i2) as [[H ->]|[H ->]]; [apply sortedQ_nth_le; auto; lia|lra]. }
  destruct (Z.eq_dec (Qfloor h1) (Qfloor h2)) as [E|E].
  - assert (i1 = i2) as -> by lia. rewrite E in *.
    set (a := nthq i2 s) in *. set (b := nth (S i2) s a) in *. nra.
  - assert (I : (S i1 <= i2)%nat) by lia.
    assert (B1A2 : nth (S i1) s (nthq i1 s) <= nthq i2 s).
    { destruct (nth_succ_cases s i1) as [[H ->]|[H ->]]; [apply sortedQ_nth_le; auto; lia|lia]. }
    set (a1 := nthq i1 s) in *. set (b1 := nth (S i1) s a1) in *.
    set (a2 := nthq i2 s) in *. set (b2 := nth (S i2) s a2) in *.
    set (f1 := h1 - inject_Z (Qfloor h1)) in *. set (f2 := h2 - inject_Z (Qfloor h2)) in *.
    assert (a1 + f1 * (b1 - a1) <= b1) by nra.
    assert (a2 <= a2 + f2 * (b2 - a2)) by nra. lra.
Qed.

Lemma percentile_mono p1 p2 l : l <> [] -> 0 <= p1 -> p1 <= p2 -> p2 <= 100 ->
  percentile p1 l <= percentile p2 l.
Proof.
  intros N P0 P12 P1. unfold percentile.
  assert (L : (0 < length (qsort l))%nat) by (rewrite qsort_length; now apply length_pos_nonnil).
  apply interp_sorted_mono.
  - apply qsort_sorted.
  - apply percentile_pos_range; [exact L|lra].
  - now apply percentile_pos_mono.
  - apply percentile_pos_index; [exact L|lra].
Qed.

(* equivariance under monotone maps that commute with linear interpolation *)
Definition interp_hom (f : Q -> Q) : Prop := forall a b t, f (a + t * (b - a)) == f a + t * (f b - f a).

Lemma interp_sorted_map (f : Q -> Q) s h : Proper (Qeq ==> Qeq) f -> interp_hom f ->
  (Z.to_nat (Qfloor h) < length s)%nat -> interp_sorted (map f s) h == f (interp_sorted s h).
Proof.
  intros Pf Hf L. rewrite (Pf _ _ (interp_sorted_spec s h)), interp_sorted_spec.
  set (i := Z.to_nat (Qfloor h)) in *. rewrite (nthq_map f s i L).
  rewrite (map_nth f s (nthq i s) (S i)). symmetry. apply Hf.
Qed.

Lemma percentile_map_mono (f : Q -> Q) p l : l <> [] -> 0 <= p <= 100 ->
  (forall a b, a <= b -> f a <= f b) -> interp_hom f -> percentile p (map f l) == f (percentile p l).
Proof.
  intros N P Hf Hi. unfold percentile. rewrite !qsort_length, map_length.
  rewrite (interp_sorted_eqQ _ _ _ _ (qsort_map_mono f l Hf) (Qeq_refl _)).
  apply interp_sorted_map; [now apply mono_proper|exact Hi|].
  rewrite qsort_length. apply percentile_pos_index; [now apply length_pos_nonnil|exact P].
Qed.

Lemma percentile_shift c p l : l <> [] -> 0 <= p <= 100 ->
  percentile p (map (fun x => x + c) l) == percentile p l + c.
Proof.
  intros N P. apply (percentile_map_mono (fun x => x + c)); auto.
  - intros a b H; lra.
  - intros a b t; ring.
Qed.
Lemma percentile_scale_nonneg k p l : l <> [] -> 0 <= p <= 100 -> 0 <= k ->
  percentile p (map (fun x => k * x) l) == k * percentile p l.
Proof.
  intros N P K. apply (percentile_map_mono (fun x => k * x)); auto.
  - intros a b H; nra.
  - intros a b t; ring.
Qed.
Lemma percentile_affine_nonneg k c p l : l <> [] -> 0 <= p <= 100 -> 0 <= k ->
  percentile p (map (fun x => k * x + c) l) == k * percentile p l + c.
Proof.
  intros N P K. apply (percentile_map_mono (fun x => k * x + c)); auto.
  - intros a b H; nra.
  - intros a b t; ring.
Qed.

(* ------------------------------------------------------------------------ *)
(** * Rounding *)

Lemma floorQ_spec q : inject_Z (floorQ q) <= q /\ q < inject_Z (floorQ q) + 1.
Proof. destruct (frac_bounds q). unfold floorQ. split; lra. Qed.
Lemma ceilQ_spec q : inject_Z (ceilQ q) - 1 < q /\ q <= inject_Z (ceilQ q).
Proof.
  unfold ceilQ. pose proof (Qceiling_lt q) as H1. pose proof (Qle_ceiling q) as H2.
  replace (Qceiling q - 1)%Z with (Qceiling q + (-1))%Z in H1 by lia.
  rewrite inject_Z_plus in H1. change (inject_Z (-1)) with (-1 # 1) in H1.
  split; lra.
Qed.
Lemma floorQ_Z z : floorQ (inject_Z z) = z. Proof. apply Qfloor_Z. Qed.
Lemma ceilQ_Z z : ceilQ (inject_Z z) = z. Proof. apply Qceiling_Z. Qed.
Lemma floorQ_mono a b : a <= b -> (floorQ a <= floorQ b)%Z. Proof. apply Qfloor_resp_le. Qed.
Lemma ceilQ_mono a b : a <= b -> (ceilQ a <= ceilQ b)%Z. Proof. apply Qceiling_resp_le. Qed.

(* round-half-even is within 1/2 of its argument *)
Lemma round_half_even_spec q : Qabs (inject_Z (round_half_even q) - q) <= 1 # 2.
Proof.
  unfold round_half_even. destruct (frac_bounds q) as [F0 F1].
  apply Qabs_Qle_condition.
  destruct (q - inject_Z (Qfloor q) ?= 1 # 2) eqn:C.
  - apply Qeq_alt in C. destruct (Z.even (Qfloor q)).
    + split; lra.
    + rewrite inject_Z_plus. change (inject_Z 1) with 1. split; lra.
  - apply Qlt_alt in C. split; lra.
  - apply Qgt_alt in C. rewrite inject_Z_plus. change (inject_Z 1) with 1. split; lra.
Qed.
Lemma round_half_even_Z z : round_half_even (inject_Z z) = z.
Proof.
  unfold round_half_even. rewrite Qfloor_Z.
  assert (inject_Z z - inject_Z z ?= 1 # 2 = Lt) as ->; [|reflexivity].
  apply (proj1 (Qlt_alt _ _)). ring_simplify (inject_Z z - inject_Z z). reflexivity.
Qed.
Global Instance round_half_even_Proper : Proper (Qeq ==> eq) round_half_even.
Proof.
  intros a b E. unfold round_half_even. rewrite (Qfloor_comp _ _ E).
  assert (a - inject_Z (Qfloor b) ?= 1 # 2 = (b - inject_Z (Qfloor b) ?= 1 # 2)) as ->; [|reflexivity].
  now rewrite E.
Qed.
