(* C17 (extension) -- do_bintest end to end: every output row is the input bin at its index label
   with log2 := residual, probes := 1 and the adjusted p; the order of the tested rows for
   arbitrary segmentations; weights exactly 1. *)
From CNV Require Import Base.Prelude Base.QNum Proofs.QNumLemmas Gen.Params Gen.SegmetricsDefaults
  Model.Ranges Model.Segmetrics Model.Bintest Spec.RangeQuery Spec.SegBins Spec.Bintest
  Proofs.SegmetricsBins Proofs.BintestBH Proofs.Bintest.
From Coq Require Import Qround Qabs Psatz.
Local Open Scope Q_scope.

Definition dflt_bin : bin := mkBin "" 0 0 "" 0 0 None.

(* ---- every tested row is a row of the input table ------------------------------------ *)
Lemma find_bin_sound tb id ib : find_bin tb id = Some ib -> In ib tb.
Proof.
  induction tb as [|x t IH]; [discriminate|]. cbn [find_bin].
  destruct (Z.of_nat (fst x) =? id)%Z.
  - intro H. injection H as <-. now left.
  - intro H. right. now apply IH.
Qed.

Lemma rows_tbins_src tb rows ib : In ib (rows_tbins tb rows) -> In ib tb.
Proof.
  unfold rows_tbins. intro H. apply in_flat_map in H. destruct H as (r & _ & H).
  destruct (find_bin tb (r_id r)) as [jb|] eqn:E; [|destruct H].
  destruct H as [<-|[]]. now apply (find_bin_sound _ _ _ E).
Qed.

Lemma In_map2 {A B C} (f : A -> B -> C) l1 l2 y :
  In y (map2 f l1 l2) -> exists a b, In a l1 /\ In b l2 /\ y = f a b.
Proof.
  revert l2. induction l1 as [|a t IH]; intros [|b u] H; try destruct H.
  - exists a, b. repeat split; [now left|now left|now symmetry].
  - destruct (IH u H) as (a' & b' & Ha & Hb & E). exists a', b'. repeat split; [now right|now right|exact E].
Qed.

Lemma resid_segments_src tb segs c : In c (resid_segments tb segs) -> In (fst c) tb.
Proof.
  unfold resid_segments. intro H. apply in_concat in H. destruct H as (l & Hl & Hc).
  apply In_map2 in Hl. destruct Hl as (s & sb & _ & Hsb & ->).
  apply in_map_iff in Hc. destruct Hc as (ib & <- & Hib). cbn [fst].
  unfold select_bins in Hsb. apply in_map_iff in Hsb. destruct Hsb as (rows & <- & _).
  now apply (rows_tbins_src _ _ _ Hib).
Qed.

Lemma resid_chromosomes_src tb c : In c (resid_chromosomes tb) -> In (fst c) tb.
Proof.
  unfold resid_chromosomes. intro H. apply in_concat in H. destruct H as (l & Hl & Hc).
  apply in_map_iff in Hl. destruct Hl as (ch & <- & _).
  apply in_map_iff in Hc. destruct Hc as (ib & <- & Hib). cbn [fst].
  apply filter_In in Hib. tauto.
Qed.

Lemma dedupe_incl seen l c : In c (dedupe seen l) -> In c l.
Proof.
  revert seen. induction l as [|x t IH]; intros seen H; [destruct H|]. cbn [dedupe] in H.
  destruct (existsb (Nat.eqb (c_idx x)) seen).
  - right. now apply (IH seen).
  - destruct H as [<-|H]; [now left|right; now apply (IH _ H)].
Qed.

Definition resid_rows (bins : list bin) (segs : option (list seg)) : list cand :=
  match segs with
  | Some (s :: t) => resid_segments (tagged bins) (s :: t)
  | _ => resid_chromosomes (tagged bins)
  end.

Lemma resid_rows_src bins segs c : In c (resid_rows bins segs) -> In (fst c) (tagged bins).
Proof.
  unfold resid_rows. destruct segs as [[|s t]|]; intro H;
    [exact (resid_chromosomes_src _ _ H)|exact (resid_segments_src _ _ _ H)|exact (resid_chromosomes_src _ _ H)].
Qed.

Lemma candidates_src bins segs target_only c :
  In c (candidates bins segs target_only) -> In (fst c) (tagged bins).
Proof.
  unfold candidates. fold (resid_rows bins segs).
  set (r := resid_rows bins segs). set (r' := dedupe [] r).
  assert (R' : forall x, In x r' -> In (fst x) (tagged bins)).
  { intros x Hx. apply (resid_rows_src bins segs). now apply (dedupe_incl [] r). }
  assert (G : forall x, In x (if Nat.eqb (length r) (length r') && Nat.eqb (length r') (length bins)
                             then concat (map (fun ib => match find_cand (fst ib) r' with Some c => [c] | None => [] end) (tagged bins))
                             else r') -> In (fst x) (tagged bins)).
  { intros x Hx. destruct (Nat.eqb (length r) (length r') && Nat.eqb (length r') (length bins)); [|now apply R'].
    apply in_concat in Hx. destruct Hx as (l & Hl & Hx). apply in_map_iff in Hl. destruct Hl as (ib & <- & _).
    destruct (find_cand (fst ib) r') as [c0|] eqn:E; [|destruct Hx]. destruct Hx as [<-|[]].
    apply R'. now destruct (find_cand_spec _ _ _ E). }
  intro H. destruct target_only; [apply filter_In in H; destruct H as [H _]|]; now apply G.
Qed.

Lemma tagged_nth bins i b : In (i, b) (tagged bins) -> (i < length bins)%nat /\ nth i bins dflt_bin = b.
Proof.
  unfold tagged. intro H. destruct (combine_seq_In bins dflt_bin 0 i b H) as [H1 H2].
  rewrite Nat.sub_0_r in H2. split; [lia|exact H2].
Qed.

Theorem cand_is_input_bin bins segs target_only c : In c (candidates bins segs target_only) ->
  (c_idx c < length bins)%nat /\ nth (c_idx c) bins dflt_bin = c_bin c.
Proof.
  intro H. apply candidates_src in H. destruct c as [[i b] r]. unfold c_idx, c_bin. cbn [fst snd] in *.
  now apply tagged_nth.
Qed.

(* ---- the output table ------------------------------------------------------------------ *)
Lemma bintest_table_with_In ps cs alpha h : In h (bintest_table_with ps cs alpha) ->
  exists c q, In c cs /\ h = mkHitRow (c_idx c) (set_log2 (c_bin c) (c_res c)) bt_probes q.
Proof.
  unfold bintest_table_with. intro H. apply in_concat in H. destruct H as (l & Hl & Hh).
  apply in_map_iff in Hl. destruct Hl as ([c o] & <- & Hc). apply in_combine_l in Hc. cbn [fst snd] in Hh.
  destruct o as [q|]; [|destruct Hh]. destruct (qlt_b q alpha); [|destruct Hh].
  destruct Hh as [<-|[]]. now exists c, q.
Qed.

(* its (index, log2, p_bintest) columns are the hits of do_bintest *)
Theorem bintest_table_projection ps cs alpha :
  map (fun h => (h_idx h, b_log2 (h_bin h), h_p h)) (bintest_table_with ps cs alpha) = bintest_with ps cs alpha.
Proof.
  unfold bintest_table_with, bintest_with. generalize (bh_opt ps).
  induction cs as [|c t IH]; intro l; [reflexivity|]. destruct l as [|o l']; [reflexivity|].
  cbn [combine map concat fst snd]. rewrite map_app, IH. f_equal.
  destruct o as [q|]; [|reflexivity]. destruct (qlt_b q alpha); reflexivity.
Qed.

Theorem do_bintest_table_projection phi bins segs alpha target_only :
  map (fun h => (h_idx h, b_log2 (h_bin h), h_p h)) (do_bintest_table phi bins segs alpha target_only) =
  do_bintest phi bins segs alpha target_only.
Proof. apply bintest_table_projection. Qed.

(* every output row is the input bin carrying that index label, log2 overwritten and nothing
   else, probes = 1 *)
Theorem do_bintest_table_rows phi bins segs alpha target_only :
  Forall (fun h => (h_idx h < length bins)%nat /\
                   h_bin h = set_log2 (nth (h_idx h) bins dflt_bin) (b_log2 (h_bin h)) /\
                   h_probes h = 1%Z)
         (do_bintest_table phi bins segs alpha target_only).
Proof.
  apply Forall_forall. intros h H. unfold do_bintest_table in H.
  apply bintest_table_with_In in H. destruct H as (c & q & Hc & ->). cbn [h_idx h_bin h_probes].
  destruct (cand_is_input_bin bins segs target_only c Hc) as [L E]. split; [exact L|]. split; [|reflexivity].
  rewrite E. reflexivity.
Qed.

(* ---- order of the tested rows, any segmentation ---------------------------------------- *)
Lemma dedupe_fresh seen l c : In c (dedupe seen l) -> ~ In (c_idx c) seen.
Proof.
  revert seen. induction l as [|x t IH]; intros seen H; [destruct H|]. cbn [dedupe] in H.
  destruct (existsb (Nat.eqb (c_idx x)) seen) eqn:E.
  - now apply IH.
  - destruct H as [<-|H].
    + intro I. assert (existsb (Nat.eqb (c_idx x)) seen = true); [|congruence].
      apply existsb_exists. exists (c_idx x). split; [exact I|apply Nat.eqb_refl].
    + intro I. apply (IH _ H). now right.
Qed.

Lemma dedupe_NoDup seen l : NoDup (map c_idx (dedupe seen l)).
Proof.
  revert seen. induction l as [|x t IH]; intro seen; [constructor|]. cbn [dedupe].
  destruct (existsb (Nat.eqb (c_idx x)) seen); [apply IH|]. cbn [map]. constructor; [|apply IH].
  intro I. apply in_map_iff in I. destruct I as (c & E & Hc). apply dedupe_fresh in Hc. apply Hc. left. now symmetry.
Qed.

Lemma dedupe_id seen l : NoDup (map c_idx l) -> (forall c, In c l -> ~ In (c_idx c) seen) -> dedupe seen l = l.
Proof.
  revert seen. induction l as [|x t IH]; intros seen ND F; [reflexivity|]. cbn [dedupe].
  destruct (existsb (Nat.eqb (c_idx x)) seen) eqn:E.
  - apply existsb_exists in E. destruct E as (i & Hi & E). apply Nat.eqb_eq in E. subst i.
    exfalso. apply (F x); [now left|exact Hi].
  - f_equal. inversion ND; subst. apply IH; [assumption|].
    intros c Hc [I|I].
    + apply H1. rewrite I. now apply in_map.
    + apply (F c); [now right|exact I].
Qed.

Lemma find_cand_complete i l : In i (map c_idx l) -> exists c, find_cand i l = Some c.
Proof.
  induction l as [|x t IH]; intro H; [destruct H|]. cbn [find_cand].
  destruct (Nat.eqb_spec (c_idx x) i) as [E|E]; [now exists x|].
  destruct H as [H|H]; [contradiction|now apply IH].
Qed.

Lemma filter_all_c {A} (p : A -> bool) l : (forall x, In x l -> p x = true) -> filter p l = l.
Proof.
  induction l as [|x t IH]; intro H; [reflexivity|]. cbn. rewrite (H x (or_introl eq_refl)).
  f_equal. apply IH. intros; apply H; now right.
Qed.

Lemma tagged_fst bins : map fst (tagged bins) = seq 0 (length bins).
Proof. unfold tagged. apply combine_seq_fst. Qed.

(* the order the code produces: the table's own order when the residuals cover every bin exactly
   once (column assignment aligned on the index); otherwise the order of the residuals --
   segment by segment as the segment table lists them, first occurrence of a bin kept *)
Theorem candidates_order_general bins segs :
  let r := resid_rows bins segs in
  let r' := dedupe [] r in
  map c_idx (candidates bins segs false) =
  if Nat.eqb (length r) (length r') && Nat.eqb (length r') (length bins)
  then seq 0 (length bins) else map c_idx r'.
Proof.
  intros r r'.
  destruct (Nat.eqb (length r) (length r') && Nat.eqb (length r') (length bins)) eqn:E.
  - apply andb_prop in E. destruct E as [E1 E2]. apply Nat.eqb_eq in E1, E2.
    pose proof (candidates_table_order bins segs) as T. cbv zeta in T. fold (resid_rows bins segs) in T.
    fold r in T. fold r' in T. rewrite (T E1 E2).
    assert (I : incl (seq 0 (length bins)) (map c_idx r')).
    { apply NoDup_length_incl; [apply dedupe_NoDup|rewrite seq_length, map_length; lia|].
      intros i Hi. apply in_map_iff in Hi. destruct Hi as (c & <- & Hc).
      apply (dedupe_incl [] r) in Hc. apply resid_rows_src in Hc. destruct c as [[j b] x].
      apply tagged_nth in Hc. apply in_seq. unfold c_idx. cbn [fst] in *. lia. }
    rewrite filter_all_c; [apply tagged_fst|].
    intros ib Hib. unfold has_cand.
    assert (In (fst ib) (map c_idx r')).
    { apply I. rewrite <- tagged_fst. now apply in_map. }
    destruct (find_cand_complete _ _ H) as (c & ->). reflexivity.
  - unfold candidates. fold (resid_rows bins segs). fold r. fold r'. now rewrite E.
Qed.

(* segments listed in the table's order (the residual rows come with increasing index labels):
   nothing is dropped or moved -- the tested rows are the residual rows, in table order *)
Lemma seq_sorted a n : StronglySorted lt (seq a n).
Proof.
  revert a. induction n as [|n IH]; intro a; [constructor|]. cbn. constructor; [apply IH|].
  apply Forall_forall. intros x Hx. apply in_seq in Hx. lia.
Qed.

Lemma sorted_lt_NoDup l : StronglySorted lt l -> NoDup l.
Proof.
  induction 1 as [|x t S IH F]; constructor; [|exact IH].
  intro I. rewrite Forall_forall in F. specialize (F x I). lia.
Qed.

Theorem candidates_sorted_order bins segs :
  let r := resid_rows bins segs in
  StronglySorted lt (map c_idx r) ->
  StronglySorted lt (map c_idx (candidates bins segs false)) /\
  (forall i, In i (map c_idx (candidates bins segs false)) <-> In i (map c_idx r)).
Proof.
  intros r S. pose proof (candidates_order_general bins segs) as G. cbv zeta in G. fold r in G.
  assert (D : dedupe [] r = r) by (apply dedupe_id; [now apply sorted_lt_NoDup|intros c _ []]).
  rewrite D in G. rewrite G.
  destruct (Nat.eqb (length r) (length r) && Nat.eqb (length r) (length bins)) eqn:E; [|split; [exact S|tauto]].
  apply andb_prop in E. destruct E as [_ E]. apply Nat.eqb_eq in E.
  split; [apply seq_sorted|].
  assert (I1 : incl (map c_idx r) (seq 0 (length bins))).
  { intros i Hi. apply in_map_iff in Hi. destruct Hi as (c & <- & Hc).
    apply resid_rows_src in Hc. destruct c as [[j b] x]. apply tagged_nth in Hc. apply in_seq.
    unfold c_idx. cbn [fst] in *. lia. }
  assert (I2 : incl (seq 0 (length bins)) (map c_idx r)).
  { apply NoDup_length_incl; [now apply sorted_lt_NoDup|rewrite seq_length, map_length; lia|exact I1]. }
  intro i. split; [apply I2|apply I1].
Qed.

(* ---- weights exactly 1 ------------------------------------------------------------------ *)
(* 1 - weight = 0: the z-score is r/0 -- infinite for a non-zero residual (p = 0), 0/0 = NaN
   for a zero residual *)
Theorem zsq_weight_one_gen r w : w == 1 -> zsq r w = if qeq_b r 0 then Znan else Zinf.
Proof.
  intro H. unfold zsq.
  assert (E : qeq_b (qsub z_one w) 0 = true).
  { apply qeq_b_iff. rewrite qsub_spec, H. unfold z_one. ring. }
  now rewrite E.
Qed.

Theorem p_of_weight_one phi r w : w == 1 ->
  p_of phi (zsq r w) = if qeq_b r 0 then None else Some 0.
Proof. intro H. rewrite (zsq_weight_one_gen r w H). destruct (qeq_b r 0); reflexivity. Qed.

(* a raw p of 0 stays 0 under Benjamini-Hochberg: such a bin is reported at every alpha > 0 *)
Theorem bh_val_zero ps : pvals ps -> In 0 ps -> bh_val ps 0 == 0.
Proof.
  intros P I. apply Qle_antisym; [|now apply (bh_val_bounds ps 0 P I)].
  unfold bh_val. eapply Qle_trans.
  - apply minl_le_in. apply in_map. apply filter_In. split; [exact I|]. apply qle_b_iff. apply Qle_refl.
  - rewrite bh_term_spec. unfold Qdiv. rewrite Qmult_0_r, Qmult_0_l. apply Qle_refl.
Qed.

(* ==== the statements as Props/C17.v exports them ========================================== *)
Theorem bintest_table_summary phi bins segs alpha target_only :
  map (fun h => (h_idx h, b_log2 (h_bin h), h_p h)) (do_bintest_table phi bins segs alpha target_only) =
  do_bintest phi bins segs alpha target_only /\
  Forall (fun h => (h_idx h < length bins)%nat /\
                   h_bin h = set_log2 (nth (h_idx h) bins dflt_bin) (b_log2 (h_bin h)) /\
                   h_probes h = 1%Z)
         (do_bintest_table phi bins segs alpha target_only).
Proof. split; [apply do_bintest_table_projection|apply do_bintest_table_rows]. Qed.

Theorem bintest_columns_text :
  bintest_columns false = ["chromosome"; "start"; "end"; "gene"; "log2"; "weight"; "probes"; "p_bintest"]%string /\
  bintest_columns true = ["chromosome"; "start"; "end"; "gene"; "log2"; "weight"; "depth"; "probes"; "p_bintest"]%string.
Proof. split; reflexivity. Qed.

Theorem zscore_weight_one_summary phi r w : w == 1 ->
  zsq r w = (if qeq_b r 0 then Znan else Zinf) /\
  p_of phi (zsq r w) = if qeq_b r 0 then None else Some 0.
Proof. intros. split; [now apply zsq_weight_one_gen|now apply p_of_weight_one]. Qed.
