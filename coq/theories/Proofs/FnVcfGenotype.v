(* C18 tie of vcfio._extract_genotype and vcfio._get_alt_count, translated as WHOLE functions
   (statement by statement, regenerated from the Python source on every run):

     Gen/FnVcfGenotype.v fn_extract_genotype -- the depth chain
         if "DP" in sample: depth = sample["DP"]
         elif "AD" in sample and isinstance(sample["AD"], tuple): depth = _safesum(sample["AD"])
         elif "DP" in record.info: depth = record.info["DP"]
         else: depth = np.nan
       the zygosity chain on gts = set(sample["GT"]) (len(gts) > 1 -> 0.5; gts.pop() == 0 -> 0.0; else 1.0)
       and alt_count = _get_alt_count(sample), returned as a triple;
     Gen/FnVcfAltCount.v fn_get_alt_count -- the AD / CLCAD2 / AO / NaN chain.

   Container tests and reads are opaque typed inputs keyed by their source text; here Model/Vcf.v
   supplies them from the structured record pysam hands over (FORMAT-declared fields are present in
   every sample; AD is a tuple; no CLCAD2 / AO fields).  A missing value and NaN are None.
   Here: the generated triple IS (depth_of, zygosity_of, alt_count_of) of the model. *)
From CNV Require Import Base.Prelude Base.Str Gen.VcfDefaults Gen.FnVcfGenotype Gen.FnVcfAltCount Model.Vcf.

Local Open Scope Z_scope.

Definition is_some {A} (o : option A) : bool := match o with Some _ => true | None => false end.
Definition omapQ (o : option Z) : option Q := match o with Some z => Some (inject_Z z) | None => None end.

(* the single element of set(sample["GT"]) that gts.pop() returns when there is only one *)
Definition first_allele (gt : list (option Z)) : option Z :=
  match dedup gt with Some a :: _ => Some a | _ => None end.

(* _get_alt_count on a pysam sample of the record r *)
Definition py_alt_count (r : vrec) (c : scall) : option Q :=
  fn_get_alt_count (r_has_ad r && negb (ad_is_missing (s_ad c))) true
                   (Z.of_nat (length (s_ad c))) (omapQ (nth 1 (s_ad c) None)) None
                   false None false false 0%Q None None.

Lemma source_alt_count r c : omapQ (alt_count_of r c) = py_alt_count r c.
Proof.
  unfold alt_count_of, py_alt_count, fn_get_alt_count.
  destruct (r_has_ad r && negb (ad_is_missing (s_ad c))); [|reflexivity].
  change VcfDefaults.ad_alt_index with 1.
  destruct (1 <? Z.of_nat (length (s_ad c))); reflexivity.
Qed.

(* _extract_genotype on the call c of the record r *)
Definition py_extract_genotype (r : vrec) (c : scall) : option Z * Q * option Q :=
  fn_extract_genotype (r_has_dp r) (s_dp c) (r_has_ad r) true (safesum (s_ad c))
                      (is_some (r_info_dp r)) (r_info_dp r) None
                      0 (Z.of_nat (length (dedup (s_gt c)))) (first_allele (s_gt c))
                      (py_alt_count r c).

Theorem source_extract_genotype r c :
  py_extract_genotype r c = (depth_of r c, zygosity_of (s_gt c), omapQ (alt_count_of r c)).
Proof.
  unfold py_extract_genotype, fn_extract_genotype. rewrite <- source_alt_count.
  cbv zeta. apply f_equal2; [apply f_equal2|reflexivity].
  - unfold depth_of. destruct (r_has_dp r); [reflexivity|]. cbn [andb].
    destruct (r_has_ad r); cbn [andb]; [reflexivity|]. destruct (r_info_dp r); reflexivity.
  - unfold zygosity_of, first_allele. change VcfDefaults.gt_distinct_gt with 1.
    destruct (1 <? Z.of_nat (length (dedup (s_gt c)))); [reflexivity|].
    destruct (dedup (s_gt c)) as [|[a|] t]; reflexivity.
Qed.

(* the columns of a sample's call are the generated triple with NaN / None filled by 0 *)
Corollary source_geno r c :
  let '(d, z, a) := py_extract_genotype r c in
  g_zyg (geno r c) = z /\ g_depth (geno r c) = fillZ d /\
  omapQ (Some (g_count (geno r c))) = match a with Some q => Some q | None => Some 0%Q end.
Proof.
  rewrite source_extract_genotype. cbn [geno g_zyg g_depth g_count]. repeat split.
  destruct (alt_count_of r c); reflexivity.
Qed.
