(* C05, the statistical clauses as DETERMINISTIC bounded-noise statements (part 1: numerics).

     * order statistics are monotone under pointwise <=, hence the median is monotone and
       1-Lipschitz in the sup norm ([median_lipschitz]);
     * at least half of a list lies at or below its median ([count_le_median]);
     * a list whose values all lie within r of v, about any centre within r of v: the midvariance
       (c = 9, MAD fallback 1.4826 MAD included) is at most 62 r^2 ([midvar_near]).

   Part 2 (Proofs/ReferenceNoiseCohort.v) carries these through the centring and the sex shift of
   Model/Reference.v. *)
From CNV Require Import Base.Prelude Base.QNum Spec.Biweight Proofs.QNumLemmas.
From Coq Require Import Qabs Psatz.
Local Open Scope Q_scope.

(* ---- counting the values at or below a level ----------------------------------------------------- *)
Definition count_le (t : Q) (l : list Q) : nat := length (filter (fun x => Qle_bool x t) l).

Lemma count_le_cons t x l :
  count_le t (x :: l) = ((if Qle_bool x t then 1 else 0) + count_le t l)%nat.
Proof. unfold count_le. cbn [filter]. destruct (Qle_bool x t); reflexivity. Qed.

Lemma count_le_perm t l l' : Permutation l l' -> count_le t l = count_le t l'.
Proof.
  induction 1 as [|x l l' _ IH|x y l|l l' l'' _ IH1 _ IH2]; [reflexivity| | |congruence].
  - rewrite !count_le_cons. lia.
  - rewrite !count_le_cons. lia.
Qed.

Lemma count_le_length t l : (count_le t l <= length l)%nat.
Proof. induction l as [|a l IH]; [cbn; lia|]. rewrite count_le_cons. cbn [length]. destruct (Qle_bool a t); lia. Qed.

(* a pointwise smaller list has at least as many values below any level *)
Lemma count_le_mono t l l' : Forall2 Qle l l' -> (count_le t l' <= count_le t l)%nat.
Proof.
  induction 1 as [|x y l l' Hxy _ IH]; [reflexivity|]. rewrite !count_le_cons.
  destruct (Qle_bool y t) eqn:Ey; [|lia].
  apply Qle_bool_iff in Ey.
  assert (Ex : Qle_bool x t = true) by (apply Qle_bool_iff; lra). rewrite Ex. lia.
Qed.

Lemma count_le_none t l : (forall x, In x l -> t < x) -> count_le t l = 0%nat.
Proof.
  induction l as [|a l IH]; intros H; [reflexivity|]. rewrite count_le_cons.
  assert (Ea : Qle_bool a t = false).
  { destruct (Qle_bool a t) eqn:E; [|reflexivity]. apply Qle_bool_iff in E.
    pose proof (H a (or_introl eq_refl)). lra. }
  rewrite Ea, IH; [reflexivity|]. intros x Hx. apply H. now right.
Qed.

(* in a sorted list: s_k <= t  iff  more than k values are <= t *)
Lemma count_sorted_ge s : sortedQ s -> forall k t,
  (k < length s)%nat -> nthq k s <= t -> (k + 1 <= count_le t s)%nat.
Proof.
  induction 1 as [|a s S IH F]; intros k t Hk Ht; cbn [length] in Hk; [lia|].
  rewrite count_le_cons. unfold nthq in *.
  assert (Ha : a <= t).
  { destruct k as [|k]; [exact Ht|]. cbn [nth] in Ht. rewrite Forall_forall in F.
    assert (a <= nth k s 0) by (apply F, nth_In; lia). lra. }
  assert (Ea : Qle_bool a t = true) by (apply Qle_bool_iff; exact Ha). rewrite Ea.
  destruct k as [|k]; [lia|]. cbn [nth] in Ht. specialize (IH k t). lia.
Qed.

Lemma count_sorted_le s : sortedQ s -> forall k t,
  (k < length s)%nat -> t < nthq k s -> (count_le t s <= k)%nat.
Proof.
  induction 1 as [|a s S IH F]; intros k t Hk Ht; cbn [length] in Hk; [lia|].
  unfold nthq in *. destruct k as [|k].
  - cbn [nth] in Ht. rewrite count_le_none; [lia|].
    intros x [<-|Hx]; [exact Ht|]. rewrite Forall_forall in F. specialize (F x Hx). lra.
  - cbn [nth] in Ht. rewrite count_le_cons. specialize (IH k t).
    destruct (Qle_bool a t); lia.
Qed.

(* ---- order statistics are monotone --------------------------------------------------------------- *)
Lemma Forall2_Qle_length l l' : Forall2 Qle l l' -> length l = length l'.
Proof. induction 1; cbn; congruence. Qed.

Lemma order_stat_mono l l' k :
  Forall2 Qle l l' -> (k < length l)%nat -> nthq k (qsort l) <= nthq k (qsort l').
Proof.
  intros H Hk. pose proof (Forall2_Qle_length _ _ H) as Hl.
  set (t := nthq k (qsort l')).
  destruct (Qlt_le_dec t (nthq k (qsort l))) as [Hlt|Hle]; [exfalso|exact Hle].
  assert (H1 : (k + 1 <= count_le t (qsort l'))%nat).
  { apply count_sorted_ge; [apply qsort_sorted|rewrite qsort_length; lia|unfold t; lra]. }
  assert (H2 : (count_le t (qsort l) <= k)%nat).
  { apply count_sorted_le; [apply qsort_sorted|rewrite qsort_length; lia|exact Hlt]. }
  rewrite (count_le_perm t _ _ (qsort_perm l')) in H1.
  rewrite (count_le_perm t _ _ (qsort_perm l)) in H2.
  pose proof (count_le_mono t l l' H). lia.
Qed.

(* ---- the median is monotone and 1-Lipschitz in the sup norm ----------------------------------------- *)
Theorem median_mono l l' : Forall2 Qle l l' -> median l <= median l'.
Proof.
  intros H. pose proof (Forall2_Qle_length _ _ H) as Hl.
  destruct l as [|x0 l0].
  { destruct l'; [|discriminate]. lra. }
  set (l := x0 :: l0) in *.
  assert (Hpos : (0 < length l)%nat) by (cbn; lia).
  unfold median.
  assert (Ls : length (qsort l) = length l) by apply qsort_length.
  assert (Ls' : length (qsort l') = length l) by (rewrite qsort_length; lia).
  destruct (Nat.even (length l)) eqn:E.
  - rewrite (median_sorted_even (qsort l)) by (rewrite Ls; exact E).
    rewrite (median_sorted_even (qsort l')) by (rewrite Ls'; exact E).
    rewrite Ls, Ls'. pose proof (even_half_true _ E) as Hh.
    assert (A1 : nthq (length l / 2 - 1) (qsort l) <= nthq (length l / 2 - 1) (qsort l'))
      by (apply order_stat_mono; [exact H|lia]).
    assert (A2 : nthq (length l / 2) (qsort l) <= nthq (length l / 2) (qsort l'))
      by (apply order_stat_mono; [exact H|lia]).
    apply Qle_shift_div_l; [reflexivity|].
    setoid_replace ((nthq (length l / 2 - 1) (qsort l) + nthq (length l / 2) (qsort l)) / 2 * 2)
      with (nthq (length l / 2 - 1) (qsort l) + nthq (length l / 2) (qsort l)) by field.
    lra.
  - rewrite (median_sorted_odd (qsort l)) by (rewrite Ls; exact E).
    rewrite (median_sorted_odd (qsort l')) by (rewrite Ls'; exact E).
    rewrite Ls, Ls'. pose proof (even_half_false _ E) as Hh.
    apply order_stat_mono; [exact H|lia].
Qed.

(* l' is l moved by d, up to e in every coordinate *)
Definition near_list (d e : Q) (l l' : list Q) : Prop :=
  Forall2 (fun x y => Qabs (y - (x + d)) <= e) l l'.

Lemma near_list_length d e l l' : near_list d e l l' -> length l = length l'.
Proof. induction 1; cbn; congruence. Qed.

Theorem median_lipschitz d e l l' :
  l <> [] -> near_list d e l l' -> Qabs (median l' - (median l + d)) <= e.
Proof.
  intros N H.
  assert (Hlo : Forall2 Qle (map (fun x => x + (d - e)) l) l').
  { clear N. induction H as [|x y l l' Hxy _ IH]; cbn [map]; constructor; [|exact IH].
    apply Qabs_Qle_condition in Hxy. lra. }
  assert (Hhi : Forall2 Qle l' (map (fun x => x + (d + e)) l)).
  { clear N Hlo. induction H as [|x y l l' Hxy _ IH]; cbn [map]; constructor; [|exact IH].
    apply Qabs_Qle_condition in Hxy. lra. }
  apply median_mono in Hlo. apply median_mono in Hhi.
  rewrite median_shift in Hlo, Hhi by exact N.
  apply Qabs_Qle_condition. split; lra.
Qed.

(* ---- half of the values lie at or below the median ---------------------------------------------------- *)
Lemma count_le_median l : (length l <= 2 * count_le (median l) l)%nat.
Proof.
  destruct l as [|x0 l0]; [cbn; lia|]. set (l := x0 :: l0).
  assert (Hpos : (0 < length l)%nat) by (cbn; lia).
  rewrite <- (count_le_perm (median l) _ _ (qsort_perm l)).
  assert (Ls : length (qsort l) = length l) by apply qsort_length.
  unfold median at 1.
  destruct (Nat.even (length l)) eqn:E.
  - pose proof (even_half_true _ E) as Hh.
    assert (H1 : (length l / 2 - 1 + 1 <= count_le (median_sorted (qsort l)) (qsort l))%nat).
    { apply count_sorted_ge; [apply qsort_sorted|lia|].
      rewrite (median_sorted_even (qsort l)) by (rewrite Ls; exact E). rewrite Ls.
      assert (A : nthq (length l / 2 - 1) (qsort l) <= nthq (length l / 2) (qsort l))
        by (apply sortedQ_nth_le; [apply qsort_sorted|lia]).
      apply Qle_shift_div_l; [reflexivity|]. lra. }
    lia.
  - pose proof (even_half_false _ E) as Hh.
    assert (H1 : (length l / 2 + 1 <= count_le (median_sorted (qsort l)) (qsort l))%nat).
    { apply count_sorted_ge; [apply qsort_sorted|lia|].
      rewrite (median_sorted_odd (qsort l)) by (rewrite Ls; exact E). rewrite Ls. lra. }
    lia.
Qed.

(* ---- sums ---------------------------------------------------------------------------------------------- *)
Lemma sumQ_le_const (f : Q -> Q) c l : (forall x, In x l -> f x <= c) -> sumQ f l <= qofnat (length l) * c.
Proof.
  induction l as [|x l IH]; intros H; [cbn [sumQ length]; change (qofnat 0) with 0; lra|].
  cbn [sumQ length]. rewrite qofnat_S.
  pose proof (H x (or_introl eq_refl)).
  assert (sumQ f l <= qofnat (length l) * c) by (apply IH; intros; apply H; now right).
  lra.
Qed.

Lemma sumQ_nonneg' (f : Q -> Q) l : (forall x, In x l -> 0 <= f x) -> 0 <= sumQ f l.
Proof.
  induction l as [|x l IH]; intros H; [cbn; lra|]. cbn [sumQ].
  pose proof (H x (or_introl eq_refl)).
  assert (0 <= sumQ f l) by (apply IH; intros; apply H; now right). lra.
Qed.

(* ---- a column within r of v: the midvariance --------------------------------------------------------------- *)
(* With t = u^2 the formula is  n' s^2 sum t (1-t)^4 / (sum (1-t)(1-5t))^2  over the points with t < 1.
   What is known: the scale s is at least 9 MAD, so the points within one MAD of the centre -- at least half of
   all points (count_le_median) -- have t <= 1/81; every deviation is at most 2 r, so t s^2 <= 4 r^2.
   Two regimes.  (A) tau s^2 >= 4 r^2: every t <= tau = 8/25, so no term of the denominator is below
   g(8/25) = -51/125, the denominator is at least n (A - 51/125)/2 and the numerator at most n'^2 4 r^2.
   (B) tau s^2 < 4 r^2: termwise  t (1-t)^4 <= lam + mu (1-t)(1-5t)  (and <= 1/81 with (1-t)(1-5t) >= A on the inner
   half), which sums to  sum t(1-t)^4 <= mu * denominator;  with denominator >= n (A - 4/5)/2 this gives
   s^2 mu / c <= 12.5 r^2 mu / c.   Both are below 62 r^2. *)
Definition gA : Q := 6080 # 6561.             (* (1-t)(1-5t) at t = 1/81 *)
Definition gB : Q := 4 # 5.                   (* - its minimum (t = 3/5) *)
Definition tau : Q := 8 # 25.
Definition gT : Q := 51 # 125.                (* - its value at t = tau *)
Definition mu : Q := 31 # 100.
Definition lam : Q := 9019 # 32805.           (* mu * gA - 1/81 *)
Definition c_den : Q := 2078 # 32805.         (* (gA - gB) / 2 *)
Definition c_denA : Q := 425389 # 1640250.    (* (gA - gT) / 2 *)

Lemma filter_length_le' {A} (f : A -> bool) l : (length (filter f l) <= length l)%nat.
Proof. induction l as [|x l IH]; [cbn; lia|]. cbn [filter length]. destruct (f x); cbn [length]; lia. Qed.

Lemma sq_nonneg_q (d : Q) : 0 <= d * d.
Proof. nra. Qed.
Lemma sq_le_bound d r : - (2 * r) <= d <= 2 * r -> d * d <= 4 * (r * r).
Proof.
  intros [H1 H2]. assert (0 <= (2 * r - d) * (2 * r + d)) by (apply Qmult_le_0_compat; lra). nra.
Qed.
Lemma term_bound P Q4 R : 0 <= P <= R -> 0 <= Q4 <= 1 -> 0 <= P * Q4 <= R.
Proof. intros [H1 H2] [H3 H4]. split; nra. Qed.
Lemma pow_bound p : 0 <= p <= 1 -> 0 <= (p * p) * (p * p) <= 1.
Proof. intros [H1 H2]. assert (0 <= p * p <= 1) by nra. set (q := p * p) in *. nra. Qed.

Lemma g_lower t : - gB <= (1 - t) * (1 - 5 * t).
Proof. unfold gB. set (y := t - (3#5)). assert (0 <= y * y) by nra. unfold y in *. nra. Qed.

Lemma g_inner t : 0 <= t -> t <= 1 # 81 -> gA <= (1 - t) * (1 - 5 * t).
Proof. unfold gA. intros H0 H1. nra. Qed.

(* (1-t)(1-5t) decreases up to t = 3/5 *)
Lemma g_tau t : 0 <= t -> t <= tau -> - gT <= (1 - t) * (1 - 5 * t).
Proof.
  unfold gT, tau. intros H0 H1.
  assert (H : 0 <= ((8 # 25) - t) * (6 - 5 * (t + (8 # 25)))) by (apply Qmult_le_0_compat; lra). nra.
Qed.

Lemma f_inner t : 0 <= t -> t <= 1 # 81 -> t * (((1 - t) * (1 - t)) * ((1 - t) * (1 - t))) <= 1 # 81.
Proof.
  intros H0 H1. assert (Hp : 0 <= 1 - t <= 1) by lra. pose proof (pow_bound (1 - t) Hp) as [P0 P1].
  set (p4 := (1 - t) * (1 - t) * ((1 - t) * (1 - t))) in *. nra.
Qed.

(* p^2 (1 - p) <= 4/27;  and the quadratic (5 mu - 4/27) p^2 - 4 mu p + lam is positive *)
Lemma cubic_bound p : 0 <= p -> (1 - p) * (p * p) <= 4 # 27.
Proof.
  intros Hp. assert (H : 0 <= (p - (2 # 3)) * (p - (2 # 3)) * (p + (1 # 3))).
  { apply Qmult_le_0_compat; [apply sq_nonneg_q|lra]. }
  nra.
Qed.

Lemma quad_bound p : (4 # 27) * (p * p) <= lam + mu * (p * (5 * p - 4)).
Proof.
  unfold lam, mu. pose proof (sq_nonneg_q (p - (1674 # 3785))) as H. nra.
Qed.

Lemma f_outer_p p : 0 <= p ->
  (1 - p) * ((p * p) * (p * p)) <= lam + mu * (p * (5 * p - 4)).
Proof.
  intros Hp. pose proof (cubic_bound p Hp) as C. pose proof (quad_bound p) as Qd.
  assert (P2 : 0 <= p * p) by apply sq_nonneg_q.
  assert (S1 : (1 - p) * (p * p) * (p * p) <= (4 # 27) * (p * p)).
  { set (c3 := (1 - p) * (p * p)) in *. set (p2 := p * p) in *. nra. }
  setoid_replace ((1 - p) * (p * p * (p * p))) with ((1 - p) * (p * p) * (p * p)) by ring.
  eapply Qle_trans; [exact S1|exact Qd].
Qed.

Lemma f_outer t : 0 <= t -> t < 1 ->
  t * (((1 - t) * (1 - t)) * ((1 - t) * (1 - t))) <= lam + mu * ((1 - t) * (1 - 5 * t)).
Proof.
  intros H0 H1. assert (Hp : 0 <= 1 - t) by lra. pose proof (f_outer_p (1 - t) Hp) as H.
  assert (E1 : t * (((1 - t) * (1 - t)) * ((1 - t) * (1 - t)))
               == (1 - (1 - t)) * (((1 - t) * (1 - t)) * ((1 - t) * (1 - t)))) by ring.
  assert (E2 : (1 - t) * (1 - 5 * t) == (1 - t) * (5 * (1 - t) - 4)) by ring.
  rewrite E1, E2. exact H.
Qed.

Section Spread.
  Variables (eps k : Q).
  Hypothesis He : 0 < eps.
  Variables (a : list Q) (m v r : Q).
  Hypothesis Ha : a <> [].
  Hypothesis Hnear : forall x, In x a -> Qabs (x - v) <= r.
  Hypothesis Hm : Qabs (m - v) <= r.

  Let mad := mad_about m a.
  Let s := bw_scale 9 eps m a.
  Let dev (x : Q) : Q := Qabs (x - m).
  Let tt (x : Q) : Q := sq (bw_u s m x).
  Let g (x : Q) : Q := (1 - tt x) * (1 - 5 * tt x).
  Let F (x : Q) : Q := tt x * sq (sq (1 - tt x)).
  Let ff (x : Q) : Q := sq (x - m) * sq (sq (1 - tt x)).

  Lemma near_r_nonneg : 0 <= r.
  Proof. pose proof (Qabs_nonneg (m - v)). lra. Qed.

  Lemma near_dev x : In x a -> dev x <= 2 * r.
  Proof.
    intros Hx. pose proof (Hnear x Hx) as Hn. unfold dev.
    apply Qabs_Qle_condition in Hn. pose proof Hm as Hm'. apply Qabs_Qle_condition in Hm'.
    apply Qabs_Qle_condition. split; lra.
  Qed.

  Lemma near_mad : 0 <= mad <= 2 * r.
  Proof.
    unfold mad, mad_about. apply median_bounds.
    - destruct a; [congruence|discriminate].
    - intros y Hy. apply in_map_iff in Hy. destruct Hy as (x & <- & Hx). split; [apply Qabs_nonneg|].
      apply (near_dev x Hx).
  Qed.

  Lemma near_s_ge : 9 * mad <= s /\ 0 < s.
  Proof.
    unfold s, bw_scale, Qmax2. fold mad. destruct (Qle_bool (9 * mad) eps) eqn:E.
    - apply Qle_bool_iff in E. split; [exact E|exact He].
    - split; [lra|]. destruct (Qlt_le_dec 0 (9 * mad)) as [H|H]; [exact H|].
      assert (H2 : 9 * mad <= eps) by lra. apply Qle_bool_iff in H2. congruence.
  Qed.

  (* t s^2 = (x - m)^2 *)
  Lemma tt_dev x : tt x * (s * s) == (x - m) * (x - m).
  Proof. destruct near_s_ge as (_ & Hpos). unfold tt, sq, bw_u. field. lra. Qed.

  Lemma tt_nonneg x : 0 <= tt x.
  Proof. unfold tt, sq. apply sq_nonneg_q. Qed.

  (* a point within one MAD of the centre: u^2 <= 1/81 *)
  Lemma inner_u x : dev x <= mad -> tt x <= 1 # 81.
  Proof.
    intros Hd. destruct near_s_ge as (Hs & Hpos). unfold dev in Hd.
    apply Qabs_Qle_condition in Hd. unfold tt, sq, bw_u.
    set (U := (x - m) / s).
    assert (EU : x - m == U * s) by (unfold U; field; lra).
    assert (U1 : U <= 1 # 9) by nra.
    assert (U2 : - (1 # 9) <= U) by nra.
    nra.
  Qed.

  Lemma inner_inside x : dev x <= mad -> bw_inside s m x = true.
  Proof.
    intros Hd. pose proof (inner_u x Hd) as Hu. unfold bw_inside. apply negb_true_iff.
    destruct (Qle_bool 1 (Qabs (bw_u s m x))) eqn:E; [|reflexivity]. apply Qle_bool_iff in E.
    exfalso. unfold tt, sq in Hu. set (U := bw_u s m x) in *.
    destruct (Qlt_le_dec U 0) as [Hn|Hp].
    - rewrite Qabs_neg in E by lra. nra.
    - rewrite Qabs_pos in E by lra. nra.
  Qed.

  Lemma inside_u x : bw_inside s m x = true -> 0 <= tt x < 1.
  Proof.
    unfold bw_inside. intros H. apply negb_true_iff in H.
    assert (Hlt : Qabs (bw_u s m x) < 1).
    { apply Qnot_le_lt. intros Hle. apply Qle_bool_iff in Hle. congruence. }
    unfold tt, sq. set (U := bw_u s m x) in *.
    destruct (Qlt_le_dec U 0) as [Hn|Hp].
    - rewrite Qabs_neg in Hlt by lra. split; nra.
    - rewrite Qabs_pos in Hlt by lra. split; nra.
  Qed.

  (* ---- weights: wa on the points within one MAD of the centre, wb on the others ---------------------------- *)
  Let wsel (wa wb : Q) (x : Q) : Q := if Qle_bool (dev x) mad then wa else wb.

  Lemma wsel_count wa wb l :
    sumQ (wsel wa wb) l == wa * qofnat (count_le mad (map dev l))
                           + wb * (qofnat (length l) - qofnat (count_le mad (map dev l))).
  Proof.
    induction l as [|x l IH].
    { cbn [sumQ map length]. unfold count_le. cbn [filter length]. change (qofnat 0) with 0. ring. }
    cbn [sumQ map length]. rewrite count_le_cons, IH. unfold wsel at 1.
    destruct (Qle_bool (dev x) mad); cbv iota; cbn [Nat.add]; rewrite !qofnat_S; ring.
  Qed.

  (* at least half of the points carry wa *)
  Lemma wsel_half wa wb : wb <= wa -> qofnat (length a) * ((wa + wb) / 2) <= sumQ (wsel wa wb) a.
  Proof.
    intros Hw. rewrite wsel_count.
    pose proof (count_le_median (map dev a)) as Hc. rewrite map_length in Hc.
    change (median (map dev a)) with mad in Hc.
    set (h := count_le mad (map dev a)) in *.
    assert (Hq : qofnat (length a) <= 2 * qofnat h).
    { setoid_replace (2 * qofnat h) with (qofnat (2 * h)).
      - apply qofnat_le. exact Hc.
      - replace (2 * h)%nat with (h + h)%nat by lia. rewrite qofnat_plus. ring. }
    set (n := qofnat (length a)) in *. set (H := qofnat h) in *.
    setoid_replace (n * ((wa + wb) / 2)) with ((wa + wb) * n / 2) by field.
    apply Qle_shift_div_r; [reflexivity|]. nra.
  Qed.

  (* the denominator, given a lower bound -B' of its terms *)
  Lemma den_pointwise B' l :
    0 <= B' -> (forall x, In x l -> bw_inside s m x = true -> - B' <= g x) ->
    sumQ (wsel gA (- B')) l <= sumQ g (filter (bw_inside s m) l).
  Proof.
    intros HB. induction l as [|x l IH]; intros Hg; [cbn; lra|]. cbn [filter sumQ]. unfold wsel at 1.
    assert (IH' : sumQ (wsel gA (- B')) l <= sumQ g (filter (bw_inside s m) l))
      by (apply IH; intros y Hy; apply Hg; now right).
    destruct (Qle_bool (dev x) mad) eqn:E.
    - apply Qle_bool_iff in E. rewrite (inner_inside x E). cbn [sumQ].
      assert (gA <= g x) by (unfold g; apply g_inner; [apply tt_nonneg|apply inner_u; exact E]).
      lra.
    - destruct (bw_inside s m x) eqn:Ein; cbn [sumQ].
      + pose proof (Hg x (or_introl eq_refl) Ein). lra.
      + lra.
  Qed.

  Lemma den_lower B' :
    0 <= B' -> (forall x, In x a -> bw_inside s m x = true -> - B' <= g x) ->
    qofnat (length a) * ((gA - B') / 2) <= sumQ g (filter (bw_inside s m) a).
  Proof.
    intros HB Hg. eapply Qle_trans; [|apply (den_pointwise B' a HB Hg)].
    setoid_replace ((gA - B') / 2) with ((gA + - B') / 2) by (unfold Qminus; reflexivity).
    apply wsel_half. unfold gA. lra.
  Qed.

  (* ---- pairing numerator and denominator termwise -------------------------------------------------------------- *)
  Lemma sumQ_sub_scale (f1 f2 : Q -> Q) c l :
    sumQ (fun x => f1 x - c * f2 x) l == sumQ f1 l - c * sumQ f2 l.
  Proof. induction l as [|x l IH]; [cbn; ring|]. cbn [sumQ]. rewrite IH. ring. Qed.

  Lemma pair_pointwise l :
    sumQ (fun x => F x - mu * g x) (filter (bw_inside s m) l) <= sumQ (wsel (- lam) lam) l.
  Proof.
    induction l as [|x l IH]; [cbn; lra|]. cbn [filter sumQ]. unfold wsel at 1.
    destruct (Qle_bool (dev x) mad) eqn:E.
    - apply Qle_bool_iff in E. rewrite (inner_inside x E). cbn [sumQ].
      pose proof (inner_u x E) as Hu. pose proof (tt_nonneg x) as H0.
      assert (H1 : F x <= 1 # 81) by (unfold F, sq; apply f_inner; assumption).
      assert (H2 : gA <= g x) by (unfold g; apply g_inner; assumption).
      assert (H3 : F x - mu * g x <= - lam) by (unfold mu, lam, gA in *; lra).
      lra.
    - destruct (bw_inside s m x) eqn:Ein; cbn [sumQ].
      + destruct (inside_u x Ein) as (T0 & T1).
        assert (H1 : F x <= lam + mu * g x) by (unfold F, g, sq; apply f_outer; assumption).
        lra.
      + assert (0 <= lam) by (unfold lam; lra). lra.
  Qed.

  Lemma pair_total : sumQ F (filter (bw_inside s m) a) <= mu * sumQ g (filter (bw_inside s m) a).
  Proof.
    pose proof (pair_pointwise a) as H. rewrite sumQ_sub_scale in H.
    assert (Hw : sumQ (wsel (- lam) lam) a <= 0).
    { rewrite wsel_count.
      pose proof (count_le_median (map dev a)) as Hc. rewrite map_length in Hc.
      change (median (map dev a)) with mad in Hc.
      set (h := count_le mad (map dev a)) in *.
      assert (Hq : qofnat (length a) <= 2 * qofnat h).
      { setoid_replace (2 * qofnat h) with (qofnat (2 * h)).
        - apply qofnat_le. exact Hc.
        - replace (2 * h)%nat with (h + h)%nat by lia. rewrite qofnat_plus. ring. }
      unfold lam. set (n := qofnat (length a)) in *. set (H' := qofnat h) in *. lra. }
    lra.
  Qed.

  (* the numerator's terms *)
  Lemma ff_F x : ff x == (s * s) * F x.
  Proof. unfold ff, F. unfold sq at 1. rewrite <- (tt_dev x). ring. Qed.

  Lemma sumQ_ext_scale (f1 f2 : Q -> Q) c l : (forall x, f1 x == c * f2 x) -> sumQ f1 l == c * sumQ f2 l.
  Proof. intros H. induction l as [|x l IH]; [cbn; ring|]. cbn [sumQ]. rewrite IH, H. ring. Qed.

  Lemma num_term x : In x a -> bw_inside s m x = true -> 0 <= ff x <= 4 * (r * r).
  Proof.
    intros Hx Hin. destruct (inside_u x Hin) as (T0 & T1). pose proof (near_dev x Hx) as Hd.
    unfold dev in Hd. apply Qabs_Qle_condition in Hd.
    unfold ff. unfold sq at 1 2 3. apply term_bound.
    - split; [apply sq_nonneg_q|apply sq_le_bound; exact Hd].
    - apply pow_bound. lra.
  Qed.

  (* regime A: every t is at most tau *)
  Lemma tt_tau x : tau * (s * s) >= 4 * (r * r) -> In x a -> tt x <= tau.
  Proof.
    intros HA Hx. destruct near_s_ge as (_ & Hpos). pose proof (near_dev x Hx) as Hd.
    unfold dev in Hd. apply Qabs_Qle_condition in Hd. pose proof (sq_le_bound _ _ Hd) as Hsq.
    pose proof (tt_dev x) as E. set (t := tt x) in *. set (d2 := (x - m) * (x - m)) in *.
    assert (S2 : 0 < s * s) by nra. set (s2 := s * s) in *.
    destruct (Qlt_le_dec tau t) as [Hlt|Hle]; [exfalso|exact Hle].
    assert (tau * s2 < t * s2) by nra. lra.
  Qed.

  Theorem midvar_near : 4 * (k * k) <= 62 ->
    biweight_midvar_sq_spec 9 eps k a m <= 62 * (r * r).
  Proof.
    intros Hk. unfold biweight_midvar_sq_spec. cbv zeta. fold s. fold mad.
    pose proof near_r_nonneg as Hr. pose proof near_mad as (M0 & M1).
    destruct (forallb _ _).
    - unfold sq. assert (mad * mad <= 4 * (r * r)) by nra.
      assert (0 <= k * k) by nra.
      setoid_replace (k * mad * (k * mad)) with ((k * k) * (mad * mad)) by ring. nra.
    - set (ins := filter (bw_inside s m) a).
      fold (qofnat (length ins)).
      change (sumQ (fun x => (1 - sq (bw_u s m x)) * (1 - 5 * sq (bw_u s m x))) ins) with (sumQ g ins).
      change (sumQ (fun x => sq (x - m) * sq (sq (1 - sq (bw_u s m x)))) ins) with (sumQ ff ins).
      set (S := sumQ ff ins). set (D := sumQ g ins).
      set (n := qofnat (length a)). set (n' := qofnat (length ins)).
      assert (Hn : 0 < n) by (apply qofnat_pos; destruct a; [congruence|cbn; lia]).
      assert (Hn' : 0 <= n' <= n).
      { split; [apply qofnat_nonneg|]. apply qofnat_le. unfold ins. apply filter_length_le'. }
      assert (HS : 0 <= S <= n' * (4 * (r * r))).
      { split.
        - apply sumQ_nonneg'. intros x Hx. apply filter_In in Hx. destruct Hx as (Hx & Hin).
          apply (num_term x Hx Hin).
        - apply sumQ_le_const. intros x Hx. apply filter_In in Hx. destruct Hx as (Hx & Hin).
          apply (num_term x Hx Hin). }
      assert (R2 : 0 <= r * r) by nra.
      destruct near_s_ge as (_ & Hspos). assert (S2pos : 0 < s * s) by nra.
      unfold sq at 1.
      destruct (Qlt_le_dec (tau * (s * s)) (4 * (r * r))) as [HB|HA].
      + (* regime B *)
        assert (HD : n * c_den <= D).
        { setoid_replace c_den with ((gA - gB) / 2) by reflexivity.
          apply den_lower; [unfold gB; lra|]. intros x _ _. apply g_lower. }
        assert (HDpos : 0 < D) by (unfold c_den in HD; nra).
        assert (HSF : S <= (s * s) * (mu * D)).
        { unfold S. rewrite (sumQ_ext_scale ff F (s * s) ins ff_F).
          pose proof pair_total as Hp. fold ins in Hp. fold D in Hp.
          set (SF := sumQ F ins) in *. set (s2 := s * s) in *. nra. }
        apply Qle_shift_div_r; [nra|].
        set (s2 := s * s) in *. set (rr := r * r) in *.
        assert (B1 : s2 * mu <= 62 * rr * c_den) by (unfold tau, mu, c_den in *; lra).
        assert (B2 : n' * S <= n * (s2 * (mu * D))) by nra.
        assert (B3 : n * (s2 * (mu * D)) <= (62 * rr * c_den) * (n * D)).
        { setoid_replace (n * (s2 * (mu * D))) with ((s2 * mu) * (n * D)) by ring.
          assert (0 <= n * D) by nra. set (nD := n * D) in *. nra. }
        assert (B4 : (62 * rr * c_den) * (n * D) <= 62 * rr * (D * D)).
        { setoid_replace (62 * rr * c_den * (n * D)) with ((62 * rr) * ((n * c_den) * D)) by ring.
          assert (n * c_den * D <= D * D) by nra.
          set (x1 := n * c_den * D) in *. set (x2 := D * D) in *. nra. }
        eapply Qle_trans; [exact B2|]. eapply Qle_trans; [exact B3|exact B4].
      + (* regime A *)
        assert (HD : n * c_denA <= D).
        { setoid_replace c_denA with ((gA - gT) / 2) by reflexivity.
          apply den_lower; [unfold gT; lra|]. intros x Hx _. unfold g. apply g_tau; [apply tt_nonneg|].
          apply tt_tau; [apply Qle_ge; exact HA|exact Hx]. }
        assert (HDpos : 0 < D) by (unfold c_denA in HD; nra).
        assert (HD2 : (n * c_denA) * (n * c_denA) <= D * D) by (unfold c_denA in *; nra).
        apply Qle_shift_div_r; [nra|].
        assert (N1 : n' * S <= n' * (n' * (4 * (r * r)))) by nra.
        assert (N2 : n' * n' <= n * n) by nra.
        assert (N3 : n' * S <= 4 * (r * r) * (n * n)).
        { eapply Qle_trans; [exact N1|].
          setoid_replace (n' * (n' * (4 * (r * r)))) with (4 * (r * r) * (n' * n')) by ring. nra. }
        assert (C : 4 * (n * n) <= 62 * ((n * c_denA) * (n * c_denA))).
        { unfold c_denA. assert (0 <= n * n) by nra.
          setoid_replace (62 * (n * (425389 # 1640250) * (n * (425389 # 1640250))))
            with ((62 * ((425389 # 1640250) * (425389 # 1640250))) * (n * n)) by ring.
          assert (4 <= 62 * ((425389 # 1640250) * (425389 # 1640250))) by (unfold Qle; cbn; lia). nra. }
        assert (F' : 62 * (r * r) * ((n * c_denA) * (n * c_denA)) <= 62 * (r * r) * (D * D)) by nra.
        eapply Qle_trans; [exact N3|]. eapply Qle_trans; [|exact F'].
        setoid_replace (62 * (r * r) * (n * c_denA * (n * c_denA)))
          with ((r * r) * (62 * (n * c_denA * (n * c_denA)))) by ring.
        setoid_replace (4 * (r * r) * (n * n)) with ((r * r) * (4 * (n * n))) by ring. nra.
  Qed.
End Spread.
