(* C15 function-body tie of center_all's selection (cnvlib/cnary.py), translated on every run (Gen/FnCnarySelection.v):

       cnarr = (self.drop_low_coverage(verbose=verbose) if skip_low else self).autosomes(diploid_parx_genome=diploid_parx_genome)

   Tables are opaque ids (as in Proofs/FnFixCorrections.v): 0 the table itself, 1 what drop_low_coverage returns, and the
   method `.autosomes` sends the table id i to i + 2 (2 = the autosomes of the table, 3 = the autosomes of the table
   without its low-coverage bins).  Under that reading of the ids ([table_of]) Model/Center.v's center_selection IS the
   generated expression: skip_low picks the table, THEN the autosomes are taken (with the build passed through). *)
From CNV Require Import Base.Prelude Base.Str Base.QNum Gen.CenterDefaults Model.Center Gen.FnCnarySelection.
Local Open Scope Z_scope.

Definition table_of (t : list bin) (build : option parb) (id : Z) : list bin :=
  if id =? 0 then t
  else if id =? 1 then drop_low t
  else if id =? 2 then autosomes t build
  else if id =? 3 then autosomes (drop_low t) build
  else [].

(* the method on ids agrees with the model's autosomes on the two tables it can be called on *)
Lemma autosomes_of_ids t build id :
  id = 0 \/ id = 1 -> table_of t build (id + 2) = autosomes (table_of t build id) build.
Proof. intros [-> | ->]; reflexivity. Qed.

Theorem fn_center_selection_eq skip_low build t build_id :
  center_selection skip_low build t =
  table_of t build (fn_center_selection 0 1 skip_low build_id (fun id _ => id + 2)).
Proof. unfold center_selection, fn_center_selection. destruct skip_low; reflexivity. Qed.
