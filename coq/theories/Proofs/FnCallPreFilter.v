(* C14 loop tie of do_call's first filter loop (cnvlib/call.py), ONE ITERATION of

       for filt in ("ci", "sem"):
           if filt in filters:
               logging.info("Applying filter '%s'", filt)
               outarr = getattr(segfilters, filt)(outarr)
               filters.remove(filt)

   regenerated from the Python source on every run as Gen/FnCallPreFilter.v (fn_pre_filter_step: the carried table
   `outarr` and list `filters` after the iteration).  The table is an opaque value which the iteration only hands to the
   filter picked by name; its carrier is instantiated here with the TRACE of filter names applied so far, and a trace is
   read back as a table by applying the named filters of Model/Segfilters.v in order ([table_of]).  Under that reading
   Model/Segfilters.v pre_steps over pre_filters IS the generated step folded over the names of the tuple. *)
From CNV Require Import Base.Prelude Base.Str Gen.SegfilterDefaults Model.Segfilters Gen.FnCallPreFilter.

Local Open Scope Z_scope.

Definition name_of (f : filt) : string :=
  match f with Fci => "ci" | Fsem => "sem" | Fcn => "cn" | Fampdel => "ampdel" end.

(* getattr(segfilters, name): the filter of that name (a name that is no filter is an AttributeError, outside) *)
Definition apply_named (nm : string) (t : list seg) : list seg :=
  match filt_of_name nm with Some f => apply_filter f t | None => t end.

(* a trace of filter names, read as the table they produce from t *)
Definition table_of (t : list seg) (tr : list string) : list seg :=
  fold_left (fun acc nm => apply_named nm acc) tr t.

(* list.remove(x): without the first item equal to x *)
Fixpoint rm_str (x : string) (l : list string) : list string :=
  match l with
  | nil => nil
  | cons y t => if String.eqb x y then t else cons y (rm_str x t)
  end.

(* the generated iteration, the filter of the iteration's name appending that name to the trace *)
Definition py_pre_iter (st : list string * list string) (p : string) : list string * list string :=
  fn_pre_filter_step p (fst st) (snd st) (fun tr => tr ++ [p]).

Definition py_pre_loop (names : list string) : list string * list string :=
  fold_left py_pre_iter pre_call_filters ([], names).

Lemma filt_of_name_of f : filt_of_name (name_of f) = Some f.
Proof. destruct f; reflexivity. Qed.

Lemma name_eqb p g : String.eqb (name_of p) (name_of g) = filt_eqb p g.
Proof. destruct p, g; reflexivity. Qed.

Lemma mem_names p fs : mem_string (name_of p) (map name_of fs) = memf p fs.
Proof.
  unfold memf. induction fs as [|g t IH]; [reflexivity|].
  cbn [map mem_string existsb]. rewrite name_eqb, IH. reflexivity.
Qed.

Lemma rm_names p fs : rm_str (name_of p) (map name_of fs) = map name_of (remove_first p fs).
Proof.
  induction fs as [|g t IH]; [reflexivity|].
  cbn [map rm_str remove_first]. rewrite name_eqb. destruct (filt_eqb p g); [reflexivity|].
  cbn [map]. rewrite IH. reflexivity.
Qed.

Lemma table_of_snoc t tr p : table_of t (tr ++ [name_of p]) = apply_filter p (table_of t tr).
Proof.
  unfold table_of. rewrite fold_left_app. cbn [fold_left]. unfold apply_named.
  rewrite filt_of_name_of. reflexivity.
Qed.

(* the generated step, its closed local fixpoint read as rm_str *)
Lemma fn_pre_filter_step_eq p o fl (F : list string -> list string) :
  fn_pre_filter_step p o fl F = if mem_string p fl then (F o, rm_str p fl) else (o, fl).
Proof.
  unfold fn_pre_filter_step. destruct (mem_string p fl); [|reflexivity]. cbv zeta. f_equal.
  induction fl as [|a fl IH]; [reflexivity|]. cbn [rm_str].
  destruct (String.eqb p a); [reflexivity|]. f_equal. exact IH.
Qed.

(* ONE iteration: the generated step is `if memf p fs then (apply p, remove p) else unchanged` *)
Lemma source_pre_step p tr fs :
  py_pre_iter (tr, map name_of fs) (name_of p)
  = if memf p fs then (tr ++ [name_of p], map name_of (remove_first p fs)) else (tr, map name_of fs).
Proof.
  unfold py_pre_iter. rewrite fn_pre_filter_step_eq. cbn [fst snd]. rewrite mem_names, rm_names. reflexivity.
Qed.

Lemma pre_steps_fold ps : forall t tr fs,
  let L := fold_left py_pre_iter (map name_of ps) (tr, map name_of fs) in
  let r := pre_steps ps (table_of t tr) fs in
  fst r = table_of t (fst L) /\ map name_of (snd r) = snd L.
Proof.
  induction ps as [|p ps IH]; intros t tr fs; [cbn; split; reflexivity|].
  cbn [map fold_left pre_steps]. rewrite source_pre_step.
  destruct (memf p fs).
  - rewrite <- table_of_snoc. apply IH.
  - apply IH.
Qed.

Lemma pre_filters_names : pre_call_filters = map name_of pre_filters.
Proof. reflexivity. Qed.

(* the loop: pre_steps over the tuple's filters = the generated step folded over the tuple's names *)
Theorem source_pre_steps (t : list seg) (fs : list filt) :
  let L := py_pre_loop (map name_of fs) in
  let r := pre_steps pre_filters t fs in
  fst r = table_of t (fst L) /\ map name_of (snd r) = snd L.
Proof.
  unfold py_pre_loop. rewrite pre_filters_names.
  exact (pre_steps_fold pre_filters t [] fs).
Qed.
