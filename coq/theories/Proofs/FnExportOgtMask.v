(* C20 source tie of export_nexus_ogt's low-weight filter:

       if min_weight and "weight" in cnarr:
           mask_low_weight = cnarr["weight"] < min_weight
           logging.info(...)
           cnarr = cnarr[~mask_low_weight]

   is regenerated from the Python source on every run as Gen/FnExportOgtMask.v (fn_ogt_keep: whether a bin stays in
   cnarr, as a function of min_weight, "the table has a weight column" and the bin's weight, NaN = None).  Here: the
   bins Model/Export.v ogt_kept keeps are exactly those whose generated bit is on. *)
From CNV Require Import Base.Prelude Base.Str Gen.FnExportOgtMask Model.Call Model.Export.

Lemma source_ogt_keep (min_weight : Q) (has_weight : bool) (b : obin) :
  fn_ogt_keep min_weight has_weight (o_w b)
  = if negb (Qeq_bool min_weight 0) && has_weight then negb (ogt_low min_weight b) else true.
Proof.
  unfold fn_ogt_keep, ogt_low, qltb.
  destruct (negb (Qeq_bool min_weight 0) && has_weight); [|reflexivity].
  destruct (o_w b); reflexivity.
Qed.

Lemma source_ogt_kept (min_weight : Q) (has_weight : bool) (bins : list obin) :
  ogt_kept min_weight has_weight bins = filter (fun b => fn_ogt_keep min_weight has_weight (o_w b)) bins.
Proof.
  unfold ogt_kept.
  destruct (negb (Qeq_bool min_weight 0) && has_weight) eqn:E.
  - apply filter_ext. intro b. rewrite source_ogt_keep, E. reflexivity.
  - symmetry. rewrite (filter_ext _ (fun _ => true)).
    + induction bins as [|b t IH]; [reflexivity|]. cbn. rewrite IH. reflexivity.
    + intro b. rewrite source_ogt_keep, E. reflexivity.
Qed.
