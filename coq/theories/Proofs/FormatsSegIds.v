(* SEG with enumerated chromosome ids (extension): tabio.write(..., "seg") / export seg
   --enumerate-chroms replaces the i-th distinct chromosome name of the first sample by
   i+1; reading the file back through the inverse name map (import-seg -c) returns every
   sample's segments with their names. *)
From CNV Require Import Base.Prelude Base.Str Model.Decimal Model.Chromsort Model.Sniff Model.Formats.
From CNV Require Import Proofs.ChromsortLemmas Proofs.FormatsLemmas Proofs.FormatsSeg.
From CNV Require Import Gen.Formats.

Lemma print_Z_inj a b : print_Z a = print_Z b -> a = b.
Proof.
  intros H. pose proof (parse_print a) as Ha. rewrite H, parse_print in Ha. now injection Ha.
Qed.

(* ------------------------------------------------------------------------ *)
(* distinct names                                                             *)

Lemma mem_string_In x l : mem_string x l = true <-> In x l.
Proof.
  induction l as [|y t IH]; cbn; [split; [discriminate | tauto]|].
  rewrite orb_true_iff, IH. split; intros [H|H]; auto.
  - left. symmetry. now apply String.eqb_eq.
  - left. subst. apply String.eqb_refl.
Qed.

Lemma distinct_names_spec l : forall seen,
  NoDup (distinct_names seen l) /\
  (forall x, In x (distinct_names seen l) <-> In x l /\ ~ In x seen).
Proof.
  induction l as [|y t IH]; intros seen; cbn [distinct_names].
  - split; [constructor|]. intros x. cbn. tauto.
  - destruct (mem_string y seen) eqn:E.
    + destruct (IH seen) as [N S]. split; [exact N|]. intros x. rewrite S. cbn.
      apply mem_string_In in E. split; [tauto|]. intros [[->|H] Hn]; tauto.
    + destruct (IH (y :: seen)) as [N S]. split.
      * constructor; [|exact N]. rewrite S. cbn. tauto.
      * intros x. cbn [In]. rewrite S. cbn [In].
        assert (Hy : ~ In y seen).
        { intros Hin. apply mem_string_In in Hin. congruence. }
        split.
        -- intros [->|[H1 H2]]; [tauto|]. split; [tauto|]. tauto.
        -- intros [[->|H1] H2]; [tauto|]. destruct (String.eqb_spec y x) as [->|Hne]; [tauto|].
           right. split; [exact H1|]. intros [->|H3]; tauto.
Qed.

Lemma first_names_spec first :
  NoDup (first_names first) /\
  (forall x, In x (first_names first) <-> In x (map (fun r : row => fst (fst (fst r))) first)).
Proof.
  unfold first_names. destruct (distinct_names_spec (map (fun r : row => fst (fst (fst r))) first) []) as [N S].
  split; [exact N|]. intros x. rewrite S. cbn. tauto.
Qed.

(* ------------------------------------------------------------------------ *)
(* the id map and its inverse                                                 *)

Lemma lookup_notin k m : ~ In k (map fst m) -> lookup k m = k.
Proof.
  induction m as [|[a b] t IH]; cbn; auto. intros H.
  destruct (String.eqb_spec a k) as [->|]; [tauto|]. apply IH. tauto.
Qed.

Lemma ids_keys names : forall i k, In k (map fst (chrom_ids_aux names i)) -> In k names.
Proof.
  induction names as [|c t IH]; intros i k; cbn [chrom_ids_aux]; [tauto|].
  rewrite map_app, in_app_iff. intros [H|H].
  - destruct (String.eqb (print_Z i) c); cbn in H; [tauto|]. left. tauto.
  - right. eapply IH, H.
Qed.

(* the n-th distinct name is written as i + n, whether or not an entry was made for it *)
Lemma lookup_ids names : forall i n c,
  NoDup names -> nth_error names n = Some c ->
  lookup c (chrom_ids_aux names i) = print_Z (i + Z.of_nat n).
Proof.
  induction names as [|x t IH]; intros i n c N Hn; [destruct n; discriminate|].
  inversion N as [|? ? Hx N']; subst. cbn [chrom_ids_aux]. destruct n as [|n].
  - cbn in Hn. injection Hn as ->. rewrite Z.add_0_r.
    destruct (String.eqb_spec (print_Z i) c) as [E|E]; cbn [app].
    + rewrite lookup_notin; [now symmetry|]. intros H. apply ids_keys in H. tauto.
    + cbn [lookup]. now rewrite String.eqb_refl.
  - cbn in Hn. assert (Hc : x <> c).
    { intros ->. apply Hx. eapply nth_error_In, Hn. }
    replace (i + Z.of_nat (S n)) with (i + 1 + Z.of_nat n) by lia.
    destruct (String.eqb (print_Z i) x); cbn [app lookup].
    + now apply IH.
    + destruct (String.eqb_spec x c); [congruence|]. now apply IH.
Qed.

Lemma lookup_inverse names : forall i n c,
  nth_error names n = Some c ->
  lookup (print_Z (i + Z.of_nat n)) (ids_inverse_aux names i) = c.
Proof.
  induction names as [|x t IH]; intros i n c Hn; [destruct n; discriminate|].
  cbn [ids_inverse_aux lookup]. destruct n as [|n].
  - cbn in Hn. injection Hn as ->. now rewrite Z.add_0_r, String.eqb_refl.
  - cbn in Hn. destruct (String.eqb_spec (print_Z i) (print_Z (i + Z.of_nat (S n)))) as [E|_].
    + apply print_Z_inj in E. lia.
    + replace (i + Z.of_nat (S n)) with (i + 1 + Z.of_nat n) by lia. now apply IH.
Qed.

(* undoing the enumeration: every name of the first sample comes back *)
Lemma ids_roundtrip (first : list row) c :
  In c (map (fun r : row => fst (fst (fst r))) first) ->
  lookup (lookup c (create_chrom_ids first)) (seg_ids_inverse first) = c.
Proof.
  intros Hin. destruct (first_names_spec first) as [N S]. apply S in Hin.
  apply In_nth_error in Hin. destruct Hin as [n Hn].
  unfold create_chrom_ids, seg_ids_inverse. fold (first_names first).
  rewrite (lookup_ids _ 1 n c N Hn). now apply lookup_inverse.
Qed.

(* the ids are 1, 2, 3, ... in order of first appearance *)
Lemma ids_are_positions (first : list row) n c :
  nth_error (first_names first) n = Some c ->
  lookup c (create_chrom_ids first) = print_Z (1 + Z.of_nat n).
Proof.
  intros Hn. destruct (first_names_spec first) as [N _]. now apply lookup_ids.
Qed.

(* ------------------------------------------------------------------------ *)
(* write with ids, read through the inverse map                               *)

Definition map_chroms (f : string -> string) (samples : list (string * list row)) :=
  map (fun sr => (fst sr, map (rename_chrom f) (snd sr))) samples.

Lemma write_seg_ids_as_write_seg probes samples :
  write_seg_ids probes samples
  = write_seg probes (map_chroms (fun c => lookup c (match samples with [] => [] | s :: _ => create_chrom_ids (snd s) end)) samples).
Proof.
  unfold write_seg_ids, write_seg, map_chroms. f_equal. rewrite map_map. f_equal.
Qed.

Lemma seg_ok_map_chroms probes f samples : seg_ok probes samples -> seg_ok probes (map_chroms f samples).
Proof.
  intros (N & F & L). unfold seg_ok, map_chroms. split; [|split].
  - now rewrite map_map.
  - apply Forall_map. eapply Forall_impl; [|exact F]. intros [k rs] H. cbn in *. destruct rs; [congruence|discriminate].
  - apply Forall_map. eapply Forall_impl; [|exact L]. intros [k rs] H. cbn in *.
    apply Forall_map. eapply Forall_impl; [|exact H]. intros [[[c s] e] ex] H0. exact H0.
Qed.

Definition chroms_of (rows : list row) : list string := map (fun r : row => fst (fst (fst r))) rows.

(* every sample uses only chromosomes of the first sample (the enumeration is made from it) *)
Definition ids_cover (samples : list (string * list row)) : Prop :=
  match samples with
  | [] => True
  | s :: _ => Forall (fun sr => forall c, In c (chroms_of (snd sr)) -> In c (chroms_of (snd s))) samples
  end.

Theorem roundtrip_seg_ids probes samples :
  seg_ok probes samples -> ids_cover samples ->
  let inv := match samples with [] => [] | s :: _ => seg_ids_inverse (snd s) end in
  parse_seg_names inv "" (write_seg_ids probes samples)
  = Some (map (fun sr => (fst sr, map add_gene (snd sr))) samples) /\
  import_seg_names inv "" (write_seg_ids probes samples)
  = Some (map (fun sr => (fst sr, sort_rows (map add_gene (snd sr)))) samples).
Proof.
  intros Hok Hcov inv.
  assert (P : parse_seg_names inv "" (write_seg_ids probes samples)
              = Some (map (fun sr => (fst sr, map add_gene (snd sr))) samples)).
  { unfold parse_seg_names. rewrite write_seg_ids_as_write_seg.
    rewrite roundtrip_parse_seg by (now apply seg_ok_map_chroms).
    cbn [option_map]. f_equal. unfold map_chroms. rewrite !map_map. cbn [fst snd].
    destruct samples as [|s0 rest]; [reflexivity|]. unfold ids_cover in Hcov. subst inv.
    apply map_ext_in. intros [sid rows] Hin. cbn [fst snd]. f_equal. rewrite !map_map.
    apply map_ext_in. intros [[[c s] e] ex] Hr.
    unfold rename_chrom, add_gene. cbn [fst snd]. cbn [String.append].
    rewrite Forall_forall in Hcov. specialize (Hcov _ Hin c). cbn [snd] in Hcov.
    rewrite ids_roundtrip; [reflexivity|]. apply Hcov. unfold chroms_of. apply in_map_iff.
    exists ((c, s, e), ex). split; [reflexivity | exact Hr]. }
  split; [exact P|]. unfold import_seg_names. rewrite P. cbn [option_map]. now rewrite map_map.
Qed.

(* without a map and without ids the plain reader is recovered *)
Lemma parse_seg_names_nil ls : parse_seg_names [] "" ls = parse_seg ls.
Proof.
  unfold parse_seg_names. destruct (parse_seg ls) as [p|]; cbn [option_map]; [|reflexivity].
  f_equal. rewrite <- (map_id p) at 2. apply map_ext. intros [sid rows]. cbn [fst snd]. f_equal.
  rewrite <- (map_id rows) at 2. apply map_ext. intros [[[c s] e] ex]. reflexivity.
Qed.

Lemma seg_ids_example :
  let s : list (string * list row) :=
    [("T1", [(("chr2", 10, 100), ["0.5"]); (("chr1", 0, 5), ["-1.25"]); (("chr2", 200, 300), ["0"])]);
     ("N2", [(("chr1", 9, 99), ["0.1"])])]%string in
  write_seg_ids false s
  = [["ID"; "chrom"; "loc.start"; "loc.end"; "seg.mean"];
     ["T1"; "1"; "11"; "100"; "0.5"]; ["T1"; "2"; "1"; "5"; "-1.25"]; ["T1"; "1"; "201"; "300"; "0"];
     ["N2"; "2"; "10"; "99"; "0.1"]]%string /\
  seg_ids_inverse (snd (hd (EmptyString, []) s)) = [("1", "chr2"); ("2", "chr1")]%string.
Proof. split; reflexivity. Qed.

(* a name that already reads as its own index gets no entry; "2", "1" are swapped *)
Lemma seg_ids_numeric_example :
  create_chrom_ids [(("1", 0, 5), []); (("3", 0, 5), []); (("X", 0, 5), [])]%string = [("3", "2"); ("X", "3")]%string /\
  create_chrom_ids [(("2", 0, 5), []); (("1", 0, 5), [])]%string = [("2", "1"); ("1", "2")]%string.
Proof. split; reflexivity. Qed.
