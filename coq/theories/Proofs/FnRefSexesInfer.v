(* C05 loop tie of infer_sexes (cnvlib/reference.py), ONE ITERATION translated on every run (Gen/FnRefSexesInfer.v):

       for fname in cnn_fnames:
           cnarr = read_cna(fname)
           if cnarr:
               is_xx = cnarr.guess_xx(is_haploid_x, diploid_parx_genome)
               if is_xx is not None: sexes[cnarr.sample_id] = is_xx

   Model/Reference.v's infer_dict IS the dictionary this loop builds from {}: folding the generated step over the files
   (sample id, has rows, the guess) gives the lookup of infer_dict on the ids and the guesses, a file without rows
   counting as "no guess" (its guess is never asked for). *)
From CNV Require Import Base.Prelude Base.Str Base.QNum Model.Center Model.Sex Model.Reference
  Proofs.FnRefSexesLib Gen.FnRefSexesInfer.

Definition cnn_file := (string * bool * option bool)%type.      (* sample id, the table has rows, guess_xx of it *)
Definition f_id (x : cnn_file) : string := fst (fst x).
Definition f_rows (x : cnn_file) : bool := snd (fst x).
Definition f_guess (x : cnn_file) : option bool := snd x.
(* what the model is given as the file's guess *)
Definition f_effective (x : cnn_file) : option bool := if f_rows x then f_guess x else None.

Definition infer_iter (f : lookup) (x : cnn_file) : lookup :=
  upd f (f_id x) (fn_infer_step (f_rows x) (f_id x) (f_guess x) (f (f_id x))).
Definition infer_loop (f : lookup) (files : list cnn_file) : lookup := fold_left infer_iter files f.

Lemma fn_infer_step_eq rows sid g cur :
  fn_infer_step rows sid g cur = match (if rows then g else None) with Some v => Some v | None => cur end.
Proof. unfold fn_infer_step. destruct rows, g; reflexivity. Qed.

Lemma infer_loop_gen files : forall f k,
  infer_loop f files k =
  match dict_get (infer_dict (map f_id files) (map f_effective files)) k with Some r => Some r | None => f k end.
Proof.
  induction files as [|x files IH]; intros f k; cbn [infer_loop fold_left map infer_dict].
  - reflexivity.
  - fold (infer_loop (infer_iter f x) files). rewrite IH.
    unfold infer_iter, upd. rewrite fn_infer_step_eq. fold (f_effective x).
    destruct (f_effective x) as [v|]; cbn [infer_dict].
    + rewrite dict_get_cons.
      destruct (dict_get (infer_dict (map f_id files) (map f_effective files)) k); [reflexivity|].
      destruct (String.eqb k (f_id x)); reflexivity.
    + destruct (dict_get (infer_dict (map f_id files) (map f_effective files)) k); [reflexivity|].
      destruct (String.eqb k (f_id x)) eqn:E; [|reflexivity].
      apply String.eqb_eq in E. subst k. reflexivity.
Qed.

Theorem fn_infer_loop_eq files k :
  infer_loop (fun _ => None) files k = dict_get (infer_dict (map f_id files) (map f_effective files)) k.
Proof. rewrite infer_loop_gen. destruct (dict_get _ k); reflexivity. Qed.
