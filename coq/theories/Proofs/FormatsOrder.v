(* C08_natural_order: consequences of ChromsortLemmas stated for the property. *)
From CNV Require Import Base.Prelude Base.Str Model.Chromsort Model.Formats.
From CNV Require Import Proofs.ChromsortLemmas Proofs.FormatsLemmas.

Definition key_lt (a b : string) : Prop := ckey_ltb (chrom_key a) (chrom_key b) = true.

Lemma order_of_the_property_text :
  key_lt "1" "2" /\ key_lt "2" "10" /\ key_lt "10" "X" /\ key_lt "X" "Y" /\ key_lt "Y" "M" /\
  key_lt "chr1" "chr2" /\ key_lt "chr2" "chr10" /\ key_lt "chr10" "chrX" /\
  key_lt "chrX" "chrY" /\ key_lt "chrY" "chrM".
Proof. repeat split; reflexivity. Qed.

Definition all_digits (cs : list ascii) : Prop := cs <> [] /\ forallb is_digit cs = true.

Lemma digits_no_chr cs : all_digits cs -> has_chr_prefix cs = false.
Proof.
  intros [Hne Hd]. destruct cs as [|c t]; [congruence|].
  cbn in Hd. apply andb_true_iff in Hd. destruct Hd as [Hc _].
  unfold has_chr_prefix. cbn [lower map chr_prefix prefixb].
  destruct (Ascii.eqb_spec "c"%char (to_lower c)) as [E|]; auto.
  exfalso. unfold to_lower in E. unfold is_digit in Hc.
  destruct (is_upper c) eqn:Hu.
  - unfold is_upper in Hu. apply andb_true_iff in Hc, Hu. destruct Hc as [H1 H2], Hu as [H3 H4].
    apply Nat.leb_le in H1, H2, H3, H4. lia.
  - subst c. discriminate.
Qed.

Definition chr_or_none (p : list ascii) : Prop :=
  p = [] \/ (lower p = chr_prefix /\ length p = 3%nat).

Lemma key_of_numeric p ds :
  chr_or_none p -> all_digits ds -> chrom_key_chars (p ++ ds) = (digits_val ds, EmptyString).
Proof.
  intros [->|[Hp Hl]] D.
  - cbn [app]. rewrite chrom_key_nochr by now apply digits_no_chr.
    apply key_body_numeric, D.
  - destruct p as [|a [|b [|c [|? ?]]]]; try discriminate. cbn [app].
    rewrite chrom_key_chr_strip by assumption. apply key_body_numeric, D.
Qed.

(* numeric names sort by their decimal value, with or without the prefix *)
Lemma numeric_by_value (p1 p2 ds1 ds2 : list ascii) :
  chr_or_none p1 -> chr_or_none p2 -> all_digits ds1 -> all_digits ds2 ->
  digits_val ds1 < digits_val ds2 ->
  ckey_ltb (chrom_key_chars (p1 ++ ds1)) (chrom_key_chars (p2 ++ ds2)) = true.
Proof.
  intros H1 H2 D1 D2 Hlt. rewrite !key_of_numeric by assumption. now apply ckey_ltb_fst.
Qed.

(* the chr prefix (any letter case) does not change the key *)
Lemma chr_prefix_irrelevant a b c cs :
  lower [a; b; c] = chr_prefix -> has_chr_prefix cs = false ->
  chrom_key_chars (a :: b :: c :: cs) = chrom_key_chars cs.
Proof. apply chrom_key_chr_irrelevant. Qed.

(* numbers below 1000, then X, Y, then single-letter names, then longer names *)
Lemma class_order ds c d d' rest :
  all_digits ds -> digits_val ds < 1000 ->
  is_digit c = false -> is_XY [c] = false -> is_digit d = false ->
  ckey_ltb (key_body ds) (key_body ["X"%char]) = true /\
  ckey_ltb (key_body ["X"%char]) (key_body ["Y"%char]) = true /\
  ckey_ltb (key_body ["Y"%char]) (key_body [c]) = true /\
  ckey_ltb (key_body [c]) (key_body (d :: d' :: rest)) = true.
Proof.
  intros [_ D] Hlt Hc HXY Hd. split; [|split; [|split]].
  - now apply numeric_before_X.
  - apply X_before_Y.
  - now apply Y_before_single.
  - now apply single_before_long.
Qed.

Lemma sort_rows_facts (t : list row) :
  Permutation t (sort_rows t) /\ rows_sorted (sort_rows t) /\
  sort_rows (sort_rows t) = sort_rows t /\
  (forall z, filter (equivb (region_leb row_region) z) (sort_rows t)
             = filter (equivb (region_leb row_region) z) t) /\
  (forall z y, equivb (region_leb row_region) z y = true
               <-> rkey_of (row_region z) = rkey_of (row_region y)).
Proof.
  split; [apply sort_regions_perm|]. split; [apply sort_rows_sorted|].
  split; [apply sort_regions_idem|]. split; [intros z; apply sort_regions_stable|].
  intros z y. apply equivb_region_same_key.
Qed.

(* what "sorted" says about two rows, spelled out *)
Lemma region_leb_rows (a b : row) :
  region_leb row_region a b = true <->
  (ckey_ltb (chrom_key (fst (fst (fst a)))) (chrom_key (fst (fst (fst b)))) = true \/
   (chrom_key (fst (fst (fst a))) = chrom_key (fst (fst (fst b))) /\
    (snd (fst (fst a)) < snd (fst (fst b)) \/
     (snd (fst (fst a)) = snd (fst (fst b)) /\ snd (fst a) <= snd (fst b))))).
Proof.
  destruct a as [[[ca sa] ea] xa], b as [[[cb sb] eb] xb]. unfold region_leb, row_region. cbn.
  apply rkey_leb_spec.
Qed.
